(* C03 — Inscriptions move with the sat they were inscribed on.
   Model: Index/Inscr.v.  Specification used here (value level): an inscription is a label on an offset of
   the concatenation of the transaction's input values; the outputs take consecutive value intervals of that
   concatenation, in order (first in, first out); what is left over is the fee and continues, re-based to
   the block reward, into the coinbase, whose outputs take intervals of subsidy ++ fees; what the coinbase
   leaves is lost and is appended to the lost-sats pseudo-output.
   The theorems below are the links of that chain, each for ALL inputs of the modelled function.  The
   sat-level statement ("Index::find(sat) returns the same satpoint") is only tied by correspondence and by
   the oracle (see props/C03.json). *)
From OrdV Require Import Base.Prelude Generated Index.Inscr Proofs.Inscr_tables Proofs.Inscr_proofs
  Proofs.Inscr_c06 Proofs.Inscr_c04 Proofs.Inscr_c03 Proofs.Inscr_sats Proofs.Inscr_satinv Proofs.Inscr_c03b Proofs.Inscr_bridge.
From OrdV Require Index.SatIndex.
From Coq Require Import Permutation.

(* (1) old inscriptions of an input keep their place inside it: offset in the transaction = value of the
   earlier inputs + offset in the spent output *)
Theorem C03_old_offsets : forall ents base l acc io fl io',
  olds ents base l acc io = Ok (fl, io') ->
  forall f, In f fl -> In f acc \/ exists seq off, In (seq, off) l /\ f_origin f = OOld seq /\ f_offset f = base + off.
Proof. exact olds_offsets. Qed.

(* (2) a new inscription is put on the first offset of its input, or on its pointer when that lies inside the
   outputs; it is unbound exactly when its input is worth nothing or it has an unrecognized even field *)
Theorem C03_new_offsets : forall st txid jubilant tov offset iv l a a',
  news st txid jubilant tov offset iv l a = Ok a' ->
  forall f, In f (a_float a') -> In f (a_float a) \/
    (is_new f = true /\
     exists v, In v l /\
       (match v_ptr v with Some p => f_offset f = if p <? tov then p else offset | None => f_offset f = offset end) /\
       (match f_origin f with ONew _ _ _ _ _ ub _ => ub = ((iv =? 0) || v_uneven v) | OOld _ => False end)).
Proof.
  intros st txid jubilant tov offset iv l a a' H f Hf. destruct (news_offsets _ _ _ _ _ _ _ _ _ H) as [_ Q].
  destruct (Q f Hf) as [?|(A & _ & v & V1 & V2 & V3)]; auto. right. split; auto. exists v. auto.
Qed.

(* (3) first in, first out: the floating inscriptions (sorted by offset, a permutation) are split into those
   landing in an output and the leftover; a located one is in output k, whose value interval
   [start_k, start_k + value_k) contains its offset, at offset - start_k, and is flagged op_return exactly
   when that output is an OP_RETURN; the leftover are exactly those at or beyond the total output value *)
Theorem C03_fifo : forall txid outs fl locs rest ov,
  assign txid 0 0 outs (sort_by f_offset fl) = (locs, rest, ov) ->
  Permutation (map loc_flot locs ++ rest) fl /\
  ov = sum_values outs /\
  Forall (fun f => sum_values outs <= f_offset f) rest /\
  Forall (located txid 0 0 outs) locs.
Proof.
  intros txid outs fl locs rest ov H.
  destruct (assign_spec txid outs 0 0 (sort_by f_offset fl) locs rest ov) as (A & B & C); auto.
  - apply sort_by_sorted.
  - apply Forall_forall. intros. lia.
  - split; [|split; [|split]]; auto.
    + apply assign_split in H. rewrite <- H. apply sort_by_perm.
    + rewrite A in B. exact B.
Qed.

(* (4) leftovers of an ordinary transaction go on to the coinbase at reward + offset - output value *)
Theorem C03_fee_offsets : forall reward ov l l', rebase reward ov l = Ok l' ->
  Forall2 (fun f f' => f_id f' = f_id f /\ f_origin f' = f_origin f /\ f_offset f' + ov = reward + f_offset f) l l'.
Proof. exact rebase_offsets. Qed.

(* (5) leftovers of the coinbase are stored in the null outpoint at lost_sats + offset - output value *)
Theorem C03_lost_offsets : forall h rg ov f r b b',
  apply_lost h rg ov (f :: r) b = Ok b' ->
  exists off b1, off + ov = b_lost b + f_offset f /\
    update_location h rg f (null_op, off) false b = Ok b1 /\ apply_lost h rg ov r b1 = Ok b'.
Proof. exact apply_lost_head. Qed.

(* (6) a new inscription: Burned iff the receiving output is an OP_RETURN, Lost iff it goes to the null
   outpoint, Unbound iff flagged unbound; an unbound one has no sat and is stored in the unbound pseudo-output
   at the running counter, otherwise it is stored at the computed satpoint *)
Theorem C03_new_inscription : forall h rg f sp o b b' c fee hid ps re ub vi,
  f_origin f = ONew c fee hid ps re ub vi ->
  update_location h rg f sp o b = Ok b' ->
  s_utxo (b_st b') =
    (if ub then push_insc unbound_op (b_next b) (b_unb b) (s_utxo (b_st b))
     else push_insc (fst sp) (b_next b) (snd sp) (s_utxo (b_st b))) /\
  exists e, tget N.eqb (b_next b) (s_entries (b_st b')) = Some e /\
    has CHARM_BURNED (i_charms e) = o /\ has CHARM_LOST (i_charms e) = is_null (fst sp) /\
    has CHARM_UNBOUND (i_charms e) = ub /\ (ub = true -> i_sat e = None).
Proof.
  intros h rg f sp o b b' c fee hid ps re ub vi Ho H.
  destruct (new_location _ _ _ _ _ _ _ _ _ _ _ _ _ _ Ho H) as (A & _ & e & E1 & E2 & _).
  destruct (new_entry_charms _ _ _ _ _ _ _ _ _ _ _ _ _ _ Ho H) as (e' & F1 & _ & _ & _ & _ & F5 & F6 & F7 & _).
  rewrite E1 in F1. inv F1. split; auto. exists e'. auto.
Qed.

(* (7) an old inscription that lands in an OP_RETURN output gets the Burned charm *)
Theorem C03_old_burned : forall h rg f sp b b' seq,
  f_origin f = OOld seq -> update_location h rg f sp true b = Ok b' ->
  exists e, tget N.eqb seq (s_entries (b_st b')) = Some e /\ has CHARM_BURNED (i_charms e) = true.
Proof. intros h rg f sp b b' seq Ho H. eapply old_burned; eauto. Qed.

(* (8) the same first-in-first-out rule at the sat level, per transaction (sat index on): index_transaction_sats
   gives output k sat ranges of total size value_k, and the sat that calculate_sat reads at offset g of the
   input ranges (start_k <= g < start_k + value_k) is the sat at offset g - start_k of output k's ranges, i.e.
   where Index::find looks for it; beyond the outputs, the leftover ranges (fees, carried to the coinbase
   inputs / lost ranges) continue at offset g - total output value. *)
Theorem C03_sats_fifo : forall outs rs per_out lft,
  split_sats outs rs = Ok (per_out, lft) ->
  (forall k o, nth_error outs k = Some o ->
     exists m, nth_error per_out k = Some m /\ ranges_size m = o_value o /\
       forall g, out_start 0 outs k <= g < out_start 0 outs k + o_value o ->
         calc_sat_in m 0 (g - out_start 0 outs k) = calc_sat_in rs 0 g) /\
  (forall g, sum_values outs <= g -> calc_sat_in lft 0 (g - sum_values outs) = calc_sat_in rs 0 g).
Proof.
  intros outs rs per_out lft H. destruct (split_sats_spec _ _ _ _ H) as [A B]. split; [exact A | exact B].
Qed.

(* (9) THE property, at the sat level, for whole chains.  With the sat index on (any first inscription height,
   any jubilee), for every chain in which the first transaction of each block is a coinbase,
   no other transaction has a null input, inputs name real outputs (txid not all-zero) and no txid is all-zero:
   whenever indexing succeeds, every inscription that has a sat and is listed by an output - a real one or the
   lost-sats pseudo-output - at offset off has, at offset off of that output's sat ranges, exactly its sat
   (calc_sat_in walks the ranges like Index::find and Index::list do).  Together with C02 (sat ranges of
   different outputs are disjoint) this is Index::find(sat) = reported satpoint. *)
Theorem C03_location_is_sat_location : forall cfg c st,
  c_sats cfg = true -> Forall block_ok3 c ->
  index_chain cfg 0 c empty_state = Ok st ->
  forall op u, tget pair_eqb op (s_utxo st) = Some u -> op <> unbound_op ->
  forall s off, In (s, off) (u_insc u) ->
  forall e n, tget N.eqb s (s_entries st) = Some e -> i_sat e = Some n ->
    calc_sat_in (u_ranges u) 0 off = Ok n.
Proof. intros cfg c st HS. exact (sat_invariant cfg HS c st). Qed.

(* non-vacuity: a reveal whose second envelope points into the second output, then a transfer that swaps the
   two outputs into one; both inscriptions still sit on their sats *)
Definition c03_env (p : option N) : envelope := mkEnv 0 0 false false false false false (match p with Some _ => true | None => false end) p false [].
Definition c03_chain : list block :=
  [ [mkTx 1 [null_op] [mkOut 5000000000 false] []];
    [mkTx 2 [null_op] [mkOut 5000000000 false] []];
    [mkTx 3 [null_op] [mkOut 5000000000 false] [];
     mkTx 4 [(2, 0)] [mkOut 1000 false; mkOut 4999999000 false] [c03_env None; mkEnv 0 1 false false false false false true (Some 1500) false []]];
    [mkTx 5 [null_op] [mkOut 5000000100 false] [];
     mkTx 6 [(4, 1); (4, 0)] [mkOut 4999999900 false] []] ].

Example C03_sat_nonvacuous :
  Forall block_ok3 c03_chain /\
  exists st, index_chain (cfg_of 0 true) 0 c03_chain empty_state = Ok st /\
    map (fun kv => i_sat (snd kv)) (s_entries st) = [Some 5000000000; Some 5000001500] /\
    tget pair_eqb (6, 0) (s_utxo st) = Some (mkU 0 [(5000001000, 10000000000); (5000000000, 5000000900)] [(1, 500); (0, 4999999000)]).
Proof.
  split.
  - unfold c03_chain, block_ok3, tx_ok3, tx_cb, tx_plain, ins_real. repeat constructor; cbn; try discriminate; auto.
  - eexists. split; [vm_compute; reflexivity|]. split; reflexivity.
Qed.

(* (10) the location changes only when the holding output is spent: indexing a transaction leaves the entry
   (value, sat ranges, inscriptions with their offsets) of every real output that it neither spends nor creates
   exactly as it was.  (The end-of-block step only touches the null outpoint.) *)
Theorem C03_untouched_outputs : forall cfg h insc first t b b' k,
  index_tx cfg h insc first t b = Ok b' ->
  ~ In k (t_ins t) -> fst k <> t_id t -> fst k <> 0 ->
  tget pair_eqb k (s_utxo (b_st b')) = tget pair_eqb k (s_utxo (b_st b)).
Proof. exact untouched_outputs. Qed.

(* (11) Index::find.  [SatIndex.run] / [SatIndex.find] are the sat-index model and the model of Index::find of
   properties C01/C02 (Index/SatIndex.v, a separate development); [erase_chain] drops the envelopes and
   reduces scripts to "is OP_RETURN".  Proofs/Inscr_bridge.v proves that on a valid chain the two models hold
   the same sat ranges (every output, and the lost-sats entry), so C02's partition (no sat is stored twice)
   applies to the ranges of this model.  Hence, with the sat index on, for every valid chain with non-empty
   blocks that both models index: Index::find(sat of the inscription) is exactly the satpoint the inscription
   index reports, for every inscription that has a sat and is held by a real output or by the lost-sats
   pseudo-output.  (SatIndex.run succeeds on every chain with SatIndex.valid = true, C02_values.) *)
Theorem C03_find_is_satpoint : forall cfg c st st2,
  c_sats cfg = true -> Forall block_ok3 c -> Forall (fun b : block => b <> []) c ->
  index_chain cfg 0 c empty_state = Ok st -> SatIndex.run (erase_chain c) = Ok st2 ->
  forall op u, tget pair_eqb op (s_utxo st) = Some u -> (fst op <> 0 \/ op = null_op) ->
  forall s off, In (s, off) (u_insc u) ->
  forall e n, tget N.eqb s (s_entries st) = Some e -> i_sat e = Some n ->
    SatIndex.find st2 n = Ok (Some (op, off)).
Proof. exact find_is_satpoint. Qed.

(* non-vacuity on the chain of C03_sat_nonvacuous: both inscriptions are found where they are reported *)
Example C03_find_nonvacuous :
  match SatIndex.run (erase_chain c03_chain) with
  | Ok st2 => SatIndex.find st2 5000000000 = Ok (Some ((6, 0), 4999999000)) /\
              SatIndex.find st2 5000001500 = Ok (Some ((6, 0), 500))
  | _ => False
  end.
Proof. vm_compute. split; reflexivity. Qed.

(* Non-vacuity of (3): offsets 5, 0, 12, 30 over outputs of 10 and 15 (the second an OP_RETURN): 0 and 5 land
   in output 0, 12 in output 1 at offset 2, 30 is left over. *)
Example C03_nonvacuous :
  let fl := [mkF (1, 0) 5 (OOld 0); mkF (1, 1) 0 (OOld 1); mkF (1, 2) 12 (OOld 2); mkF (1, 3) 30 (OOld 3)] in
  assign 7 0 0 [mkOut 10 false; mkOut 15 true] (sort_by f_offset fl) =
    ([((7, 0), 0, mkF (1, 1) 0 (OOld 1), false); ((7, 0), 5, mkF (1, 0) 5 (OOld 0), false);
      ((7, 1), 2, mkF (1, 2) 12 (OOld 2), true)], [mkF (1, 3) 30 (OOld 3)], 25).
Proof. vm_compute. reflexivity. Qed.

Print Assumptions C03_old_offsets.
Print Assumptions C03_new_offsets.
Print Assumptions C03_fifo.
Print Assumptions C03_fee_offsets.
Print Assumptions C03_lost_offsets.
Print Assumptions C03_new_inscription.
Print Assumptions C03_old_burned.
Print Assumptions C03_sats_fifo.
Print Assumptions C03_location_is_sat_location.
Print Assumptions C03_untouched_outputs.
Print Assumptions C03_find_is_satpoint.
