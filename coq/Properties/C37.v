(* C37 — Index events replay to the indexed state. Rune half below; inscription half at the end
   (C37_inscription_same_states, C37_inscription_events_replay; model Index/InscrEvents.v).
   Model: Index/Events.v = the rune indexer model of Index/Runes.v returning, next to the state,
   the RuneMinted / RuneEtched / RuneTransferred / RuneBurned events in emission order.
   [replay_chain] folds the events block by block and transaction by transaction into a [view]
   (rune ids with their etching transaction, mint counts, burned totals, per-output balances); the
   chain is an input of the replay: the outputs a transaction spends are dropped. *)
From OrdV Require Import Base.Prelude Index.Runes Index.Events Proofs.Runes_proofs Proofs.Runes_alloc
  Proofs.Runes_supply Proofs.Events_proofs.
From OrdV Require Generated Index.Inscr Index.InscrEvents Proofs.Inscr_c04 Proofs.Inscr_events_proofs.

(* The event-emitting run is the plain run plus events: same states, same failures. *)
Theorem C37_same_states : forall first bs height st,
  index_chain first height st bs = rmap (map fst) (index_chain_ev first height st bs).
Proof. exact index_chain_ev_fst. Qed.

(* One transaction: if the view agrees with the updater state before the transaction, replaying
   the transaction's events (after dropping the spent outputs) agrees with the state after it. *)
Theorem C37_tx_replay : forall height time minimum txi u tx u' evs v,
  index_runes_ev height time minimum txi u tx = Ok (u', evs) ->
  ~ has_entry (height, txi) (s_entries (u_st u)) ->
  (forall o, alookup op_eqb (tx_id tx, o) (s_balances (u_st u)) = None) ->
  view_rel v u -> view_rel (replay_tx v tx evs) u'.
Proof. exact index_runes_ev_replay. Qed.

(* Chain level: for every chain with pairwise distinct txids indexed from the empty index, the view
   replayed from the events agrees with the state after every block:
     - a rune id is in the view iff it has an entry, with the entry's etching transaction;
     - the number of RuneMinted events of a rune is its mint count;
     - the sum of its RuneBurned amounts is the entry's burned total;
     - the balance table rebuilt from RuneTransferred events (minus spent outputs) has the same
       outpoints in the same order with the same amount for every rune. *)
Theorem C37_rune_events_replay : forall first height bs res,
  index_chain_ev first height empty_state bs = Ok res -> NoDup (txids bs) ->
  Forall2 (fun v x =>
    let st := fst x in
    (forall r, alookup id_eqb r (v_ids v) = etching_of r (s_entries st)) /\
    (forall r, getd r (v_mints v) = mints_of r (s_entries st)) /\
    (forall r, getd r (v_burned v) = eburned r (s_entries st)) /\
    Forall2 (fun a b => fst a = fst b /\ forall r, getd r (snd a) = getd r (snd b)) (v_bal v) (s_balances st))
    (replay_chain first height empty_view bs res) res.
Proof.
  intros first height bs res Q Hnd. pose proof (chain_events_replay _ _ _ _ Q Hnd) as H.
  eapply Forall2_weaken; [|exact H]. intros v x [V1 V2 V3 V4]. cbn [u_st u_burned msum] in *.
  split; [exact V1|]. split; [exact V2|]. split; [|exact V4]. intros r. rewrite V3. lia.
Qed.

(* Non-vacuity: etch (premine 10, mintable) at height 1; at height 2 mint and send 4 to an
   OP_RETURN output: events = minted, transferred 11 to output 0, burned 4; the replayed view has
   mints 1, burned 4, balance 11 at (2, 0) and nothing left at the spent (1, 0). *)
Example C37_nonvacuous :
  let et := mkEtching None (Some 10) None None None (Some (mkTerms (Some 5) (Some 2) None None None None)) false in
  let tx0 := mkTx 1 [] [false] (Some (Runestone [] (Some et) None None)) in
  let tx1 := mkTx 2 [mkIn 1 0 false 0 []] [false; true]
               (Some (Runestone [mkEdict (1, 0) 4 1] None (Some (1, 0)) None)) in
  let bs := [mkBlock 0 [tx0]; mkBlock 1 [tx1]] in
  exists res, index_chain_ev 0 1 empty_state bs = Ok res /\
    map snd res = [[[EvEtched (1, 0) 1; EvTransferred 1 0 (1, 0) 10]];
                   [[EvMinted (1, 0) 5; EvTransferred 2 0 (1, 0) 11; EvBurned (1, 0) 4]]] /\
    exists v0 v1, replay_chain 0 1 empty_view bs res = [v0; v1] /\
      getd (1, 0) (v_mints v1) = 1 /\ getd (1, 0) (v_burned v1) = 4 /\ v_bal v1 = [((2, 0), [((1, 0), 11)])].
Proof. vm_compute. eexists. split; [reflexivity|]. split; [reflexivity|]. eexists; eexists. repeat split. Qed.

(* ---- Inscription half.
   Model: Index/InscrEvents.v = the inscription indexer model of Index/Inscr.v (C03-C07) returning, next to the
   state, the InscriptionCreated / InscriptionTransferred events of update_inscription_location in emission order,
   block by block. [Inscr_events_proofs.replay] folds the events into a view: per sequence number a record
   (inscription id, location, charms, parent ids); Created writes the record (location None when unbound),
   Transferred overwrites the record's location with new_location. *)

(* Same states, same failures as the plain model of C03-C07. *)
Theorem C37_inscription_same_states : forall cfg c h st,
  Inscr_events_proofs.rfst (InscrEvents.index_chain_ev cfg h c st) = Inscr.index_chain cfg h c st.
Proof. exact Inscr_events_proofs.index_chain_ev_fst. Qed.

(* For every chain the model indexes from the empty index, with pairwise distinct non-zero txids and every block =
   one coinbase followed by non-coinbase transactions (Inscr_c04.chain_ok), any configuration: the replayed view v has
     - a record for sequence number s iff the index has an entry for s;
     - the record's id = the entry's id; the record's charms = the entry's charms, except that the entry may in
       addition carry Burned (set when the inscription later moves onto an OP_RETURN output - no event says so);
       the record's parent ids = the ids of the entries named by the entry's parents, in order;
     - wherever the utxo table holds (s, offset) under an outpoint, the record's location is that satpoint
       (None under the unbound outpoint);
     - and every entry is held somewhere, so every record's location is the inscription's satpoint.
   Not claimed: old_location of Transferred and the block height / txid-less fields are not used by the replay. *)
Theorem C37_inscription_events_replay : forall cfg c st evs,
  Inscr_c04.chain_ok c -> InscrEvents.index_chain_ev cfg 0 c Inscr.empty_state = Ok (st, evs) ->
  let v := Inscr_events_proofs.replay [] (concat evs) in
  (forall s, Inscr.tget N.eqb s v = None <-> Inscr.tget N.eqb s (Inscr.s_entries st) = None) /\
  (forall s id loc ch ps, Inscr.tget N.eqb s v = Some (id, loc, ch, ps) ->
     exists e, Inscr.tget N.eqb s (Inscr.s_entries st) = Some e /\ Inscr.i_id e = id /\
       (Inscr.i_charms e = ch \/ Inscr.i_charms e = N.lor ch (Inscr.flag Generated.CHARM_BURNED)) /\
       Forall2 (fun pid p => exists ep, Inscr.tget N.eqb p (Inscr.s_entries st) = Some ep /\ Inscr.i_id ep = pid)
               ps (Inscr.i_parents e)) /\
  (forall op u s off, Inscr.tget Inscr.pair_eqb op (Inscr.s_utxo st) = Some u -> In (s, off) (Inscr.u_insc u) ->
     exists id ch ps, Inscr.tget N.eqb s v = Some (id, Inscr_events_proofs.vloc op off, ch, ps)) /\
  (forall s e, Inscr.tget N.eqb s (Inscr.s_entries st) = Some e ->
     exists op u off id ch ps, Inscr.tget Inscr.pair_eqb op (Inscr.s_utxo st) = Some u /\
       In (s, off) (Inscr.u_insc u) /\
       Inscr.tget N.eqb s v = Some (id, Inscr_events_proofs.vloc op off, ch, ps)).
Proof. exact Inscr_events_proofs.inscription_events_replay. Qed.

(* Non-vacuity (inscription half): reveal at (4,0); move to (6,0) + child naming it; both moved onto an OP_RETURN
   output: 5 events, the replayed view has both records at (8,0,0); the entries carry Burned in addition. *)
Example C37_inscription_nonvacuous :
  Inscr_c04.chain_ok Inscr_events_proofs.ev_chain /\
  exists st evs, InscrEvents.index_chain_ev (Inscr.cfg_of 0 false) 0 Inscr_events_proofs.ev_chain Inscr.empty_state = Ok (st, evs) /\
    length (concat evs) = 5%nat /\
    Inscr_events_proofs.replay [] (concat evs) =
      [(0, (4, 0, Some (8, 0, 0), 0, [])); (1, (6, 0, Some (8, 0, 0), 130, [(4, 0)]))] /\
    map (fun x => Inscr.i_charms (snd x)) (Inscr.s_entries st) = [4096; 4226].
Proof.
  destruct Inscr_events_proofs.events_replay_nonvacuous as (A & st & evs & B & C & D & E).
  split; [exact A|]. exists st, evs. split; [exact B|]. split; [rewrite C; reflexivity|]. split; [exact D|exact E].
Qed.

Print Assumptions C37_same_states.
Print Assumptions C37_tx_replay.
Print Assumptions C37_rune_events_replay.
Print Assumptions C37_inscription_same_states.
Print Assumptions C37_inscription_events_replay.
