(* C01 — Sat ranges follow the ordinal-theory first-in-first-out assignment.
   Only statements, closed by [exact] or a few lines of glue, with Print Assumptions.
   Impl = Index/SatIndex.v [run] (updater.rs with --index-sats, one UTXO map) and Index/SatCache.v
   [run2 sched] (the same with utxo_cache in front of the table and commits after any subset of the
   blocks; this is what the extracted entry point runs), tied by C01_except;
   Spec = [bip_run], the transcription of the Python of bip.mediawiki over flat lists of sats. *)
From OrdV Require Import Base.Prelude Generated Index.SatIndex Index.SatCache Proofs.SatIndex_proofs Proofs.SatCache_proofs.

(* For every chain the model indexes (which includes every valid chain, next theorem): the sats of
   every unspent output, flattened in order, are exactly the sats the BIP algorithm assigns to it;
   an outpoint is unspent in the index iff it is in the BIP's set; the lost-sats pseudo-output
   holds, in order, exactly the sats no coinbase claimed. *)
Theorem C01_refines : forall c st,
  run c = Ok st ->
  abs st = bip_run 0 bip_init c /\
  (forall o, option_map flatten (aget op_eqb o (utxo st)) = aget op_eqb o (b_utxo (bip_run 0 bip_init c))) /\
  flatten (lost st) = b_lost (bip_run 0 bip_init c).
Proof.
  intros c st H. pose proof (impl_refines_bip c st H) as E. split; [exact E|].
  rewrite <- E. unfold abs. cbn [b_utxo b_lost]. split; [|reflexivity].
  intros o. rewrite abs_utxo_mapv, aget_mapv. reflexivity.
Qed.

(* Every valid chain (inputs unspent, inputs >= outputs, coinbase <= subsidy + fees, every block
   has a coinbase; duplicate txids allowed) is indexed without running out of input ranges. *)
Theorem C01_valid_chain_indexed : forall c,
  valid c = true -> exists st, run c = Ok st /\ v_run 0 [] c = Some (vabs (utxo st)).
Proof. exact valid_chain_indexed. Qed.

(* The per-transaction first-in-first-out lemma: the concatenation of the output ranges followed by
   the leftover (fee / lost) ranges is the concatenation of the input ranges, sat for sat and in
   order, and each output's ranges add up to its value. *)
Theorem C01_fifo : forall os t vout rs ents lft w,
  assign_outputs t vout os rs = Ok (ents, lft, w) ->
  flatten (concat ents) ++ flatten lft = flatten rs /\ map total ents = map fst os.
Proof. exact split_fifo. Qed.

(* Per output: exactly the next [value] sats of what is left of the inputs. *)
Theorem C01_output_slice : forall rs op v rem a rest w,
  take_sats op v rem rs = Ok (a, rest, w) ->
  flatten a = firstn (N.to_nat rem) (flatten rs) /\
  flatten rest = skipn (N.to_nat rem) (flatten rs) /\ total a = rem.
Proof. exact take_sats_flat. Qed.

(* The subsidy and the first sat of a block are the BIP's (the BIP shifts without a cut-off and
   sums the subsidies; the code cuts off at epoch 33 and uses the table Epoch::STARTING_SATS). *)
Theorem C01_subsidy_is_bip : forall h,
  subsidy h = bip_subsidy h /\ starting_sat h = bip_first_ordinal h.
Proof. intros h. split; [apply subsidy_bip|apply starting_sat_bip]. Qed.

(* A transaction that reuses a txid displaces: after its outputs are inserted, (txid, k) holds the
   new output k whatever was there, and ranges that were stored under (txid, first vout) are
   dropped from the map (they are recorded in the ghost list of destroyed ranges). *)
Theorem C01_duplicate_txid_displaces : forall ents t m d k,
  (k < length ents)%nat ->
  aget op_eqb (t, N.of_nat k) (fst (put_outputs t 0 ents m d)) = Some (nth k ents []).
Proof. intros. rewrite <- (N.add_0_l (N.of_nat k)). apply put_outputs_get. assumption. Qed.

Theorem C01_displaced_recorded : forall e ents t v0 m d old,
  aget op_eqb (t, v0) m = Some old ->
  exists d', snd (put_outputs t v0 (e :: ents) m d) = (d ++ old) ++ d'.
Proof. exact put_outputs_destroyed_first. Qed.

(* The code splits the UTXO map into utxo_cache + table and commits after some of the blocks
   (Index/SatCache.v, [run2 sched]: any schedule).  Known finding dup-spent-before-commit is the class
   [c_shadow = true]: some spent input was found in the cache while the table also held an entry
   for the same outpoint (needs a duplicate txid).  Outside the class, whatever the schedule, the
   index holds for every outpoint exactly the BIP's sats, and the BIP's lost sats. *)
Theorem C01_except : forall sched c s2,
  run2 sched c = Ok s2 -> c_shadow (s_c s2) = false ->
  (forall o, option_map flatten (view (s_c s2) o) = aget op_eqb o (b_utxo (bip_run 0 bip_init c))) /\
  flatten (s_lost s2) = b_lost (bip_run 0 bip_init c).
Proof.
  intros sched c s2 H F. destruct (cache_split_unobservable sched c s2 H F) as [st [R [V [L _]]]].
  destruct (C01_refines c st R) as [_ [U B]]. split.
  - intros o. rewrite V. apply U.
  - rewrite L. exact B.
Qed.

(* Inside the class the statement fails: identical coinbases (txid 2) in blocks 1 and 2, commit
   after block 1, blocks 2 and 3 in one batch, block 3 spends 2:0.  The table keeps 2:0 with the sats
   of block 1, which the BIP (= the one-map model, C01_refines) has destroyed, and 2:0 is spent. *)
Definition dup_spent_chain : list (list tx) :=
  [ [mkTx 1 [] [(5000000000, 3)]]; [mkTx 2 [] [(5000000000, 4)]]; [mkTx 2 [] [(5000000000, 4)]];
    [mkTx 3 [] [(0, 0)]; mkTx 4 [(2, 0)] [(5000000000, 5)]] ].

Lemma C01_known_refuted :
  exists s2 st, run2 [true; true; false; true] dup_spent_chain = Ok s2 /\ c_shadow (s_c s2) = true /\
    run dup_spent_chain = Ok st /\ valid dup_spent_chain = true /\
    view (s_c s2) (2, 0) = Some [(5000000000, 10000000000)] /\ aget op_eqb (2, 0) (utxo st) = None /\
    destroyed st = [(5000000000, 10000000000)].
Proof.
  destruct (run2 [true; true; false; true] dup_spent_chain) as [s2| |] eqn:E2; [|vm_compute in E2; discriminate|vm_compute in E2; discriminate].
  destruct (run dup_spent_chain) as [st| |] eqn:E1; [|vm_compute in E1; discriminate|vm_compute in E1; discriminate].
  exists s2, st. split; [reflexivity|].
  vm_compute in E2. inversion E2; subst. vm_compute in E1. inversion E1; subst.
  vm_compute. repeat split.
Qed.

(* Non-vacuity: block 1 = coinbase (txid 2) paying 30 + 10 coins; block 2 = a transaction (txid 4)
   spending both outputs into 35 coins + 4 coins with a 1-coin fee (the first output is split across
   the two inputs), and a two-output coinbase (txid 3) claiming 50 coins of the 51 available. *)
Definition ex_chain : list (list tx) :=
  [ [mkTx 1 [] [(5000000000, 3)]];
    [mkTx 2 [] [(3000000000, 4); (1000000000, 5)]];
    [mkTx 3 [] [(4000000000, 4); (1000000000, 0)];
     mkTx 4 [(2, 0); (2, 1)] [(3500000000, 6); (400000000, 1)]] ].

Example C01_nonvacuous :
  valid ex_chain = true /\
  match run ex_chain with
  | Ok st =>
    aget op_eqb (4, 0) (utxo st) = Some [(5000000000, 8000000000); (8000000000, 8500000000)] /\
    aget op_eqb (3, 1) (utxo st) = Some [(14000000000, 15000000000)] /\
    aget op_eqb (2, 0) (utxo st) = None /\
    lost st = [(9000000000, 10000000000); (8900000000, 9000000000)] /\ lost_sats st = 1100000000
  | _ => False
  end.
Proof. vm_compute. repeat split. Qed.

Print Assumptions C01_refines.
Print Assumptions C01_valid_chain_indexed.
Print Assumptions C01_fifo.
Print Assumptions C01_output_slice.
Print Assumptions C01_subsidy_is_bip.
Print Assumptions C01_duplicate_txid_displaces.
Print Assumptions C01_displaced_recorded.
Print Assumptions C01_except.
Print Assumptions C01_known_refuted.
