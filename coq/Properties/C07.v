(* C07 — Parent/child provenance cannot be forged.
   Model: Index/Inscr.v.  retain_parents = the `retain` over purported parents in index_inscriptions
   (first occurrence only, and only ids of floating inscriptions of the transaction: inscriptions held by
   its inputs or revealed by it), link_parents = the loop over parents in update_inscription_location
   (SEQUENCE_NUMBER_TO_CHILDREN, the two collection tables, InscriptionEntry.parents). *)
From OrdV Require Import Base.Prelude Generated Index.Inscr Proofs.Inscr_tables Proofs.Inscr_proofs Proofs.Inscr_c07 Proofs.Inscr_c07b Proofs.Inscr_c07c.

(* For every chain (no validity assumption at all) and every configuration, whenever indexing succeeds: *)
Theorem C07_tables : forall cfg c st,
  index_chain cfg 0 c empty_state = Ok st ->
  let E := s_entries st in
  (* a child is recorded under a parent only if the parent is older, and then the child's entry lists it *)
  (forall p ch, In (p, ch) (s_children st) ->
     p < ch /\ exists e, tget N.eqb ch E = Some e /\ In p (i_parents e)) /\
  (* each parent at most once per child, and every listed parent has the child in its children (exact inverse) *)
  (forall ch e, tget N.eqb ch E = Some e ->
     NoDup (i_parents e) /\ forall p, In p (i_parents e) -> In (p, ch) (s_children st)) /\
  (* a collection's latest child is a child, is its most recent child, and the collection is visible *)
  (forall p ch, tget N.eqb p (s_coll st) = Some ch ->
     In (p, ch) (s_children st) /\ (forall ch', In (p, ch') (s_children st) -> ch' <= ch) /\
     exists pe, tget N.eqb p E = Some pe /\ i_hidden pe = false) /\
  (* every visible parent with a child has a latest child *)
  (forall p ch, In (p, ch) (s_children st) ->
     exists pe, tget N.eqb p E = Some pe /\ (i_hidden pe = false -> tget N.eqb p (s_coll st) <> None)) /\
  (* the two collection tables are inverse *)
  (forall ch p, In (ch, p) (s_latest st) <-> tget N.eqb p (s_coll st) = Some ch).
Proof.
  intros cfg c st H. destruct (provenance_invariant cfg c st H) as [[QV QI QP C1 C2 QL] QC].
  cbn zeta. split; [exact QC|]. split; [exact QP|]. split; [exact C1|]. split; [exact C2|]. exact QL.
Qed.

(* Where the pairs come from.  (1) the parents a new inscription keeps after the filter are pairwise
   distinct and are ids of floating inscriptions of its reveal transaction (old inscriptions of its inputs
   or inscriptions revealed by it); *)
Theorem C07_parents_are_floating : forall cfg st h t ents F tiv,
  floating_of cfg st h t ents = Ok (F, tiv) ->
  forall f, In f F -> NoDup (parents_of f) /\ forall id, In id (parents_of f) -> In id (map f_id F).
Proof.
  intros cfg st h t ents F tiv H f Hf. destruct (floating_of_parents _ _ _ _ _ _ _ H) as [A B].
  split; [apply A; auto | intros id Hid; eapply B; eauto].
Qed.

(* ... spelled out: a kept parent id is either an id of the reveal transaction itself (an inscription it
   reveals) or the id of an inscription listed by the UTXO entry of one of its inputs ([ents] are the entries
   index_utxo_entries took out of the UTXO map for the inputs) - i.e. an inscription the transaction spends. *)
Theorem C07_parents_spent_or_revealed : forall cfg st h t ents F tiv,
  floating_of cfg st h t ents = Ok (F, tiv) ->
  forall f pid, In f F -> In pid (parents_of f) ->
    fst pid = t_id t \/
    exists u seq off e, In u ents /\ In (seq, off) (u_insc u) /\
      tget N.eqb seq (s_entries st) = Some e /\ i_id e = pid.
Proof. exact parents_spent_or_revealed. Qed.

(* (2) when the inscription is stored, every child/parent pair that appears is (parent, the new sequence
   number) for a kept parent id that already has a sequence number (so a parent revealed later in the same
   transaction, which has none yet, is dropped); nothing else changes in the children table. *)
Theorem C07_only_kept_parents_recorded : forall h rg f sp o b b',
  Q7b b -> NoDup (parents_of f) -> update_location h rg f sp o b = Ok b' ->
  forall p ch, In (p, ch) (s_children (b_st b')) ->
    In (p, ch) (s_children (b_st b)) \/
    (ch = b_next b /\ is_new f = true /\
     exists id, In id (parents_of f) /\ tget pair_eqb id (s_id2seq (b_st b)) = Some p).
Proof. intros h rg f sp o b b' HQ HN H. exact (proj2 (step_q7 _ _ _ _ _ _ _ HQ HN H)). Qed.

(* The chain-level statement of "recorded as a child only if the parent was among the inscriptions spent or
   revealed by the child's reveal transaction".  [chain_log cfg 0 c empty_state] is a ghost log: it pairs every
   transaction of the chain with the indexer state right before that transaction was indexed (txs_log /
   block_log / chain_log re-run the model; they are only used to STATE the theorem).
   [RevBy t b0 pid]: pid is an id of t itself (t reveals it), or, in the state b0 right before t, an output that
   t spends lists an inscription whose entry has id pid (t spends it).
   For EVERY chain (no validity assumption), whenever indexing succeeds: each recorded pair (parent, child) goes
   back to a transaction t of the chain that revealed the child (the child's id carries t's txid) and revealed
   or spent the parent. *)
Theorem C07_provenance_history : forall cfg c st,
  index_chain cfg 0 c empty_state = Ok st ->
  forall p ch, In (p, ch) (s_children st) ->
    exists t b0 ec ep,
      In (t, b0) (chain_log cfg 0 c empty_state) /\ (exists blk, In blk c /\ In t blk) /\
      tget N.eqb ch (s_entries st) = Some ec /\ fst (i_id ec) = t_id t /\
      tget N.eqb p (s_entries st) = Some ep /\ RevBy t b0 (i_id ep).
Proof. exact provenance_history. Qed.

(* Non-vacuity: block 2 reveals inscription 0; block 3 spends it and reveals a child naming it (and naming an
   unrelated id, which is dropped). *)
Definition c07_env (ps : list iid) : envelope := mkEnv 0 0 false false false false false false None false ps.
Definition c07_chain : list block :=
  [ [mkTx 1 [null_op] [mkOut 5000000000 false] []];
    [mkTx 2 [null_op] [mkOut 5000000000 false] []];
    [mkTx 3 [null_op] [mkOut 5000000000 false] []; mkTx 4 [(2, 0)] [mkOut 5000000000 false] [c07_env []]];
    [mkTx 5 [null_op] [mkOut 5000000000 false] [];
     mkTx 6 [(4, 0)] [mkOut 5000000000 false] [c07_env [(4, 0); (77, 0); (4, 0)]]] ].

Example C07_nonvacuous :
  exists st, index_chain (cfg_of 0 false) 0 c07_chain empty_state = Ok st /\
             s_children st = [(0, 1)] /\ s_coll st = [(0, 1)] /\ s_latest st = [(1, 0)].
Proof. eexists. split; [vm_compute; reflexivity|]. repeat split. Qed.

Print Assumptions C07_tables.
Print Assumptions C07_parents_are_floating.
Print Assumptions C07_only_kept_parents_recorded.
Print Assumptions C07_parents_spent_or_revealed.
Print Assumptions C07_provenance_history.
