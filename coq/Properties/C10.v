(* C10 — Mint terms are enforced.
   Model: Index/Runes.v (RuneEntry::{mintable,start,end}, RuneUpdater::mint inside index_runes).
   Only statements, closed by [exact] / a few lines of glue, with Print Assumptions. *)
From OrdV Require Import Base.Prelude Index.Runes Proofs.Runes_proofs Proofs.Runes_alloc.

(* A mint adds runes (mintable = Ok amount) exactly when the rune has terms, the height is at or
   after every present start (absolute, and block + offset saturating at u64::MAX), before every
   present end, and the mint count is below the cap (absent cap = 0); the amount is the terms'
   amount (absent = 0). *)
Theorem C10_mintable_iff : forall e h a,
  mintable e h = inr a <->
  exists t, e_terms e = Some t /\
    ((forall s, t_h0 t = Some s -> s <= h) /\
     (forall o, t_o0 t = Some o -> N.min (e_block e + o) U64_MAX <= h)) /\
    ((forall x, t_h1 t = Some x -> h < x) /\
     (forall o, t_o1 t = Some o -> h < N.min (e_block e + o) U64_MAX)) /\
    e_mints e < odef (t_cap t) /\ a = odef (t_amount t).
Proof. exact mintable_iff. Qed.

(* the reported error is the first failing condition, with the later start / earlier end *)
Theorem C10_mintable_errors : forall e h err,
  mintable e h = inl err ->
  match err with
  | Unmintable => e_terms e = None
  | MStart s => e_start e = Some s /\ h < s
  | MEnd x => e_end e = Some x /\ x <= h
  | MCap c => c = cap_of e /\ c <= e_mints e
  end.
Proof. exact mintable_err. Qed.

(* RuneUpdater::mint: the count is incremented exactly when mintable, and only then runes appear *)
Theorem C10_mint_step : forall height es r es' am,
  mint height es r = Ok (es', am) ->
  match alookup id_eqb r es with
  | None => es' = es /\ am = None
  | Some e =>
    match mintable e height with
    | inl _ => es' = es /\ am = None
    | inr a => es' = aupd id_eqb r (set_mints e (e_mints e + 1)) es /\ am = Some a
    end
  end.
Proof. exact mint_spec. Qed.

(* the mint count never exceeds the cap: in every state after every block of every chain the
   model indexes (any blocks, any artifacts), starting from any state that satisfies it *)
Theorem C10_mints_never_exceed_cap : forall first height st bs sts,
  index_chain first height st bs = Ok sts ->
  (forall r e, alookup id_eqb r (s_entries st) = Some e -> e_mints e <= cap_of e) ->
  Forall (fun s => forall r e, alookup id_eqb r (s_entries s) = Some e -> e_mints e <= cap_of e) sts.
Proof. exact chain_mints_le_cap. Qed.

(* a mint of a rune that has no entry at that point of the block (not etched yet, etched later in
   the block, or etched by this very transaction: create_rune_entry runs after mint) has no effect:
   the transaction is indexed exactly as if it carried no mint *)
Theorem C10_mint_of_unetched_is_noop : forall height time minimum txi u tx art r,
  tx_art tx = Some art -> art_mint art = Some r ->
  alookup id_eqb r (s_entries (u_st u)) = None ->
  index_runes height time minimum txi u tx =
  index_runes height time minimum txi u (tx_set_art tx (Some (art_set_mint art None))).
Proof. exact index_runes_mint_unknown_noop. Qed.

(* a mint in a cenotaph still counts toward the cap, and its runes (with everything else that was
   unallocated) are burned: no output of the transaction receives anything *)
Theorem C10_cenotaph_mint_counts_and_burns : forall height time minimum txi u tx et r e a u',
  tx_art tx = Some (Cenotaph et (Some r)) ->
  alookup id_eqb r (s_entries (u_st u)) = Some e -> mintable e height = inr a ->
  alookup id_eqb (height, txi) (s_entries (u_st u)) = None ->
  index_runes height time minimum txi u tx = Ok u' ->
  exists bt un,
    unallocated (tx_ins tx) (s_balances (u_st u)) [] = Ok (bt, un) /\
    (exists e', alookup id_eqb r (s_entries (u_st u')) = Some e' /\ e_mints e' = e_mints e + 1) /\
    s_balances (u_st u') = bt /\
    forall r', msum r' (u_burned u') = msum r' (u_burned u) + msum r' un + (if id_eqb r' r then a else 0).
Proof. exact cenotaph_mint. Qed.

(* Non-vacuity: an open mint with cap 2 is mintable twice and then capped; saturating offsets. *)
Example C10_nonvacuous :
  let t := mkTerms (Some 5) (Some 2) None None (Some 3) (Some U64_MAX) in
  let e m := mkEntry 10 0 0 0 m 0 0 0 0 None (Some t) 0 false in
  mintable (e 0) 12 = inl (MStart 13) /\ mintable (e 0) 13 = inr 5 /\ mintable (e 1) 13 = inr 5 /\
  mintable (e 2) 13 = inl (MCap 2) /\ mintable (e 0) (U64_MAX - 1) = inr 5 /\
  mintable (e 0) U64_MAX = inl (MEnd U64_MAX).
Proof. vm_compute. repeat split. Qed.

Print Assumptions C10_mintable_iff.
Print Assumptions C10_mintable_errors.
Print Assumptions C10_mint_step.
Print Assumptions C10_mints_never_exceed_cap.
Print Assumptions C10_mint_of_unetched_is_noop.
Print Assumptions C10_cenotaph_mint_counts_and_burns.
