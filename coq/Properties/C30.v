(* C30 — Printed sat notations parse back to the same sat.
   Full statement of the property: "For every sat, its integer, decimal, degree, percentile and
   name notations, as printed by ord, parse back to that sat."

   PARTIAL.  Proved below for the four exact notations (integer, decimal, degree, name), for
   every sat below the supply.  NOT proved: the percentile notation, which goes through binary64
   arithmetic ((n / LAST) * 100 printed, then round(p / 100 * LAST)); the full statement would be
     forall n, n < SAT_SUPPLY -> percentile_roundtrip n = Ok n
   (Ord/SatText.v, PrimFloat) together with Rust's f64 Display/FromStr round trip.  It is only
   searched for counterexamples on the implementation by the harness oracle and evaluated on
   samples by vm_compute (Example below is non-vacuity, not a proof). *)
From OrdV Require Import Base.Prelude Generated Ord.Sat Ord.SatText Proofs.SatText_proofs.

Theorem C30_exact_notations_roundtrip_partial : forall n, n < SAT_SUPPLY ->
  (* integer: Display for Sat, then FromStr *)
  sat_from_str (show_sat n) = Ok n /\
  (* decimal "height.offset": Sat::decimal(), Display for DecimalSat, then FromStr *)
  (exists d, sat_decimal n = Ok d /\ sat_from_str (show_decimal d) = Ok n) /\
  (* degree "cycle°epoch_offset′period_offset″third‴": Sat::degree(), Display for Degree, FromStr *)
  (exists d, sat_degree n = Ok d /\ sat_from_str (show_degree d) = Ok n) /\
  (* name: Sat::name(), then FromStr *)
  (exists s, sat_name n = Ok s /\ sat_from_str s = Ok n).
Proof.
  intros n H. split; [exact (integer_roundtrip n H)|].
  split; [exact (decimal_roundtrip n H)|].
  split; [exact (degree_roundtrip n H)|exact (name_roundtrip n H)].
Qed.

(* Rust's u32/u64 Display followed by FromStr is the identity whenever the value fits the type
   (the fact the three numeric notations rest on). *)
Theorem C30_uint_display_fromstr : forall n max, n <= max -> parse_uint max (show_uint n) = Some n.
Proof. exact parse_show. Qed.

(* Non-vacuity: concrete printed forms of the last sat of block 1259999+1 and of sat 0, and the
   binary64 percentile model on three sats (evaluation only). *)
Example C30_nonvacuous :
  show_sat 2099999997689999 = [50;48;57;57;57;57;57;57;57;55;54;56;57;57;57;57] /\
  sat_name 0 = Ok [110;118;116;100;105;106;117;119;120;108;112] /\
  (exists d, sat_degree 2067187500000000 = Ok d /\ show_degree d = [49;176;48;8242;48;8243;48;8244]) /\
  percentile_roundtrip 0 = Ok 0 /\ percentile_roundtrip 2099999997689999 = Ok 2099999997689999 /\
  percentile_roundtrip 1234567890123456 = Ok 1234567890123456.
Proof. vm_compute. repeat split. eexists. split; reflexivity. Qed.

Print Assumptions C30_exact_notations_roundtrip_partial.
Print Assumptions C30_uint_display_fromstr.
