(* C35 — Index storage encodings read back what was written.
   Only statements, closed by [exact] / a few lines of glue, with Print Assumptions. *)
From OrdV Require Import Base.Prelude Codec.Varint Codec.Storage Proofs.Storage_proofs Generated.
From OrdV Require Import Proofs.Storage_merged_laws Index.Cache Proofs.Cache_proofs.

(* The constants of the packing and of the domain are the ones in the source. *)
Theorem C35_domain :
  STORAGE_SAT_RANGE_PACKING = [51; 51; 3; 11] /\
  STORAGE_SAT_SUPPLY < P51 /\ STORAGE_SUBSIDY_COINS * STORAGE_COIN_VALUE < P33 /\
  P51 = 2 ^ 51 /\ P33 = 2 ^ 33 /\ P37 = 2 ^ 37 /\ P33 < P37.
Proof. vm_compute. repeat split. Qed.

(* Sat ranges: every range whose base is below 2^51 (in particular inside the supply) and whose
   length is below 2^37 (in particular at most a block subsidy, < 2^33) is stored in 11 bytes
   and loads back equal. *)
Theorem C35_sat_range : forall a b, a < P51 -> a <= b -> b - a < P37 ->
  exists v, sat_range_store (a, b) = Ok v /\ length v = 11%nat /\ bytes v /\
            sat_range_load v = Ok (a, b).
Proof. exact sat_range_roundtrip. Qed.

(* conversely every 11-byte value is the image of the range it loads to (the packing is a bijection
   between 88-bit strings and ranges with base < 2^51, length < 2^37) *)
Theorem C35_sat_range_value : forall v, length v = 11%nat -> bytes v ->
  exists r, sat_range_load v = Ok r /\ range_ok r /\ sat_range_store r = Ok v.
Proof. exact sat_range_value_roundtrip. Qed.

Corollary C35_sat_range_in_supply : forall a b,
  a < STORAGE_SAT_SUPPLY -> a <= b -> b - a <= STORAGE_SUBSIDY_COINS * STORAGE_COIN_VALUE ->
  exists v, sat_range_store (a, b) = Ok v /\ sat_range_load v = Ok (a, b).
Proof.
  intros a b Ha Hab Hd.
  assert (H1 : a < P51) by (eapply N.lt_trans; [exact Ha|]; now vm_compute).
  assert (H2 : b - a < P37) by (eapply N.le_lt_trans; [exact Hd|]; now vm_compute).
  destruct (sat_range_roundtrip a b H1 Hab H2) as (v & Hs & _ & _ & Hl). now exists v.
Qed.

(* Rune balance lists: encoding a list of (RuneId, u128) and decoding it with the index's loop
   gives the list back. *)
Theorem C35_rune_balances : forall l, Forall valid_balance l ->
  decode_rune_balances (length (encode_rune_balances l)) (encode_rune_balances l) = Ok l.
Proof. exact rune_balances_roundtrip. Qed.

Theorem C35_rune_balance_one : forall x rest, valid_balance x ->
  decode_rune_balance (encode_rune_balance x ++ rest) = Ok (x, N.of_nat (length (encode_rune_balance x))).
Proof. exact decode_rune_balance_encode. Qed.

(* Ids and entries: tuple / byte-array conversions are inverse pairs in both directions. *)
Theorem C35_inscription_id : forall txid index, txid_ok txid ->
  inscription_id_load (inscription_id_store (txid, index)) = (txid, index).
Proof. exact inscription_id_roundtrip. Qed.

Theorem C35_inscription_id_value : forall h t i, h < P128 -> t < P128 ->
  inscription_id_store (inscription_id_load (h, t, i)) = (h, t, i) /\
  txid_ok (fst (inscription_id_load (h, t, i))).
Proof. exact inscription_id_value_roundtrip. Qed.

Theorem C35_rune_id : forall id, rune_id_load (rune_id_store id) = id /\ rune_id_store (rune_id_load id) = id.
Proof. intros id. split; reflexivity. Qed.

Theorem C35_rune_entry : forall e, txid_ok (re_etching e) -> rune_entry_load (rune_entry_store e) = e.
Proof. exact rune_entry_roundtrip. Qed.

Theorem C35_rune_entry_value : forall v : rune_entry_value,
  let '(_, _, _, etching, _, _, _, _, _, _, _, _) := v in
  fst etching < P128 -> snd etching < P128 ->
  rune_entry_store (rune_entry_load v) = v /\ txid_ok (re_etching (rune_entry_load v)).
Proof. exact rune_entry_value_roundtrip. Qed.

Theorem C35_inscription_entry : forall e, txid_ok (fst (ie_id e)) ->
  inscription_entry_load (inscription_entry_store e) = e.
Proof. exact inscription_entry_roundtrip. Qed.

Theorem C35_inscription_entry_value : forall v : inscription_entry_value,
  let '(_, _, _, _, id, _, _, _, _, _) := v in
  let '(h, t, _) := id in
  h < P128 -> t < P128 -> inscription_entry_store (inscription_entry_load v) = v.
Proof. exact inscription_entry_value_roundtrip. Qed.

Theorem C35_outpoint : forall txid vout, txid_ok txid -> vout <= U32_MAX ->
  length (outpoint_store (txid, vout)) = 36%nat /\ bytes (outpoint_store (txid, vout)) /\
  outpoint_load (outpoint_store (txid, vout)) = (txid, vout).
Proof. exact outpoint_roundtrip. Qed.

Theorem C35_outpoint_value : forall v, length v = 36%nat -> bytes v -> outpoint_store (outpoint_load v) = v.
Proof. exact outpoint_value_roundtrip. Qed.

Theorem C35_satpoint : forall txid vout offset, txid_ok txid -> vout <= U32_MAX -> offset <= U64_MAX ->
  length (satpoint_store ((txid, vout), offset)) = 44%nat /\
  bytes (satpoint_store ((txid, vout), offset)) /\
  satpoint_load (satpoint_store ((txid, vout), offset)) = ((txid, vout), offset).
Proof. exact satpoint_roundtrip. Qed.

Theorem C35_satpoint_value : forall v, length v = 44%nat -> bytes v -> satpoint_store (satpoint_load v) = v.
Proof. exact satpoint_value_roundtrip. Qed.

(* Header: the field layout of the 80-byte consensus encoding round-trips; the encoding itself is
   rust-bitcoin's and is tied to this layout by the correspondence run only. *)
Theorem C35_header_layout : forall h, header_ok h ->
  length (header_store h) = 80%nat /\ header_load (header_store h) = h.
Proof. exact header_roundtrip. Qed.

(* UTXO entries: for every one of the eight index configurations, writing a well-formed entry the
   way the updater does (sat ranges or value, script, one push per inscription) and reading it
   back through parse / total_value / sat range loading / parse_inscriptions gives the entry. *)
Theorem C35_utxo_entry : forall c e, Storage_proofs.wf c e ->
  exists bs, write_entry c e = Ok bs /\ read_entry c bs = Ok e.
Proof. exact utxo_entry_roundtrip. Qed.

(* merged (mergeable = the lost-sats / unbound-inscriptions pseudo-outputs: no script, no value
   without the sat index): the result reads back as the ranges of both operands in order, the
   inscriptions of both in order, and the sum of the values. *)
Theorem C35_merged : forall c ea eb, mergeable c ea eb ->
  exists a b m, write_entry c ea = Ok a /\ write_entry c eb = Ok b /\ merged c a b = Ok m /\
    read_entry c m = Ok {| u_ranges := u_ranges ea ++ u_ranges eb; u_value := u_value ea + u_value eb;
                           u_script := []; u_inscriptions := u_inscriptions ea ++ u_inscriptions eb |}.
Proof. exact merged_keeps_both. Qed.

Theorem C35_utxo_empty : forall c,
  exists bs, utxo_empty c = Ok bs /\
    read_entry c bs = Ok {| u_ranges := []; u_value := 0; u_script := []; u_inscriptions := [] |}.
Proof.
  intros c. eexists. split; [apply empty_layout|]. apply read_entry_layout.
  unfold Storage_proofs.wf. cbn. repeat split; try constructor; try (destruct (index_sats c)); try (destruct (index_addresses c));
    try (destruct (index_inscriptions c)); cbn; try reflexivity; try constructor; unfold U64_MAX; lia.
Qed.

(* merged / empty are a monoid on the entries of the special outpoints (lost sats, unbound
   inscriptions: no script and, without the sat index, no value; logical content = a pair
   (sat ranges, inscriptions)).  These are exactly the two laws that the cache refinement of C12
   assumes of its abstract [merged] and [empty]:
   (1), (2) on the parsed representation the laws hold unconditionally;
   (3), (4) for each of the eight index configurations the model's utxo_empty and byte-level
            merged compute this monoid on every storable entry, and the result reads back;
   (5) hence associativity and the unit laws hold for the byte-level functions themselves. *)
Theorem C35_merged_is_monoid_on_special_entries :
  (forall a b d, merged_s (merged_s a b) d = merged_s a (merged_s b d)) /\
  (forall a, merged_s empty_s a = a) /\
  (forall c, utxo_empty c = Ok (bytes_of c empty_s) /\ storable c empty_s) /\
  (forall c a b, storable c (merged_s a b) ->
     merged c (bytes_of c a) (bytes_of c b) = Ok (bytes_of c (merged_s a b)) /\
     read_entry c (bytes_of c (merged_s a b)) = Ok (to_utxo (merged_s a b))) /\
  (forall c a b d, storable c (merged_s (merged_s a b) d) ->
     (do m <- merged c (bytes_of c a) (bytes_of c b); merged c m (bytes_of c d)) =
       Ok (bytes_of c (merged_s (merged_s a b) d)) /\
     (do m <- merged c (bytes_of c b) (bytes_of c d); merged c (bytes_of c a) m) =
       Ok (bytes_of c (merged_s (merged_s a b) d)) /\
     (do e <- utxo_empty c; merged c e (bytes_of c a)) = Ok (bytes_of c a) /\
     (do e <- utxo_empty c; merged c (bytes_of c a) e) = Ok (bytes_of c a)).
Proof.
  split; [exact merged_s_assoc|]. split; [exact merged_s_empty_l|].
  split; [intros c; split; [exact (empty_bytes c)|exact (storable_empty c)]|].
  split; [intros c a b H; split; [exact (merged_bytes c a b H)|exact (read_bytes c _ H)]|].
  exact merged_monoid_on_bytes.
Qed.

(* The cache refinement of C12 instantiated with this entry type: E := special_entry (the parsed
   representation, on which the laws are unconditional, as the Section of Cache_proofs requires),
   merged := merged_s, empty := empty_s.  Entries of ordinary outpoints are never merged by the
   cache discipline (only Append on special outpoints calls merged), so for the purposes of this
   instantiation they may be embedded as any special_entry value. *)
Corollary C35_special_entries_cache_schedule_independent :
  forall (A : Type) (special : N -> bool) bs1 bs2 c0 s0 s',
    progs special_entry A bs1 = progs special_entry A bs2 ->
    Forall (fun b => Cache.wf special_entry A special (fst b)) bs1 ->
    Forall (fun b => Cache.wf special_entry A special (fst b)) bs2 ->
    R special_entry A merged_s special c0 s0 ->
    run_s special_entry A merged_s empty_s (progs special_entry A bs1) s0 = Some s' ->
    caux special_entry A (run_c special_entry A merged_s empty_s special bs1 c0) =
      caux special_entry A (run_c special_entry A merged_s empty_s special bs2 c0) /\
    forall o, table special_entry A (run_c special_entry A merged_s empty_s special bs1 c0) o =
              table special_entry A (run_c special_entry A merged_s empty_s special bs2 c0) o.
Proof.
  intros A special. exact (schedule_independent special_entry A merged_s empty_s special merged_s_assoc merged_s_empty_l).
Qed.

(* Non-vacuity: the last sat of the supply with a full first-epoch subsidy is in the domain. *)
Example C35_nonvacuous :
  let a := STORAGE_SAT_SUPPLY - 1 in
  let b := a + STORAGE_SUBSIDY_COINS * STORAGE_COIN_VALUE in
  a < P51 /\ b - a < P37 /\
  (do v <- sat_range_store (a, b); sat_range_load v) = Ok (a, b) /\
  decode_rune_balances 57 (encode_rune_balances [((U64_MAX, U32_MAX), U128_MAX)]) = Ok [((U64_MAX, U32_MAX), U128_MAX)].
Proof. vm_compute. repeat split. Qed.

Example C35_nonvacuous_utxo :
  let c := {| index_sats := true; index_addresses := true; index_inscriptions := true |} in
  let e := {| u_ranges := [(0, 5000000000); (STORAGE_SAT_SUPPLY - 1, STORAGE_SAT_SUPPLY)]; u_value := 5000000001;
              u_script := [81; 32; 7]; u_inscriptions := [(0, 0); (U32_MAX, U64_MAX)] |} in
  Storage_proofs.wf c e /\ (do bs <- write_entry c e; read_entry c bs) = Ok e.
Proof.
  split; [|vm_compute; reflexivity].
  unfold Storage_proofs.wf, range_ok, ins_ok. cbn. repeat split; repeat constructor; cbn; vm_compute; try reflexivity; intros H; discriminate H.
Qed.

Print Assumptions C35_sat_range.
Print Assumptions C35_rune_balances.
Print Assumptions C35_rune_entry.
Print Assumptions C35_header_layout.
Print Assumptions C35_utxo_entry.
Print Assumptions C35_merged.
Print Assumptions C35_merged_is_monoid_on_special_entries.
Print Assumptions C35_special_entries_cache_schedule_independent.
