(* C32 — Rune names correspond one-to-one with integers and print/parse consistently.
   Only statements, closed by [exact]/glue, with Print Assumptions. *)
From OrdV Require Import Base.Prelude Generated Ord.Rune Proofs.Rune_proofs Proofs.Spaced_proofs.

(* Printing then parsing any u128 returns it (including the special case u128::MAX);
   printed names are non-empty strings of A..Z of at most 28 letters. *)
Theorem C32_print_parse : forall n, n < P128 ->
  parse (show n) = Ok n /\ show n <> [] /\ (length (show n) <= 28)%nat /\
  Forall (fun c => is_upper c = true) (show n).
Proof.
  intros n H. split; [exact (parse_show n H)|]. split; [exact (show_nonempty n H)|].
  split; [exact (show_length_le_28 n H)|exact (show_upper n H)].
Qed.

(* One-to-one: printing is injective, and every string the parser accepts is the printed form
   of the value it returns (so distinct accepted strings have distinct values and the image of
   printing is exactly the set of accepted strings).  The empty string is rejected (after the
   repair recorded in known_findings.txt; before it, "" parsed to 0 like "A"). *)
Theorem C32_bijection :
  (forall a b, a < P128 -> b < P128 -> show a = show b -> a = b) /\
  (forall s n, parse s = Ok n -> n < P128 /\ show n = s) /\
  (forall s t n, parse s = Ok n -> parse t = Ok n -> s = t) /\
  parse [] = Err E_RANGE.
Proof.
  split; [exact show_inj|]. split; [exact show_parse|]. split; [|reflexivity].
  intros s t n Ps Pt. destruct (show_parse s n Ps) as [_ <-].
  destruct (show_parse t n Pt) as [_ <-]. reflexivity.
Qed.

(* The value denoted by a name d_1..d_k (letters as digits 0..25, most significant first) is
   bval - 1 where bval = sum (d_i + 1) * 26^(k-i) (modified base-26); names whose value
   exceeds u128::MAX are rejected (Error::Range), all others accepted with exactly that value. *)
Theorem C32_parse_value : forall d ds, Forall digit (d :: ds) ->
  parse (map letter (d :: ds)) =
    if bval (d :: ds) - 1 <? P128 then Ok (bval (d :: ds) - 1) else Err E_RANGE.
Proof.
  intros d ds Hd. rewrite (parse_letters d ds Hd).
  assert (1 <= bval (d :: ds)).
  { unfold bval. change (accv 0 (d :: ds)) with (accv (0 * 26 + d + 1) ds).
    pose proof (accv_ge (0 * 26 + d + 1) ds). lia. }
  destruct (N.leb_spec (bval (d :: ds)) P128), (N.ltb_spec (bval (d :: ds) - 1) P128); try reflexivity; lia.
Qed.

(* Spaced runes: print then parse returns the same rune and the spacers below the last
   letter, bit for bit; spacers at or past the last letter are dropped. *)
Theorem C32_spaced_roundtrip : forall n sp, n < P128 ->
  let L := N.of_nat (length (show n)) in
  exists sp', spaced_parse (spaced_show n sp) = Ok (n, sp') /\
    forall j, N.testbit sp' j = N.testbit sp j && (j <? L - 1).
Proof.
  intros n sp H L. exists (N.land sp (N.ones (L - 1))). split.
  - exact (spaced_roundtrip n sp H).
  - intro j. apply kept_spacers_bits.
Qed.

(* The commitment is the little-endian encoding without trailing zero bytes: it decodes to
   the rune, has at most 16 bytes, no trailing zero, and is the only such byte string. *)
Theorem C32_commitment : forall n, n < P128 ->
  from_le (commitment n) = n /\ Forall (fun b => b < 256) (commitment n) /\
  (length (commitment n) <= 16)%nat /\ no_trailing_zero (commitment n) /\
  (forall bs, Forall (fun b => b < 256) bs -> no_trailing_zero bs -> from_le bs = n -> bs = commitment n).
Proof.
  intros n H. destruct (commitment_spec n H) as (A & B & C & D).
  repeat (split; [assumption|]). intros bs Hb Hn Hv.
  apply from_le_inj; auto. congruence.
Qed.

(* Reserved names are exactly those at or above the first 27-letter name. *)
Theorem C32_reserved :
  show RUNE_RESERVED = repeat 65 27 /\
  (forall n, n < P128 -> (is_reserved n = true <-> RUNE_RESERVED <= n)) /\
  (forall n, n < P128 -> (is_reserved n = true <-> (27 <= length (show n))%nat)) /\
  nth 26 RUNE_STEPS 0 = RUNE_RESERVED.
Proof.
  split; [exact reserved_name|]. split.
  - intros n _. unfold is_reserved. rewrite N.leb_le. reflexivity.
  - split; [exact is_reserved_iff|reflexivity].
Qed.

(* Non-vacuity *)
Example C32_nonvacuous :
  parse (show U128_MAX) = Ok U128_MAX /\ length (show U128_MAX) = 28%nat /\
  spaced_parse (spaced_show 26 7) = Ok (26, 1) /\ commitment 256 = [0; 1] /\
  parse (map letter (repeat 25 28)) = Err E_RANGE.
Proof. vm_compute. repeat split. Qed.

Print Assumptions C32_print_parse.
Print Assumptions C32_bijection.
Print Assumptions C32_parse_value.
Print Assumptions C32_spaced_roundtrip.
Print Assumptions C32_commitment.
Print Assumptions C32_reserved.
