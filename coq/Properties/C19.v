(* C19 — Inscription content is served faithfully and sandboxed.
   Statements only; proofs in Proofs/Content_proofs.v.  [serve dc w p ae] is the whole decision
   of the server for request path [p] and raw Accept-Encoding header [ae] in world [w] (index
   lookups, hidden set, --csp-origin, --decompress), for an arbitrary brotli function [dc].
   [w_fixed w = true] is the code after the repair of the hidden-delegate defect. *)
From Coq Require Import String Ascii.
From OrdV Require Import Base.Prelude Generated Server.Content Proofs.Content_proofs.

(* (1) Every response — content, preview page, hidden placeholder, 400/404/406/500 — carries at
   least one Content-Security-Policy header and no policy value is empty. *)
Theorem C19_every_response_has_csp : forall dc w p ae,
  csp (serve dc w p ae) <> [] /\ Forall (fun v => v <> []) (csp (serve dc w p ae)).
Proof. exact serve_csp. Qed.

(* ... and so does the response of any other handler of the router, whatever it returns: the
   if_not_present layer fills in the default policy *)
Theorem C19_any_handler_has_csp : forall r, csp (csp_layer r) <> [].
Proof. exact csp_layer_nonempty. Qed.

(* (2)(3)(4) A response that carries inscription data (on any route) is about the requested
   inscription [id]: its source is [id] itself or, except on /r/undelegated-content, the inscription
   [id] delegates to (one level: the source's own delegate field is not followed), neither hidden.
   It has status 200, exactly the sandbox policy (same-origin headers, or the configured origin),
   the stored content type or the default, and the encoding rule: no (usable) stored encoding ->
   stored body, no header; accepted -> stored body with the header; otherwise only with
   --decompress and "br" -> the decompressed body without header. Cache-control is immutable
   except for a negative index on a sat. *)
Theorem C19_content_faithful : forall dc w p ae src,
  body_source (serve dc w p ae) = Some src ->
  exists id si, requested w p = Some id /\
    (match p with
     | PUndelegated _ => src = id /\ w_insc w id = Some si /\ w_hidden w id = false
     | _ => source_of w id src si
     end) /\
    content_shape dc w (accept_encoding_of ae) src si (serve dc w p ae) /\
    r_cache (serve dc w p ae) = (if cache_flag p then CImmutable else CNoStore).
Proof. exact serve_content. Qed.

(* the sandbox policy of [content_shape], spelled out: default-src followed by origin+path for
   exactly the recursive paths, then 'unsafe-eval' 'unsafe-inline' data: blob: ; the two
   same-origin headers are 'self' and the same list with origin "*:*" *)
Theorem C19_policy_structure :
  CSP_PATHS = [b "/content/"; b "/blockheight"; b "/blockhash"; b "/blockhash/"; b "/blocktime"; b "/r/"] /\
  CSP_CONTENT_SELF = b "default-src 'self'" ++ policy_tail /\
  CSP_CONTENT_STAR = policy_for (b "*:*") /\
  (forall o, join_segments o CSP_ORIGIN_SEGMENTS = policy_for o) /\
  CSP_DEFAULT = b "default-src 'self'".
Proof.
  exact (conj recursive_paths (conj csp_self_structure (conj csp_star_structure
        (conj csp_origin_structure csp_default_value)))).
Qed.

(* content type: the stored bytes when they are UTF-8 and a legal header value, else
   application/octet-stream *)
Theorem C19_content_type : forall i,
  (forall t, i_ctype i = Some t -> utf8_valid t = true -> header_value_ok t = true -> content_type_header i = t) /\
  ((i_ctype i = None \/ exists t, i_ctype i = Some t /\ (utf8_valid t = false \/ header_value_ok t = false)) ->
   content_type_header i = DEFAULT_CONTENT_TYPE) /\
  DEFAULT_CONTENT_TYPE = b "application/octet-stream".
Proof. intro i. destruct (content_type_header_spec i) as [H1 H2]. exact (conj H1 (conj H2 default_content_type_value)). Qed.

(* the refusals: a content response without inscription data is 500 (origin not a header value /
   brotli error), 406 (encoding neither accepted nor decompressible) or 404 (no body) *)
Theorem C19_refusals : forall dc w src i ae cb,
  let r := content_response dc w src i ae cb in
  body_source r = None ->
  (content_csp (w_origin w) = None /\ status r = 500) \/
  (exists enc, content_encoding_hv i = Some enc /\ is_acceptable ae enc = false /\
               (w_decompress w = false \/ enc <> BROTLI) /\ status r = 406) \/
  (i_body i = None /\ status r = 404) \/
  (exists bd, i_body i = Some bd /\ dc bd = None /\ status r = 500).
Proof. exact content_response_refusals. Qed.

(* conversely the content is served: an inscription that is not hidden, whose (one-level)
   source exists, is not hidden and has a body with no / an accepted encoding, gets exactly that body *)
Theorem C19_content_served : forall dc w id ae src si bd,
  source_of w id src si -> w_fixed w = true ->
  content_csp (w_origin w) <> None ->
  i_body si = Some bd ->
  (content_encoding_hv si = None \/
   exists enc, content_encoding_hv si = Some enc /\ is_acceptable (accept_encoding_of ae) enc = true) ->
  let r := serve dc w (PContent id) ae in
  status r = 200 /\ r_body r = BStored src bd /\ r_cenc r = content_encoding_hv si /\
  r_ctype r = Some (content_type_header si) /\ r_cache r = CImmutable.
Proof. exact content_served. Qed.

(* (5) The content of a hidden inscription is never served: on no route, with no Accept-Encoding,
   directly or through a delegating inscription. *)
Theorem C19_hidden_never_served : forall dc w p ae h,
  w_fixed w = true -> w_hidden w h = true -> body_source (serve dc w p ae) <> Some h.
Proof. exact hidden_never_served. Qed.

(* ... which the pinned commit a57bfc1 violated (repaired by the fix: commit in /repo) *)
Theorem C19_pinned_commit_served_hidden : forall dc,
  w_fixed leak_world = false /\ w_hidden leak_world 0 = true /\
  body_source (serve dc leak_world (PContent 1) None) = Some 0.
Proof. intro dc. destruct (pinned_commit_leaks dc) as [H1 H2]. exact (conj eq_refl (conj H1 H2)). Qed.

(* (6) Content addressed relative to the newest inscription on a sat is never immutable;
   index -k is the k-th newest. *)
Theorem C19_newest_relative_not_immutable : forall dc w sat idx ae,
  (idx < 0)%Z -> r_cache (serve dc w (PSatAt sat idx) ae) <> CImmutable.
Proof. exact negative_index_not_immutable. Qed.

Theorem C19_signed_index : forall A (l : list A),
  (forall i, (0 <= i)%Z -> nth_signed l i = nth_error l (Z.to_nat i)) /\
  (forall k, (1 <= k)%nat ->
     nth_signed l (- Z.of_nat k) = if (k <=? length l)%nat then nth_error l (length l - k) else None).
Proof. intros A l. split; [apply nth_signed_nonneg | apply nth_signed_negative]. Qed.

(* Non-vacuity: an inscription with a brotli body delegated to, served decompressed; the
   hypotheses of C19_content_faithful are satisfiable on every kind of route. *)
Example C19_nonvacuous :
  let w := mkWorld (fun id => if id =? 0 then Some (mkInsc (Some [1;2;3]) (Some (b "text/html")) (Some (b "br")) None)
                              else if id =? 1 then Some (mkInsc None None None (Some 0)) else None)
                   (fun s => if s =? 7 then [0; 1] else []) true (fun id => id =? 5) (Some (b "https://x.example")) true true in
  let dc := fun _ : bytes => Some [9; 9] in
  body_source (serve dc w (PContent 1) None) = Some 0 /\
  r_body (serve dc w (PSatAt 7 (-1)) (Some (b "gzip"))) = BDecompressed 0 [9; 9] /\
  r_cache (serve dc w (PSatAt 7 (-1)) None) = CNoStore /\
  r_body (serve dc w (PPreview 1) (Some (b "gzip, br"))) = BStored 0 [1; 2; 3] /\
  status (serve dc w (PUndelegated 1) None) = 404.
Proof. vm_compute. repeat split. Qed.

Print Assumptions C19_every_response_has_csp.
Print Assumptions C19_content_faithful.
Print Assumptions C19_hidden_never_served.
