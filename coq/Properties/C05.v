(* C05 — Inscription numbers, sequence numbers and IDs are dense, unique and consistent.
   Model: Index/Inscr.v (index_chain = Updater::index_utxo_entries + InscriptionUpdater over a whole chain;
   counters read from the statistics at block start and written back at block end, next sequence number
   recomputed from the last key of the entry table at every block start).
   Stated for EVERY configuration (any jubilee height, any first inscription height, sat index on or
   off), every chain with pairwise distinct transaction ids and arbitrary (already parsed) envelopes,
   whenever indexing succeeds (no panic). *)
From OrdV Require Import Base.Prelude Generated Index.Inscr Proofs.Inscr_tables Proofs.Inscr_proofs Proofs.Inscr_c04 Proofs.Inscr_ids Proofs.Inscr_idh.

Theorem C05_numbering : forall cfg c st,
  NoDup (chain_txids c) ->
  index_chain cfg 0 c empty_state = Ok st ->
  let E := s_entries st in
  let n := next_seq_of E in
  let b := s_blessed st in
  let cu := s_cursed st in
  (* sequence numbers are exactly 0..n-1 and each entry stores its own *)
  (forall s, tget N.eqb s E <> None <-> s < n) /\
  (forall s e, tget N.eqb s E = Some e -> i_seq e = s) /\
  (* b blessed and cu cursed inscriptions make up all n *)
  b + cu = n /\
  (* numbers lie in -cu..b-1, every number of that range is taken (no gaps) ... *)
  (forall s e, tget N.eqb s E = Some e -> (- Z.of_N cu <= i_number e < Z.of_N b)%Z) /\
  (forall z, (- Z.of_N cu <= z < Z.of_N b)%Z -> tget Z.eqb z (s_num2seq st) <> None) /\
  (* ... in assignment order: blessed numbers increase and cursed numbers decrease with the sequence number *)
  (forall s1 s2 e1 e2, tget N.eqb s1 E = Some e1 -> tget N.eqb s2 E = Some e2 -> s1 < s2 ->
     ((0 <= i_number e1 -> 0 <= i_number e2 -> i_number e1 < i_number e2) /\
      (i_number e1 < 0 -> i_number e2 < 0 -> i_number e2 < i_number e1))%Z) /\
  (* lookup by number and lookup by id are inverse to the entries (hence numbers and ids are unique) *)
  (forall s e, tget N.eqb s E = Some e -> tget Z.eqb (i_number e) (s_num2seq st) = Some s) /\
  (forall z s, tget Z.eqb z (s_num2seq st) = Some s -> exists e, tget N.eqb s E = Some e /\ i_number e = z) /\
  (forall s e, tget N.eqb s E = Some e -> tget pair_eqb (i_id e) (s_id2seq st) = Some s) /\
  (forall i s, tget pair_eqb i (s_id2seq st) = Some s -> exists e, tget N.eqb s E = Some e /\ i_id e = i) /\
  (* nothing created at or after the jubilee height is numbered negatively *)
  (forall s e, tget N.eqb s E = Some e -> c_jubilee cfg <= i_height e -> (0 <= i_number e)%Z) /\
  (* the txid of every id is a transaction of the chain *)
  (forall s e, tget N.eqb s E = Some e -> In (fst (i_id e)) (chain_txids c)).
Proof.
  intros cfg c st ND H. destruct (numbering_invariant cfg c st ND H) as [[D S C R NF NB DE IF IB MO J] HS].
  cbn zeta.
  split; [exact D|]. split; [exact S|]. split; [exact C|]. split; [exact R|]. split; [exact DE|].
  split; [exact MO|]. split; [exact NF|]. split; [exact NB|]. split; [exact IF|]. split; [exact IB|].
  split; [exact J|].
  intros s e He. apply (HS (i_id e)). unfold dom. rewrite (IF _ _ He). discriminate.
Qed.

(* Every id names its reveal: for EVERY chain (no validity assumption), whenever indexing succeeds, each
   entry's id is (txid of a transaction t of the block at the entry's height, k) with k below the number of
   envelopes of t. *)
Theorem C05_ids_name_reveals : forall cfg c st,
  index_chain cfg 0 c empty_state = Ok st ->
  forall s e, tget N.eqb s (s_entries st) = Some e ->
    exists blk t, nth_error c (N.to_nat (i_height e)) = Some blk /\ In t blk /\
      t_id t = fst (i_id e) /\ snd (i_id e) < N.of_nat (length (t_envs t)).
Proof. exact ids_name_reveals. Qed.

(* the per-transaction part of "id = reveal txid + index among the transaction's envelopes":
   the new inscriptions of a transaction carry its txid and pairwise distinct indices *)
Theorem C05_ids_of_a_transaction : forall cfg st h t ents F tiv,
  floating_of cfg st h t ents = Ok (F, tiv) ->
  (forall i, In i (new_ids F) -> fst i = t_id t) /\ NoDup (new_ids F).
Proof.
  intros cfg st h t ents F tiv H. destruct (floating_of_props _ _ _ _ _ _ _ H) as (A & B & _). auto.
Qed.

(* ... more precisely: listed in the order in which the code walks the envelopes (inputs in order, the
   envelopes of an input in order) they carry the indices 0, 1, 2, ...; and when the parser's envelopes come in
   input order and name existing inputs (envs_ok) every envelope of a non-coinbase transaction gets one, so the
   index of an inscription is the position of its envelope among all envelopes of the transaction *)
Theorem C05_ids_in_envelope_order : forall cfg st h t ents F tiv,
  floating_of cfg st h t ents = Ok (F, tiv) ->
  new_ids F = map (fun k => (t_id t, N.of_nat k)) (seq 0 (length (new_ids F))) /\
  (tx_plain t -> length ents = length (t_ins t) -> envs_ok t -> length (new_ids F) = length (t_envs t)).
Proof.
  intros cfg st h t ents F tiv H. split.
  - exact (ids_in_order _ _ _ _ _ _ _ H).
  - intros HP HL HE. exact (ids_count _ _ _ _ _ _ _ HP HL HE H).
Qed.

(* Non-vacuity: regtest configuration, genesis + one funding block + a reveal with a clean envelope and a
   second envelope in the same input (cursed before the jubilee): one blessed, one cursed. *)
Definition c05_env (off : N) : envelope := mkEnv 0 off false false false false false false None false [].
Definition c05_chain : list block :=
  [ [mkTx 1 [null_op] [mkOut 5000000000 false] []];
    [mkTx 2 [null_op] [mkOut 5000000000 false] []];
    [mkTx 3 [null_op] [mkOut 5000000000 false] [];
     mkTx 4 [(2, 0)] [mkOut 5000000000 false] [c05_env 0; c05_env 1]] ].

Example C05_nonvacuous :
  exists st, index_chain (cfg_of 0 false) 0 c05_chain empty_state = Ok st /\
             s_blessed st = 1 /\ s_cursed st = 1 /\ next_seq_of (s_entries st) = 2 /\
             NoDup (chain_txids c05_chain).
Proof.
  eexists. split; [vm_compute; reflexivity|]. repeat split.
  repeat constructor; cbn; intuition discriminate.
Qed.

Print Assumptions C05_numbering.
Print Assumptions C05_ids_of_a_transaction.
Print Assumptions C05_ids_in_envelope_order.
Print Assumptions C05_ids_name_reveals.
