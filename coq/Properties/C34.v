(* C34 — Displayed rune amounts parse back to the same amount.
   Only statements, closed by [exact]/glue, with Print Assumptions.
   Decimal::from_str is the repaired parser (see known_findings.txt, fixed: property=C31). *)
From OrdV Require Import Base.Prelude Ord.Decimal Proofs.Decimal_proofs Proofs.DecimalParse_proofs.

(* Printing any u128 amount with any divisibility 0..=38 (symbol suffix aside) and parsing the
   printed number back as a decimal at that divisibility yields the same integer. *)
Theorem C34_pile_roundtrip : forall amount divisibility symbol,
  amount < P128 -> divisibility <= 38 ->
  exists num value scale,
    pile_show amount divisibility symbol =
      Ok (num ++ [C_NBSP; match symbol with Some c => c | None => C_CURRENCY end]) /\
    dec_from_str num = Ok (value, scale) /\
    to_integer value scale divisibility = Ok amount.
Proof.
  intros a d sym Ha Hd. destruct (pile_roundtrip a d Ha Hd) as (num & v & sc & A & B & C & _).
  exists num, v, sc. unfold pile_show. rewrite A. cbn [bind]. auto.
Qed.

(* to_integer at a divisibility <= 38: exactly value * 10^(divisibility - scale) when the scale
   does not exceed the divisibility and the product fits u128; otherwise "excessive precision"
   (scale > divisibility) or "amount out of range" (overflow).  Never a panic. *)
Theorem C34_to_integer : forall value scale divisibility, divisibility <= 38 ->
  to_integer value scale divisibility =
    if divisibility <? scale then Err E_PRECISION
    else if value * 10 ^ (divisibility - scale) <? P128
         then Ok (value * 10 ^ (divisibility - scale))
         else Err E_AMOUNT.
Proof. exact to_integer_spec. Qed.

(* For every string: if the parser accepts it, the result (value, scale) denotes the number
   written in the string (see [dec_denotes]: optional '+', integer digits, optional '.' and
   fraction digits; value / 10^scale = that number, cross-multiplied), is canonical (no trailing
   zero in the fraction), and converting it to a divisibility d <= 38 gives
   - Ok n  only with n / 10^d = the denoted number exactly (n * 10^scale = value * 10^d),
   - "excessive precision" only when the denoted number is not a whole number of base units,
   - "amount out of range" only when the exact result is >= 2^128. *)
Theorem C34_parsed_to_integer : forall s value scale d, d <= 38 ->
  dec_from_str s = Ok (value, scale) ->
  dec_denotes s value scale /\
  match to_integer value scale d with
  | Ok n => n * 10 ^ scale = value * 10 ^ d
  | Err e => (e = E_PRECISION /\ (value * 10 ^ d) mod 10 ^ scale <> 0) \/
             (e = E_AMOUNT /\ scale <= d /\ P128 <= value * 10 ^ (d - scale))
  | Panic _ => False
  end.
Proof. exact parsed_to_integer. Qed.

(* Non-vacuity *)
Example C34_nonvacuous :
  pile_show 1234500 4 None = Ok [49;50;51;46;52;53;160;164] /\
  dec_from_str [49;50;51;46;52;53] = Ok (12345, 2) /\ to_integer 12345 2 4 = Ok 1234500 /\
  to_integer 12345 2 1 = Err E_PRECISION /\ to_integer U128_MAX 0 1 = Err E_AMOUNT /\
  pile_show U128_MAX 38 (Some 36) <> Panic 1.
Proof. vm_compute. repeat split; discriminate. Qed.

Print Assumptions C34_pile_roundtrip.
Print Assumptions C34_to_integer.
Print Assumptions C34_parsed_to_integer.
