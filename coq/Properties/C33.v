(* C33 — Rune-name unlock schedule is monotone and matches reported unlock heights.
   Only statements, closed by [exact]/glue, with Print Assumptions.
   Networks are indexed 0 Bitcoin, 1 Testnet, 2 Signet, 3 Regtest, 4 Testnet4 (wildcard arm of
   Rune::first_rune_height); any other index behaves like activation height 0.  Heights are u32. *)
From OrdV Require Import Base.Prelude Generated Ord.Rune Proofs.Rune_proofs Proofs.Unlock_proofs.

(* On every network the minimum etchable name never increases with the height. *)
Theorem C33_monotone : forall net h h', h <= h' ->
  minimum_at_height net h' <= minimum_at_height net h.
Proof. intros net h h' H. exact (min_monotone (first_rune_height net) h h' H). Qed.

(* Names of thirteen or more letters (value >= STEPS[12] = first 13-letter name) are etchable at
   every height, in particular from the first rune block. *)
Theorem C33_thirteen_letters : forall net h r, r < P128 -> (13 <= length (show r))%nat ->
  minimum_at_height net h <= r.
Proof.
  intros net h r Hr H13. pose proof (min_le_13_letters (first_rune_height net) h) as A.
  apply (show_length r 13 Hr) in H13.
  assert (E : step 12 + 1 = thr 13) by (vm_compute; reflexivity).
  unfold minimum_at_height. lia.
Qed.

(* Once the schedule completes (one halving interval after activation) every name is etchable. *)
Theorem C33_complete : forall net h, first_rune_height net + HALVING <= h + 1 ->
  minimum_at_height net h = 0.
Proof.
  intros net h H. rewrite H_val in H.
  exact (min_zero_after (first_rune_height net) h (first_rune_height_bound net) H).
Qed.

(* For every non-reserved name the reported unlock height is the first height whose minimum is
   at or below the name; it is computed without panicking and fits u32.  Reserved names have no
   unlock height. *)
Theorem C33_unlock_height : forall net r, is_reserved r = false ->
  exists u, unlock_height net r = Ok (Some u) /\ u <= U32_MAX /\
    minimum_at_height net u <= r /\
    forall h, h < u -> r < minimum_at_height net h.
Proof.
  intros net r H. exact (unlock_first (first_rune_height net) r (first_rune_height_bound net) H).
Qed.

Theorem C33_unlock_reserved : forall net r, is_reserved r = true -> unlock_height net r = Ok None.
Proof. intros net r H. exact (unlock_reserved (first_rune_height net) r H). Qed.

(* Consequence used by the /rune page and by etching validation: a non-reserved name is etchable
   at height h (minimum <= name) exactly when h has reached its reported unlock height. *)
Theorem C33_etchable_iff : forall net r h, is_reserved r = false ->
  exists u, unlock_height net r = Ok (Some u) /\ (minimum_at_height net h <= r <-> u <= h).
Proof.
  intros net r h H. destruct (C33_unlock_height net r H) as [u [E [_ [Hle Hlt]]]].
  exists u. split; [exact E|]. split.
  - intros Hm. destruct (N.le_gt_cases u h) as [L|G]; [exact L|].
    specialize (Hlt h G). lia.
  - intros L. pose proof (C33_monotone net u h L). lia.
Qed.

(* Larger (longer) names never unlock later than smaller ones. *)
Theorem C33_unlock_antitone : forall net r r' u u', r <= r' ->
  unlock_height net r = Ok (Some u) -> unlock_height net r' = Ok (Some u') -> u' <= u.
Proof.
  intros net r r' u u' Hr E E'.
  destruct (is_reserved r) eqn:R; [rewrite (C33_unlock_reserved net r R) in E; discriminate|].
  destruct (is_reserved r') eqn:R'; [rewrite (C33_unlock_reserved net r' R') in E'; discriminate|].
  destruct (C33_unlock_height net r R) as [v [F [_ [Hle _]]]].
  destruct (C33_unlock_height net r' R') as [v' [F' [_ [_ Hlt']]]].
  rewrite E in F; rewrite E' in F'. injection F as <-. injection F' as <-.
  destruct (N.le_gt_cases u' u) as [L|G]; [exact L|]. specialize (Hlt' u G). lia.
Qed.

(* Non-vacuity: mainnet activation 840000; the schedule really moves. *)
Example C33_nonvacuous :
  first_rune_height 0 = 840000 /\ minimum_at_height 0 839998 = step 12 /\
  minimum_at_height 0 840000 < step 12 /\ minimum_at_height 0 1049998 = 1 /\
  minimum_at_height 0 1049999 = 0 /\
  unlock_height 0 0 = Ok (Some 1049999) /\ unlock_height 0 (step 12 - 1) = Ok (Some 840000) /\
  unlock_height 3 27 = Ok (Some 192474).
Proof. vm_compute. repeat split. Qed.

Print Assumptions C33_monotone.
Print Assumptions C33_thirteen_letters.
Print Assumptions C33_complete.
Print Assumptions C33_unlock_height.
Print Assumptions C33_unlock_reserved.
Print Assumptions C33_etchable_iff.
Print Assumptions C33_unlock_antitone.
