(* C23 — Whenever the wallet lets the node add inputs (sending bitcoin, minting, splitting,
   sending or burning runes, sweeping, creating offers), every output holding an inscription
   or runes is locked first, so the inputs the node adds spend no such output.
   Model: Wallet/Lock.v (Wallet::lock_non_cardinal_outputs, get_runic_outputs,
   fund_raw_transaction); the per-command order of lock/fund calls is
   Generated.WALLET_FUND_COMMANDS, re-read from the Rust source on every run.
   Only statements, closed by [exact]/short glue, a non-vacuity Example, Print Assumptions. *)
From OrdV Require Import Base.Prelude Generated Wallet.Lock Proofs.Lock_proofs.

(* Tie to the source: in every function of src/ that calls fund_raw_transaction, a call of
   lock_non_cardinal_outputs comes first (in the function itself, or in its only caller).
   This statement is by computation on the generated table and breaks when a command
   funds before locking, when the table is empty or when the count disagrees. *)
Theorem C23_generated_commands_lock_first :
  forallb (fun c => lock_precedes_fund (decode_actions c)) WALLET_FUND_COMMANDS = true /\
  WALLET_FUND_COMMAND_COUNT = N.of_nat (length WALLET_FUND_COMMANDS) /\
  WALLET_FUND_COMMANDS <> [].
Proof. exact generated_commands_lock_first. Qed.

(* [lock_precedes_fund] means what it says: every Fund has a Lock at a smaller position. *)
Theorem C23_lock_precedes_fund_spec : forall acts,
  lock_precedes_fund acts = true <->
  (forall i, nth_error acts i = Some Fund ->
     exists j, (j < i)%nat /\ nth_error acts j = Some Lock).
Proof. exact lock_precedes_fund_spec. Qed.

(* What lock_non_cardinal_outputs asks the node to lock: exactly the inscribed wallet
   outputs and the runic outputs that are not locked already. *)
Theorem C23_lock_set_exact : forall w u,
  In u (lock_set w) <->
  (In u (utxos w) /\ In u (inscribed w) \/ In u (runic_list w)) /\ ~ In u (locked w).
Proof. exact lock_set_exact. Qed.

(* For ANY coin selection [f] of the node, any explicit inputs, any wallet state and any
   action list in which a Lock precedes every Fund: the inputs added by every Fund contain
   no inscribed and no runic output.
   (No hypothesis "runic outputs are wallet utxos" is needed: [fund] only returns outputs
   of [utxos w] that are not locked in the node, and get_runic_outputs iterates
   output_info, whose keys are the utxos.) *)
Theorem C23_funding_avoids_non_cardinal : forall f explicit w acts,
  lock_precedes_fund acts = true ->
  forall added, In added (run_actions f explicit w acts (locked w)) ->
  forall u, In u added -> non_cardinal w u = false.
Proof. exact funding_avoids_non_cardinal. Qed.

(* Hence for every node-funded command found in the source. *)
Theorem C23_every_generated_command_safe : forall c, In c WALLET_FUND_COMMANDS ->
  forall f explicit w added,
  In added (run_actions f explicit w (decode_actions c) (locked w)) ->
  forall u, In u added -> non_cardinal w u = false.
Proof. exact every_generated_command_safe. Qed.

(* The lock is necessary: without a preceding Lock some node (one that adds everything it
   may spend) spends an inscribed output.  So the hypothesis above is not vacuous. *)
Theorem C23_unlocked_fund_can_spend_inscribed :
  exists f w acts, lock_precedes_fund acts = false /\
    exists added u, In added (run_actions f [] w acts (locked w)) /\ In u added /\
                    non_cardinal w u = true.
Proof. exact unlocked_fund_can_spend_inscribed. Qed.

(* Non-vacuity: every generated command does fund; on a wallet mixing cardinal (0, 3),
   inscribed (1, 4: 4 already locked), runic (2) and inscribed+runic (5) outputs, a node
   that adds everything it may spend adds exactly the cardinal outputs after the lock, and
   everything unlocked without it; without a rune index only inscribed outputs are locked. *)
Example C23_nonvacuous :
  let w := {| utxos := [0; 1; 2; 3; 4; 5]; inscribed := [1; 4; 5]; runic := Some [2; 5];
              locked := [4] |} in
  let w' := {| utxos := [0; 1; 2]; inscribed := [1]; runic := None; locked := [] |} in
  forallb (fun c => existsb (fun a => match a with Fund => true | Lock => false end)
                            (decode_actions c)) WALLET_FUND_COMMANDS = true /\
  lock_set w = [1; 5; 2; 5] /\
  run_actions greedy [] w [Lock; Fund] (locked w) = [[0; 3]] /\
  run_actions greedy [] w [Fund; Lock] (locked w) = [[0; 1; 2; 3; 5]] /\
  lock_set w' = [1] /\
  run_C23 [0; 1; 6; 0; 1; 2; 0; 5; 3]%Z = [4; 1; 2; 4; 5]%Z.
Proof. vm_compute. repeat split. Qed.

Print Assumptions C23_generated_commands_lock_first.
Print Assumptions C23_lock_precedes_fund_spec.
Print Assumptions C23_lock_set_exact.
Print Assumptions C23_funding_avoids_non_cardinal.
Print Assumptions C23_every_generated_command_safe.
Print Assumptions C23_unlocked_fund_can_spend_inscribed.
