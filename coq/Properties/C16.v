(* C16 — Indexing a valid chain never fails.

   FULL STATEMENT (not proved as a whole; C16 is partial by nature):
     forall (c : valid chain) (cfg : index configuration), exists st, run cfg c = Ok st
   i.e. no panic and no error anywhere on the indexing path.  There is no single chain-level
   model of the whole updater in this development yet, so the statement above is not even
   expressible as one Coq theorem; what follows collects, under C16_ names, the totality facts
   that ARE proved (each for all inputs) about the components on the indexing path.  They are
   restatements, closed by [exact], of theorems of the component properties.  The panic sites
   not covered by any of them are listed in props/C16.json and are exercised only by the
   chain-level malformed-stream correspondence (harness/hx-total, wire entry Index/Total.v,
   which is the constant prediction "ok"). *)
From OrdV Require Import Base.Prelude Generated.
From OrdV Require Codec.Varint Codec.Script Codec.EnvScript Codec.Envelope Codec.Cbor Codec.Runestone Codec.Storage.
From OrdV Require Proofs.Envelope_proofs Proofs.Storage_proofs.
From OrdV Require Properties.C25 Properties.C26 Properties.C27 Properties.C28 Properties.C35.
From OrdV Require Index.Runes Proofs.Runes_supply Proofs.Runes_total Index.SatIndex Properties.C01.
From OrdV Require Index.Inscr Proofs.Inscr_total.

(* ---- 1. envelope extraction: RawEnvelope::from_transaction + ParsedEnvelope::from
   (src/inscriptions/envelope.rs, tag.rs; rust-bitcoin's instruction iterator and tapscript rule
   as modelled in Codec/EnvScript.v).  For every list of witnesses made of arbitrary byte
   strings the parser returns a list of envelopes: script errors drop the input, nothing
   panics.  The size bounds are real: beyond them `try_into().unwrap()` to u32 panics, but a
   block cannot hold 2^32 inputs or a 4 GiB script. *)
Theorem C16_envelope_parsing_total : forall ws : list (list Envelope.bytes),
  EnvScript.lenN ws <= U32_MAX + 1 ->
  Forall (fun w => forall s, EnvScript.tapscript w = Some s -> EnvScript.lenN s <= U32_MAX + 1) ws ->
  exists envs, Envelope.from_transaction ws = Ok envs.
Proof. exact C27.C27_parse_total. Qed.

(* the compact field decoders used while indexing envelopes are total functions into option:
   a pointer that decodes fits u64, a parent/delegate id that decodes has a u32 index *)
Theorem C16_pointer_decoding_total : forall v, Forall (fun b => b < 256) v ->
  match Envelope.pointer_of v with
  | None => exists b, In b (skipn 8 v) /\ b <> 0
  | Some p => Forall (fun b => b = 0) (skipn 8 v) /\ p = Envelope.le_value (firstn 8 v) /\ p <= U64_MAX
  end.
Proof. exact C27.C27_pointer_decode. Qed.

Theorem C16_inscription_id_decoding_total : forall v txid index, Forall (fun b => b < 256) v ->
  Envelope.id_from_value v = Some (txid, index) ->
  length txid = Envelope.TXID_LEN /\ index <= U32_MAX /\
  (v = Envelope.id_value txid index \/ v = txid ++ Envelope_proofs.le4 index).
Proof. exact C27.C27_id_accepts_exactly. Qed.

(* ---- 2. runestones: Runestone::decipher (crates/ordinals/src/runestone.rs) on arbitrary
   output scripts returns Ok (a runestone, a cenotaph or nothing), never panics. *)
Theorem C16_runestone_decipher_total : forall outs : list (list N),
  Script.len outs <= U32_MAX ->
  exists a, Runestone.decipher outs = Ok a /\
    (a = None <-> Forall (fun s => ~ C25.starts_with_magic s) outs).
Proof. exact C25.C25_decipher_total. Qed.

(* ---- 3. varints (crates/ordinals/src/varint.rs decode): the model is a total function into
   a sum type - every byte string gives either one of three errors or a value; a value is the
   exact value of the first terminated group and fits u128 (no wrap-around in `n |= value << 7i`). *)
Theorem C16_varint_decode_total : forall bs : list N,
  (exists e, Varint.decode bs = inl e) \/
  (exists n k, Varint.decode bs = inr (n, k) /\ n < P128 /\ (N.to_nat k <= length bs)%nat).
Proof.
  intros bs. destruct (Varint.decode bs) as [e|[n k]] eqn:E; [left; exists e; reflexivity|].
  right. exists n, k. split; [reflexivity|].
  destruct (C26.C26_decode_exact bs n k E) as [j [Hk [_ [Hj [_ [_ [_ Hn]]]]]]].
  split; [exact Hn|]. subst k. rewrite Nat2N.id. exact Hj.
Qed.

(* ---- 4. properties: the decompression loop of Inscription::properties_cbor stays within the
   size and ratio limits for ANY decompressor output (a block-sized brotli bomb cannot make
   the indexer allocate more than 4 000 000 bytes per inscription). *)
Theorem C16_properties_decompression_bounded : forall value e chunks err v,
  Cbor.properties_cbor value (Some e) chunks err = Some v ->
  e = BROTLI /\ EnvScript.lenN v <= EnvScript.lenN value * MAX_PROPERTIES_COMPRESSION_RATIO /\
  EnvScript.lenN v <= MAX_COMPRESSED_PROPERTIES_SIZE /\ exists k, v = concat (firstn k chunks).
Proof. exact C28.C28_bounded_decompress. Qed.

(* ---- 5. storage builders on the index's own values (src/index/entry.rs, utxo_entry.rs): the
   asserting builders return Ok (no assert fires) on every well-formed entry, for each of the
   eight flag configurations, and what they wrote parses back without panic; likewise the
   empty entry, the merge of the lost-sats / unbound pseudo-outputs and sat ranges within the
   supply. *)
Theorem C16_utxo_entry_builder_total : forall c e, Storage_proofs.wf c e ->
  exists bs, Storage.write_entry c e = Ok bs /\ Storage.read_entry c bs = Ok e.
Proof. exact C35.C35_utxo_entry. Qed.

Theorem C16_utxo_empty_total : forall c,
  exists bs, Storage.utxo_empty c = Ok bs /\
    Storage.read_entry c bs = Ok {| Storage.u_ranges := []; Storage.u_value := 0; Storage.u_script := []; Storage.u_inscriptions := [] |}.
Proof. exact C35.C35_utxo_empty. Qed.

Theorem C16_sat_range_store_total : forall a b,
  a < STORAGE_SAT_SUPPLY -> a <= b -> b - a <= STORAGE_SUBSIDY_COINS * STORAGE_COIN_VALUE ->
  exists v, Storage.sat_range_store (a, b) = Ok v /\ Storage.sat_range_load v = Ok (a, b).
Proof. exact C35.C35_sat_range_in_supply. Qed.

Theorem C16_rune_balances_decode_total : forall l, Forall Storage_proofs.valid_balance l ->
  Storage.decode_rune_balances (length (Storage.encode_rune_balances l)) (Storage.encode_rune_balances l) = Ok l.
Proof. exact C35.C35_rune_balances. Qed.

(* ---- rune updater (src/index/updater/rune_updater.rs as modelled in Index/Runes.v, where every
   Lot addition/subtraction, counter increment and u32 conversion is a Panic site): on a state
   satisfying the conservation invariant and a block whose transactions satisfy what the runestone
   decoder guarantees (edict outputs within range, Etching::supply() does not overflow), with fewer
   than 2^32 transactions and fresh txids, index_block returns Ok — no Panic, no Err — and
   re-establishes the invariant; hence every such chain is indexed from the empty index. *)
Theorem C16_runes_index_block_total : forall first height st b,
  Runes_total.StateOk height st -> Runes_total.BlockOk height st b ->
  exists st', Runes.index_block first height st b = Ok st' /\ Runes_total.StateOk (height + 1) st'.
Proof. exact Runes_total.runes_index_total. Qed.

Theorem C16_runes_index_chain_total : forall first height bs,
  Runes_total.chain_ok height bs -> NoDup (Runes_supply.txids bs) ->
  N.of_nat (length (Runes_supply.txids bs)) <= U64_MAX ->
  exists sts, Runes.index_chain first height Runes.empty_state bs = Ok sts.
Proof. exact Runes_total.runes_index_chain_total_from_empty. Qed.

(* ---- sat index (index_transaction_sats as modelled in Index/SatIndex.v, where
   `expect("insufficient inputs for transaction outputs")` is a Panic site): every valid chain
   (inputs unspent, inputs >= outputs, coinbase <= subsidy + fees) is indexed. *)
Theorem C16_sat_index_total : forall c,
  SatIndex.valid c = true -> exists st, SatIndex.run c = Ok st /\ SatIndex.v_run 0 [] c = Some (SatIndex.vabs (SatIndex.utxo st)).
Proof. exact C01.C01_valid_chain_indexed. Qed.

(* ---- inscription updater (InscriptionUpdater::index_inscriptions / update_inscription_location and the
   UTXO / sat-range plumbing of index_utxo_entries as modelled in Index/Inscr.v, where every table
   `.unwrap()`, the i32 conversions of the blessed/cursed counters, `calculate_sat`'s `unreachable!()`,
   `expect("insufficient inputs ...")`, the u64 subtractions of the fee / reward / lost-sats arithmetic, the
   `input_utxo_entries[i]` indexing and the missing-input assert are Panic sites; the special-outpoint
   assert holds by construction: the model only ever falls back to the null and unbound outpoints).
   For every configuration (sat index on or off, any jubilee) with inscriptions indexed from height 0,
   every chain that is valid in the sense of Inscr_total.chain_valid is indexed: Ok, no Panic.
   Inscr_total.chain_valid, all hypotheses named:
     - per non-coinbase transaction (tx_valid): txid not all-zero; no null input; every input is an
       unspent output of the value ledger (so inputs exist and are pairwise distinct); outputs <= inputs;
       at most the first parsed envelope has input = 0 and offset = 0 (first_only - what the parser's
       per-input numbering guarantees);
     - per block (block_valid): a coinbase first, all its inputs null, txid not all-zero, claiming at most
       subsidy + fees; height below the first halving (Height::starting_sat is modelled there only);
       the running number of envelopes in non-coinbase transactions stays <= 2^31 (the i32 counters).
   No distinct-txid assumption is needed for totality. *)
Theorem C16_inscription_updater_total : forall cfg c,
  Inscr.c_first cfg = 0 -> Inscr_total.chain_valid cfg 0 [] 0 c ->
  exists st, Inscr.index_chain cfg 0 c Inscr.empty_state = Ok st.
Proof. exact Inscr_total.inscription_updater_total. Qed.

Print Assumptions C16_envelope_parsing_total.
Print Assumptions C16_pointer_decoding_total.
Print Assumptions C16_inscription_id_decoding_total.
Print Assumptions C16_runestone_decipher_total.
Print Assumptions C16_varint_decode_total.
Print Assumptions C16_properties_decompression_bounded.
Print Assumptions C16_utxo_entry_builder_total.
Print Assumptions C16_utxo_empty_total.
Print Assumptions C16_sat_range_store_total.
Print Assumptions C16_rune_balances_decode_total.
Print Assumptions C16_runes_index_block_total.
Print Assumptions C16_runes_index_chain_total.
Print Assumptions C16_sat_index_total.
Print Assumptions C16_inscription_updater_total.
