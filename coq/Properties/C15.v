(* C15 — Optional indexes do not change inscription or rune results.
   PARTIAL: what is proved here is the value-provision layer of
   Updater::index_utxo_entries (Index/Config.v): where the value and the stored
   per-output data of every transaction input come from under each configuration,
   including the node-fetch path.  The inscription and rune updaters themselves
   are an arbitrary downstream state machine [d_step] (they are other
   contributors' models); the fetcher thread / RPC are runtime.

   Full statement of the property (not proved as such):
     forall valid chain, forall configurations c1 c2,
       proj (index c1 chain) = proj (index c2 chain)
   with proj = inscription ids, numbers, satpoints, parents, fees, heights, charms
   without the sat-derived bits, rune entries and balances.  It follows from the
   theorem below once the updaters are shown to be functions of the per-input
   (value, stored data) lists, the transactions and their own state — which is
   exactly the shape of [d_step] — and is checked end to end on the real index by
   the correspondence run (hx-config). *)
From OrdV Require Import Base.Prelude Index.Config Proofs.Config_proofs.

(* A chain is valid under configuration c (Config_proofs.valid_chain) when, following
   the configuration-free reference run from the empty UTXO set at height 0:
     - every block has a coinbase first, whose inputs are all the null outpoint;
     - no unspent output carries a txid of the block being added (BIP 30);
     - every input of a non-coinbase transaction is non-null and unspent at that point
       (created in an earlier block or earlier in the same block; no double spend);
     - a transaction's own txid has no unspent output yet;
     - output facts: the node reports the value of every created output
       (fetch_faithful), and — only when c indexes sats — the sat ranges the sat index
       assigns to it sum to its value.  THE LATTER IS PROPERTY C02's THEOREM
       (sat ranges of an output have total length = its value), proved by another
       contributor; it enters here as part of the hypothesis [valid_chain].
   For such chains, under ANY two configurations (sat index on/off, address index
   on/off; the transaction index and the rune index do not touch this layer), ANY
   commit schedules, ANY first inscription height and ANY downstream updater d_step:
     - neither run fails: no blocking_recv on an empty queue (Stuck), no
       assert!(!have_full_utxo_index) (AssertFull), no "Previous block did not consume
       all inputs" (NotConsumed), and the queue is empty at the end;
     - both end in the same downstream state, the one of the reference run;
     - in every block a configuration indexes (agree): the (value, stored data) seen for
       every input is the reference one; the fetched values were consumed in exactly the
       order they were requested, each for the very outpoint that was looked up; and
       with a full UTXO index nothing is requested. *)
Theorem C15_config_independent :
  forall (P : Type) (p_empty : P) (node : outpoint -> N) (ranges_of : outpoint -> list (N * N))
         (S : Type) (d_step : S -> N -> tx -> list (N * P) -> S * list P)
         (fih : N) (c1 c2 : cfg) (commits1 commits2 : N -> bool) (s0 : S) (bs : list block),
  let u0 : umap P := fun _ => None in
  let st0 := mkState P (fun _ => None) (fun _ => None) in
  valid_chain P p_empty node ranges_of S d_step c1 fih 0 u0 s0 bs ->
  valid_chain P p_empty node ranges_of S d_step c2 fih 0 u0 s0 bs ->
  exists st1 st2 bts1 bts2,
    process_chain P p_empty node ranges_of S d_step c1 fih commits1 0 st0 s0 [] bs =
      inr (st1, snd (fst (ideal_chain P p_empty S d_step fih 0 u0 s0 bs)), [], bts1) /\
    process_chain P p_empty node ranges_of S d_step c2 fih commits2 0 st0 s0 [] bs =
      inr (st2, snd (fst (ideal_chain P p_empty S d_step fih 0 u0 s0 bs)), [], bts2) /\
    agree P c1 fih 0 bts1 (snd (ideal_chain P p_empty S d_step fih 0 u0 s0 bs)) /\
    agree P c2 fih 0 bts2 (snd (ideal_chain P p_empty S d_step fih 0 u0 s0 bs)).
Proof. exact config_independent. Qed.

(* The single-configuration form, from any height and any state satisfying the
   invariant (used for a chain that continues an existing index). *)
Theorem C15_queue_in_order :
  forall (P : Type) (p_empty : P) (node : outpoint -> N) (ranges_of : outpoint -> list (N * N))
         (S : Type) (d_step : S -> N -> tx -> list (N * P) -> S * list P) (c : cfg) (fih : N)
         (bs : list block) (h : N) (st : state P) (u : umap P) (s : S) (commits : N -> bool),
  J P p_empty node c fih h st u ->
  valid_chain P p_empty node ranges_of S d_step c fih h u s bs ->
  exists (st' : state P) (bts : list (btrace P)),
    process_chain P p_empty node ranges_of S d_step c fih commits h st s [] bs =
      inr (st', snd (fst (ideal_chain P p_empty S d_step fih h u s bs)), [], bts) /\
    agree P c fih h bts (snd (ideal_chain P p_empty S d_step fih h u s bs)).
Proof. exact chain_ok. Qed.

(* Non-vacuity: a two-block chain over an untracked old output (created at height 0,
   first inscription height 1): the configuration without optional indexes requests
   exactly that outpoint, receives its value (0: a zero-value input), and spends a
   same-block output without asking for it. *)
Example C15_nonvacuous :
  run_C15 [1; 1; 7; 0; 0;   2;
           2;  500000; 0; 1; 0; 4294967295; 1; 5000000000;
               1000000; 1; 1; 7; 0; 2; 0; 0;
           3;  500001; 0; 1; 0; 4294967295; 1; 5000000000;
               1000001; 0; 1; 1000000; 1; 1; 0;
               1000002; 0; 2; 1000001; 0; 500000; 0; 1; 5000000000]%Z
  = [1; 7; 0; 1; 0;   0; 1; 0; 2; 0; 5000000000]%Z.
Proof. vm_compute. reflexivity. Qed.

Print Assumptions C15_config_independent.
Print Assumptions C15_queue_in_order.
