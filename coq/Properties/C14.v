(* C14 — Reorganizations within the recoverable depth are fully undone.
   Model: Index/Sched.v (Index::update retry loop, Updater::update_index commit
   triggers, Reorg::{detect_reorg, handle_reorg, is_savepoint_required,
   update_savepoints}); block hashes are ancestry prefixes. *)
From OrdV Require Import Base.Prelude Index.Sched Proofs.Sched_proofs Proofs.Sched_exact.

(* For every reachable durable state (Inv: each retained savepoint is a
   snapshot of a prefix of the indexed blocks), every parameter setting and
   every node chain, Index::update on the repaired code
     - terminates within two passes (any fuel >= 2 gives the same answer: never
       out of fuel) and never panics,
     - if it returns Ok, the indexed blocks are exactly the node's best chain
       (nothing of an abandoned branch is kept), unless the node offers no block
       beyond the index, in which case nothing was touched,
     - otherwise it returns Unrecoverable, the status flag is set and the
       database is untouched,
     - and the resulting state is again reachable-shaped (Inv). *)
Theorem C14_update_total_and_exact : forall p nd st fuel o st' flag tr,
  params_ok p -> fixed p = true -> Inv st -> (2 <= fuel)%nat ->
  update fuel p nd st [] = (o, st', flag, tr) ->
  (o = UOk \/ o = UUnrecoverable) /\
  (o = UOk -> flag = false /\
     (blocks (cur st') = chain nd \/
      (len (chain nd) <= len (blocks (cur st)) /\ st' = st))) /\
  (o = UUnrecoverable -> flag = true /\ st' = st) /\
  Inv st'.
Proof.
  intros p nd st fuel o st' flag tr Hp Hf HI Hfu H.
  destruct (update_fixed p nd st fuel o st' flag tr Hp Hf HI Hfu H) as (A & B & C & D & _).
  repeat split; try assumption; [apply B|apply B|apply C|apply C]; assumption.
Qed.

(* Exactly which reorganisations are undone.  For a reachable store whose
   indexed blocks share l >= 1 blocks with the node's strictly longer best chain
   and then diverge (l < number of indexed blocks): update returns Ok with
   exactly the node's chain indexed if and only if the fork is inside
   detect_reorg's depth bound AND the oldest retained savepoint holds at most the
   l common blocks; in every other case it reports Unrecoverable, sets the flag
   and leaves the database untouched. *)
Theorem C14_recovers_exactly : forall p nd st fuel o st' flag tr,
  params_ok p -> fixed p = true -> Inv st -> (2 <= fuel)%nat ->
  let b := blocks (cur st) in
  let l := N.of_nat (lcp b (chain nd)) in
  1 <= l -> l < len b -> len b < len (chain nd) ->
  update fuel p nd st [] = (o, st', flag, tr) ->
  let recoverable :=
    (len b - l + 1 <? (maxsp p - 1) * interval p + len b mod interval p) &&
    match sps st with
    | [] => false
    | (_, snap) :: _ => len (blocks snap) <=? l
    end in
  (recoverable = true -> o = UOk /\ blocks (cur st') = chain nd) /\
  (recoverable = false -> o = UUnrecoverable /\ st' = st /\ flag = true).
Proof. exact update_fixed_recovers_iff. Qed.

Theorem C14_initial_state_reachable : Inv empty_store.
Proof. exact Inv_empty. Qed.

(* The pinned commit (before the fix: commit) violates the property: after five
   blocks indexed one update each, a two-block reorg makes Index::update loop
   forever — for every amount of fuel the retry loop is still running. *)
Theorem C14_pinned_commit_livelock : forall fuel, exists tr,
  update (S fuel) p_orig nd_fork st_five [] = (UOutOfFuel, st_loop, false, tr).
Proof. exact orig_livelock. Qed.

(* Non-vacuity: the hypotheses are met by a concrete reachable state, and both
   outcomes occur. *)
Example C14_nonvacuous_unrecoverable :
  let p := mkP 10 2 5000 true in
  let '(o, s, fl, _) := update 2 p nd_fork st_five [] in
  o = UUnrecoverable /\ fl = true /\ s = st_five.
Proof. exact fixed_terminates. Qed.

Example C14_nonvacuous_recovered :
  (* interval 3, two savepoints: 7 blocks in one update, 1-deep reorg, recovered *)
  run_sched [3; 2; 5000; 1; 0; 0;  1; 6; 2;  3; 1; 2;  2]%Z =
  [0; 7; 2; 5; 10; 4; 0; 1; 2; 5; 0;   0; 8; 2; 7; 13; 5; 0; 1; 2; 4; 7; 0]%Z.
Proof. vm_compute. reflexivity. Qed.

Print Assumptions C14_update_total_and_exact.
Print Assumptions C14_recovers_exactly.
Print Assumptions C14_initial_state_reachable.
Print Assumptions C14_pinned_commit_livelock.
