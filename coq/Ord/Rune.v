(* Model of crates/ordinals/src/rune.rs (Display, FromStr, commitment, is_reserved,
   minimum_at_height, unlock_height) and crates/ordinals/src/spaced_rune.rs
   (Display, FromStr).  Strings are lists of Unicode scalar values.
   No proofs here (see Proofs/Rune_proofs.v, Proofs/Unlock_proofs.v). *)
From OrdV Require Import Base.Prelude Generated.

(* ---------------------------------------------------------------- errors *)
(* rune::Error *)
Definition E_CHARACTER : N := 1.      (* Error::Character(c) *)
Definition E_RANGE : N := 2.          (* Error::Range *)
(* spaced_rune::Error *)
Definition E_LEADING : N := 11.       (* LeadingSpacer *)
Definition E_TRAILING : N := 12.      (* TrailingSpacer *)
Definition E_DOUBLE : N := 13.        (* DoubleSpacer *)
Definition E_SP_CHARACTER : N := 14.  (* Character(c) *)
(* Error::Rune(e) is modelled as the rune error code e itself (1 or 2). *)

(* ---------------------------------------------------------------- Rune: Display *)
Definition letter (d : N) : N := 65 + d.          (* "ABC…Z".chars().nth(d) *)
Definition is_upper (c : N) : bool := (65 <=? c) && (c <=? 90).   (* 'A'..='Z' *)

(* while n > 0 { symbol.push(letter((n-1) % 26)); n = (n-1)/26 }   — least significant
   letter first; [fuel] bounds the number of iterations (129 > bit length of any n <= 2^128). *)
Fixpoint sym_loop (fuel : nat) (n : N) : list N :=
  match fuel with
  | O => []
  | S f => if n =? 0 then [] else ((n - 1) mod 26) :: sym_loop f ((n - 1) / 26)
  end.

(* the literal returned for u128::MAX (n += 1 would overflow) *)
Definition MAX_NAME : list N :=
  [66;67;71;68;69;78;76;81;82;81;87;68;83;76;82;85;71;83;78;76;66;84;77;70;73;74;65;86].
  (* "BCGDENLQRQWDSLRUGSNLBTMFIJAV" *)

Definition show (n : N) : list N :=
  if n =? U128_MAX then MAX_NAME
  else map letter (rev (sym_loop 129 (n + 1))).     (* for c in symbol.chars().rev() *)

(* ---------------------------------------------------------------- Rune: FromStr *)
Definition cadd128 (a b : N) : Res N := if a + b <? P128 then Ok (a + b) else Err E_RANGE.
Definition cmul128 (a b : N) : Res N := if a * b <? P128 then Ok (a * b) else Err E_RANGE.

(* for (i, c) in s.chars().enumerate() { if i > 0 { x = x.checked_add(1)? } x = x.checked_mul(26)?;
     match c { 'A'..='Z' => x = x.checked_add(c - 'A')?, _ => return Err(Character(c)) } } *)
Fixpoint parse_loop (first : bool) (x : N) (s : list N) : Res N :=
  match s with
  | [] => Ok x
  | c :: r =>
    do x1 <- (if first then Ok x else cadd128 x 1);
    do x2 <- cmul128 x1 26;
    if is_upper c then
      do x3 <- cadd128 x2 (c - 65);
      parse_loop false x3 r
    else Err E_CHARACTER
  end.

(* fixed code (known_findings.txt): if s.is_empty() { return Err(Error::Range) } *)
Definition parse (s : list N) : Res N :=
  match s with [] => Err E_RANGE | _ => parse_loop true 0 s end.

(* ---------------------------------------------------------------- commitment / reserved *)
(* u128::to_le_bytes *)
Fixpoint le_bytes (k : nat) (n : N) : list N :=
  match k with O => [] | S k' => (n mod 256) :: le_bytes k' (n / 256) end.

(* let mut end = bytes.len(); while end > 0 && bytes[end - 1] == 0 { end -= 1 } *)
Fixpoint trim_end (e : nat) (bytes : list N) : nat :=
  match e with
  | O => O
  | S e' => if nth e' bytes 0 =? 0 then trim_end e' bytes else S e'
  end.

Definition commitment (n : N) : list N :=
  let bytes := le_bytes 16 n in firstn (trim_end 16 bytes) bytes.     (* bytes[..end] *)

Definition is_reserved (n : N) : bool := RUNE_RESERVED <=? n.

(* ---------------------------------------------------------------- SpacedRune: Display *)
Definition BULLET : N := 8226.   (* '•' *)
Definition DOT : N := 46.        (* '.' *)

(* for (i, c) in rune.chars().enumerate() { write c; if i < rune.len() - 1 && spacers & (1 << i) != 0 { write '•' } }
   [1 << i] on u32 is evaluated only for i < len - 1 <= 27 (names have at most 28 letters,
   proved in Rune_proofs.show_length_le_28), so it cannot overflow. *)
Fixpoint spaced_show_from (i len sp : N) (cs : list N) : list N :=
  match cs with
  | [] => []
  | c :: r =>
    c :: (if (i <? len - 1) && N.testbit sp i then [BULLET] else [])
      ++ spaced_show_from (i + 1) len sp r
  end.

Definition spaced_show (n sp : N) : list N :=
  let name := show n in spaced_show_from 0 (N.of_nat (length name)) sp name.

(* ---------------------------------------------------------------- SpacedRune: FromStr *)
(* state: rune (letters so far, reversed), len = rune.len(), spacers.
   '.' | '•' => { let flag = 1 << rune.len().checked_sub(1).ok_or(LeadingSpacer)?;
                  if spacers & flag != 0 { return Err(DoubleSpacer) } spacers |= flag }
   The shift is on u32: for rune.len() - 1 >= 32 the unfixed code overflowed (dev profile: panic);
   the fixed code (see known_findings.txt, fix commit) returns Error::Rune(rune::Error::Range). *)
Fixpoint sp_loop (s : list N) (rune : list N) (len sp : N) : Res (list N * N * N) :=
  match s with
  | [] => Ok (rev rune, len, sp)
  | c :: r =>
    if is_upper c then sp_loop r (c :: rune) (len + 1) sp
    else if (c =? DOT) || (c =? BULLET) then
      if len =? 0 then Err E_LEADING
      else if 32 <=? len - 1 then Err E_RANGE
      else if N.testbit sp (len - 1) then Err E_DOUBLE
      else sp_loop r rune len (N.lor sp (2 ^ (len - 1)))
    else Err E_SP_CHARACTER
  end.

(* if 32 - spacers.leading_zeros() >= rune.len() { return Err(TrailingSpacer) }
   32 - leading_zeros = bit length = N.size.  (rune.len().try_into::<u32>().unwrap() cannot fail
   for strings shorter than 2^32 bytes; not modelled.) *)
Definition spaced_parse (s : list N) : Res (N * N) :=
  do '(rune, len, sp) <- sp_loop s [] 0 0;
  if len <=? N.size sp then Err E_TRAILING
  else do n <- parse rune; Ok (n, sp).

(* ---------------------------------------------------------------- unlock schedule (C33) *)
Definition HALVING : N := TXT_SUBSIDY_HALVING_INTERVAL.
Definition UNLOCK_INTERVAL : N := HALVING / RUNE_UNLOCK_PARTS.      (* u32 const *)
Definition step (i : N) : N := nth (N.to_nat i) RUNE_STEPS 0.

(* first_rune_height(network); network index: 0 Bitcoin 1 Testnet 2 Signet 3 Regtest 4 Testnet4 *)
Definition first_rune_height (net : N) : N := HALVING * nth (N.to_nat net) RUNE_FIRST_HEIGHT_MULT 0.

(* minimum_at_height(network, Height(h)), h : u32.  All u32/u128 operations of the source are
   listed; the ones that cannot overflow for the translated constants are plain N operations and
   the bound is part of Unlock_proofs (min_no_overflow). *)
Definition minimum_at_height_start (start h : N) : N :=
  let offset := N.min (h + 1) U32_MAX in                  (* height.0.saturating_add(1) *)
  let end_ := start + HALVING in                          (* u32 add, start <= 12*210000 *)
  if offset <? start then step RUNE_UNLOCKED
  else if end_ <=? offset then 0
  else
    let progress := offset - start in                     (* saturating_sub, offset >= start here *)
    let length := RUNE_UNLOCKED - progress / UNLOCK_INTERVAL in   (* saturating_sub *)
    let e := step (length - 1) in                         (* length >= 1 here *)
    let s := step length in
    let remainder := progress mod UNLOCK_INTERVAL in
    s - ((s - e) * remainder / UNLOCK_INTERVAL).

Definition minimum_at_height (net h : N) : N := minimum_at_height_start (first_rune_height net) h.

(* STEPS.iter().position(|&step| self.0 < step) *)
Fixpoint position_lt (r : N) (l : list N) (i : N) : option N :=
  match l with
  | [] => None
  | s :: t => if r <? s then Some i else position_lt r t (i + 1)
  end.

(* unlock_height(self, network) -> Option<Height>; outer Res for the unwrap sites:
   Panic 1 = position(..).unwrap(), Panic 2 = u32::try_from(..).unwrap(), Panic 3 = u32 overflow *)
Definition unlock_height_start (start r : N) : Res (option N) :=
  if is_reserved r then Ok None
  else if step RUNE_UNLOCKED <=? r then Ok (Some 0)
  else match position_lt r RUNE_STEPS 0 with
  | None => Panic 1
  | Some i =>
    let s := step i in
    let e := if i =? 0 then 0 else step (i - 1) in         (* i.checked_sub(1).map(..).unwrap_or_default() *)
    let interval := s - e in
    let progress := s - r in
    if interval =? 0 then Panic 4 else                     (* division by zero *)
    let q := (progress * UNLOCK_INTERVAL - 1) / interval in
    if U32_MAX <? q then Panic 2 else
    let h := start + (RUNE_UNLOCKED - i) * UNLOCK_INTERVAL + q in
    if U32_MAX <? h then Panic 3 else Ok (Some h)
  end.

Definition unlock_height (net r : N) : Res (option N) := unlock_height_start (first_rune_height net) r.

(* ---------------------------------------------------------------- wire entry points *)
Definition res_out {A} (f : A -> list Z) (r : Res A) : list Z :=
  match r with Ok a => 0%Z :: f a | Err _ => [1%Z] | Panic _ => [(-2)%Z] end.

(* C32:  0 n -> name;  1 chars.. -> parse;  2 n sp -> spaced name;  3 chars.. -> spaced parse;
         4 n -> commitment bytes;  5 n -> [is_reserved].   Errors of any kind are [1]. *)
Definition run_C32 (inp : list Z) : list Z :=
  match inp with
  | 0%Z :: n :: nil => zs (show (nZ n))
  | 1%Z :: s => res_out (fun n => [zN n]) (parse (ns s))
  | 2%Z :: n :: sp :: nil => zs (spaced_show (nZ n) (nZ sp))
  | 3%Z :: s => res_out (fun '(n, sp) => [zN n; zN sp]) (spaced_parse (ns s))
  | 4%Z :: n :: nil => zs (commitment (nZ n))
  | 5%Z :: n :: nil => [zb (is_reserved (nZ n))]
  | _ => [(-1)%Z]
  end.

(* C33:  0 net h -> [minimum_at_height];  1 net r -> unlock_height: [0] None | [1; h] Some | [-2] *)
Definition run_C33 (inp : list Z) : list Z :=
  match inp with
  | 0%Z :: net :: h :: nil => [zN (minimum_at_height (nZ net) (nZ h))]
  | 1%Z :: net :: r :: nil =>
    match unlock_height (nZ net) (nZ r) with
    | Ok None => [0%Z] | Ok (Some h) => [1%Z; zN h] | Err _ => [(-1)%Z] | Panic _ => [(-2)%Z]
    end
  | _ => [(-1)%Z]
  end.
