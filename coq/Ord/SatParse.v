(* Model of the text parsers of crates/ordinals/src/sat.rs: Sat::from_str and its four
   notations (name, degree, percentile, decimal) plus the plain integer, with the helper
   arithmetic of height.rs / epoch.rs they call.  Every Rust arithmetic operation is listed
   with its kind (checked / unchecked; the harness is built in the dev profile, so an
   unchecked overflow is a panic).  Own small model, independent of the C29/C30 Sat model.

   Sat::from_degree and Sat::from_percentile are modelled AFTER the repairs recorded in
   known_findings.txt (checked height arithmetic -> IntegerRange; non-finite percentile
   rejected).

   f64 parsing and f64 arithmetic are NOT modelled: the percentile branch receives the
   classification of Rust's own `str::parse::<f64>` on the text before '%' and the value
   (percentile / 100.0 * LAST).round() as inputs (see [fclass]); only the finiteness / sign /
   range logic of from_percentile is modelled. *)
From OrdV Require Import Base.Prelude Generated Ord.Decimal.

(* error kinds of sat::ErrorKind *)
Definition SE_INTEGER_RANGE : N := 1.
Definition SE_NAME_RANGE : N := 2.
Definition SE_NAME_CHARACTER : N := 3.
Definition SE_PERCENTILE : N := 4.
Definition SE_BLOCK_OFFSET : N := 5.
Definition SE_MISSING_PERIOD : N := 6.
Definition SE_TRAILING : N := 7.
Definition SE_MISSING_DEGREE : N := 8.
Definition SE_MISSING_MINUTE : N := 9.
Definition SE_MISSING_SECOND : N := 10.
Definition SE_PERIOD_OFFSET : N := 11.
Definition SE_EPOCH_OFFSET : N := 12.
Definition SE_MISMATCH : N := 13.
Definition SE_PARSE_INT : N := 14.
Definition SE_PARSE_FLOAT : N := 15.

Definition P32 : N := 4294967296.
Definition P64 : N := 18446744073709551616.

Definition SUPPLY : N := TXT_SAT_SUPPLY.
Definition LAST : N := SUPPLY - 1.
Definition SHI : N := TXT_SUBSIDY_HALVING_INTERVAL.     (* 210000 *)
Definition DCI : N := TXT_DIFFCHANGE_INTERVAL.          (* 2016 *)

Definition C_DEGREE : N := 176.   (* '°' *)
Definition C_MINUTE : N := 8242.  (* '′' *)
Definition C_SECOND : N := 8243.  (* '″' *)
Definition C_THIRD : N := 8244.   (* '‴' *)
Definition C_PERCENT : N := 37.   (* '%' *)

(* map_err(|source| ErrorKind::ParseInt { source }) *)
Definition pint (bound : N) (s : list N) : Res N :=
  match parse_uint bound s with Ok v => Ok v | Err _ => Err SE_PARSE_INT | Panic t => Panic t end.

(* ---------------------------------------------------------------- epoch.rs / height.rs *)
(* Epoch::subsidy: (50 * COIN_VALUE) >> self.0 for self < FIRST_POST_SUBSIDY (shift < 33 < 64) *)
Definition epoch_subsidy (e : N) : N :=
  if e <? TXT_FIRST_POST_SUBSIDY then N.shiftr (50 * COIN_VALUE) e else 0.
(* Epoch::starting_sat: STARTING_SATS.get(e).unwrap_or(last) *)
Definition epoch_starting_sat (e : N) : N := nth (N.to_nat e) TXT_EPOCH_STARTING_SATS SUPPLY.
(* Epoch::from(Height): height / SUBSIDY_HALVING_INTERVAL *)
Definition height_epoch (h : N) : N := h / SHI.
Definition height_subsidy (h : N) : N := epoch_subsidy (height_epoch h).
(* Height::starting_sat: epoch_starting_sat + u64::from(h - epoch.starting_height()) * epoch.subsidy()
   u32: epoch * SHI <= h, no overflow; u64: (h - ..) < 210000, subsidy <= 5*10^9, sum < 2^64 *)
Definition height_starting_sat (h : N) : N :=
  let e := height_epoch h in
  epoch_starting_sat e + (h - e * SHI) * epoch_subsidy e.

(* ---------------------------------------------------------------- from_name *)
Definition is_lower (c : N) : bool := (97 <=? c) && (c <=? 122).

(* x = x * 26 + c as u64 - 'a' as u64 + 1  (u64, unchecked; x <= SUPPLY keeps it far below 2^64);
   if x > SUPPLY { Err(NameRange) } *)
Fixpoint name_loop (x : N) (s : list N) : Res N :=
  match s with
  | [] => Ok x
  | c :: r =>
    if is_lower c then
      let x' := x * 26 + c - 97 + 1 in
      if P64 <=? x * 26 + c then Panic 1                  (* unreachable: proved *)
      else if SUPPLY <? x' then Err SE_NAME_RANGE else name_loop x' r
    else Err SE_NAME_CHARACTER
  end.

Definition from_name (s : list N) : Res N :=
  do x <- name_loop 0 s; Ok (SUPPLY - x).                 (* Sat(SUPPLY - x): x <= SUPPLY *)

(* ---------------------------------------------------------------- from_decimal *)
Definition from_decimal (s : list N) : Res N :=
  match split_once C_DOT s with
  | None => Err SE_MISSING_PERIOD
  | Some (hs, os) =>
    do h <- pint P32 hs;
    do offset <- pint P64 os;
    if height_subsidy h <=? offset then Err SE_BLOCK_OFFSET
    else Ok (height_starting_sat h + offset)              (* Sat + u64, unchecked; < SUPPLY *)
  end.

(* ---------------------------------------------------------------- from_degree *)
Definition HALVING_INCREMENT : N := SHI mod DCI.          (* 336 *)

Definition from_degree (s : list N) : Res N :=
  match split_once C_DEGREE s with
  | None => Err SE_MISSING_DEGREE
  | Some (cs, rest) =>
    do cycle_number <- pint P32 cs;
    match split_once C_MINUTE rest with
    | None => Err SE_MISSING_MINUTE
    | Some (es, rest) =>
      do epoch_offset <- pint P32 es;
      if SHI <=? epoch_offset then Err SE_EPOCH_OFFSET else
      match split_once C_SECOND rest with
      | None => Err SE_MISSING_SECOND
      | Some (ps, rest) =>
        do period_offset <- pint P32 ps;
        if DCI <=? period_offset then Err SE_PERIOD_OFFSET else
        (* u32: period_offset + SHI * CYCLE_EPOCHS - epoch_offset: < 2016 + 1260000, >= 1050000 *)
        let relationship := period_offset + SHI * CYCLE_EPOCHS - epoch_offset in
        if negb (relationship mod HALVING_INCREMENT =? 0) then Err SE_MISMATCH else
        let epochs_since_cycle_start := relationship mod DCI / HALVING_INCREMENT in
        (* fixed code: checked_mul / checked_add on u32, overflow -> IntegerRange *)
        let cycle_start_epoch := cycle_number * CYCLE_EPOCHS in
        if P32 <=? cycle_start_epoch then Err SE_INTEGER_RANGE else
        let epoch := cycle_start_epoch + epochs_since_cycle_start in
        if P32 <=? epoch then Err SE_INTEGER_RANGE else
        if P32 <=? epoch * SHI then Err SE_INTEGER_RANGE else
        let h := epoch * SHI + epoch_offset in
        if P32 <=? h then Err SE_INTEGER_RANGE else
        do '(block_offset, rest) <-
          match split_once C_THIRD rest with
          | Some (bs, rest) => do b <- pint P64 bs; Ok (b, rest)
          | None => Ok (0, rest)
          end;
        if negb (is_nil rest) then Err SE_TRAILING else
        if height_subsidy h <=? block_offset then Err SE_BLOCK_OFFSET
        else Ok (height_starting_sat h + block_offset)
      end
    end
  end.

(* ---------------------------------------------------------------- from_percentile *)
(* classification of `text.parse::<f64>()` and of n = (x / 100.0 * LAST as f64).round(),
   supplied by the harness (trusted f64 semantics):
     FErr          parse error
     FNan          NaN
     FInf          +-infinity
     FNeg          finite, x < 0.0
     FVal n        finite, not (x < 0.0) (this includes -0.0); n as a natural number *)
Inductive fclass := FErr | FNan | FInf | FNeg | FVal (n : N).

Definition last_char (s : list N) : option N := match rev s with c :: _ => Some c | [] => None end.

Definition from_percentile (fc : fclass) (s : list N) : Res N :=
  match last_char s with
  | Some c =>
    if negb (c =? C_PERCENT) then Err SE_PERCENTILE else
    match fc with
    | FErr => Err SE_PARSE_FLOAT
    | FNan | FInf => Err SE_PERCENTILE       (* fixed code: !percentile.is_finite() *)
    | FNeg => Err SE_PERCENTILE              (* percentile < 0.0 *)
    | FVal n => if LAST <? n then Err SE_PERCENTILE else Ok n   (* n > last; n as u64 *)
    end
  | None => Err SE_PERCENTILE
  end.

(* ---------------------------------------------------------------- Sat::from_str *)
Definition contains (c : N) (s : list N) : bool := existsb (N.eqb c) s.

Definition sat_from_str (fc : fclass) (s : list N) : Res N :=
  if existsb is_lower s then from_name s
  else if contains C_DEGREE s then from_degree s
  else if contains C_PERCENT s then from_percentile fc s
  else if contains C_DOT s then from_decimal s
  else
    do n <- pint P64 s;
    if LAST <? n then Err SE_INTEGER_RANGE else Ok n.
