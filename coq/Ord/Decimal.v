(* Model of src/decimal.rs (Decimal::from_str, Decimal::to_integer) and of
   crates/ordinals/src/pile.rs (Display for Pile), plus Rust's unsigned integer parsing.
   Strings are lists of Unicode scalar values.  No proofs here (see Proofs/Decimal_proofs.v).

   Decimal::from_str is modelled AFTER the repairs recorded in known_findings.txt
   (fixed: property=C31 ...): the scale conversion and the final multiply-add are checked and
   return errors, the fractional part must consist of ASCII digits only. *)
From OrdV Require Import Base.Prelude.

(* error kinds (not observed on the wire; any error is one class) *)
Definition E_PARSEINT : N := 1.      (* ParseIntError: empty / invalid digit / overflow *)
Definition E_EMPTY : N := 2.         (* "empty decimal" *)
Definition E_TZ : N := 3.            (* "excessive trailing zeros" *)
Definition E_PRECISION : N := 4.     (* more than 255 significant fractional digits / to_integer: "excessive precision" *)
Definition E_AMOUNT : N := 5.        (* "amount out of range" *)
Definition E_DIVISIBILITY : N := 6.  (* "divisibility out of range" *)

Definition C_DOT : N := 46.
Definition C_PLUS : N := 43.
Definition C_ZERO : N := 48.
Definition C_NBSP : N := 160.
Definition C_CURRENCY : N := 164.    (* '¤' *)

(* ---------------------------------------------------------------- integer parsing *)
Definition is_digit (c : N) : bool := (48 <=? c) && (c <=? 57).

Fixpoint dec_val_acc (acc : N) (s : list N) : N :=
  match s with [] => acc | c :: r => dec_val_acc (acc * 10 + (c - 48)) r end.
(* mathematical value of a digit string (unbounded) *)
Definition dec_val (s : list N) : N := dec_val_acc 0 s.

(* <uN as FromStr>::from_str: optional leading '+', then at least one ASCII digit, nothing else;
   a value that does not fit the type is an error (PosOverflow).  [bound] = 2^bits. *)
Definition parse_uint (bound : N) (s : list N) : Res N :=
  let body := match s with c :: r => if c =? C_PLUS then r else s | [] => s end in
  match body with
  | [] => Err E_PARSEINT
  | _ => if forallb is_digit body
         then (if dec_val body <? bound then Ok (dec_val body) else Err E_PARSEINT)
         else Err E_PARSEINT
  end.

(* str::split_once(c): split at the first occurrence *)
Fixpoint split_once (c : N) (s : list N) : option (list N * list N) :=
  match s with
  | [] => None
  | x :: r =>
    if x =? c then Some ([], r)
    else match split_once c r with Some (a, b) => Some (x :: a, b) | None => None end
  end.

(* decimal.chars().rev().take_while(|c| *c == '0').count() *)
Fixpoint count_leading_zero_chars (s : list N) : nat :=
  match s with c :: r => if c =? C_ZERO then S (count_leading_zero_chars r) else O | [] => O end.
Definition trailing_zero_chars (s : list N) : nat := count_leading_zero_chars (rev s).

Definition is_nil {A} (l : list A) : bool := match l with [] => true | _ => false end.

(* ---------------------------------------------------------------- Decimal::from_str *)
(* let integer = if integer.is_empty() { 0 } else { integer.parse::<u128>()? }; *)
Definition int_part (i : list N) : Res N := if is_nil i then Ok 0 else parse_uint P128 i.

(* let (decimal, scale) = if decimal.is_empty() { (0, 0) } else { ... } *)
Definition frac_part (f : list N) : Res (N * N) :=
  if is_nil f then Ok (0, 0) else
  if negb (forallb is_digit f) then Err E_PARSEINT else             (* fix: digits only *)
  let tz := N.of_nat (trailing_zero_chars f) in
  let sig := N.of_nat (length f) - tz in
  do dv <- parse_uint P128 f;
  if P128 <=? 10 ^ tz then Err E_TZ else                            (* checked_pow *)
  if 255 <? sig then Err E_PRECISION else                           (* fix: u8::try_from checked *)
  Ok (dv / 10 ^ tz, sig).

Definition dec_from_str (s : list N) : Res (N * N) :=
  match split_once C_DOT s with
  | Some (i, f) =>
    if is_nil i && is_nil f then Err E_EMPTY else
    do integer <- int_part i;
    do '(decimal, scale) <- frac_part f;
    (* fix: 10u128.checked_pow(scale), checked_mul, checked_add *)
    if P128 <=? 10 ^ scale then Err E_AMOUNT else
    if P128 <=? integer * 10 ^ scale then Err E_AMOUNT else
    if P128 <=? integer * 10 ^ scale + decimal then Err E_AMOUNT else
    Ok (integer * 10 ^ scale + decimal, scale)
  | None => do v <- parse_uint P128 s; Ok (v, 0)
  end.

(* ---------------------------------------------------------------- Decimal::to_integer *)
(* divisibility.checked_sub(scale) -> None: "excessive precision";
   10u128.checked_pow(difference) -> None: "divisibility out of range";
   value.checked_mul(..) -> None: "amount out of range" *)
Definition to_integer (value scale divisibility : N) : Res N :=
  if divisibility <? scale then Err E_PRECISION else
  let difference := divisibility - scale in
  if P128 <=? 10 ^ difference then Err E_DIVISIBILITY else
  if P128 <=? value * 10 ^ difference then Err E_AMOUNT else
  Ok (value * 10 ^ difference).

(* ---------------------------------------------------------------- integer printing *)
(* decimal digits of n, most significant first; "0" for 0 (Display for u128) *)
Fixpoint digits_acc (fuel : nat) (n : N) (acc : list N) : list N :=
  match fuel with
  | O => acc
  | S f => if n <? 10 then (48 + n) :: acc else digits_acc f (n / 10) ((48 + n mod 10) :: acc)
  end.
Definition show_uint (n : N) : list N := digits_acc (S (N.to_nat (N.size n))) n [].

(* {x:0>width$}: left-pad with '0' to at least [width] characters *)
Definition pad_zeros (width : nat) (s : list N) : list N := repeat C_ZERO (width - length s) ++ s.

(* ---------------------------------------------------------------- Pile: Display *)
(* while fractional % 10 == 0 { fractional /= 10; width -= 1 }   (fractional > 0) *)
Fixpoint strip_zeros (fuel : nat) (fractional : N) (width : nat) : N * nat :=
  match fuel with
  | O => (fractional, width)
  | S f => if fractional mod 10 =? 0 then strip_zeros f (fractional / 10) (width - 1)
           else (fractional, width)
  end.

(* the number printed before the no-break space; Panic 1 = 10u128.checked_pow(divisibility).unwrap() *)
Definition pile_number (amount divisibility : N) : Res (list N) :=
  if P128 <=? 10 ^ divisibility then Panic 1 else
  let cutoff := 10 ^ divisibility in
  let whole := amount / cutoff in
  let fractional := amount mod cutoff in
  if fractional =? 0 then Ok (show_uint whole)
  else
    let '(fr, width) := strip_zeros (N.to_nat divisibility) fractional (N.to_nat divisibility) in
    Ok (show_uint whole ++ [C_DOT] ++ pad_zeros width (show_uint fr)).

Definition pile_show (amount divisibility : N) (symbol : option N) : Res (list N) :=
  do num <- pile_number amount divisibility;
  Ok (num ++ [C_NBSP; match symbol with Some c => c | None => C_CURRENCY end]).

(* ---------------------------------------------------------------- wire entry point *)
Definition res_outD {A} (f : A -> list Z) (r : Res A) : list Z :=
  match r with Ok a => 0%Z :: f a | Err _ => [1%Z] | Panic _ => [(-2)%Z] end.

(* C34:  0 amount div sym  -> 0 :: printed pile (sym = 0: None)        | [-2]
         1 div chars..     -> Decimal::from_str then to_integer(div):
                              [0; value; scale; 0; integer] | [0; value; scale; 1] (to_integer error) | [1] (parse error)
         2 value scale div -> to_integer: [0; n] | [1] *)
Definition run_C34 (inp : list Z) : list Z :=
  match inp with
  | 0%Z :: a :: d :: sym :: nil =>
    res_outD zs (pile_show (nZ a) (nZ d) (if (sym =? 0)%Z then None else Some (nZ sym)))
  | 1%Z :: d :: s =>
    match dec_from_str (ns s) with
    | Ok (v, sc) =>
      match to_integer v sc (nZ d) with
      | Ok n => [0%Z; zN v; zN sc; 0%Z; zN n]
      | Err _ => [0%Z; zN v; zN sc; 1%Z]
      | Panic _ => [(-2)%Z]
      end
    | Err _ => [1%Z]
    | Panic _ => [(-2)%Z]
    end
  | 2%Z :: v :: sc :: d :: nil => res_outD (fun n => [zN n]) (to_integer (nZ v) (nZ sc) (nZ d))
  | _ => [(-1)%Z]
  end.
