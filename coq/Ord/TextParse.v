(* Model of the remaining text parsers of C31 and the wire entry point:
   RuneId::from_str (crates/ordinals/src/rune_id.rs), plus the dispatcher run_C31 over
   Sat (Ord/SatParse.v), Rune / SpacedRune (Ord/Rune.v), Decimal (Ord/Decimal.v). *)
From OrdV Require Import Base.Prelude Generated Ord.Decimal Ord.Rune Ord.SatParse.

(* ---------------------------------------------------------------- RuneId::from_str *)
Definition RE_SEPARATOR : N := 1.
Definition RE_BLOCK : N := 2.
Definition RE_TX : N := 3.
Definition C_COLON : N := 58.

(* let (height, index) = s.split_once(':').ok_or(Separator)?;
   block: height.parse::<u64>(), tx: index.parse::<u32>() *)
Definition rune_id_from_str (s : list N) : Res (N * N) :=
  match split_once C_COLON s with
  | None => Err RE_SEPARATOR
  | Some (hs, is_) =>
    match parse_uint P64 hs with
    | Ok b => match parse_uint P32 is_ with
              | Ok t => Ok (b, t) | Err _ => Err RE_TX | Panic t => Panic t end
    | Err _ => Err RE_BLOCK
    | Panic t => Panic t
    end
  end.

(* ---------------------------------------------------------------- wire entry point *)
Definition outR {A} (f : A -> list Z) (r : Res A) : list Z :=
  match r with Ok a => 0%Z :: f a | Err _ => [1%Z] | Panic _ => [(-2)%Z] end.

Definition fclass_of (k n : Z) : fclass :=
  match k with
  | 1%Z => FNan | 2%Z => FInf | 3%Z => FNeg | 4%Z => FVal (nZ n) | _ => FErr
  end.

(* C31:  0 fk fn chars.. -> Sat::from_str (fk, fn: trusted f64 classification, see SatParse.fclass)
         1 chars..       -> Rune::from_str
         2 chars..       -> SpacedRune::from_str
         3 chars..       -> RuneId::from_str
         4 chars..       -> Decimal::from_str
   Ok -> 0 :: value components; any error -> [1]; panic -> [-2] *)
Definition run_C31 (inp : list Z) : list Z :=
  match inp with
  | 0%Z :: fk :: fn :: s => outR (fun n => [zN n]) (sat_from_str (fclass_of fk fn) (ns s))
  | 1%Z :: s => outR (fun n => [zN n]) (parse (ns s))
  | 2%Z :: s => outR (fun '(n, sp) => [zN n; zN sp]) (spaced_parse (ns s))
  | 3%Z :: s => outR (fun '(b, t) => [zN b; zN t]) (rune_id_from_str (ns s))
  | 4%Z :: s => outR (fun '(v, sc) => [zN v; zN sc]) (dec_from_str (ns s))
  | _ => [(-1)%Z]
  end.
