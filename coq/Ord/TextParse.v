(* Model of the remaining text parsers of C31 and the wire entry point:
   RuneId::from_str (crates/ordinals/src/rune_id.rs), plus the dispatcher run_C31 over
   Sat (Ord/SatParse.v), Rune / SpacedRune (Ord/Rune.v), Decimal (Ord/Decimal.v). *)
From OrdV Require Import Base.Prelude Generated Ord.Decimal Ord.Rune Ord.SatParse.

(* ---------------------------------------------------------------- RuneId::from_str *)
Definition RE_SEPARATOR : N := 1.
Definition RE_BLOCK : N := 2.
Definition RE_TX : N := 3.
Definition C_COLON : N := 58.

(* let (height, index) = s.split_once(':').ok_or(Separator)?;
   block: height.parse::<u64>(), tx: index.parse::<u32>() *)
Definition rune_id_from_str (s : list N) : Res (N * N) :=
  match split_once C_COLON s with
  | None => Err RE_SEPARATOR
  | Some (hs, is_) =>
    match parse_uint P64 hs with
    | Ok b => match parse_uint P32 is_ with
              | Ok t => Ok (b, t) | Err _ => Err RE_TX | Panic t => Panic t end
    | Err _ => Err RE_BLOCK
    | Panic t => Panic t
    end
  end.

(* ---------------------------------------------------------------- hex hashes (rust-bitcoin) *)
(* Txid / BlockHash FromStr (bitcoin_hashes + hex-conservative): exactly 64 ASCII hex digits of
   either case; the value is the number written (display order).  Library code, modelled by
   hand and validated only through the correspondence run. *)
Definition hex_digit (c : N) : option N :=
  if (48 <=? c) && (c <=? 57) then Some (c - 48)
  else if (97 <=? c) && (c <=? 102) then Some (c - 87)
  else if (65 <=? c) && (c <=? 70) then Some (c - 55)
  else None.
Definition is_hex (c : N) : bool := match hex_digit c with Some _ => true | None => false end.
Fixpoint hex_val_acc (acc : N) (s : list N) : N :=
  match s with
  | [] => acc
  | c :: r => hex_val_acc (acc * 16 + match hex_digit c with Some d => d | None => 0 end) r
  end.
Definition hex_val (s : list N) : N := hex_val_acc 0 s.
Definition hash_from_str (s : list N) : Res N :=
  if (length s =? 64)%nat && forallb is_hex s then Ok (hex_val s) else Err 1.

Definition is_ascii (c : N) : bool := c <? 128.

(* ---------------------------------------------------------------- InscriptionId::from_str *)
Definition C_I : N := 105.   (* 'i' *)
(* non-ASCII char -> Character; len < 66 -> Length; s[..64] txid; char 64 must be 'i';
   s[65..].parse::<u32>() *)
Definition inscription_id_from_str (s : list N) : Res (N * N) :=
  if negb (forallb is_ascii s) then Err 1 else
  if (length s <? 66)%nat then Err 2 else
  let txid := firstn 64 s in
  match nth_error s 64 with
  | None => Panic 1                                   (* s.chars().nth(64).unwrap(): len >= 66 *)
  | Some sep =>
    if negb (sep =? C_I) then Err 3 else
    match hash_from_str txid with
    | Ok t => match parse_uint P32 (skipn 65 s) with
              | Ok i => Ok (t, i) | Err _ => Err 5 | Panic p => Panic p end
    | Err _ => Err 4
    | Panic p => Panic p
    end
  end.

(* ---------------------------------------------------------------- OutPoint / SatPoint *)
(* str::rsplit_once(c): split at the last occurrence *)
Definition rsplit_once (c : N) (s : list N) : option (list N * list N) :=
  match split_once c (rev s) with
  | Some (b, a) => Some (rev a, rev b)
  | None => None
  end.

(* rust-bitcoin 0.32 OutPoint::from_str: len > 75 -> TooLong; exactly one ':' not at either
   end; txid hex; parse_vout: more than one char starting with '0' or '+' -> VoutNotCanonical,
   else u32.  Byte lengths are only taken of ASCII strings here (a non-ASCII string is rejected
   on every path), so char counts are used.  Library code, modelled by hand. *)
Definition outpoint_from_str (s : list N) : Res (N * N) :=
  if negb (forallb is_ascii s) then Err 1 else
  if (75 <? length s)%nat then Err 2 else
  match split_once C_COLON s with
  | None => Err 3
  | Some (t, v) =>
    if existsb (N.eqb C_COLON) v then Err 3 else
    if is_nil t || is_nil v then Err 3 else
    match hash_from_str t with
    | Ok txid =>
      let noncanonical := match v with
                          | c :: _ :: _ => (c =? C_ZERO) || (c =? C_PLUS)
                          | _ => false end in
      if noncanonical then Err 5 else
      match parse_uint P32 v with
      | Ok vout => Ok (txid, vout) | Err _ => Err 6 | Panic p => Panic p end
    | Err _ => Err 4
    | Panic p => Panic p
    end
  end.

(* SatPoint::from_str: rsplit_once(':'), OutPoint, offset.parse::<u64>() *)
Definition satpoint_from_str (s : list N) : Res (N * N * N) :=
  match rsplit_once C_COLON s with
  | None => Err 1
  | Some (o, off) =>
    match outpoint_from_str o with
    | Ok (txid, vout) =>
      match parse_uint P64 off with
      | Ok n => Ok (txid, vout, n) | Err _ => Err 3 | Panic p => Panic p end
    | Err _ => Err 2
    | Panic p => Panic p
    end
  end.

(* ---------------------------------------------------------------- explorer queries *)
(* i32::from_str: optional sign, digits; -2^31 ..= 2^31-1 *)
Definition C_MINUS : N := 45.
Definition parse_i32 (s : list N) : Res Z :=
  match s with
  | c :: r =>
    if c =? C_MINUS then
      match r with
      | [] => Err 1
      | _ => if forallb is_digit r then
               (if dec_val r <=? 2147483648 then Ok (- Z.of_N (dec_val r))%Z else Err 1)
             else Err 1
      end
    else match parse_uint 2147483648 s with Ok v => Ok (Z.of_N v) | Err e => Err e | Panic p => Panic p end
  | [] => Err 1
  end.

(* re::INSCRIPTION_ID  ^[[:xdigit:]]{64}i\d+$ ; \d is modelled as an ASCII digit: a string with a
   non-ASCII digit is rejected on every path of the callers (see props/C31.json) *)
Definition re_inscription_id (s : list N) : bool :=
  (66 <=? length s)%nat && forallb is_hex (firstn 64 s) &&
  match nth_error s 64 with Some c => c =? C_I | None => false end &&
  forallb is_digit (skipn 65 s).

(* re::INSCRIPTION_NUMBER  ^-?[0-9]{1,63}$ *)
Definition re_number_63 (s : list N) : bool :=
  let body := match s with c :: r => if c =? C_MINUS then r else s | [] => s end in
  (1 <=? length body)%nat && (length body <=? 63)%nat && forallb is_digit body.

(* re::RUNE_NUMBER  ^-?[0-9]+$ *)
Definition re_number (s : list N) : bool :=
  let body := match s with c :: r => if c =? C_MINUS then r else s | [] => s end in
  (1 <=? length body)%nat && forallb is_digit body.

(* re::SAT_NAME  ^[a-z]{1,11}$ *)
Definition re_sat_name (s : list N) : bool :=
  (1 <=? length s)%nat && (length s <=? 11)%nat && forallb is_lower s.

Inductive qinscription := QId (txid index : N) | QNumber (n : Z) | QSat (n : N).
Inductive qrune := RSpaced (n sp : N) | RId (b t : N) | RNumber (n : N).
Inductive qblock := BHeight (h : N) | BHash (h : N).

(* query::Block: s.len() == 64 (bytes) -> BlockHash else u32.  A non-ASCII string fails on both
   paths, so the byte length is only needed for ASCII strings. *)
Definition query_block (s : list N) : Res qblock :=
  if negb (forallb is_ascii s) then Err 1 else
  if (length s =? 64)%nat then
    match hash_from_str s with Ok h => Ok (BHash h) | Err e => Err e | Panic p => Panic p end
  else match parse_uint P32 s with Ok h => Ok (BHeight h) | Err e => Err e | Panic p => Panic p end.

Definition query_inscription (fc : fclass) (s : list N) : Res qinscription :=
  if re_inscription_id s then
    match inscription_id_from_str s with Ok (t, i) => Ok (QId t i) | Err e => Err e | Panic p => Panic p end
  else if re_number_63 s then
    match parse_i32 s with Ok n => Ok (QNumber n) | Err e => Err e | Panic p => Panic p end
  else if re_sat_name s then
    match sat_from_str fc s with Ok n => Ok (QSat n) | Err e => Err e | Panic p => Panic p end
  else Err 9.

Definition query_rune (s : list N) : Res qrune :=
  if existsb (N.eqb C_COLON) s then
    match rune_id_from_str s with Ok (b, t) => Ok (RId b t) | Err e => Err e | Panic p => Panic p end
  else if re_number s then
    match parse_uint P64 s with Ok n => Ok (RNumber n) | Err e => Err e | Panic p => Panic p end
  else
    match spaced_parse s with Ok (n, sp) => Ok (RSpaced n sp) | Err e => Err e | Panic p => Panic p end.

(* ---------------------------------------------------------------- Outgoing::from_str *)
(* The five regexes of src/outgoing.rs / src/re.rs as recognisers on code-point lists.
   \d is modelled as an ASCII digit (a string containing a non-ASCII digit is rejected on every
   path except the Amount one, which the harness never feeds such digits; see props/C31.json);
   \s is the Unicode White_Space set. *)
Definition is_ws (c : N) : bool :=
  ((9 <=? c) && (c <=? 13)) || (c =? 32) || (c =? 133) || (c =? 160) || (c =? 5760) ||
  ((8192 <=? c) && (c <=? 8202)) || (c =? 8232) || (c =? 8233) || (c =? 8239) || (c =? 8287) ||
  (c =? 12288).

(* ( \d+ | \.\d+ | \d+\.\d+ ) *)
Definition is_num (s : list N) : bool :=
  match split_once C_DOT s with
  | None => negb (is_nil s) && forallb is_digit s
  | Some (i, f) => negb (is_nil f) && forallb is_digit i && forallb is_digit f
  end.

Fixpoint drop_ws (s : list N) : list N :=
  match s with c :: r => if is_ws c then drop_ws r else s | [] => [] end.
Definition drop_trailing_ws (s : list N) : list N := rev (drop_ws (rev s)).

Definition is_rune_char (c : N) : bool := is_upper c || (c =? BULLET) || (c =? DOT).

(* RUNE  ^(num)\s*:\s*([A-Z•.]+)$  -> the two captures *)
Definition re_rune (s : list N) : option (list N * list N) :=
  match split_once C_COLON s with
  | None => None
  | Some (l, r) =>
    let num := drop_trailing_ws l in
    let name := drop_ws r in
    if is_num num && negb (is_nil name) && forallb is_rune_char name then Some (num, name) else None
  end.

(* re::SATPOINT  ^[[:xdigit:]]{64}:\d+:\d+$ *)
Definition re_satpoint (s : list N) : bool :=
  (65 <=? length s)%nat && forallb is_hex (firstn 64 s) &&
  match nth_error s 64 with Some c => c =? C_COLON | None => false end &&
  match split_once C_COLON (skipn 65 s) with
  | Some (a, b) => negb (is_nil a) && forallb is_digit a && negb (is_nil b) && forallb is_digit b
  | None => false
  end.

(* AMOUNT  ^(num)\ ?(bit|btc|cbtc|mbtc|msat|nbtc|pbtc|sat|satoshi|ubtc)(s)?$ *)
Definition UNITS : list (list N) :=
  [[98;105;116]; [98;116;99]; [99;98;116;99]; [109;98;116;99]; [109;115;97;116]; [110;98;116;99];
   [112;98;116;99]; [115;97;116]; [115;97;116;111;115;104;105]; [117;98;116;99]].
Fixpoint list_N_eqb (a b : list N) : bool :=
  match a, b with
  | [], [] => true
  | x :: a', y :: b' => (x =? y) && list_N_eqb a' b'
  | _, _ => false
  end.
Definition is_unit (s : list N) : bool :=
  existsb (fun u => list_N_eqb s u || list_N_eqb s (u ++ [115])) UNITS.
Fixpoint span_numchars (s : list N) : list N * list N :=
  match s with
  | c :: r => if is_digit c || (c =? C_DOT) then let '(a, b) := span_numchars r in (c :: a, b) else ([], s)
  | [] => ([], [])
  end.
Definition re_amount (s : list N) : bool :=
  let '(num, rest) := span_numchars s in
  is_num num &&
  (is_unit rest || match rest with c :: r => (c =? 32) && is_unit r | [] => false end).

Inductive outgoing :=
| OSat (n : N) | OSatPoint (t v o : N) | OInscriptionId (t i : N)
| OAmount                      (* dispatched to bitcoin::Amount::from_str (rust-bitcoin; not modelled) *)
| ORune (value scale n sp : N).

Definition outgoing_from_str (s : list N) : Res outgoing :=
  if re_sat_name s then
    match sat_from_str FErr s with Ok n => Ok (OSat n) | Err e => Err e | Panic p => Panic p end
  else if re_satpoint s then
    match satpoint_from_str s with Ok (t, v, o) => Ok (OSatPoint t v o) | Err e => Err e | Panic p => Panic p end
  else if re_inscription_id s then
    match inscription_id_from_str s with Ok (t, i) => Ok (OInscriptionId t i) | Err e => Err e | Panic p => Panic p end
  else if re_amount s then Ok OAmount
  else match re_rune s with
  | Some (num, name) =>
    match dec_from_str num with
    | Ok (v, sc) =>
      match spaced_parse name with
      | Ok (n, sp) => Ok (ORune v sc n sp) | Err e => Err e | Panic p => Panic p end
    | Err e => Err e
    | Panic p => Panic p
    end
  | None => Err 9
  end.

(* ---------------------------------------------------------------- wire entry point *)
Definition outR {A} (f : A -> list Z) (r : Res A) : list Z :=
  match r with Ok a => 0%Z :: f a | Err _ => [1%Z] | Panic _ => [(-2)%Z] end.

(* a 256-bit hash as two 128-bit halves *)
Definition hash_out (h : N) : list Z := [zN (h / P128); zN (h mod P128)].

Definition fclass_of (k n : Z) : fclass :=
  match k with
  | 1%Z => FNan | 2%Z => FInf | 3%Z => FNeg | 4%Z => FVal (nZ n) | _ => FErr
  end.

(* C31:  0 fk fn chars.. -> Sat::from_str (fk, fn: trusted f64 classification, see SatParse.fclass)
         1 chars..       -> Rune::from_str
         2 chars..       -> SpacedRune::from_str
         3 chars..       -> RuneId::from_str
         4 chars..       -> Decimal::from_str
         5 chars..       -> InscriptionId::from_str   0 :: txid_hi txid_lo index
         6 chars..       -> SatPoint::from_str        0 :: txid_hi txid_lo vout offset
         7 chars..       -> Outgoing::from_str        0 :: variant :: fields | [4] amount branch | [1]
         8 / 9 / 10 chars.. -> explorer queries Block / Inscription / Rune (0 :: variant tag :: fields)
   Ok -> 0 :: value components; any error -> [1]; panic -> [-2] *)
Definition run_C31 (inp : list Z) : list Z :=
  match inp with
  | 0%Z :: fk :: fn :: s => outR (fun n => [zN n]) (sat_from_str (fclass_of fk fn) (ns s))
  | 1%Z :: s => outR (fun n => [zN n]) (parse (ns s))
  | 2%Z :: s => outR (fun '(n, sp) => [zN n; zN sp]) (spaced_parse (ns s))
  | 3%Z :: s => outR (fun '(b, t) => [zN b; zN t]) (rune_id_from_str (ns s))
  | 4%Z :: s => outR (fun '(v, sc) => [zN v; zN sc]) (dec_from_str (ns s))
  | 5%Z :: s => outR (fun '(t, i) => hash_out t ++ [zN i]) (inscription_id_from_str (ns s))
  | 6%Z :: s => outR (fun '(t, v, o) => hash_out t ++ [zN v; zN o]) (satpoint_from_str (ns s))
  | 7%Z :: s =>
    match outgoing_from_str (ns s) with
    | Ok OAmount => [4%Z]
    | Ok (OSat n) => [0%Z; 0%Z; zN n]
    | Ok (OSatPoint t v o) => [0%Z; 1%Z] ++ hash_out t ++ [zN v; zN o]
    | Ok (OInscriptionId t i) => [0%Z; 2%Z] ++ hash_out t ++ [zN i]
    | Ok (ORune v sc n sp) => [0%Z; 3%Z; zN v; zN sc; zN n; zN sp]
    | Err _ => [1%Z]
    | Panic _ => [(-2)%Z]
    end
  | 8%Z :: s => outR (fun q => match q with BHeight h => [0%Z; zN h] | BHash h => 1%Z :: hash_out h end)
                     (query_block (ns s))
  | 9%Z :: s => outR (fun q => match q with
                               | QId t i => 0%Z :: hash_out t ++ [zN i]
                               | QNumber n => [1%Z; n]
                               | QSat n => [2%Z; zN n] end)
                     (query_inscription FErr (ns s))
  | 10%Z :: s => outR (fun q => match q with
                                | RSpaced n sp => [0%Z; zN n; zN sp]
                                | RId b t => [1%Z; zN b; zN t]
                                | RNumber n => [2%Z; zN n] end)
                      (query_rune (ns s))
  | _ => [(-1)%Z]
  end.
