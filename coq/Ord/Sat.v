(* Model of crates/ordinals/src/{epoch,height,sat,degree,decimal_sat,rarity,charm}.rs:
   the sat-numbering arithmetic and the attributes derived from it.
   Tables and literals come from Generated.v (translated from the Rust source).

   Integer widths.  Epoch.0 / Height.0 are u32, Sat.0 is u64.  Every Rust
   expression on the modelled paths that can overflow, underflow, divide by zero
   or fail a try_from in the dev profile is modelled as [Panic tag]:
     1  Sat::height   `epoch_position / subsidy`  division by zero (epoch 33, i.e. n >= SUPPLY)
     2  Sat::height   u32::try_from(..).unwrap()
     3  Sat::height   Height + u32 overflow
     4  Sat::third    `epoch_position % subsidy` remainder by zero
     5  Sat::palindrome  `reversed * 10 + n % 10` u64 overflow
     6  Epoch::starting_height  `self.0 * SUBSIDY_HALVING_INTERVAL` u32 overflow
     7  Sat::name     `Self::SUPPLY - self.0` u64 underflow
   Expressions that cannot fail are written with plain N arithmetic and the
   reason is given next to them (and proved in Proofs/Sat_proofs.v where it is
   not immediate: [epoch_start_le] for the subtraction in epoch_position). *)
From OrdV Require Import Base.Prelude Generated.

(* ---------- epoch.rs ---------- *)

(* Epoch::subsidy: if self < FIRST_POST_SUBSIDY { (50 * COIN_VALUE) >> self.0 } else { 0 } *)
Definition epoch_subsidy (e : N) : N :=
  if e <? FIRST_POST_SUBSIDY then N.shiftr (INITIAL_SUBSIDY_COINS * COIN_VALUE) e else 0.

(* Epoch::starting_sat: *STARTING_SATS.get(self.0 as usize).unwrap_or_else(|| STARTING_SATS.last().unwrap()) *)
Definition epoch_starting_sat (e : N) : N :=
  if e <? N.of_nat (length STARTING_SATS)
  then nth (N.to_nat e) STARTING_SATS 0
  else last STARTING_SATS 0.

(* Epoch::starting_height: Height(self.0 * SUBSIDY_HALVING_INTERVAL), u32 *)
Definition epoch_starting_height (e : N) : Res N :=
  if e * SUBSIDY_HALVING_INTERVAL <=? U32_MAX then Ok (e * SUBSIDY_HALVING_INTERVAL) else Panic 6.

(* impl From<Sat> for Epoch: if sat < STARTING_SATS[i1] { Epoch(e1) } else if ... else { Epoch(d) } *)
Fixpoint epoch_chain (idx eps : list N) (dflt n : N) : N :=
  match idx, eps with
  | i :: idx', e :: eps' =>
    if n <? nth (N.to_nat i) STARTING_SATS 0 then e else epoch_chain idx' eps' dflt n
  | _, _ => dflt
  end.
Definition epoch_of_sat (n : N) : N := epoch_chain EPOCH_CHAIN_INDEX EPOCH_CHAIN_EPOCH EPOCH_CHAIN_ELSE n.

(* impl From<Height> for Epoch *)
Definition epoch_of_height (h : N) : N := h / SUBSIDY_HALVING_INTERVAL.

(* ---------- height.rs ---------- *)

Definition height_subsidy (h : N) : N := epoch_subsidy (epoch_of_height h).

(* Height::starting_sat.  epoch.starting_height() = (h / I) * I <= h: no u32 overflow,
   `self.n() - epoch_starting_height.n()` = h mod I: no underflow; the u64 product and
   sum are below 2^51 + 2^32 * 2^33 < 2^64 for every u32 height. *)
Definition height_starting_sat (h : N) : N :=
  let e := epoch_of_height h in
  epoch_starting_sat e + (h - e * SUBSIDY_HALVING_INTERVAL) * epoch_subsidy e.

Definition height_period_offset (h : N) : N := h mod DIFFCHANGE_INTERVAL.

(* ---------- sat.rs ---------- *)

(* Sat::epoch_position: self.0 - self.epoch().starting_sat().0   (no underflow: epoch_start_le) *)
Definition sat_epoch_position (n : N) : N := n - epoch_starting_sat (epoch_of_sat n).

(* Sat::height: self.epoch().starting_height() + u32::try_from(self.epoch_position() / self.epoch().subsidy()).unwrap() *)
Definition sat_height (n : N) : Res N :=
  let e := epoch_of_sat n in
  do sh <- epoch_starting_height e;
  if epoch_subsidy e =? 0 then Panic 1 else
  let q := sat_epoch_position n / epoch_subsidy e in
  if U32_MAX <? q then Panic 2 else
  if U32_MAX <? sh + q then Panic 3 else Ok (sh + q).

(* Sat::third: self.epoch_position() % self.epoch().subsidy() *)
Definition sat_third (n : N) : Res N :=
  let s := epoch_subsidy (epoch_of_sat n) in
  if s =? 0 then Panic 4 else Ok (sat_epoch_position n mod s).

(* Sat::cycle: Epoch::from(self).0 / CYCLE_EPOCHS *)
Definition sat_cycle (n : N) : N := epoch_of_sat n / CYCLE_EPOCHS.

(* Sat::period: self.height().n() / DIFFCHANGE_INTERVAL *)
Definition sat_period (n : N) : Res N :=
  do h <- sat_height n; Ok (h / DIFFCHANGE_INTERVAL).

(* impl From<Sat> for Degree: height is evaluated first, then third *)
Record degree := mkDegree { d_hour : N; d_minute : N; d_second : N; d_third : N }.
Definition sat_degree (n : N) : Res degree :=
  do h <- sat_height n;
  do t <- sat_third n;
  Ok (mkDegree (h / (CYCLE_EPOCHS * SUBSIDY_HALVING_INTERVAL))
               (h mod SUBSIDY_HALVING_INTERVAL) (h mod DIFFCHANGE_INTERVAL) t).

(* impl From<Sat> for DecimalSat *)
Definition sat_decimal (n : N) : Res (N * N) :=
  do h <- sat_height n;
  do t <- sat_third n;
  Ok (h, t).

(* rarity.rs: discriminants Common 0, Uncommon 1, Rare 2, Epic 3, Legendary 4, Mythic 5 *)
Definition R_COMMON : N := 0.
Definition R_UNCOMMON : N := 1.
Definition R_RARE : N := 2.
Definition R_EPIC : N := 3.
Definition R_LEGENDARY : N := 4.
Definition R_MYTHIC : N := 5.

Definition is0 (x : N) : bool := x =? 0.

(* impl From<Sat> for Rarity *)
Definition rarity_of_degree (d : degree) : N :=
  if is0 (d_hour d) && is0 (d_minute d) && is0 (d_second d) && is0 (d_third d) then R_MYTHIC
  else if is0 (d_minute d) && is0 (d_second d) && is0 (d_third d) then R_LEGENDARY
  else if is0 (d_minute d) && is0 (d_third d) then R_EPIC
  else if is0 (d_second d) && is0 (d_third d) then R_RARE
  else if is0 (d_third d) then R_UNCOMMON
  else R_COMMON.
Definition sat_rarity (n : N) : Res N :=
  do d <- sat_degree n; Ok (rarity_of_degree d).

(* u64::is_multiple_of: rhs == 0 => self == 0 *)
Definition is_multiple_of (a b : N) : bool :=
  if b =? 0 then a =? 0 else a mod b =? 0.

(* Sat::common *)
Definition sat_common (n : N) : bool :=
  if (n <? epoch_starting_sat COMMON_FAST_EPOCH_BOUND)
     && negb (is_multiple_of n (epoch_subsidy COMMON_FAST_EPOCH_DIV))
  then true
  else
    let e := epoch_of_sat n in
    negb (is_multiple_of (n - epoch_starting_sat e) (epoch_subsidy e)).

(* Sat::nineball: n >= 50 * COIN_VALUE * 9 && n < 50 * COIN_VALUE * 10 *)
Definition sat_nineball (n : N) : bool :=
  (NINEBALL_LO_COINS * COIN_VALUE <=? n) && (n <? NINEBALL_HI_COINS * COIN_VALUE).

(* Sat::coin *)
Definition sat_coin (n : N) : bool := is_multiple_of n COIN_VALUE.

(* Sat::palindrome: while n > 0 { reversed = reversed * 10 + n % 10; n /= 10 }  self.0 == reversed
   fuel = number of bits of n + 1 >= number of decimal digits *)
Fixpoint reverse_digits (fuel : nat) (n reversed : N) : Res N :=
  match fuel with
  | O => Ok reversed
  | S f =>
    if 0 <? n then
      let r := reversed * 10 + n mod 10 in
      if U64_MAX <? r then Panic 5 else reverse_digits f (n / 10) r
    else Ok reversed
  end.
Definition sat_palindrome (n : N) : Res bool :=
  do r <- reverse_digits (S (N.to_nat (N.size n))) n 0; Ok (n =? r).

(* Charm::set: *charms |= 1 << self as u16 *)
Definition charm_set (c : N) (charms : N) : N := N.lor charms (N.shiftl 1 c).

(* Sat::charms *)
Definition sat_charms (n : N) : Res N :=
  let c0 := 0 in
  let c1 := if sat_nineball n then charm_set CHARM_NINEBALL c0 else c0 in
  do p <- sat_palindrome n;
  let c2 := if p then charm_set CHARM_PALINDROME c1 else c1 in
  let c3 := if sat_coin n then charm_set CHARM_COIN c2 else c2 in
  do r <- sat_rarity n;
  Ok (if r =? R_EPIC then charm_set CHARM_EPIC c3
      else if r =? R_LEGENDARY then charm_set CHARM_LEGENDARY c3
      else if r =? R_MYTHIC then charm_set CHARM_MYTHIC c3
      else if r =? R_RARE then charm_set CHARM_RARE c3
      else if r =? R_UNCOMMON then charm_set CHARM_UNCOMMON c3
      else c3).

(* ---------- wire entry point ----------
   0 n : every Sat method on Sat(n), n : u64
         -> [epoch; cycle; epoch_position; common; nineball; coin;
             H; T; P; D; DEC; R; PAL; CH]   where each of
             H = height, T = third, P = period, R = rarity, PAL = palindrome, CH = charms
             is one integer or -2 (panic), D = hour minute second third or -2,
             DEC = height offset or -2
   1 h : Height(h), h : u32 -> [subsidy; starting_sat; epoch; period_offset]
   2 e : Epoch(e), e : u32  -> [subsidy; starting_sat; starting_height | -2]
   3   : Rarity::supply() of Common .. Mythic (the harness oracle recounts them on the implementation) *)
Definition PANIC : Z := (-2)%Z.
Definition res1 (r : Res N) : list Z := match r with Ok v => [zN v] | _ => [PANIC] end.
Definition resb (r : Res bool) : list Z := match r with Ok v => [zb v] | _ => [PANIC] end.

Definition run_C29 (inp : list Z) : list Z :=
  match inp with
  | 0%Z :: nz :: nil =>
    let n := nZ nz in
    [zN (epoch_of_sat n); zN (sat_cycle n); zN (sat_epoch_position n);
     zb (sat_common n); zb (sat_nineball n); zb (sat_coin n)]
    ++ res1 (sat_height n) ++ res1 (sat_third n) ++ res1 (sat_period n)
    ++ match sat_degree n with
       | Ok d => [zN (d_hour d); zN (d_minute d); zN (d_second d); zN (d_third d)]
       | _ => [PANIC] end
    ++ match sat_decimal n with Ok (h, o) => [zN h; zN o] | _ => [PANIC] end
    ++ res1 (sat_rarity n) ++ resb (sat_palindrome n) ++ res1 (sat_charms n)
  | 1%Z :: hz :: nil =>
    let h := nZ hz in
    [zN (height_subsidy h); zN (height_starting_sat h); zN (epoch_of_height h); zN (height_period_offset h)]
  | 2%Z :: ez :: nil =>
    let e := nZ ez in
    [zN (epoch_subsidy e); zN (epoch_starting_sat e)] ++ res1 (epoch_starting_height e)
  | 3%Z :: nil => zs RARITY_SUPPLY
  | _ => [(-1)%Z]
  end.
