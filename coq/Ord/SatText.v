(* Model of the sat notations (C30): crates/ordinals/src/sat.rs Display / FromStr for Sat,
   Sat::name, Sat::from_name, Sat::from_degree, Sat::from_decimal, Sat::percentile,
   Sat::from_percentile; degree.rs / decimal_sat.rs Display.
   Strings are lists of Unicode scalar values.  Rust's integer Display / FromStr
   (core::num, radix 10) are modelled by [show_uint] / [parse_uint].

   Error kinds of ordinals::sat::ErrorKind as small integers (the wire never carries
   message text):
     1 IntegerRange  2 NameRange  3 NameCharacter  4 Percentile  5 BlockOffset
     6 MissingPeriod 7 TrailingCharacters 8 MissingDegree 9 MissingMinute
     10 MissingSecond 11 PeriodOffset 12 EpochOffset 13 EpochPeriodMismatch
     14 ParseInt 15 ParseFloat
   Panic tag: 7  Sat::name: SUPPLY - n underflow.
   (Sat::from_degree computes the height with checked u32 arithmetic since /repo commit 9a72797
   "fix: reject degrees whose height overflows u32 instead of panicking": IntegerRange.) *)
From OrdV Require Import Base.Prelude Generated Ord.Sat.
From Coq Require Import Floats.

Definition str := list N.

Definition E_IntegerRange : N := 1.
Definition E_NameRange : N := 2.
Definition E_NameCharacter : N := 3.
Definition E_Percentile : N := 4.
Definition E_BlockOffset : N := 5.
Definition E_MissingPeriod : N := 6.
Definition E_TrailingCharacters : N := 7.
Definition E_MissingDegree : N := 8.
Definition E_MissingMinute : N := 9.
Definition E_MissingSecond : N := 10.
Definition E_PeriodOffset : N := 11.
Definition E_EpochOffset : N := 12.
Definition E_EpochPeriodMismatch : N := 13.
Definition E_ParseInt : N := 14.
Definition E_ParseFloat : N := 15.

(* ---------- integers as decimal text ---------- *)

(* Display for u32/u64: decimal digits, most significant first, "0" for zero.
   [digits_le] produces them least significant first; fuel = bit size + 1. *)
Fixpoint digits_le (fuel : nat) (n : N) : str :=
  match fuel with
  | O => []
  | S f => (48 + n mod 10) :: (if n / 10 =? 0 then [] else digits_le f (n / 10))
  end.
Definition show_uint (n : N) : str := rev (digits_le (S (N.to_nat (N.size n))) n).

Definition is_digit (c : N) : bool := (48 <=? c) && (c <=? 57).

(* the digit loop of from_str_radix: checked_mul(10) then checked_add(digit);
   any failure (invalid digit, overflow) is a ParseIntError *)
Fixpoint parse_digits (max : N) (s : str) (acc : N) : option N :=
  match s with
  | [] => Some acc
  | c :: r =>
    if is_digit c then
      let v := acc * 10 + (c - 48) in
      if max <? v then None else parse_digits max r v
    else None
  end.

(* <uN as FromStr>::from_str: empty -> Empty; a lone "+" or "-" -> InvalidDigit;
   one leading '+' is skipped; '-' is not a sign for unsigned types *)
Definition parse_uint (max : N) (s : str) : option N :=
  match s with
  | [] => None
  | [c] => if (c =? 43) || (c =? 45) then None else parse_digits max s 0
  | c :: r => if c =? 43 then parse_digits max r 0 else parse_digits max s 0
  end.

(* str::split_once(char) *)
Fixpoint split_once (c : N) (s : str) : option (str * str) :=
  match s with
  | [] => None
  | x :: r =>
    if x =? c then Some ([], r)
    else match split_once c r with Some (a, b) => Some (x :: a, b) | None => None end
  end.

Definition contains (c : N) (s : str) : bool := existsb (N.eqb c) s.

(* ---------- printing ---------- *)

Definition C_DEGREE : N := nth 0 DEGREE_SEPARATORS 0.
Definition C_MINUTE : N := nth 1 DEGREE_SEPARATORS 0.
Definition C_SECOND : N := nth 2 DEGREE_SEPARATORS 0.
Definition C_THIRD : N := nth 3 DEGREE_SEPARATORS 0.
Definition C_PERIOD : N := 46.
Definition C_PERCENT : N := 37.

(* Display for Sat (derive_more Display on the tuple struct): the integer *)
Definition show_sat (n : N) : str := show_uint n.

(* Display for DecimalSat: "{height}.{offset}" *)
Definition show_decimal (d : N * N) : str :=
  show_uint (fst d) ++ [C_PERIOD] ++ show_uint (snd d).

(* Display for Degree: "{}°{}′{}″{}‴" *)
Definition show_degree (d : degree) : str :=
  show_uint (d_hour d) ++ [C_DEGREE] ++ show_uint (d_minute d) ++ [C_MINUTE] ++
  show_uint (d_second d) ++ [C_SECOND] ++ show_uint (d_third d) ++ [C_THIRD].

(* Sat::name: bijective base 26 of SUPPLY - n, least significant letter pushed first, then reversed *)
Fixpoint name_le (fuel : nat) (x : N) : str :=
  match fuel with
  | O => []
  | S f =>
    if 0 <? x then nth (N.to_nat ((x - 1) mod 26)) NAME_ALPHABET 0 :: name_le f ((x - 1) / 26)
    else []
  end.
Definition sat_name (n : N) : Res str :=
  if SAT_SUPPLY <? n then Panic 7
  else let x := SAT_SUPPLY - n in Ok (rev (name_le (S (N.to_nat (N.size x))) x)).

(* ---------- parsing ---------- *)

Definition is_lower (c : N) : bool := (97 <=? c) && (c <=? 122).

(* Sat::from_name; x <= SUPPLY before every step, so x * 26 + c fits u64 *)
Fixpoint from_name_acc (s : str) (x : N) : Res N :=
  match s with
  | [] => Ok x
  | c :: r =>
    if is_lower c then
      let x' := x * 26 + c - 97 + 1 in
      if SAT_SUPPLY <? x' then Err E_NameRange else from_name_acc r x'
    else Err E_NameCharacter
  end.
Definition from_name (s : str) : Res N :=
  do x <- from_name_acc s 0; Ok (SAT_SUPPLY - x).

Definition HALVING_INCREMENT : N := SUBSIDY_HALVING_INTERVAL mod DIFFCHANGE_INTERVAL.

Definition is_empty (s : str) : bool := match s with [] => true | _ => false end.

(* Sat::from_degree *)
Definition from_degree (s : str) : Res N :=
  match split_once C_DEGREE s with
  | None => Err E_MissingDegree
  | Some (cyc, rest) =>
  match parse_uint U32_MAX cyc with
  | None => Err E_ParseInt
  | Some cycle_number =>
  match split_once C_MINUTE rest with
  | None => Err E_MissingMinute
  | Some (eo, rest) =>
  match parse_uint U32_MAX eo with
  | None => Err E_ParseInt
  | Some epoch_offset =>
  if SUBSIDY_HALVING_INTERVAL <=? epoch_offset then Err E_EpochOffset else
  match split_once C_SECOND rest with
  | None => Err E_MissingSecond
  | Some (po, rest) =>
  match parse_uint U32_MAX po with
  | None => Err E_ParseInt
  | Some period_offset =>
  if DIFFCHANGE_INTERVAL <=? period_offset then Err E_PeriodOffset else
  (* period_offset + 1260000 - epoch_offset: below 2^32, no underflow as epoch_offset < 210000 *)
  let relationship := period_offset + SUBSIDY_HALVING_INTERVAL * CYCLE_EPOCHS - epoch_offset in
  if negb (is_multiple_of relationship HALVING_INCREMENT) then Err E_EpochPeriodMismatch else
  let epochs_since_cycle_start := relationship mod DIFFCHANGE_INTERVAL / HALVING_INCREMENT in
  (* checked_mul / checked_add / checked_mul / checked_add chain, None -> IntegerRange *)
  let cycle_start_epoch := cycle_number * CYCLE_EPOCHS in
  if U32_MAX <? cycle_start_epoch then Err E_IntegerRange else
  let epoch := cycle_start_epoch + epochs_since_cycle_start in
  if U32_MAX <? epoch then Err E_IntegerRange else
  if U32_MAX <? epoch * SUBSIDY_HALVING_INTERVAL then Err E_IntegerRange else
  let height := epoch * SUBSIDY_HALVING_INTERVAL + epoch_offset in
  if U32_MAX <? height then Err E_IntegerRange else
  let '(block_offset, rest) :=
    match split_once C_THIRD rest with
    | Some (bo, rest') => (parse_uint U64_MAX bo, rest')
    | None => (Some 0, rest)
    end in
  match block_offset with
  | None => Err E_ParseInt
  | Some block_offset =>
  if negb (is_empty rest) then Err E_TrailingCharacters else
  if height_subsidy height <=? block_offset then Err E_BlockOffset else
  Ok (height_starting_sat height + block_offset)
  end end end end end end end.

(* Sat::from_decimal *)
Definition from_decimal (s : str) : Res N :=
  match split_once C_PERIOD s with
  | None => Err E_MissingPeriod
  | Some (hs, os) =>
  match parse_uint U32_MAX hs with
  | None => Err E_ParseInt
  | Some h =>
  match parse_uint U64_MAX os with
  | None => Err E_ParseInt
  | Some o =>
  if height_subsidy h <=? o then Err E_BlockOffset else Ok (height_starting_sat h + o)
  end end end.

Definition from_integer (s : str) : Res N :=
  match parse_uint U64_MAX s with
  | None => Err E_ParseInt
  | Some n => if SAT_SUPPLY - 1 <? n then Err E_IntegerRange else Ok n
  end.

(* impl FromStr for Sat, the percentile branch supplied by the caller
   (f64 is not extracted; see from_percentile_float below) *)
Definition sat_from_str_with (pct : str -> Res N) (s : str) : Res N :=
  if existsb is_lower s then from_name s
  else if contains C_DEGREE s then from_degree s
  else if contains C_PERCENT s then pct s
  else if contains C_PERIOD s then from_decimal s
  else from_integer s.

(* the extracted model answers Err 99 "percentile not modelled" on that branch; the harness
   never sends such strings to it *)
Definition sat_from_str (s : str) : Res N := sat_from_str_with (fun _ => Err 99) s.

(* ---------- percentile: binary64, evaluated inside Coq only (never extracted) ---------- *)

(* exact for n < 2^53 (every sat is) *)
Definition float_of_N (n : N) : float := PrimFloat.of_uint63 (Uint63.of_Z (Z.of_N n)).

(* the f64 inside Sat::percentile: (self.0 as f64 / Self::LAST.0 as f64) * 100.0 *)
Definition percentile_float (n : N) : float :=
  PrimFloat.mul (PrimFloat.div (float_of_N n) (float_of_N (SAT_SUPPLY - 1))) (float_of_N 100).

(* f64::round (half away from zero) followed by `as u64`, for a non-negative finite float *)
Definition round_to_N (x : float) : N :=
  match Prim2SF x with
  | S754_finite false m e =>
    if (0 <=? e)%Z then N.shiftl (Npos m) (Z.to_N e)
    else
      let k := Z.to_N (- e) in
      let q := N.shiftr (Npos m) k in
      let r := Npos m - N.shiftl q k in
      if N.shiftl 1 k <=? 2 * r then q + 1 else q
  | _ => 0
  end.

(* Sat::from_percentile applied to the float that Rust's shortest round-trip printing and
   correctly rounded parsing give back unchanged (Rust's documented guarantee, assumed) *)
Definition is_finite (p : float) : bool :=
  match Prim2SF p with S754_infinity _ | S754_nan => false | _ => true end.
Definition from_percentile_float (p : float) : Res N :=
  if negb (is_finite p) || PrimFloat.ltb p 0%float then Err E_Percentile else
  let last := float_of_N (SAT_SUPPLY - 1) in
  let n := round_to_N (PrimFloat.mul (PrimFloat.div p (float_of_N 100)) last) in
  if SAT_SUPPLY - 1 <? n then Err E_Percentile else Ok n.

Definition percentile_roundtrip (n : N) : Res N := from_percentile_float (percentile_float n).

(* ---------- wire entry points ----------
   0 n : Display for Sat           -> string, then Sat::from_str of it
   1 n : Sat::decimal() Display    -> string | -2, then from_str
   2 n : Sat::degree() Display     -> string | -2, then from_str
   3 n : Sat::name()               -> string | -2, then from_str
   4 n r : percentile; r is what the implementation's percentile -> from_str gave when the case
           was generated (0 m | 1 kind); the extracted model echoes r, [run_C30_coq] recomputes it
           with binary64 arithmetic — the comparison that matters is the Coq re-evaluation
   5 s : Sat::from_str on an arbitrary string without the percentile branch
   6 .. : percentile search shard run by the harness oracle only -> [0]
   strings are length-prefixed; a parse result is  0 m | 1 kind | -2 (panic) *)
Definition wres (r : Res N) : list Z :=
  match r with Ok m => [0%Z; zN m] | Err k => [1%Z; zN k] | Panic _ => [PANIC] end.

Definition wstr (s : str) : list Z := zN (N.of_nat (length s)) :: zs s.

Definition show_then_parse (pct : str -> Res N) (r : Res str) : list Z :=
  match r with
  | Ok s => wstr s ++ wres (sat_from_str_with pct s)
  | _ => [PANIC]
  end.

Definition run_C30_with (pct : str -> Res N) (pct_rt : N -> list Z -> list Z) (inp : list Z) : list Z :=
  match inp with
  | 0%Z :: n :: nil => show_then_parse pct (Ok (show_sat (nZ n)))
  | 1%Z :: n :: nil => show_then_parse pct (do d <- sat_decimal (nZ n); Ok (show_decimal d))
  | 2%Z :: n :: nil => show_then_parse pct (do d <- sat_degree (nZ n); Ok (show_degree d))
  | 3%Z :: n :: nil => show_then_parse pct (sat_name (nZ n))
  | 4%Z :: n :: r => pct_rt (nZ n) r
  | 5%Z :: _ :: s => wres (sat_from_str_with pct (ns s))
  | 6%Z :: _ => [0%Z]
  | _ => [(-1)%Z]
  end.

Definition run_C30 (inp : list Z) : list Z :=
  run_C30_with (fun _ => Err 99) (fun _ r => r) inp.

(* evaluated by vm_compute on the per-run sample only *)
Definition run_C30_coq (inp : list Z) : list Z :=
  run_C30_with (fun _ => Err 99) (fun n _ => wres (percentile_roundtrip n)) inp.
