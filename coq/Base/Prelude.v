(* Shared prelude for all model files: binary numbers, lists, options.
   Models are executable Gallina over N/Z/list/option. *)
From Coq Require Export List NArith ZArith Bool Lia.
Export ListNotations.
#[global] Open Scope N_scope.

Arguments N.add : simpl never.
Arguments N.sub : simpl never.
Arguments N.mul : simpl never.
Arguments N.div : simpl never.
Arguments N.modulo : simpl never.
Arguments N.eqb : simpl never.
Arguments N.ltb : simpl never.
Arguments N.leb : simpl never.
Arguments N.shiftl : simpl never.
Arguments N.shiftr : simpl never.
Arguments N.land : simpl never.
Arguments N.lor : simpl never.
Arguments N.pow : simpl never.

(* Result type of modelled functions: value, documented error, or panic
   (an unwrap/expect/assert/arith-overflow site on the modelled path). *)
Inductive Res (A : Type) : Type :=
| Ok (a : A)
| Err (e : N)
| Panic (tag : N).
Arguments Ok {A} a.
Arguments Err {A} e.
Arguments Panic {A} tag.

Definition bind {A B} (r : Res A) (f : A -> Res B) : Res B :=
  match r with Ok a => f a | Err e => Err e | Panic t => Panic t end.
Notation "'do' x <- r ; k" := (bind r (fun x => k))
  (at level 200, x name, r at level 100, k at level 200, right associativity).
Notation "'do' ' p <- r ; k" := (bind r (fun x => match x with p => k end))
  (at level 200, p pattern, r at level 100, k at level 200, right associativity).

(* Wire protocol helpers: every model entry point is [list Z -> list Z]. *)
Definition zN (n : N) : Z := Z.of_N n.
Definition nZ (z : Z) : N := Z.to_N z.
Definition zb (b : bool) : Z := if b then 1%Z else 0%Z.
Definition zs (l : list N) : list Z := map Z.of_N l.
Definition ns (l : list Z) : list N := map Z.to_N l.

Definition U8_MAX : N := 255.
Definition U32_MAX : N := 4294967295.
Definition U64_MAX : N := 18446744073709551615.
Definition U128_MAX : N := 340282366920938463463374607431768211455.
Definition P128 : N := 340282366920938463463374607431768211456.
