(* Helpers for the wire protocol and for re-evaluating cases inside Coq. *)
From OrdV Require Import Base.Prelude.

Fixpoint list_Z_eqb (a b : list Z) : bool :=
  match a, b with
  | [], [] => true
  | x :: a', y :: b' => andb (Z.eqb x y) (list_Z_eqb a' b')
  | _, _ => false
  end.

(* indices (from i) of the cases on which [f] does not return the expected line *)
Fixpoint mismatches (f : list Z -> list Z) (cs : list (list Z * list Z)) (i : N) : list N :=
  match cs with
  | [] => []
  | (inp, expected) :: r =>
    if list_Z_eqb (f inp) expected then mismatches f r (i + 1)
    else i :: mismatches f r (i + 1)
  end.

(* Cursor-style readers over a wire line. *)
Definition take_bytes (n : N) (l : list Z) : list N * list Z :=
  (ns (firstn (N.to_nat n) l), skipn (N.to_nat n) l).

(* length-prefixed list of N *)
Definition read_lp (l : list Z) : list N * list Z :=
  match l with
  | [] => ([], [])
  | n :: r => take_bytes (nZ n) r
  end.

Definition read_opt (l : list Z) : option N * list Z :=
  match l with
  | 0%Z :: r => (None, r)
  | _ :: v :: r => (Some (nZ v), r)
  | _ => (None, [])
  end.

Definition write_opt (o : option N) : list Z :=
  match o with None => [0%Z] | Some v => [1%Z; zN v] end.

Definition write_lp (l : list N) : list Z := zN (N.of_nat (length l)) :: zs l.
