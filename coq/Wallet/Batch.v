(* Model of the offset bookkeeping of batch inscribing (property C21):
     src/wallet/batch/file.rs   File::inscriptions   (pointer and postage per inscription)
     src/wallet/batch/plan.rs   Plan::create_batch_transactions (the value shape of the reveal
                                transaction), Plan::output (reported vout / offset per inscription,
                                reported rune output)
   and a first-in-first-out location model of the indexer facts the report relies on (below).
   Scripts, keys, signatures, the envelope bytes and the commit transaction are not modelled here;
   the commit transaction is built by the TransactionBuilder (Wallet/Builder.v, property C20). *)
From OrdV Require Import Base.Prelude Generated.

Inductive Mode := SameSat | SatPoints | SeparateOutputs | SharedOutput.

Record Batch := mkBatch {
  b_mode : Mode;
  b_parents : list (N * N);      (* per parent: value of the output holding it, its offset there *)
  b_n : nat;                     (* number of inscriptions in the batch file *)
  b_postage : N;                 (* `postage:` of the file or TARGET_POSTAGE *)
  b_satpoints : list N;          (* satpoints mode: value of the output of each entry's satpoint *)
  b_etching : bool;              (* the file has an `etching:` *)
  b_premine : bool }.            (* ... with premine > 0 *)

Fixpoint sum (l : list N) : N := match l with [] => 0 | x :: r => x + sum r end.

(* File::inscriptions:
     let mut pointer = parent_values.iter().sum();
     for (i, entry) in entries { inscription.pointer = pointer;
       postage = if mode == SatPoints { utxos[entry.satpoint.outpoint].value } else { file.postage or TARGET };
       if mode != SameSat { pointer += postage }
       if mode == SameSat && i > 0 { continue } else { postages.push(postage) } }
   [entry_postages] lists the postage looked up for each entry (the satpoints list may be
   shorter than the batch only if the file is rejected: "no satpoint specified"). *)
Definition entry_postages (b : Batch) : list N :=
  match b_mode b with
  | SatPoints => firstn (b_n b) (b_satpoints b)
  | _ => repeat (b_postage b) (b_n b)
  end.

Fixpoint assign (same_sat : bool) (pointer : N) (first : bool) (ps : list N) : list N * list N :=
  match ps with
  | [] => ([], [])
  | p :: r =>
    let pointer' := if same_sat then pointer else pointer + p in
    let '(ptrs, postages) := assign same_sat pointer' false r in
    (pointer :: ptrs, if same_sat && negb first then postages else p :: postages)
  end.

Definition is_same_sat (m : Mode) : bool := match m with SameSat => true | _ => false end.

Definition pointers (b : Batch) : list N :=
  fst (assign (is_same_sat (b_mode b)) (sum (map fst (b_parents b))) true (entry_postages b)).
Definition postages (b : Batch) : list N :=
  snd (assign (is_same_sat (b_mode b)) (sum (map fst (b_parents b))) true (entry_postages b)).

(* create_batch_transactions, values of the reveal outputs in order:
   one return output per parent (tx_out.value), the destinations (one output of total_postage
   in shared-output / same-sat mode, else one output per postage), the rune change output of
   TARGET_POSTAGE when premine > 0, the zero-valued runestone output when etching. *)
Definition destination_values (b : Batch) : list N :=
  match b_mode b with
  | SeparateOutputs | SatPoints => postages b
  | SharedOutput | SameSat => [sum (postages b)]
  end.

Definition reveal_outputs (b : Batch) : list N :=
  map fst (b_parents b) ++ destination_values b
  ++ (if b_etching b && b_premine b then [TB_TARGET_POSTAGE] else [])
  ++ (if b_etching b then [0] else []).

(* create_batch_transactions, the reveal inputs in order: one per parent (its output), in
   satpoints mode the output of every entry's satpoint, then the commit output (value c);
   `commit_input = parent_info.len() + reveal_satpoints.len()` *)
Definition reveal_input_values (b : Batch) (c : N) : list N :=
  map fst (b_parents b)
  ++ (match b_mode b with SatPoints => firstn (b_n b) (b_satpoints b) | _ => [] end)
  ++ [c].
Definition commit_input (b : Batch) : N :=
  N.of_nat (length (b_parents b)
            + match b_mode b with SatPoints => length (firstn (b_n b) (b_satpoints b)) | _ => 0 end).

(* Plan::output: (vout, offset) reported for inscription i *)
Definition reported_one (b : Batch) (i : nat) : N * N :=
  let np := N.of_nat (length (b_parents b)) in
  let vout := match b_mode b with
              | SharedOutput | SameSat => np
              | SeparateOutputs | SatPoints => N.of_nat i + np
              end in
  let offset := match b_mode b with
                | SharedOutput => sum (firstn i (postages b))
                | _ => 0
                end in
  (vout, offset).
Definition reported (b : Batch) : list (N * N) := map (reported_one b) (seq 0 (b_n b)).

(* the rune output reported (RuneInfo.location.vout) and the pointer written into the runestone:
   both are reveal_outputs.len() taken right after pushing the rune change output *)
Definition rune_vout (b : Batch) : option N :=
  if b_etching b && b_premine b
  then Some (N.of_nat (length (b_parents b) + length (destination_values b)))
  else None.
Definition runestone_pointer (b : Batch) : option N := rune_vout b.

(* ---------------------------------------------------------------- indexer facts (FIFO)
   Assumed of the indexer (they are the subject of properties C03/C05/C09, other groups):
   (I1) the i-th envelope of a transaction gets the id (txid, i);
   (I2) a new inscription whose pointer p is smaller than the total output value is bound to
        the sat at position p of the output stream, i.e. to [locate outputs p];
   (I3) an inscription already sitting on an input sat at position q of the input stream
        moves to [locate outputs q];
   (I4) an etching with a premine and a runestone pointer to a non-OP_RETURN output of the
        transaction allocates the premine to that output.
   [locate]: output number and offset of position p in the stream of output values. *)
Fixpoint locate (outs : list N) (p : N) : option (N * N) :=
  match outs with
  | [] => None
  | v :: r =>
    if p <? v then Some (0, p)
    else match locate r (p - v) with
         | Some (k, o) => Some (k + 1, o)
         | None => None
         end
  end.

(* what the planner enforces before it returns the transactions (dust check on every reveal
   output, File::load): at least one inscription, a positive postage, in satpoints mode one
   positive-valued satpoint per entry *)
Definition BatchOK (b : Batch) : Prop :=
  (0 < b_n b)%nat /\
  match b_mode b with
  | SatPoints => (b_n b <= length (b_satpoints b))%nat /\ Forall (fun v => 0 < v) (firstn (b_n b) (b_satpoints b))
  | _ => 0 < b_postage b
  end.

(* ---------------------------------------------------------------- wire *)
Definition mode_of (m : N) : Mode :=
  match m with 0 => SameSat | 1 => SatPoints | 2 => SeparateOutputs | _ => SharedOutput end.

Fixpoint read_pairs21 (n : nat) (l : list Z) : list (N * N) * list Z :=
  match n with
  | O => ([], l)
  | S n' =>
    match l with
    | a :: b :: r => let '(ps, rest) := read_pairs21 n' r in ((nZ a, nZ b) :: ps, rest)
    | _ => ([], [])
    end
  end.

Fixpoint flatten_pairs (l : list (N * N)) : list Z :=
  match l with [] => [] | (a, b) :: r => zN a :: zN b :: flatten_pairs r end.

(* The trailing field [fund] describes how the harness funds the wallet (not modelled here, the
   commit transaction is the TransactionBuilder's): values >= 4 declare a wallet whose only
   cardinal outputs are worth 500 sat, which no batch can be funded from; the planner must
   refuse ([-3]); 7 marks a case run end to end through the command line (same observation).  The harness checks the refusal independently (S).
   Input  mode n postage etching premine nP (value offset)*nP nS value*nS fund
   Output nOut values.. nPtr pointers.. (vout offset)*n  rune(0 | 1 vout)  nInputs commitInput *)
Definition run_C21 (inp : list Z) : list Z :=
  match inp with
  | m :: n :: postage :: e :: pm :: np :: rest =>
    let '(parents, rest1) := read_pairs21 (Z.to_nat np) rest in
    let sats := match rest1 with [] => [] | k :: r => ns (firstn (Z.to_nat k) r) end in
    let fund := match rest1 with [] => 0%Z | k :: r => nth 0 (skipn (Z.to_nat k) r) 0%Z end in
    if ((4 <=? fund) && (fund <=? 6))%Z then [(-3)%Z] else
    let b := mkBatch (mode_of (nZ m)) parents (Z.to_nat n) (nZ postage) sats
                     (negb (Z.eqb e 0)) (negb (Z.eqb pm 0)) in
    zN (N.of_nat (length (reveal_outputs b))) :: zs (reveal_outputs b)
    ++ zN (N.of_nat (length (pointers b))) :: zs (pointers b)
    ++ flatten_pairs (reported b)
    ++ match rune_vout b with None => [0%Z] | Some v => [1%Z; zN v] end
    ++ [zN (N.of_nat (length (reveal_input_values b 0))); zN (commit_input b)]
  | _ => [(-1)%Z]
  end.
