(* Model of src/wallet/transaction_builder.rs AS PINNED (before the four `fix:` commits a8ac394,
   ffde5b5, f428c4b, 2d0ccef of /repo).  Kept only to state, inside Coq, that the pinned code
   reaches panic sites on well-formed calls (Properties/C20.v, C20_pinned_code_panics).  This
   model was tied to the pinned code by the same correspondence run (24 578 cases, no
   divergence, 1 304 reproduced panics) before the repairs; it is no longer run against /repo.
   The text is coq/Wallet/Builder.v at commit 2e0c5a7~ of this repository with
   pad_alignment_output, add_value and the recipient checks of build in their pinned form. *)
From OrdV Require Import Base.Prelude Generated.

Module Pinned.


(* ---------------------------------------------------------------- scripts *)
Definition skind (s : N) : N := s mod 8.
Definition sidx (s : N) : N := s / 8.

Definition script_len (s : N) : N :=
  match skind s with
  | 0 => 34 | 1 => 22 | 2 => 25 | 3 => 23 | 4 => 34
  | 5 => 2 + sidx s
  | _ => 1 + sidx s
  end.
Definition is_witness_program (s : N) : bool :=
  match skind s with 0 => true | 1 => true | 4 => true | _ => false end.
Definition is_op_return (s : N) : bool := skind s =? 5.
(* Address::from_script succeeds *)
Definition is_address (s : N) : bool := skind s <? 5.

(* VarInt::size *)
Definition vi_size (n : N) : N :=
  if n <? 253 then 1 else if n <=? 65535 then 3 else if n <=? 4294967295 then 5 else 9.

(* Script::minimal_non_dust: DUST_RELAY_TX_FEE = 3000 sat/kvB,
   3000 * (spend cost + 8 + serialized script size) / 1000 *)
Definition dust (s : N) : N :=
  if is_op_return s then 0
  else if is_witness_program s
  then 3000 * (32 + 4 + 1 + 107 / 4 + 4 + 8 + (vi_size (script_len s) + script_len s)) / 1000
  else 3000 * (32 + 4 + 1 + 107 + 4 + 8 + (vi_size (script_len s) + script_len s)) / 1000.

(* ---------------------------------------------------------------- vsize *)
Definition txout_size (s : N) : N := 8 + vi_size (script_len s) + script_len s.

Fixpoint sum_map {A} (f : A -> N) (l : list A) : N :=
  match l with [] => 0 | x :: r => f x + sum_map f r end.

(* Transaction{version 2, n inputs with empty script_sig and witness [[0; 64]], outputs}.vsize() *)
Definition vsize (n : N) (outs : list N) : N :=
  let base := 4 + vi_size n + (32 + 4 + 1 + 4) * n
              + vi_size (N.of_nat (length outs)) + sum_map txout_size outs + 4 in
  let wit_per_input := 1 + vi_size TB_SCHNORR_SIGNATURE_SIZE + TB_SCHNORR_SIGNATURE_SIZE in
  (* uses_segwit_serialization: some witness non-empty, or no inputs at all *)
  let total := base + 2 + wit_per_input * n in
  let weight := base * 3 + total in
  (weight + 3) / 4.

(* FeeRate(k / 2^j).fee(v) = ((k/2^j) * v).round() as u64  (round half away from zero,
   saturating cast).  Exact in f64 whenever k*v is exactly representable. *)
Definition fee_dyadic (k j : N) (v : N) : N :=
  N.min U64_MAX ((2 * k * v + 2 ^ j) / 2 ^ (j + 1)).

(* ---------------------------------------------------------------- wallet, state *)
Inductive Target := TPostage | TExact (a : N) | TValue (a : N).

Record Wallet := mkWallet {
  w_amounts : list (N * N);     (* amounts: outpoint id -> value, ascending ids *)
  w_inscr : list (N * N);       (* keys of inscriptions: (outpoint id, offset), ascending *)
  w_runic : list N;
  w_locked : list N;
  w_out_id : N;                 (* outgoing satpoint *)
  w_out_off : N;
  w_recipient : N;              (* script codes *)
  w_change0 : N;
  w_change1 : N;
  w_target : Target }.

Record St := mkSt {
  s_utxos : list N;             (* BTreeSet<OutPoint>, ascending *)
  s_inputs : list N;
  s_outputs : list (N * N);     (* (script code, value) *)
  s_unused : list N }.          (* unused_change_addresses, head = Vec::last() *)

Definition Tx : Type := (list N * list (N * N))%type.

(* error kinds (low 4 bits) + 16 * detail *)
Definition E_DUPLICATE : N := 0.
Definition E_DUST : N := 1.
Definition E_INVALID_ADDRESS : N := 2.
Definition E_NOT_ENOUGH : N := 3.
Definition E_NOT_IN_WALLET : N := 4.
Definition E_OUT_OF_RANGE : N := 5.
Definition E_ADDITIONAL_INSCRIPTIONS : N := 6.
Definition E_VALUE_OVERFLOW : N := 7.
Definition err {A} (kind detail : N) : Res A := Err (kind + 16 * detail).

(* panic sites *)
Definition P_AMOUNT_ADD : N := 1.        (* Amount + / += *)
Definition P_AMOUNT_SUB : N := 2.        (* Amount - / -= *)
Definition P_SUM : N := 3.               (* u64 overflow in sum / += on u64 *)
Definition P_AMOUNTS_INDEX : N := 4.     (* self.amounts[..] *)
Definition P_NO_OUTPUT : N := 5.         (* outputs[0], last().unwrap(), expect("no output") *)
Definition P_NO_CHANGE : N := 6.         (* unused_change_addresses.last().unwrap() / pop() *)
Definition P_SAT_NOT_FOUND : N := 7.     (* calculate_sat_offset panic! *)
Definition P_OUT_OF_RANGE_SUB : N := 8.  (* amount - 1 in select_outgoing *)
Definition P_OFFSET_ADD : N := 9.        (* inscribed_satpoint.offset + dust_limit *)
Definition P_ALIGN_ASSERT : N := 10.     (* align_outgoing assert_eq!s *)
Definition P_STRIP_EXPECT : N := 11.     (* couldn't find output that contains the index *)
Definition P_STRIP_UNWRAP : N := 12.     (* value.checked_sub(target).unwrap() *)
Definition P_DEDUCT_UNWRAP : N := 13.    (* total_output_amount.checked_sub(fee).unwrap() *)
Definition P_DEDUCT_CONSUME : N := 14.   (* invariant: deducting fee does not consume sat *)
Definition P_DEDUCT_LAST : N := 15.      (* invariant: last output can pay fee *)
Definition P_B_CONTAINED : N := 16.      (* invariant: outgoing sat is contained in utxos *)
Definition P_B_SPENT_ONCE : N := 17.     (* invariant: inputs spend outgoing sat *)
Definition P_B_FOUND_IN : N := 18.       (* invariant: outgoing sat is found in inputs *)
Definition P_B_TO_RECIPIENT : N := 19.   (* invariant: outgoing sat is sent to recipient *)
Definition P_B_FOUND_OUT : N := 20.      (* invariant: outgoing sat is found in outputs *)
Definition P_B_RECIPIENT_ONCE : N := 21. (* invariant: recipient address appears exactly once *)
Definition P_B_CHANGE_ONCE : N := 22.    (* invariant: change addresses appear at most once *)
Definition P_B_POSTAGE : N := 23.        (* invariant: excess postage is stripped *)
Definition P_B_VALUE_UNWRAP : N := 24.   (* output.value.checked_sub(value).unwrap() *)
Definition P_B_VALUE : N := 25.          (* invariant: output equals target value *)
Definition P_B_FIRST : N := 26.          (* invariant: sat is at first position in recipient output *)
Definition P_B_UNRECOGNIZED : N := 27.   (* invariant: all outputs are either change or recipient *)
Definition P_B_FEE : N := 28.            (* invariant: fee estimation is correct *)
Definition P_B_DUST : N := 29.           (* invariant: all outputs are above dust limit *)
Definition P_FUEL : N := 99.             (* model artefact: loop fuel exhausted (proved unreachable) *)

Definition add_amt (a b : N) : Res N := if a + b <=? U64_MAX then Ok (a + b) else Panic P_AMOUNT_ADD.
Definition sub_amt (a b : N) : Res N := if b <=? a then Ok (a - b) else Panic P_AMOUNT_SUB.
Definition add_u64 (a b : N) : Res N := if a + b <=? U64_MAX then Ok (a + b) else Panic P_SUM.

Fixpoint amount_of (am : list (N * N)) (id : N) : option N :=
  match am with
  | [] => None
  | (i, v) :: r => if i =? id then Some v else amount_of r id
  end.

Definition mem (x : N) (l : list N) : bool := existsb (N.eqb x) l.
Definition remove_id (x : N) (l : list N) : list N := filter (fun y => negb (y =? x)) l.

(* outputs.iter().map(|o| o.value).sum::<Amount>() *)
Fixpoint sum_values (outs : list (N * N)) (acc : N) : Res N :=
  match outs with
  | [] => Ok acc
  | (_, v) :: r => do a <- add_u64 acc v; sum_values r a
  end.

(* apply [f] to the value of the last output; Panic if there is none *)
Fixpoint upd_last (f : N -> Res N) (outs : list (N * N)) : Res (list (N * N)) :=
  match outs with
  | [] => Panic P_NO_OUTPUT
  | [(s, v)] => do v' <- f v; Ok [(s, v')]
  | o :: r => do r' <- upd_last f r; Ok (o :: r')
  end.

Definition last_output (outs : list (N * N)) : option (N * N) :=
  match rev outs with [] => None | o :: _ => Some o end.

Section Builder.
  Variable fee : N -> N.
  Variable w : Wallet.

  Definition vbytes (st : St) : N :=
    vsize (N.of_nat (length (s_inputs st))) (map fst (s_outputs st)).
  Definition estimate_fee (st : St) : N := fee (vbytes st).

  (* calculate_sat_offset *)
  Fixpoint sat_offset_from (inputs : list N) (acc : N) : Res N :=
    match inputs with
    | [] => Panic P_SAT_NOT_FOUND
    | i :: r =>
      if i =? w_out_id w then add_u64 acc (w_out_off w)
      else match amount_of (w_amounts w) i with
           | None => Panic P_AMOUNTS_INDEX
           | Some v => do a <- add_u64 acc v; sat_offset_from r a
           end
    end.
  Definition calculate_sat_offset (st : St) : Res N := sat_offset_from (s_inputs st) 0.

  (* ------------------------------------------------------------ select_cardinal_utxo *)
  Definition noncardinal (u : N) : bool :=
    mem u (w_runic w) || mem u (map fst (w_inscr w)) || mem u (w_locked w).

  Definition abs_diff (a b : N) : N := N.max a b - N.min a b.

  Definition replaces (prefer_under : bool) (target best cur : N) : bool :=
    let is_closer := abs_diff cur target <? abs_diff best target in
    let not_preference_but_closer :=
      if prefer_under then (target <? best) && is_closer else (best <? target) && is_closer in
    let is_preference_and_closer :=
      if prefer_under then (cur <=? target) && is_closer else (target <=? cur) && is_closer in
    let newly_meets_preference :=
      if prefer_under then (target <? best) && (cur <=? target)
      else (best <? target) && (target <=? cur) in
    is_preference_and_closer || not_preference_but_closer || newly_meets_preference.

  Fixpoint scan (pool : list N) (target : N) (prefer_under : bool) (best : option (N * N))
    : Res (option (N * N)) :=
    match pool with
    | [] => Ok best
    | u :: r =>
      if noncardinal u then scan r target prefer_under best
      else match amount_of (w_amounts w) u with
           | None => Panic P_AMOUNTS_INDEX
           | Some cur =>
             let best0 := match best with Some b => b | None => (u, cur) end in
             let best' := if replaces prefer_under target (snd best0) cur then (u, cur) else best0 in
             scan r target prefer_under (Some best')
           end
    end.

  Definition select_cardinal_utxo (st : St) (target : N) (prefer_under : bool)
    : Res (N * N * St) :=
    do b <- scan (s_utxos st) target prefer_under None;
    match b with
    | None => err E_NOT_ENOUGH 0
    | Some (u, v) =>
      Ok (u, v, mkSt (remove_id u (s_utxos st)) (s_inputs st) (s_outputs st) (s_unused st))
    end.

  (* ------------------------------------------------------------ select_outgoing *)
  (* for (inscribed_satpoint, _) in self.inscriptions.iter().rev() *)
  Fixpoint check_inscriptions (rev_inscr : list (N * N)) (dust_limit : N) : Res unit :=
    match rev_inscr with
    | [] => Ok tt
    | (o, off) :: r =>
      if (w_out_id w =? o) && negb (w_out_off w =? off) then
        if U64_MAX <? off + dust_limit then Panic P_OFFSET_ADD
        else if w_out_off w <? off + dust_limit then err E_ADDITIONAL_INSCRIPTIONS off
        else check_inscriptions r dust_limit
      else check_inscriptions r dust_limit
    end.

  Definition select_outgoing (st : St) : Res St :=
    match s_unused st with
    | [] => Panic P_NO_CHANGE
    | c :: _ =>
      do _ <- check_inscriptions (rev (w_inscr w)) (dust c);
      match amount_of (w_amounts w) (w_out_id w) with
      | None => err E_NOT_IN_WALLET 0
      | Some amount =>
        if amount <=? w_out_off w then
          (if amount =? 0 then Panic P_OUT_OF_RANGE_SUB else err E_OUT_OF_RANGE (amount - 1))
        else Ok (mkSt (remove_id (w_out_id w) (s_utxos st)) (s_inputs st ++ [w_out_id w])
                      (s_outputs st ++ [(w_recipient w, amount)]) (s_unused st))
      end
    end.

  (* ------------------------------------------------------------ align_outgoing *)
  Definition align_outgoing (st : St) : Res St :=
    match s_outputs st with
    | [(s, _)] =>
      if negb (s =? w_recipient w) then Panic P_ALIGN_ASSERT else
      do sat_offset <- calculate_sat_offset st;
      if sat_offset =? 0 then Ok st else
      match s_unused st with
      | [] => Panic P_NO_CHANGE
      | c :: unused' =>
        do outs <- upd_last (fun v => sub_amt v sat_offset) ((c, sat_offset) :: s_outputs st);
        Ok (mkSt (s_utxos st) (s_inputs st) outs unused')
      end
    | _ => Panic P_ALIGN_ASSERT
    end.

  (* ------------------------------------------------------------ pad_alignment_output *)
  Fixpoint pad_loop (fuel : nat) (dust_limit : N) (st : St) : Res St :=
    match s_outputs st with
    | [] => Panic P_NO_OUTPUT
    | (sc, v) :: rest =>
      if v <? dust_limit then
        match fuel with
        | O => Panic P_FUEL
        | S f =>
          do '(u, size, st') <- select_cardinal_utxo st (dust_limit - v) true;
          do v' <- add_amt v size;
          pad_loop f dust_limit (mkSt (s_utxos st') (u :: s_inputs st') ((sc, v') :: rest) (s_unused st'))
        end
      else Ok st
    end.

  Definition pad_alignment_output (st : St) : Res St :=
    match s_outputs st with
    | [] => Panic P_NO_OUTPUT
    | (sc, _) :: _ =>
      if sc =? w_recipient w then Ok st else
      match s_unused st with
      | [] => Panic P_NO_CHANGE
      | c :: _ => pad_loop (S (length (s_utxos st))) (dust c) st
      end
    end.

  (* ------------------------------------------------------------ add_value *)
  Fixpoint add_loop (fuel : nat) (deficit : N) (st : St) : Res St :=
    if deficit =? 0 then Ok st else
    match fuel with
    | O => Panic P_FUEL
    | S f =>
      let additional_fee := fee TB_ADDITIONAL_INPUT_VBYTES in
      if U64_MAX <? deficit + additional_fee then err E_VALUE_OVERFLOW 0 else
      do '(u, value, st') <- select_cardinal_utxo st (deficit + additional_fee) false;
      if value <? additional_fee then err E_NOT_ENOUGH 0 else
      let benefit := value - additional_fee in
      do outs <- upd_last (fun v => add_amt v value) (s_outputs st');
      let st'' := mkSt (s_utxos st') (s_inputs st' ++ [u]) outs (s_unused st') in
      if deficit <? benefit then Ok st'' else add_loop f (deficit - benefit) st''
    end.

  Definition add_value (st : St) : Res St :=
    let estimated_fee := estimate_fee st in
    match last_output (s_outputs st) with
    | None => Panic P_NO_OUTPUT
    | Some (ls, lv) =>
      let min_value := match w_target w with
                       | TPostage => dust ls
                       | TValue v | TExact v => v
                       end in
      if U64_MAX <? min_value + estimated_fee then err E_VALUE_OVERFLOW 0 else
      let total := min_value + estimated_fee in
      if total <? lv then Ok st
      else add_loop (S (length (s_utxos st))) (total - lv) st
    end.

  (* ------------------------------------------------------------ strip_value *)
  Definition max_and_target : N * N :=
    match w_target w with
    | TExact p => (p, p)
    | TPostage => (TB_MAX_POSTAGE, TB_TARGET_POSTAGE)
    | TValue v => (v, v)
    end.

  Definition strip_value (st : St) : Res St :=
    do sat_offset <- calculate_sat_offset st;
    do total <- sum_values (s_outputs st) 0;
    if negb (existsb (fun o => fst o =? w_recipient w) (s_outputs st)) then Panic P_STRIP_EXPECT else
    do value <- sub_amt total sat_offset;
    let vb := vbytes st in
    if value <? fee vb then Ok st else
    let excess := value - fee vb in
    let '(mx, tg) := max_and_target in
    if excess <=? mx then Ok st else
    if value <? tg then Panic P_STRIP_UNWRAP else
    match s_unused st with
    | [] => Panic P_NO_CHANGE
    | c :: unused' =>
      do threshold <- add_amt (dust c) (fee (vb + TB_ADDITIONAL_OUTPUT_VBYTES));
      if value - tg <=? threshold then Ok st else
      do outs <- upd_last (fun _ => Ok tg) (s_outputs st);
      Ok (mkSt (s_utxos st) (s_inputs st) (outs ++ [(c, value - tg)]) unused')
    end.

  (* ------------------------------------------------------------ deduct_fee *)
  Definition deduct_fee (st : St) : Res St :=
    do sat_offset <- calculate_sat_offset st;
    let f := estimate_fee st in
    do total <- sum_values (s_outputs st) 0;
    match last_output (s_outputs st) with
    | None => Panic P_NO_OUTPUT
    | Some (_, lv) =>
      if total <? f then Panic P_DEDUCT_UNWRAP else
      if negb (sat_offset <? total - f) then Panic P_DEDUCT_CONSUME else
      if lv <? f then Panic P_DEDUCT_LAST else
      do outs <- upd_last (fun v => sub_amt v f) (s_outputs st);
      Ok (mkSt (s_utxos st) (s_inputs st) outs (s_unused st))
    end.

  (* ------------------------------------------------------------ build *)
  Definition count {A} (p : A -> bool) (l : list A) : nat := length (filter p l).

  (* first loop of build: offset of the outgoing sat among the inputs *)
  Fixpoint b_sat_offset (inputs : list N) (acc : N) : Res (option N) :=
    match inputs with
    | [] => Ok None
    | i :: r =>
      if i =? w_out_id w then do a <- add_u64 acc (w_out_off w); Ok (Some a)
      else match amount_of (w_amounts w) i with
           | None => Panic P_AMOUNTS_INDEX
           | Some v => do a <- add_u64 acc v; b_sat_offset r a
           end
    end.

  (* second loop: the output containing the sat must be the recipient's *)
  Fixpoint b_find_output (outs : list (N * N)) (output_end sat_offset : N) : Res bool :=
    match outs with
    | [] => Ok false
    | (s, v) :: r =>
      do e <- add_u64 output_end v;
      if sat_offset <? e then
        (if s =? w_recipient w then Ok true else Panic P_B_TO_RECIPIENT)
      else b_find_output r e sat_offset
    end.

  Definition max_change_dust : N := N.max (dust (w_change0 w)) (dust (w_change1 w)).

  Definition b_check_recipient (value : N) : Res unit :=
    let slop := fee TB_ADDITIONAL_OUTPUT_VBYTES in
    match w_target w with
    | TPostage =>
      do lim <- add_amt TB_MAX_POSTAGE slop;
      if value <=? lim then Ok tt else Panic P_B_POSTAGE
    | TExact p =>
      do lim <- add_amt p slop;
      if value <=? lim then Ok tt else Panic P_B_POSTAGE
    | TValue t =>
      if value <? t then Panic P_B_VALUE_UNWRAP else
      do lim <- add_amt max_change_dust slop;
      if value - t <=? lim then Ok tt else Panic P_B_VALUE
    end.

  Fixpoint b_outputs (outs : list (N * N)) (offset sat_offset : N) : Res unit :=
    match outs with
    | [] => Ok tt
    | (s, v) :: r =>
      do _ <- (if s =? w_recipient w then
                 do _ <- b_check_recipient v;
                 if offset =? sat_offset then Ok tt else Panic P_B_FIRST
               else if (s =? w_change0 w) || (s =? w_change1 w) then Ok tt
                    else Panic P_B_UNRECOGNIZED);
      do o <- add_u64 offset v;
      b_outputs r o sat_offset
    end.

  Fixpoint b_add_inputs (inputs : list N) (acc : N) : Res N :=
    match inputs with
    | [] => Ok acc
    | i :: r => match amount_of (w_amounts w) i with
                | None => Panic P_AMOUNTS_INDEX
                | Some v => do a <- add_amt acc v; b_add_inputs r a
                end
    end.
  Fixpoint b_sub_outputs (outs : list (N * N)) (acc : N) : Res N :=
    match outs with
    | [] => Ok acc
    | (_, v) :: r => do a <- sub_amt acc v; b_sub_outputs r a
    end.

  Definition build (st : St) : Res Tx :=
    let inputs := s_inputs st in
    let outs := s_outputs st in
    if negb (Nat.eqb (count (fun e => (fst e =? w_out_id w) && (w_out_off w <? snd e)) (w_amounts w)) 1)
    then Panic P_B_CONTAINED else
    if negb (Nat.eqb (count (fun i => i =? w_out_id w) inputs) 1) then Panic P_B_SPENT_ONCE else
    do so <- b_sat_offset inputs 0;
    match so with
    | None => Panic P_B_FOUND_IN
    | Some sat_offset =>
      do found <- b_find_output outs 0 sat_offset;
      if negb found then Panic P_B_FOUND_OUT else
      if negb (Nat.eqb (count (fun o => fst o =? w_recipient w) outs) 1) then Panic P_B_RECIPIENT_ONCE else
      if negb (Nat.leb (count (fun o => fst o =? w_change0 w) outs) 1
               && Nat.leb (count (fun o => fst o =? w_change1 w) outs) 1)
      then Panic P_B_CHANGE_ONCE else
      do _ <- b_outputs outs 0 sat_offset;
      do tin <- b_add_inputs inputs 0;
      do actual_fee <- b_sub_outputs outs tin;
      let expected_fee := fee (vsize (N.of_nat (length inputs)) (map fst outs)) in
      if negb (actual_fee =? expected_fee) then Panic P_B_FEE else
      if negb (forallb (fun o => dust (fst o) <=? snd o) outs) then Panic P_B_DUST else
      Ok (inputs, outs)
    end.

  (* ------------------------------------------------------------ build_transaction *)
  Definition initial_state : St :=
    mkSt (map fst (w_amounts w)) [] [] [w_change1 w; w_change0 w].

  Definition precheck : Res unit :=
    if w_change0 w =? w_change1 w then err E_DUPLICATE 0 else
    if is_op_return (w_recipient w) then Ok tt else
    if negb (is_address (w_recipient w)) then err E_INVALID_ADDRESS 0 else
    if (w_recipient w =? w_change0 w) || (w_recipient w =? w_change1 w) then err E_DUPLICATE 1 else
    match w_target w with
    | TValue v | TExact v =>
      if v <? dust (w_recipient w) then err E_DUST (dust (w_recipient w)) else Ok tt
    | TPostage => Ok tt
    end.

  Definition passes : Res St :=
    do _ <- precheck;
    do s1 <- select_outgoing initial_state;
    do s2 <- align_outgoing s1;
    do s3 <- pad_alignment_output s2;
    do s4 <- add_value s3;
    do s5 <- strip_value s4;
    deduct_fee s5.

  Definition build_transaction : Res Tx := do s <- passes; build s.
End Builder.


End Pinned.
