(* C22 — model of the wallet's rune transactions
     src/wallet.rs  Wallet::create_unsigned_send_or_burn_runes_transaction   (send / burn)
     src/subcommand/wallet/split.rs  Split::build_transaction                (split)
   composed with a compact model of the rune allocation rules the indexer applies to the
   produced transaction (src/index/updater/rune_updater.rs, index_runes: edicts in wire
   order, each capped by the unallocated balance, amount 0 = all remaining, leftovers to
   the first non-OP_RETURN output, amounts on OP_RETURN outputs burned).

   Rune ids are N (block * 2^32 + tx, so that N order = RuneId order); 0 is RuneId 0:0.
   A balance sheet is an association list id -> amount with distinct keys (the Rust maps).
   Wallet outputs are identified by their position in the wallet's BTreeMap iteration order.
   Not modelled (taken from the harness / trusted): addresses, dust thresholds
   (`minimal_non_dust`), the size of the enciphered runestone, encipher/decipher (the
   runestone read back by the indexer carries the edicts stably sorted by id, which is what
   `Runestone::encipher` writes), the node's funding (adds inputs without runes — C23 — and
   at most one change output, last). *)
From OrdV Require Import Base.Prelude Base.Wire.

(* ------------------------------------------------------------ balance sheets *)

Definition sheet := list (N * N).

Fixpoint get (s : sheet) (k : N) : N :=
  match s with
  | [] => 0
  | (k', v) :: r => if k' =? k then v else get r k
  end.

(* `*map.entry(k).or_default() += v` *)
Fixpoint add (s : sheet) (k v : N) : sheet :=
  match s with
  | [] => [(k, v)]
  | (k', v') :: r => if k' =? k then (k', v' + v) :: r else (k', v') :: add r k v
  end.

Fixpoint sub (s : sheet) (k v : N) : sheet :=
  match s with
  | [] => []
  | (k', v') :: r => if k' =? k then (k', v' - v) :: r else (k', v') :: sub r k v
  end.

Definition merge (a b : sheet) : sheet :=
  fold_left (fun acc kv => add acc (fst kv) (snd kv)) b a.

(* a u128 `+=` overflowed somewhere while building this sheet *)
Definition overflow (s : sheet) : bool := existsb (fun kv => P128 <=? snd kv) s.

(* ------------------------------------------------------------ allocation (indexer) *)

Record edict := { e_id : N; e_amount : N; e_output : nat }.

Fixpoint credit (al : list sheet) (o : nat) (id v : N) : list sheet :=
  match al, o with
  | [], _ => []
  | s :: r, O => add s id v :: r
  | s :: r, S o' => s :: credit r o' id v
  end.

(* the closure `allocate` *)
Definition allocate (st : sheet * list sheet) (id amt : N) (o : nat) : sheet * list sheet :=
  if 0 <? amt then (sub (fst st) id amt, credit (snd st) o id amt) else st.

Fixpoint non_opret (k : nat) (opret : list bool) : list nat :=
  match opret with
  | [] => []
  | b :: r => if b then non_opret (S k) r else k :: non_opret (S k) r
  end.

Fixpoint spread_fixed (st : sheet * list sheet) (id amount : N) (dests : list nat) :=
  match dests with
  | [] => st
  | o :: r => spread_fixed (allocate st id (N.min amount (get (fst st) id)) o) id amount r
  end.

Fixpoint spread_even (st : sheet * list sheet) (id q rem i : N) (dests : list nat) :=
  match dests with
  | [] => st
  | o :: r => spread_even (allocate st id (if i <? rem then q + 1 else q) o) id q rem (i + 1) r
  end.

(* one edict; [opret] tells which outputs are OP_RETURN; no rune is etched in a wallet
   transaction, so an edict for id 0:0 is skipped *)
Definition step (opret : list bool) (st : sheet * list sheet) (e : edict) : sheet * list sheet :=
  let id := e_id e in
  if id =? 0 then st
  else if Nat.eqb (e_output e) (length opret) then
    let dests := non_opret 0 opret in
    match dests with
    | [] => st
    | _ =>
      let bal := get (fst st) id in
      let m := N.of_nat (length dests) in
      if e_amount e =? 0 then spread_even st id (bal / m) (bal mod m) 0 dests
      else spread_fixed st id (e_amount e) dests
    end
  else
    let bal := get (fst st) id in
    allocate st id (if e_amount e =? 0 then bal else N.min (e_amount e) bal) (e_output e).

(* unallocated leftovers to output v *)
Fixpoint deliver (u : sheet) (al : list sheet) (v : nat) : list sheet :=
  match u with
  | [] => al
  | (k, b) :: r => deliver r (if 0 <? b then credit al v k b else al) v
  end.

(* (balances per output before the OP_RETURN rule, leftovers that found no output) *)
Definition apply_tx (unalloc : sheet) (edicts : list edict) (opret : list bool)
  : list sheet * sheet :=
  let st := fold_left (step opret) edicts (unalloc, repeat [] (length opret)) in
  match non_opret 0 opret with
  | v :: _ => (deliver (fst st) (snd st) v, [])
  | [] => (snd st, fst st)
  end.

(* what output o holds after the transaction *)
Definition out_get (opret : list bool) (res : list sheet * sheet) (o : nat) (id : N) : N :=
  if nth o opret false then 0 else get (nth o (fst res) []) id.

(* burned: what landed on OP_RETURN outputs plus leftovers that found no output *)
Definition burn_get (opret : list bool) (res : list sheet * sheet) (id : N) : N :=
  fold_right (fun o acc => (if nth o opret false then get (nth o (fst res) []) id else 0) + acc)
             0 (seq 0 (length opret))
  + get (snd res) id.

(* ------------------------------------------------------------ wallet inventory *)

(* one wallet output as the wallet sees it *)
Record wout := { w_inscribed : bool; w_runes : sheet }.

(* `balances`: runic, not inscribed outputs with their position *)
Fixpoint candidates (k : nat) (inv : list wout) : list (nat * sheet) :=
  match inv with
  | [] => []
  | w :: r =>
    match w_runes w with
    | [] => candidates (S k) r
    | _ => if w_inscribed w then candidates (S k) r else (k, w_runes w) :: candidates (S k) r
    end
  end.

(* ------------------------------------------------------------ send / burn *)

Fixpoint select_send (cands : list (nat * sheet)) (r a : N) (inputs : list nat) (bal : sheet)
  : Res (list nat * sheet) :=
  match cands with
  | [] => Ok (inputs, bal)
  | (o, s) :: rest =>
    if 0 <? get s r then
      let bal' := merge bal s in
      if overflow bal' then Panic 1
      else if a <=? get bal' r then Ok (inputs ++ [o], bal')
      else select_send rest r a (inputs ++ [o]) bal'
    else select_send rest r a inputs bal
  end.

Record rtx := {
  t_inputs : list nat;          (* wallet outputs spent, in order *)
  t_spent : sheet;              (* their merged balances *)
  t_edicts : list edict;        (* runestone ([] also when there is no runestone) *)
  t_opret : list bool;          (* outputs after funding: true = OP_RETURN *)
  t_dest : list nat;            (* recipient outputs *)
  t_change : list nat           (* wallet outputs (rune change, bitcoin change) *)
}.

(* errors: 1 insufficient balance / shortfall, 2 zero amount, 3 no outputs, 4 dust postage,
   5 runestone too large, 6 dust output *)
Definition build_send (inv : list wout) (r a : N) (is_send fund_change : bool) : Res rtx :=
  if a =? 0 then Err 2 else
  do '(inputs, bal) <- select_send (candidates 0 inv) r a [] [];
  let have := get bal r in
  let needs_change := (a <? have) || (1 <? N.of_nat (length bal)) in
  if have <? a then Err 1 else
  let fc := if fund_change then [false] else [] in
  let nfc (k : nat) := if fund_change then [k] else [] in
  Ok (if is_send then
        if needs_change then
          {| t_inputs := inputs; t_spent := bal;
             t_edicts := [{| e_id := r; e_amount := a; e_output := 2 |}];
             t_opret := [true; false; false] ++ fc; t_dest := [2%nat]; t_change := 1%nat :: nfc 3%nat |}
        else
          {| t_inputs := inputs; t_spent := bal; t_edicts := [];
             t_opret := [false] ++ fc; t_dest := [0%nat]; t_change := nfc 1%nat |}
      else
        if needs_change then
          {| t_inputs := inputs; t_spent := bal;
             t_edicts := [{| e_id := r; e_amount := a; e_output := 0 |}];
             t_opret := [true; false] ++ fc; t_dest := []; t_change := 1%nat :: nfc 2%nat |}
        else
          {| t_inputs := inputs; t_spent := bal;
             t_edicts := [{| e_id := r; e_amount := a; e_output := 0 |}];
             t_opret := [true] ++ fc; t_dest := []; t_change := nfc 1%nat |}).

(* ------------------------------------------------------------ split *)

Record sout := {
  s_value : option N;           (* `value:` of the split file *)
  s_threshold : N;              (* minimal_non_dust of the address *)
  s_runes : sheet               (* rune id -> amount, in the BTreeMap<Rune, _> order *)
}.

(* ZeroValue / checked_add: Err 2 on a zero amount, Panic 2 on overflow *)
Fixpoint required_runes (rs : sheet) (req : sheet) : Res sheet :=
  match rs with
  | [] => Ok req
  | (id, amt) :: rs' =>
    if amt =? 0 then Err 2
    else let req' := add req id amt in
         if overflow req' then Panic 2 else required_runes rs' req'
  end.

Fixpoint required_of (outs : list sout) (req : sheet) : Res sheet :=
  match outs with
  | [] => Ok req
  | o :: r => do req' <- required_runes (s_runes o) req; required_of r req'
  end.

Definition wants (req bal s : sheet) : bool :=
  existsb (fun kv => (get bal (fst kv) <? snd kv) && (0 <? get s (fst kv))) req.

Fixpoint select_split (cands : list (nat * sheet)) (req : sheet) (inputs : list nat) (bal : sheet)
  : Res (list nat * sheet) :=
  match cands with
  | [] => Ok (inputs, bal)
  | (o, s) :: rest =>
    if wants req bal s then
      let bal' := merge bal s in
      if overflow bal' then Panic 1 else select_split rest req (inputs ++ [o]) bal'
    else select_split rest req inputs bal
  end.

Fixpoint edicts_of (outs : list sout) (k : nat) : list edict :=
  match outs with
  | [] => []
  | o :: r => map (fun kv => {| e_id := fst kv; e_amount := snd kv; e_output := k |}) (s_runes o)
              ++ edicts_of r (S k)
  end.

(* `edicts.sort_by_key(|edict| edict.id)`: stable insertion sort by id *)
Fixpoint insert_edict (e : edict) (l : list edict) : list edict :=
  match l with
  | [] => [e]
  | x :: r => if e_id e <? e_id x then e :: l else x :: insert_edict e r
  end.
Definition sort_edicts (l : list edict) : list edict := fold_right insert_edict [] l.

Definition build_split (inv : list wout) (outs : list sout) (postage change_dust : N)
  (oversize fund_change : bool) : Res rtx :=
  match outs with
  | [] => Err 3
  | _ =>
    if postage <? change_dust then Err 4 else
    do req <- required_of outs [];
    do '(inputs, bal) <- select_split (candidates 0 inv) req [] [];
    if existsb (fun kv => get bal (fst kv) <? snd kv) req then Err 1 else
    let need_change := existsb (fun kv => get req (fst kv) <? snd kv) bal in
    let base := if need_change then 2%nat else 1%nat in
    let edicts := sort_edicts (edicts_of outs base) in
    if oversize then Err 5 else
    if existsb (fun o => match s_value o with Some v => v <? s_threshold o | None => false end) outs
    then Err 6 else
    let n := length outs in
    Ok {| t_inputs := inputs; t_spent := bal; t_edicts := edicts;
          t_opret := (true :: (if need_change then [false] else [])) ++ repeat false n
                     ++ (if fund_change then [false] else []);
          t_dest := seq base n;
          t_change := (if need_change then [1%nat] else [])
                      ++ (if fund_change then [(base + n)%nat] else []) |}
  end.

(* ------------------------------------------------------------ outcome of a built transaction *)

Definition outcome (t : rtx) : list sheet * sheet := apply_tx (t_spent t) (t_edicts t) (t_opret t).

Definition sum_outs (t : rtx) (os : list nat) (id : N) : N :=
  fold_right (fun o acc => out_get (t_opret t) (outcome t) o id + acc) 0 os.

(* ------------------------------------------------------------ wire *)

(* sheet on the wire: k id_1 amt_1 ... id_k amt_k *)
Fixpoint read_pairs (n : nat) (l : list Z) : sheet * list Z :=
  match n with
  | O => ([], l)
  | S n' =>
    match l with
    | k :: v :: r => let '(s, r') := read_pairs n' r in ((nZ k, nZ v) :: s, r')
    | _ => ([], [])
    end
  end.
Definition read_sheet (l : list Z) : sheet * list Z :=
  match l with
  | n :: r => read_pairs (Z.to_nat n) r
  | [] => ([], [])
  end.

Fixpoint read_inv (n : nat) (l : list Z) : list wout * list Z :=
  match n with
  | O => ([], l)
  | S n' =>
    match l with
    | ins :: r =>
      let '(s, r1) := read_sheet r in
      let '(ws, r2) := read_inv n' r1 in
      ({| w_inscribed := negb (Z.eqb ins 0); w_runes := s |} :: ws, r2)
    | [] => ([], [])
    end
  end.

Fixpoint read_souts (n : nat) (l : list Z) : list sout * list Z :=
  match n with
  | O => ([], l)
  | S n' =>
    match l with
    | hasv :: v :: th :: r =>
      let '(s, r1) := read_sheet r in
      let '(os, r2) := read_souts n' r1 in
      ({| s_value := if Z.eqb hasv 0 then None else Some (nZ v); s_threshold := nZ th; s_runes := s |} :: os, r2)
    | _ => ([], [])
    end
  end.

(* ids present in a list of sheets, ascending, duplicate-free (for printing) *)
Fixpoint insert_id (k : N) (l : list N) : list N :=
  match l with
  | [] => [k]
  | x :: r => if k <? x then k :: l else if k =? x then l else x :: insert_id k r
  end.
Definition ids_of (s : sheet) : list N := fold_right (fun kv acc => insert_id (fst kv) acc) [] s.

(* printed sheet: only non-zero entries, ascending ids: k id amt ... *)
Definition show_fun (ids : list N) (f : N -> N) : list Z :=
  let nz := filter (fun id => 0 <? f id) ids in
  zN (N.of_nat (length nz)) :: flat_map (fun id => [zN id; zN (f id)]) nz.

Definition show_rtx (t : rtx) : list Z :=
  let ids := ids_of (t_spent t) in
  let res := outcome t in
  [0%Z; zN (N.of_nat (length (t_inputs t)))] ++ map (fun o => zN (N.of_nat o)) (t_inputs t)
  ++ [zN (N.of_nat (length (t_opret t)))]
  ++ flat_map (fun o => show_fun ids (out_get (t_opret t) res o)) (seq 0 (length (t_opret t)))
  ++ show_fun ids (burn_get (t_opret t) res).

Definition show_res (r : Res rtx) : list Z :=
  match r with
  | Ok t => show_rtx t
  | Err e => [1%Z; zN e]
  | Panic _ => [(-2)%Z]
  end.

(* case:  0 is_send fund_change rune amount n_inv (inscribed sheet)*
          1 fund_change oversize postage change_dust n_inv (inscribed sheet)* n_outs (hasv v threshold sheet)* *)
Definition run_C22 (l : list Z) : list Z :=
  match l with
  | 0%Z :: is_send :: fc :: r :: a :: n :: rest =>
    let '(inv, _) := read_inv (Z.to_nat n) rest in
    show_res (build_send inv (nZ r) (nZ a) (negb (Z.eqb is_send 0)) (negb (Z.eqb fc 0)))
  | 1%Z :: fc :: oversize :: postage :: cd :: n :: rest =>
    let '(inv, r1) := read_inv (Z.to_nat n) rest in
    match r1 with
    | m :: r2 =>
      let '(outs, _) := read_souts (Z.to_nat m) r2 in
      show_res (build_split inv outs (nZ postage) (nZ cd) (negb (Z.eqb oversize 0)) (negb (Z.eqb fc 0)))
    | [] => [(-1)%Z]
    end
  | _ => [(-1)%Z]
  end.
