(* Specification of an ordinal-aware send (property C20), written from the property text and
   independent of the passes of the builder.  No proofs here. *)
From OrdV Require Import Base.Prelude Generated Wallet.Builder.

Section Spec.
  Variable fee : N -> N.
  Variable w : Wallet.

  Definition value_of (id : N) : N :=
    match amount_of (w_amounts w) id with Some v => v | None => 0 end.
  Definition in_wallet (id : N) : Prop := exists v, amount_of (w_amounts w) id = Some v.

  (* unspendable for fees and padding: runic, locked or carrying an inscription *)
  Definition is_cardinal (u : N) : Prop :=
    ~ In u (w_runic w) /\ ~ In u (w_locked w) /\ ~ In u (map fst (w_inscr w)).

  Definition total_in (inputs : list N) : N := sum_map value_of inputs.
  Definition total_out (outs : list (N * N)) : N := sum_map snd outs.

  Definition is_change (s : N) : Prop := s = w_change0 w \/ s = w_change1 w.

  (* value / postage bound of the recipient output *)
  Definition target_clause (rv : N) : Prop :=
    match w_target w with
    | TValue t => t <= rv
    | TPostage => rv <= TB_MAX_POSTAGE + fee TB_ADDITIONAL_OUTPUT_VBYTES
    | TExact p => rv <= p + fee TB_ADDITIONAL_OUTPUT_VBYTES
    end.

  (* First-in-first-out: the sats of the inputs, in order, fill the outputs in order and the
     remainder is the fee.  A transaction (inputs, outs) is a correct send when

     inputs = before ++ outgoing :: after           (each input once, all from the wallet)
     outs   = pre ++ (recipient, rv) :: post        (no other output pays the recipient)

     - the outgoing sat, at stream position  total_in before + offset, is the first sat of the
       recipient output:  total_out pre = total_in before + offset  and  0 < rv;
     - every input other than the outgoing one is cardinal (not runic, locked or inscribed);
     - every inscription of the wallet that is carried by an input, other than those on the
       outgoing sat itself, sits on the outgoing output at a stream position before
       [total_out pre], i.e. inside one of the outputs [pre], which are all change: it goes
       neither to the recipient nor to fees;
     - every output other than the recipient's is paid to a change script;
     - no output is below the dust limit of its script;
     - the recipient value satisfies the target clause;
     - inputs - outputs = fee (estimated signed vsize). *)
  Definition SendSpec (tx : Tx) : Prop :=
    let '(inputs, outs) := tx in
    NoDup inputs /\
    (forall i, In i inputs -> in_wallet i) /\
    (forall i, In i inputs -> i <> w_out_id w -> is_cardinal i) /\
    exists before after pre rv post,
      inputs = before ++ w_out_id w :: after /\
      w_out_off w < value_of (w_out_id w) /\
      outs = pre ++ (w_recipient w, rv) :: post /\
      (forall o, In o (pre ++ post) -> fst o <> w_recipient w /\ is_change (fst o)) /\
      total_out pre = total_in before + w_out_off w /\
      0 < rv /\
      (forall id off, In (id, off) (w_inscr w) -> In id inputs ->
         (id, off) <> (w_out_id w, w_out_off w) ->
         id = w_out_id w /\ total_in before + off < total_out pre) /\
      (forall o, In o outs -> dust (fst o) <= snd o) /\
      target_clause rv /\
      total_in inputs = total_out outs + fee (vsize (N.of_nat (length inputs)) (map fst outs)).
End Spec.
