(* Specification of an ordinal-aware send (property C20), written from the property text and
   independent of the passes of the builder.  No proofs here. *)
From OrdV Require Import Base.Prelude Generated Wallet.Builder.

Section Spec.
  Variable fee : N -> N.
  Variable w : Wallet.

  Definition value_of (id : N) : N :=
    match amount_of (w_amounts w) id with Some v => v | None => 0 end.
  Definition in_wallet (id : N) : Prop := exists v, amount_of (w_amounts w) id = Some v.

  (* unspendable for fees and padding: runic, locked or carrying an inscription *)
  Definition is_cardinal (u : N) : Prop :=
    ~ In u (w_runic w) /\ ~ In u (w_locked w) /\ ~ In u (map fst (w_inscr w)).

  Definition total_in (inputs : list N) : N := sum_map value_of inputs.
  Definition total_out (outs : list (N * N)) : N := sum_map snd outs.

  Definition is_change (s : N) : Prop := s = w_change0 w \/ s = w_change1 w.

  Definition change_dust : N := N.max (dust (w_change0 w)) (dust (w_change1 w)).

  (* value / postage bound of the recipient output; [vs] is the estimated signed size of the
     transaction, "one output's fee" is what adding a 43-vbyte output to it would cost *)
  Definition one_output_fee (vs : N) : N := fee (vs + TB_ADDITIONAL_OUTPUT_VBYTES) - fee vs.
  Definition target_clause (vs rv : N) : Prop :=
    match w_target w with
    | TValue t => t <= rv /\ rv <= t + change_dust + one_output_fee vs
    | TPostage => rv <= TB_MAX_POSTAGE + one_output_fee vs
    | TExact p => rv <= p + change_dust + one_output_fee vs
    end.

  (* First-in-first-out: the sats of the inputs, in order, fill the outputs in order and the
     remainder is the fee.  A transaction (inputs, outs) is a correct send when

     inputs = before ++ outgoing :: after           (each input once, all from the wallet)
     outs   = pre ++ (recipient, rv) :: post        (no other output pays the recipient)

     - the outgoing sat, at stream position  total_in before + offset, is the first sat of the
       recipient output:  total_out pre = total_in before + offset  and  0 < rv;
     - every input other than the outgoing one is cardinal (not runic, locked or inscribed);
     - every inscription of the wallet that is carried by an input, other than those on the
       outgoing sat itself, sits on the outgoing output at a stream position before
       [total_out pre], i.e. inside one of the outputs [pre], which are all change: it goes
       neither to the recipient nor to fees;
     - every output other than the recipient's is paid to a change script;
     - no output is below the dust limit of its script;
     - the recipient value satisfies the target clause;
     - inputs - outputs = fee (estimated signed vsize). *)
  Definition SendSpec (tx : Tx) : Prop :=
    let '(inputs, outs) := tx in
    NoDup inputs /\
    (forall i, In i inputs -> in_wallet i) /\
    (forall i, In i inputs -> i <> w_out_id w -> is_cardinal i) /\
    exists before after pre rv post,
      inputs = before ++ w_out_id w :: after /\
      w_out_off w < value_of (w_out_id w) /\
      outs = pre ++ (w_recipient w, rv) :: post /\
      (forall o, In o (pre ++ post) -> fst o <> w_recipient w /\ is_change (fst o)) /\
      total_out pre = total_in before + w_out_off w /\
      0 < rv /\
      (forall id off, In (id, off) (w_inscr w) -> In id inputs ->
         (id, off) <> (w_out_id w, w_out_off w) ->
         id = w_out_id w /\ total_in before + off < total_out pre) /\
      (forall o, In o outs -> dust (fst o) <= snd o) /\
      target_clause (vsize (N.of_nat (length inputs)) (map fst outs)) rv /\
      total_in inputs = total_out outs + fee (vsize (N.of_nat (length inputs)) (map fst outs)).

  (* Well-formed call of the builder (hypothesis of the never-panics theorem):
     - the wallet is a possible wallet: amounts is a map (no outpoint twice), every output has
       at least one sat, the total is at most the 21e14 sat that can exist, inscriptions sit at
       offsets that can exist;
     - the two change scripts are addresses (the type of `change: [Address; 2]`);
     - an OP_RETURN recipient (a burn) is given an explicit amount of at least one sat
       (`Target::ExactPostage(1 sat)` in `ord wallet burn`): with `Target::Postage` its dust
       limit, zero, would be the requested value;
     - the requested amount fits an `Amount`, i.e. u64;
     - the fee function behaves like rounding a rate times a size: monotone, and the fee of a
       sum is at most the sum of the fees plus one sat of rounding; its values fit u64. *)
  Definition MAX_SUPPLY : N := 2100000000000000.
  Definition target_amount : option N :=
    match w_target w with TPostage => None | TExact a => Some a | TValue a => Some a end.
  Record WalletOK : Prop := {
    ok_nodup : NoDup (map fst (w_amounts w));
    ok_pos : forall id v, In (id, v) (w_amounts w) -> 0 < v;
    ok_total : sum_map snd (w_amounts w) <= MAX_SUPPLY;
    ok_inscr : forall o off, In (o, off) (w_inscr w) -> off <= MAX_SUPPLY;
    ok_change0 : is_address (w_change0 w) = true;
    ok_change1 : is_address (w_change1 w) = true;
    ok_burn : is_op_return (w_recipient w) = true -> exists a, target_amount = Some a /\ 1 <= a;
    ok_amount : forall a, target_amount = Some a -> a <= U64_MAX;
    ok_fee_mono : forall a b, a <= b -> fee a <= fee b;
    ok_fee_sub : forall a b, fee (a + b) <= fee a + fee b + 1;
    ok_fee_u64 : forall a, fee a <= U64_MAX }.
End Spec.
