(* C24 — model of `ord wallet offer accept`
   (src/subcommand/wallet/offer/accept.rs, Accept::run, psbt_signatures, tx_signatures).

   The acceptance rule is a decision over
     - the PSBT inputs: for each input whether its outpoint is a key of the wallet's
       utxo map (then with the `api::Output` the wallet holds for it: runes and
       inscriptions as reported by the ord server) and what `final_script_sig` /
       `final_script_witness` carry before signing,
     - the node's answers: balance change from `simulaterawtransaction`, and the
       finalized transaction returned by `walletprocesspsbt`+`finalizepsbt`
       (per input: script_sig / witness after signing),
     - the command line: --amount, --inscription, --dry-run.
   Signature data, outpoints and inscription ids are opaque identifiers (N); two
   signatures are equal iff same kind and same identifier (the harness numbers byte
   strings by content).  Not modelled: base64/PSBT (de)serialisation, RPC failures. *)
From OrdV Require Import Base.Prelude Base.Wire.

(* final_script_sig / final_script_witness of a PSBT input, or script_sig / witness
   of a transaction input ("empty" = absent for the latter). *)
Inductive sigdata :=
| SNone
| SScript (s : N)
| SWitness (w : N)
| SBoth.

(* what the wallet knows about one of its outputs (api::Output fields used here) *)
Record oinfo := {
  o_runes : option (list N);        (* None: server without rune index; else the runes in the output *)
  o_insc : option (list N)          (* None: server without inscription index *)
}.

Record pin := {
  owned : option oinfo;             (* Some: previous_output is in wallet.utxos() *)
  pre : sigdata                     (* signature data in the PSBT as presented *)
}.

Inductive reason :=
| MultipleOwned | NoOwned | HasRunes | NoInscriptionIndex | MultipleInscriptions
| NoInscriptions | WrongInscription | BalanceChange | BothSig | SellerSigned
| BuyerUnsigned | LenMismatch | BothSigPost | NotSigned | Changed | AmountOverflow.

Inductive verdict :=
| Signed                  (* signed by the node wallet and broadcast *)
| DryOk                   (* --dry-run: all pre-signing checks passed, nothing signed *)
| Reject (r : reason).

Definition I64_MAX : N := 9223372036854775807.

(* `outgoing`: indices (and info) of the inputs owned by the wallet, in input order *)
Fixpoint outgoing (k : nat) (ins : list pin) : list (nat * oinfo) :=
  match ins with
  | [] => []
  | p :: r =>
    match owned p with
    | Some info => (k, info) :: outgoing (S k) r
    | None => outgoing (S k) r
    end
  end.

Definition is_both (s : sigdata) : bool := match s with SBoth => true | _ => false end.
Definition is_none (s : sigdata) : bool := match s with SNone => true | _ => false end.

(* `for (i, signature) in signatures.iter().enumerate()` before signing:
   first failing input decides *)
Fixpoint check_pre (k index : nat) (sigs : list sigdata) : option reason :=
  match sigs with
  | [] => None
  | s :: r =>
    if Nat.eqb k index then
      (if is_none s then check_pre (S k) index r else Some SellerSigned)
    else
      (if is_none s then Some BuyerUnsigned else check_pre (S k) index r)
  end.

Definition sig_eqb (a b : sigdata) : bool :=
  match a, b with
  | SNone, SNone => true
  | SScript x, SScript y => N.eqb x y
  | SWitness x, SWitness y => N.eqb x y
  | _, _ => false
  end.

(* the zipped loop after signing *)
Fixpoint check_post (k index : nat) (olds news : list sigdata) : option reason :=
  match olds, news with
  | o :: olds', n :: news' =>
    if Nat.eqb k index then
      (if is_none n then Some NotSigned else check_post (S k) index olds' news')
    else
      (if sig_eqb o n then check_post (S k) index olds' news' else Some Changed)
  | _, _ => None
  end.

(* everything up to and including the pre-signing signature loop;
   Ok index = the wallet goes on (dry run: stops; otherwise asks the node to sign) *)
Definition prechecks (ins : list pin) (amount : N) (want : N) (balance_change : Z)
  : reason + nat :=
  match outgoing 0 ins with
  | [] => inl NoOwned
  | _ :: _ :: _ => inl MultipleOwned
  | [(index, info)] =>
    match (match o_runes info with Some (_ :: _) => false | _ => true end) with
    | false => inl HasRunes
    | true =>
      match o_insc info with
      | None => inl NoInscriptionIndex
      | Some (_ :: _ :: _) => inl MultipleInscriptions
      | Some [] => inl NoInscriptions
      | Some [i] =>
        if negb (N.eqb i want) then inl WrongInscription
        else if I64_MAX <? amount then inl AmountOverflow
        else if negb (Z.eqb balance_change (Z.of_N amount)) then inl BalanceChange
        else if existsb is_both (map pre ins) then inl BothSig
        else match check_pre 0 index (map pre ins) with
             | Some r => inl r
             | None => inr index
             end
      end
    end
  end.

(* [post]: script_sig/witness of every input of the finalized transaction *)
Definition accept (ins : list pin) (amount want : N) (balance_change : Z)
  (dry_run : bool) (post : list sigdata) : verdict :=
  match prechecks ins amount want balance_change with
  | inl r => Reject r
  | inr index =>
    if dry_run then DryOk
    else if negb (Nat.eqb (length post) (length ins)) then Reject LenMismatch
    else if existsb is_both post then Reject BothSigPost
    else match check_post 0 index (map pre ins) post with
         | Some r => Reject r
         | None => Signed
         end
  end.

(* ---------------------------------------------------------------- wire *)

Definition reason_code (r : reason) : Z :=
  match r with
  | MultipleOwned => 1 | NoOwned => 2 | HasRunes => 3 | NoInscriptionIndex => 4
  | MultipleInscriptions => 5 | NoInscriptions => 6 | WrongInscription => 7
  | BalanceChange => 8 | BothSig => 9 | SellerSigned => 10 | BuyerUnsigned => 11
  | LenMismatch => 12 | BothSigPost => 13 | NotSigned => 14 | Changed => 15
  | AmountOverflow => 16
  end%Z.

Definition read_sig (l : list Z) : sigdata * list Z :=
  match l with
  | 1%Z :: s :: r => (SScript (nZ s), r)
  | 2%Z :: w :: r => (SWitness (nZ w), r)
  | 3%Z :: r => (SBoth, r)
  | _ :: r => (SNone, r)
  | [] => (SNone, [])
  end.

Definition read_optlist (l : list Z) : option (list N) * list Z :=
  match l with
  | 0%Z :: r => (None, r)
  | _ :: r => let '(xs, r') := read_lp r in (Some xs, r')
  | [] => (None, [])
  end.

Definition read_pin (l : list Z) : pin * list Z :=
  match l with
  | 0%Z :: r => let '(s, r') := read_sig r in ({| owned := None; pre := s |}, r')
  | _ :: r =>
    let '(ru, r1) := read_optlist r in
    let '(ic, r2) := read_optlist r1 in
    let '(s, r3) := read_sig r2 in
    ({| owned := Some {| o_runes := ru; o_insc := ic |}; pre := s |}, r3)
  | [] => ({| owned := None; pre := SNone |}, [])
  end.

Fixpoint read_many {A} (rd : list Z -> A * list Z) (n : nat) (l : list Z) : list A * list Z :=
  match n with
  | O => ([], l)
  | S n' => let '(a, r) := rd l in let '(xs, r') := read_many rd n' r in (a :: xs, r')
  end.

(* case: dry_run amount want balance_change n_ins pin* n_post sig* *)
Definition run_C24 (l : list Z) : list Z :=
  match l with
  | dry :: amount :: want :: bc :: n :: r =>
    let '(ins, r1) := read_many read_pin (Z.to_nat n) r in
    match r1 with
    | m :: r2 =>
      let '(post, _) := read_many read_sig (Z.to_nat m) r2 in
      match accept ins (nZ amount) (nZ want) bc (negb (Z.eqb dry 0)) post with
      | Signed => [0%Z]
      | DryOk => [1%Z]
      | Reject rs => [2%Z; reason_code rs]
      end
    | [] => [(-1)%Z]
    end
  | _ => [(-1)%Z]
  end.
