(* C23 — model of "lock the non-cardinal outputs, then let the node fund"
   (src/wallet.rs Wallet::lock_non_cardinal_outputs, Wallet::get_runic_outputs;
    src/fund_raw_transaction.rs fund_raw_transaction; the wallet commands that call it).

   Outpoints are opaque identifiers (N).  A wallet view [w] is what `Wallet` holds after
   construction:
     utxos     keys of Wallet.utxos  (listunspent of the node plus the outputs already
               locked in the node, src/wallet/wallet_constructor.rs)
     inscribed outpoints of the keys of Wallet.inscriptions
     runic     result of Wallet::get_runic_outputs: None when the ord server has no rune
               index (some output_info entry has `runes: None`), else the wallet outputs
               whose rune list is non-empty
     locked    keys of Wallet.locked_utxos (listlockunspent at construction).
   The node is represented by its set of locked outpoints (a list, initially [locked w]).
   `fundrawtransaction` is an ARBITRARY function [f] (given the explicit inputs of the
   unfunded transaction and the outputs it may spend, it returns the inputs it adds); the
   model only restricts its answer to what the node can spend: wallet outputs not locked
   in the node.  (The node honouring `lockunspent` and spending only its own unspent
   outputs is the runtime assumption of this property.)
   Not modelled: RPC failures (`?` returns before anything is funded), the transaction
   contents, fee computation.  The order of `Lock`/`Fund` calls of each command is not
   written here: it is read from the Rust source into Generated.WALLET_FUND_COMMANDS. *)
From OrdV Require Import Base.Prelude Base.Wire Generated.

Definition mem (u : N) (l : list N) : bool := existsb (N.eqb u) l.

Record wallet := {
  utxos : list N;
  inscribed : list N;
  runic : option (list N);
  locked : list N
}.

(* `self.get_runic_outputs()?.unwrap_or_default()` *)
Definition runic_list (w : wallet) : list N :=
  match runic w with Some r => r | None => [] end.

(* The argument of `lock_unspent` in lock_non_cardinal_outputs:
     self.utxos().keys().filter(|utxo| inscriptions.contains(utxo))
       .chain(self.get_runic_outputs()?.unwrap_or_default().iter())
       .cloned().filter(|utxo| !locked.contains(utxo)).collect() *)
Definition lock_set (w : wallet) : list N :=
  filter (fun u => negb (mem u (locked w)))
         (filter (fun u => mem u (inscribed w)) (utxos w) ++ runic_list w).

(* an output the wallet must not let the node pick: inscribed or runic *)
Definition non_cardinal (w : wallet) (u : N) : bool :=
  mem u (inscribed w) || mem u (runic_list w).

(* ---------------------------------------------------------------- commands *)

Inductive action := Lock | Fund.

(* Generated.WALLET_FUND_COMMANDS encodes 1 = Lock, 2 = Fund; any other number is
   dropped (the translator never emits one). *)
Fixpoint decode_actions (l : list N) : list action :=
  match l with
  | [] => []
  | n :: r =>
    if n =? 1 then Lock :: decode_actions r
    else if n =? 2 then Fund :: decode_actions r
    else decode_actions r
  end.

(* what the node may add as inputs: wallet outputs not locked in the node *)
Definition spendable (nodelocked : list N) (w : wallet) : list N :=
  filter (fun u => negb (mem u nodelocked)) (utxos w).

(* inputs added by one `fundrawtransaction` call *)
Definition fund (f : list N -> list N -> list N) (explicit nodelocked : list N) (w : wallet)
  : list N :=
  filter (fun u => mem u (spendable nodelocked w)) (f explicit (spendable nodelocked w)).

(* Runs the action list of a command; result: for each Fund, in order, the inputs the
   node added.  Lock = `lockunspent false lock_set`. *)
Fixpoint run_actions (f : list N -> list N -> list N) (explicit : list N) (w : wallet)
  (acts : list action) (nodelocked : list N) : list (list N) :=
  match acts with
  | [] => []
  | Lock :: r => run_actions f explicit w r (nodelocked ++ lock_set w)
  | Fund :: r => fund f explicit nodelocked w :: run_actions f explicit w r nodelocked
  end.

(* the node's locked set after the command *)
Fixpoint final_locked (w : wallet) (acts : list action) (nodelocked : list N) : list N :=
  match acts with
  | [] => nodelocked
  | Lock :: r => final_locked w r (nodelocked ++ lock_set w)
  | Fund :: r => final_locked w r nodelocked
  end.

(* every Fund has a Lock somewhere before it ([seen]: a Lock has already been passed) *)
Fixpoint lock_precedes_fund_aux (seen : bool) (acts : list action) : bool :=
  match acts with
  | [] => true
  | Lock :: r => lock_precedes_fund_aux true r
  | Fund :: r => seen && lock_precedes_fund_aux seen r
  end.

Definition lock_precedes_fund (acts : list action) : bool :=
  lock_precedes_fund_aux false acts.

(* ---------------------------------------------------------------- wire *)

(* ids (counted from [i]) of the flag words whose bit [bit] is set *)
Fixpoint ids_with (bit : N) (i : N) (flags : list Z) : list N :=
  match flags with
  | [] => []
  | fl :: r =>
    if N.testbit (nZ fl) bit then i :: ids_with bit (i + 1) r else ids_with bit (i + 1) r
  end.

Fixpoint ids_from (i : N) (flags : list Z) : list N :=
  match flags with
  | [] => []
  | _ :: r => i :: ids_from (i + 1) r
  end.

(* wallet view of a case: output i has flags bit0 = inscribed, bit1 = runic,
   bit2 = already locked in the node *)
Definition wallet_of_flags (has_rune_index : bool) (flags : list Z) : wallet :=
  {| utxos := ids_from 0 flags;
     inscribed := ids_with 0 0 flags;
     runic := if has_rune_index then Some (ids_with 1 0 flags) else None;
     locked := ids_with 2 0 flags |}.

(* case:   cmd has_rune_index n flags_0 ... flags_{n-1}
   output: k id_1 ... id_k   the outpoints locked in the node after the command's action
                             list (ascending, duplicate-free),
           [-1]              cmd is not an index into Generated.WALLET_FUND_COMMANDS
                             (or the line is too short).
   Only the first n flag words are read (fewer if the line is shorter). *)
Definition run_C23 (l : list Z) : list Z :=
  match l with
  | cmd :: hri :: n :: r =>
    if (cmd <? 0)%Z then [(-1)%Z]
    else
      match nth_error WALLET_FUND_COMMANDS (Z.to_nat cmd) with
      | None => [(-1)%Z]
      | Some c =>
        let flags := firstn (Z.to_nat n) r in
        let w := wallet_of_flags (negb (Z.eqb hri 0)) flags in
        let fin := final_locked w (decode_actions c) (locked w) in
        let out := filter (fun u => mem u fin) (utxos w) in
        zN (N.of_nat (length out)) :: zs out
      end
  | _ => [(-1)%Z]
  end.
