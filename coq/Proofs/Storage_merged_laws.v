(* UtxoEntryBuf::merged / UtxoEntryBuf::empty form a monoid on the entries of the special
   outpoints (lost sats, unbound inscriptions): the two laws that the write-back cache
   refinement of C12 (Proofs/Cache_proofs.v) assumes of its abstract [merged] and [empty].

   A special-outpoint entry never has a script and, without the sat index, never a value, so
   its logical content is a pair (sat ranges, inscriptions).  On this representation the laws
   hold unconditionally; [bytes c] maps it to the stored byte string of the C35 model under
   index configuration [c], and the byte-level [merged c] / [utxo_empty c] of
   Codec/Storage.v are shown to compute exactly this monoid on every storable entry
   (storable = well-formed under [c]: ranges in the 51/37-bit domain, counts and total value
   within u64, no ranges without the sat index, no inscriptions without the inscription index). *)
From OrdV Require Import Base.Prelude Base.Wire Codec.Varint Codec.Storage
  Proofs.Bits Proofs.Varint_proofs Proofs.Storage_proofs.
Require Import ZifyBool ZifyN.

Definition special_entry := (list (N * N) * list (N * N))%type.   (* (sat ranges, inscriptions) *)

Definition merged_s (a b : special_entry) : special_entry := (fst a ++ fst b, snd a ++ snd b).
Definition empty_s : special_entry := ([], []).

(* the two laws, on the parsed representation, unconditionally *)
Lemma merged_s_assoc a b c : merged_s (merged_s a b) c = merged_s a (merged_s b c).
Proof. unfold merged_s. cbn [fst snd]. now rewrite <- !app_assoc. Qed.

Lemma merged_s_empty_l a : merged_s empty_s a = a.
Proof. destruct a. reflexivity. Qed.

Lemma merged_s_empty_r a : merged_s a empty_s = a.
Proof. destruct a. unfold merged_s, empty_s. cbn [fst snd]. now rewrite !app_nil_r. Qed.

(* the logical entry and the stored bytes of a special-outpoint entry *)
Definition to_utxo (s : special_entry) : utxo :=
  {| u_ranges := fst s; u_value := total (fst s); u_script := []; u_inscriptions := snd s |}.

Definition storable (c : cfg) (s : special_entry) : Prop := wf c (to_utxo s).
Definition bytes_of (c : cfg) (s : special_entry) : list N := entry_layout c (to_utxo s).

Lemma to_utxo_merged a b : merged_entry (to_utxo a) (to_utxo b) = to_utxo (merged_s a b).
Proof. unfold merged_entry, to_utxo, merged_s. cbn [u_ranges u_value u_script u_inscriptions fst snd]. now rewrite total_app. Qed.

Lemma total_nil_of_nil l : l = [] -> total l = 0.
Proof. now intros ->. Qed.

Lemma storable_parts c a b : storable c (merged_s a b) -> storable c a /\ storable c b.
Proof.
  unfold storable, wf, to_utxo, merged_s. cbn [u_ranges u_value u_script u_inscriptions fst snd].
  intros (Hr & Hc & Hv & Hu & Hs & Hi).
  apply Forall_app in Hr. destruct Hr as [Hra Hrb].
  unfold count in *. rewrite app_length in Hc. rewrite total_app in Hu.
  assert (Hia : if index_inscriptions c then Forall ins_ok (snd a) /\ Forall ins_ok (snd b) else snd a = [] /\ snd b = []).
  { destruct (index_inscriptions c); [now apply Forall_app|now apply app_eq_nil]. }
  assert (Hva : if index_sats c then True else fst a = [] /\ fst b = []).
  { destruct (index_sats c); [exact I|now apply app_eq_nil]. }
  split.
  - split; [exact Hra|]. split; [lia|]. split; [destruct (index_sats c); [reflexivity|apply Hva]|].
    split; [lia|]. split; [exact Hs|]. destruct (index_inscriptions c); apply Hia.
  - split; [exact Hrb|]. split; [lia|]. split; [destruct (index_sats c); [reflexivity|apply Hva]|].
    split; [lia|]. split; [exact Hs|]. destruct (index_inscriptions c); apply Hia.
Qed.

Lemma storable_mergeable c a b : storable c (merged_s a b) -> mergeable c (to_utxo a) (to_utxo b).
Proof.
  intros H. destruct (storable_parts c a b H) as [Ha Hb].
  unfold mergeable. split; [exact Ha|]. split; [exact Hb|]. split; [reflexivity|]. split; [reflexivity|].
  unfold storable, wf, to_utxo, merged_s in H. cbn [u_ranges u_value u_script u_inscriptions fst snd] in H.
  destruct H as (_ & Hc & Hv & Hu & _).
  cbn [to_utxo u_ranges u_value]. split.
  - intros Es. rewrite Es in Hv. apply app_eq_nil in Hv. destruct Hv as [-> ->]. split; reflexivity.
  - rewrite total_app in Hu. unfold count in *. rewrite app_length in Hc. split; lia.
Qed.

(* the byte-level merged of the model computes merged_s *)
Lemma merged_bytes c a b : storable c (merged_s a b) ->
  merged c (bytes_of c a) (bytes_of c b) = Ok (bytes_of c (merged_s a b)).
Proof.
  intros H. unfold bytes_of. rewrite (merged_layout c _ _ (storable_mergeable c a b H)).
  now rewrite to_utxo_merged.
Qed.

Lemma empty_bytes c : utxo_empty c = Ok (bytes_of c empty_s).
Proof. exact (empty_layout c). Qed.

Lemma storable_empty c : storable c empty_s.
Proof.
  unfold storable, wf, to_utxo, empty_s. cbn [u_ranges u_value u_script u_inscriptions fst snd total].
  split; [constructor|]. split; [cbn; unfold U64_MAX; lia|].
  split; [destruct (index_sats c); reflexivity|]. split; [unfold U64_MAX; lia|].
  split; [destruct (index_addresses c); [cbn; unfold U64_MAX; lia|reflexivity]|].
  destruct (index_inscriptions c); [constructor|reflexivity].
Qed.

Lemma read_bytes c s : storable c s -> read_entry c (bytes_of c s) = Ok (to_utxo s).
Proof. intros H. now apply read_entry_layout. Qed.

(* Associativity and left unit of the model's [merged c] / [utxo_empty c] on stored bytes, for
   every index configuration and every storable triple. *)
Theorem merged_monoid_on_bytes c a b d : storable c (merged_s (merged_s a b) d) ->
  (do m <- merged c (bytes_of c a) (bytes_of c b); merged c m (bytes_of c d)) =
    Ok (bytes_of c (merged_s (merged_s a b) d)) /\
  (do m <- merged c (bytes_of c b) (bytes_of c d); merged c (bytes_of c a) m) =
    Ok (bytes_of c (merged_s (merged_s a b) d)) /\
  (do e <- utxo_empty c; merged c e (bytes_of c a)) = Ok (bytes_of c a) /\
  (do e <- utxo_empty c; merged c (bytes_of c a) e) = Ok (bytes_of c a).
Proof.
  intros H. pose proof H as H'. rewrite merged_s_assoc in H'.
  destruct (storable_parts c _ _ H) as [Hab Hd].
  destruct (storable_parts c _ _ H') as [Ha Hbd].
  split; [rewrite (merged_bytes c a b Hab); cbn [bind]; now apply merged_bytes|].
  split.
  { rewrite (merged_bytes c b d Hbd). cbn [bind]. rewrite (merged_bytes c a _ H'). now rewrite merged_s_assoc. }
  rewrite empty_bytes. cbn [bind]. split.
  - rewrite merged_bytes by (now rewrite merged_s_empty_l). now rewrite merged_s_empty_l.
  - rewrite merged_bytes by (now rewrite merged_s_empty_r). now rewrite merged_s_empty_r.
Qed.
