(* C07: the kept parents of a new inscription are inscriptions revealed by the reveal transaction itself or
   held by the UTXO entries of its inputs. *)
From OrdV Require Import Base.Prelude Generated Index.Inscr Proofs.Inscr_tables Proofs.Inscr_proofs Proofs.Inscr_c07 Proofs.Inscr_c06 Proofs.Inscr_c04 Proofs.Inscr_c03.
From Coq Require Import Permutation ZifyBool ZifyN.

Definition held_by (E : list (N * ientry)) (ents : list uentry) (pid : iid) : Prop :=
  exists u seq off e, In u ents /\ In (seq, off) (u_insc u) /\ tgN seq E = Some e /\ i_id e = pid.

Lemma olds_ids : forall E base l acc io fl io',
  olds E base l acc io = Ok (fl, io') ->
  forall f, In f fl -> In f acc \/
    exists seq off e, In (seq, off) l /\ tgN seq E = Some e /\ f_id f = i_id e /\ is_new f = false.
Proof.
  intros E base l. induction l as [|[seq off] r IH]; intros acc io fl io' H f Hf; cbn [olds] in H.
  - inv H. auto.
  - destruct (tgN seq E) as [e|] eqn:Q; [|discriminate]. destruct (IH _ _ _ _ H f Hf) as [Hin|(s & o & e' & A & B & C & D)].
    + apply in_app_or in Hin. destruct Hin as [Hin|[Hin|[]]]; auto. subst f. right. exists seq, off, e. cbn. auto.
    + right. exists s, o, e'. cbn. auto.
Qed.

Lemma inputs_loop_ids : forall cfg st txid height jubilant tov ins idx ents envs a a',
  inputs_loop cfg st txid height jubilant tov ins idx ents envs a = Ok a' ->
  forall f, In f (a_float a') -> In f (a_float a) \/ is_new f = true \/ held_by (s_entries st) ents (f_id f).
Proof.
  intros cfg st txid height jubilant tov ins. induction ins as [|prev r IH]; intros idx ents envs a a' H f Hf; cbn [inputs_loop] in H.
  - inv H. auto.
  - destruct (is_null prev).
    + destruct (IH _ _ _ _ _ H f Hf) as [Hin|Hr]; auto.
    + destruct (nth_error ents (N.to_nat idx)) as [u|] eqn:Hn; [|discriminate].
      dbind H. destruct a0 as [fl io]. destruct (span_input idx envs) as [mine rest].
      dbind H. destruct (IH _ _ _ _ _ H f Hf) as [Hin|Hr]; auto.
      destruct (news_offsets _ _ _ _ _ _ _ _ _ E0) as [_ Hnews]. cbn [a_float] in Hnews.
      destruct (Hnews f Hin) as [Hin2|(Hnw & _)]; auto.
      destruct (olds_ids _ _ _ _ _ _ _ E f Hin2) as [Hin3|(seq & off & e & A & B & C & D)]; auto.
      right. right. exists u, seq, off, e.
      split; [eapply nth_error_In; eauto|]. split; [eapply Permutation_in; [apply sort_by_perm|exact A]|].
      split; [exact B|congruence].
Qed.

Theorem parents_spent_or_revealed : forall cfg st h t ents F tiv,
  floating_of cfg st h t ents = Ok (F, tiv) ->
  forall f pid, In f F -> In pid (parents_of f) ->
    fst pid = t_id t \/ held_by (s_entries st) ents pid.
Proof.
  intros cfg st h t ents F tiv H f pid Hf Hp.
  destruct (floating_of_parents _ _ _ _ _ _ _ H) as [_ HB]. specialize (HB f pid Hf Hp).
  unfold floating_of in H. dbind H. dbind H. inv H. rewrite map_f_id_fix in HB.
  apply in_map_iff in HB. destruct HB as (g & G1 & G2).
  assert (A0 : Aok (t_id t) (c_jubilee cfg <=? h) (mkA [] [] 0 0)) by (split; cbn; [tauto|constructor]).
  pose proof (inputs_loop_aok _ _ _ _ _ _ _ _ _ _ _ _ A0 E) as [M _].
  destruct (inputs_loop_ids _ _ _ _ _ _ _ _ _ _ _ _ E g G2) as [[]|[Hn|Hh]].
  - left. rewrite <- G1. apply (M g G2 Hn).
  - right. rewrite <- G1. exact Hh.
Qed.
