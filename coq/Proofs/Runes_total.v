(* Totality of the rune indexer model (for C16): on blocks whose artifacts satisfy what the
   runestone decoder guarantees, index_block never returns Panic.  Every Lot addition is bounded
   by the rune's supply (the C08 conservation invariant), every Lot subtraction by the balance. *)
From OrdV Require Import Base.Prelude Generated Index.Runes Proofs.Runes_proofs Proofs.Runes_alloc
  Proofs.Runes_supply Proofs.Runes_shape Proofs.Runes_edicts Proofs.Runes_etch.
Require Import ZifyBool ZifyN.

Definition MAXV := U128_MAX.

(* lia sometimes fails to abstract the sums; name them first *)
Ltac absn :=
  repeat match goal with
  | |- context [getd ?a ?b] => let x := fresh "g" in set (x := getd a b) in *; clearbody x
  | H : context [getd ?a ?b] |- _ => let x := fresh "g" in set (x := getd a b) in *; clearbody x
  | |- context [msum ?a ?b] => let x := fresh "m" in set (x := msum a b) in *; clearbody x
  | H : context [msum ?a ?b] |- _ => let x := fresh "m" in set (x := msum a b) in *; clearbody x
  | |- context [asum ?a ?b] => let x := fresh "s" in set (x := asum a b) in *; clearbody x
  | H : context [asum ?a ?b] |- _ => let x := fresh "s" in set (x := asum a b) in *; clearbody x
  | |- context [tsum ?a ?b] => let x := fresh "t" in set (x := tsum a b) in *; clearbody x
  | H : context [tsum ?a ?b] |- _ => let x := fresh "t" in set (x := tsum a b) in *; clearbody x
  end.
Ltac alia := unfold alloc, bmap, id in *; lia.

(* ================================================================== progress of the elementary steps *)
Lemma add_to_progress r v m : getd r m + v <= U128_MAX -> exists m', add_to r v m = Ok m'.
Proof. intros H. unfold add_to, lot_add. destruct (N.leb_spec (getd r m + v) U128_MAX); [eexists; reflexivity|lia]. Qed.

Definition bounded2 (a b : id -> N) : Prop := forall r, a r + b r <= U128_MAX.

Lemma add_all_progress l : forall un, (forall r, msum r un + msum r l <= U128_MAX) -> exists un', add_all l un = Ok un'.
Proof.
  induction l as [|[k v] l IH]; intros un H; cbn [add_all]; [eexists; reflexivity|].
  destruct (add_to_progress k v un) as [un1 H1].
  { pose proof (H k) as Hk. cbn [msum] in Hk. rewrite id_eqb_refl in Hk. pose proof (getd_le_msum k un). lia. }
  rewrite H1. cbn [bind]. apply IH. intros r. rewrite (add_to_msum _ _ _ _ r H1).
  specialize (H r). cbn [msum] in H. destruct (id_eqb r k); lia.
Qed.

Lemma unallocated_progress ins : forall bt un,
  (forall r, tsum r bt + msum r un <= U128_MAX) -> exists bt' un', unallocated ins bt un = Ok (bt', un').
Proof.
  induction ins as [|i ins IH]; intros bt un H; cbn [unallocated]; [eexists; eexists; reflexivity|].
  destruct (alookup op_eqb (in_txid i, in_vout i) bt) as [l|] eqn:El; [|apply IH; exact H].
  destruct (add_all_progress l un) as [un1 H1].
  { intros r. pose proof (tsum_aremove r _ _ _ El). specialize (H r). lia. }
  rewrite H1. cbn [bind]. apply IH. intros r. rewrite (add_all_msum r _ _ _ H1).
  pose proof (tsum_aremove r _ _ _ El). specialize (H r). lia.
Qed.

Lemma pour_progress nz m : forall acc, (forall r, msum r acc + msum r m <= U128_MAX) -> exists acc', pour nz m acc = Ok acc'.
Proof.
  induction m as [|[k v] m IH]; intros acc H; cbn [pour]; [eexists; reflexivity|].
  destruct (nz && (v =? 0)) eqn:Ez.
  - apply IH. intros r. specialize (H r). cbn [msum] in H. destruct (id_eqb r k); lia.
  - destruct (add_to_progress k v acc) as [acc1 H1].
    { pose proof (H k) as Hk. cbn [msum] in Hk. rewrite id_eqb_refl in Hk. pose proof (getd_le_msum k acc). lia. }
    rewrite H1. cbn [bind]. apply IH. intros r. rewrite (add_to_msum _ _ _ _ r H1). specialize (H r). cbn [msum] in H. destruct (id_eqb r k); lia.
Qed.

(* ---------- allocate and the edict loop ---------- *)
Lemma allocate_progress r un al amt o :
  amt <= getd r un -> (forall r', msum r' un + asum r' al <= U128_MAX) ->
  exists un' al', allocate r un al amt o = Ok (un', al').
Proof.
  intros Hle Hb. unfold allocate. destruct (0 <? amt); [|eexists; eexists; reflexivity].
  unfold lot_sub. destruct (N.leb_spec amt (getd r un)); [|lia]. cbn [bind].
  destruct (add_to_progress r amt (nth (N.to_nat o) al [])) as [m Hm].
  { pose proof (getd_le_msum r (nth (N.to_nat o) al [])). pose proof (asum_ge_nth r (N.to_nat o) al).
    pose proof (getd_le_msum r un). specialize (Hb r). alia. }
  rewrite Hm. cbn [bind]. eexists; eexists; reflexivity.
Qed.

Lemma split_fixed_progress r amount dests : forall un al,
  in_range (length al) dests -> (forall r', msum r' un + asum r' al <= U128_MAX) ->
  exists un' al', split_fixed r un al amount dests = Ok (un', al').
Proof.
  induction dests as [|o ds IH]; intros un al Hr Hb; cbn [split_fixed]; [eexists; eexists; reflexivity|].
  destruct (allocate_progress r un al (N.min amount (getd r un)) o) as [un1 [al1 H1]]; [lia|exact Hb|].
  rewrite H1. cbn [bind].
  assert (Hc : forall r', msum r' un1 + asum r' al1 = msum r' un + asum r' al /\ length al1 = length al).
  { intros r'. eapply allocate_conserve; [exact H1|apply Hr; left; reflexivity]. }
  apply IH.
  - intros x Hx. rewrite (proj2 (Hc r)). apply Hr. right. exact Hx.
  - intros r'. rewrite (proj1 (Hc r')). apply Hb.
Qed.

Lemma shares_first q rem i n : share q rem i <= shares q rem i (S n).
Proof. cbn [shares]. lia. Qed.

Lemma split_even_progress r q rem dests : forall i un al,
  in_range (length al) dests -> (forall r', msum r' un + asum r' al <= U128_MAX) ->
  getd r un = shares q rem i (length dests) ->
  exists un' al', split_even r un al q rem i dests = Ok (un', al').
Proof.
  induction dests as [|o ds IH]; intros i un al Hr Hb Hg; cbn [split_even]; [eexists; eexists; reflexivity|].
  cbn [length] in Hg. pose proof (shares_first q rem i (length ds)) as Hs.
  assert (Ha : (if i <? rem then lot_add q 1 else Ok q) = Ok (share q rem i)).
  { unfold share. destruct (i <? rem) eqn:E; [|f_equal; lia]. unfold lot_add.
    pose proof (getd_le_msum r un). specialize (Hb r). unfold share in Hs. rewrite E in Hs.
    destruct (N.leb_spec (q + 1) U128_MAX); [reflexivity|lia]. }
  rewrite Ha. cbn [bind].
  destruct (allocate_progress r un al (share q rem i) o) as [un1 [al1 H1]]; [lia|exact Hb|].
  rewrite H1. cbn [bind].
  assert (Hc : forall r', msum r' un1 + asum r' al1 = msum r' un + asum r' al /\ length al1 = length al).
  { intros r'. eapply allocate_conserve; [exact H1|apply Hr; left; reflexivity]. }
  pose proof (allocate_spec _ _ _ _ _ _ _ H1 (Hr o (or_introl eq_refl))) as [_ [A2 _]].
  apply IH.
  - intros x Hx. rewrite (proj2 (Hc r)). apply Hr. right. exact Hx.
  - intros r'. rewrite (proj1 (Hc r')). apply Hb.
  - rewrite A2, Hg. cbn [shares]. lia.
Qed.

Lemma apply_edict_progress outs etched_id un al e :
  length al = length outs -> ed_output e <= N.of_nat (length outs) ->
  (forall r', msum r' un + asum r' al <= U128_MAX) ->
  exists un' al', apply_edict outs etched_id un al e = Ok (un', al').
Proof.
  intros L Ho Hb. unfold apply_edict.
  destruct (N.ltb_spec (N.of_nat (length outs)) (ed_output e)); [lia|].
  destruct (if id_eqb (ed_id e) (0, 0) then etched_id else Some (ed_id e)) as [r|]; [|eexists; eexists; reflexivity].
  destruct (alookup id_eqb r un) as [balance|] eqn:Eb; [|eexists; eexists; reflexivity].
  pose proof (getd_of_lookup _ _ _ Eb) as G.
  destruct (ed_output e =? N.of_nat (length outs)).
  - pose proof (destinations_in_range outs) as Hr. rewrite <- L in Hr.
    destruct (destinations outs 0) as [|d ds] eqn:Ed; [eexists; eexists; reflexivity|].
    destruct (ed_amount e =? 0).
    + apply split_even_progress; [exact Hr|exact Hb|].
      rewrite shares_total, G. set (m := N.of_nat (length (d :: ds))).
      assert (0 < m) by (unfold m; cbn [length]; lia).
      pose proof (N.mod_lt balance m ltac:(lia)). pose proof (N.div_mod balance m ltac:(lia)). lia.
    + apply split_fixed_progress; [exact Hr|exact Hb].
  - apply allocate_progress; [rewrite G; destruct (ed_amount e =? 0); lia|exact Hb].
Qed.

Lemma apply_edicts_progress outs etched_id es : forall un al,
  length al = length outs -> (forall e, In e es -> ed_output e <= N.of_nat (length outs)) ->
  (forall r', msum r' un + asum r' al <= U128_MAX) ->
  exists un' al', apply_edicts outs etched_id un al es = Ok (un', al').
Proof.
  induction es as [|e es IH]; intros un al L Ho Hb; cbn [apply_edicts]; [eexists; eexists; reflexivity|].
  destruct (apply_edict_progress outs etched_id un al e L (Ho e (or_introl eq_refl)) Hb) as [un1 [al1 H1]].
  rewrite H1. cbn [bind].
  assert (Hc : forall r', msum r' un1 + asum r' al1 = msum r' un + asum r' al /\ length al1 = length al).
  { intros r'. eapply apply_edict_conserve; [exact H1|exact L]. }
  apply IH; [rewrite (proj2 (Hc (0, 0))); exact L|intros x Hx; apply Ho; right; exact Hx|].
  intros r'. rewrite (proj1 (Hc r')). apply Hb.
Qed.

(* ---------- finalisation ---------- *)
Lemma default_phase_progress outs art un al :
  length al = length outs ->
  (forall eds et m p, art = Some (Runestone eds et m (Some p)) -> p < N.of_nat (length outs)) ->
  (forall r', msum r' un + asum r' al <= U128_MAX) ->
  exists al' burned, default_phase outs art un al = Ok (al', burned).
Proof.
  intros L Hp Hb. unfold default_phase.
  assert (Hgen : forall vout : option N,
    exists al' burned,
      match vout with
      | Some v => do m <- pour true un (nth (N.to_nat v) al []); Ok (set_nth (N.to_nat v) m al, [])
      | None => do b <- pour true un []; Ok (al, b) end = Ok (al', burned)).
  { intros [v|].
    - destruct (pour_progress true un (nth (N.to_nat v) al [])) as [m Hm].
      { intros r. pose proof (asum_ge_nth r (N.to_nat v) al). specialize (Hb r). alia. }
      rewrite Hm. cbn [bind]. eexists; eexists; reflexivity.
    - destruct (pour_progress true un []) as [b Hm]; [intros r; specialize (Hb r); cbn [msum]; lia|].
      rewrite Hm. cbn [bind]. eexists; eexists; reflexivity. }
  destruct art as [[eds et m [p|]|et m]|].
  - specialize (Hp eds et m p eq_refl). destruct (N.ltb_spec p (N.of_nat (length outs))); [|lia]. cbn [bind]. apply (Hgen (Some p)).
  - cbn [bind]. apply (Hgen (first_non_opreturn outs 0)).
  - destruct (pour_progress false un []) as [b Hm]; [intros r; specialize (Hb r); cbn [msum]; lia|].
    rewrite Hm. cbn [bind]. eexists; eexists; reflexivity.
  - cbn [bind]. apply (Hgen (first_non_opreturn outs 0)).
Qed.

Lemma store_outputs_progress txid : forall outs al vout bt burned,
  (forall r, msum r burned + asum r al <= U128_MAX) ->
  exists bt' burned', store_outputs txid outs al vout bt burned = Ok (bt', burned').
Proof.
  induction outs as [|opret outs IH]; intros al vout bt burned Hb; destruct al as [|m al]; cbn [store_outputs];
    try (eexists; eexists; reflexivity).
  assert (Hb' : forall r, msum r burned + asum r al <= U128_MAX).
  { intros r. specialize (Hb r). cbn [asum fold_right] in Hb. fold (asum r al) in Hb. lia. }
  destruct m as [|kv m]; [apply IH; exact Hb'|]. destruct opret; [|apply IH; exact Hb'].
  destruct (pour_progress false (kv :: m) burned) as [b1 H1].
  { intros r. specialize (Hb r). cbn [asum fold_right] in Hb. fold (asum r al) in Hb. lia. }
  rewrite H1. cbn [bind]. apply IH. intros r. rewrite (pour_msum r _ _ _ _ H1).
  specialize (Hb r). cbn [asum fold_right] in Hb. fold (asum r al) in Hb. lia.
Qed.

(* ================================================================== known keys *)
Definition kn (K : id -> Prop) (m : bmap) : Prop := forall r v, In (r, v) m -> K r.
Definition tkn (K : id -> Prop) (bt : btable) : Prop := forall k m, In (k, m) bt -> kn K m.

Lemma kn_nil (K : id -> Prop) : kn K [].
Proof. intros r v []. Qed.
Lemma kn_weaken (K K' : id -> Prop) m : (forall r, K r -> K' r) -> kn K m -> kn K' m.
Proof. intros H Hm r v Hin. apply H. eapply Hm. exact Hin. Qed.
Lemma tkn_weaken (K K' : id -> Prop) bt : (forall r, K r -> K' r) -> tkn K bt -> tkn K' bt.
Proof. intros H Hb k m Hin. eapply kn_weaken; [exact H|eapply Hb; exact Hin]. Qed.
Lemma kn_aupd (K : id -> Prop) r v m : K r -> kn K m -> kn K (aupd id_eqb r v m).
Proof. intros Hr Hm r' v' Hin. apply In_aupd in Hin. destruct Hin as [E|Hin]; [injection E as -> _; exact Hr|eapply Hm; exact Hin]. Qed.
Lemma add_to_kn (K : id -> Prop) r v m m' : add_to r v m = Ok m' -> K r -> kn K m -> kn K m'.
Proof. intros Q Hr Hm. apply add_to_ok in Q. destruct Q as [-> _]. apply kn_aupd; assumption. Qed.

Lemma add_all_kn (K : id -> Prop) l : forall un un', add_all l un = Ok un' -> kn K l -> kn K un -> kn K un'.
Proof.
  induction l as [|[k v] l IH]; intros un un' Q Hl Hu; cbn [add_all] in Q; [ok_inj; exact Hu|].
  bind_inv Q as un1 H1. eapply IH; [exact Q|intros r x Hin; eapply Hl; right; exact Hin|].
  eapply add_to_kn; [exact H1|eapply Hl; left; reflexivity|exact Hu].
Qed.

Lemma unallocated_kn (K : id -> Prop) ins : forall bt un bt' un',
  unallocated ins bt un = Ok (bt', un') -> tkn K bt -> kn K un -> tkn K bt' /\ kn K un'.
Proof.
  induction ins as [|i ins IH]; intros bt un bt' un' Q Hb Hu; cbn [unallocated] in Q; [ok_inj; auto|].
  destruct (alookup op_eqb (in_txid i, in_vout i) bt) as [l|] eqn:El; [|eapply IH; eassumption].
  bind_inv Q as un1 H1. eapply IH; [exact Q| |].
  - intros k m Hin. apply In_aremove in Hin. eapply Hb; exact Hin.
  - eapply add_all_kn; [exact H1| |exact Hu]. eapply Hb. eapply (alookup_In op_eqb op_eqb_eq). exact El.
Qed.

Lemma allocate_kn (K : id -> Prop) r un al amt o un' al' :
  allocate r un al amt o = Ok (un', al') -> K r -> kn K un -> Forall (kn K) al -> kn K un' /\ Forall (kn K) al'.
Proof.
  unfold allocate. destruct (0 <? amt); [|intros Q; ok_inj; auto].
  intros Q Hr Hu Hal. bind_inv Q as b Hsub. bind_inv Q as m Hadd. ok_inj. split; [apply kn_aupd; assumption|].
  apply Forall_set_nth; [exact Hal|]. eapply add_to_kn; [exact Hadd|exact Hr|].
  apply Forall_nth_default; [apply kn_nil|exact Hal].
Qed.

Lemma split_even_kn (K : id -> Prop) r amount remainder dests : forall i un al un' al',
  split_even r un al amount remainder i dests = Ok (un', al') -> K r -> kn K un -> Forall (kn K) al ->
  kn K un' /\ Forall (kn K) al'.
Proof.
  induction dests as [|o ds IH]; intros i un al un' al' Q Hr Hu Hal; cbn [split_even] in Q; [ok_inj; auto|].
  bind_inv Q as a Ha. bind_inv Q as [un1 al1] H1.
  destruct (allocate_kn K _ _ _ _ _ _ _ H1 Hr Hu Hal) as [U1 A1]. eapply IH; eassumption.
Qed.

Lemma split_fixed_kn (K : id -> Prop) r amount dests : forall un al un' al',
  split_fixed r un al amount dests = Ok (un', al') -> K r -> kn K un -> Forall (kn K) al ->
  kn K un' /\ Forall (kn K) al'.
Proof.
  induction dests as [|o ds IH]; intros un al un' al' Q Hr Hu Hal; cbn [split_fixed] in Q; [ok_inj; auto|].
  bind_inv Q as [un1 al1] H1.
  destruct (allocate_kn K _ _ _ _ _ _ _ H1 Hr Hu Hal) as [U1 A1]. eapply IH; eassumption.
Qed.

Lemma apply_edict_kn (K : id -> Prop) outs etched_id un al e un' al' :
  apply_edict outs etched_id un al e = Ok (un', al') -> kn K un -> Forall (kn K) al -> kn K un' /\ Forall (kn K) al'.
Proof.
  unfold apply_edict. intros Q Hu Hal.
  destruct (_ <? ed_output e); [discriminate|].
  destruct (if id_eqb (ed_id e) (0, 0) then etched_id else Some (ed_id e)) as [r|]; [|ok_inj; auto].
  destruct (alookup id_eqb r un) as [balance|] eqn:Eb; [|ok_inj; auto].
  assert (Hr : K r) by (eapply Hu; eapply (alookup_In id_eqb id_eqb_eq); exact Eb).
  destruct (ed_output e =? _).
  - destruct (destinations outs 0) as [|d ds]; [ok_inj; auto|].
    destruct (ed_amount e =? 0); [eapply split_even_kn|eapply split_fixed_kn]; eassumption.
  - eapply allocate_kn; eassumption.
Qed.

Lemma apply_edicts_kn (K : id -> Prop) outs etched_id es : forall un al un' al',
  apply_edicts outs etched_id un al es = Ok (un', al') -> kn K un -> Forall (kn K) al -> kn K un' /\ Forall (kn K) al'.
Proof.
  induction es as [|e es IH]; intros un al un' al' Q Hu Hal; cbn [apply_edicts] in Q; [ok_inj; auto|].
  bind_inv Q as [un1 al1] H1. destruct (apply_edict_kn K _ _ _ _ _ _ _ H1 Hu Hal) as [U1 A1]. eapply IH; eassumption.
Qed.

Lemma pour_kn (K : id -> Prop) nz m : forall acc acc', pour nz m acc = Ok acc' -> kn K m -> kn K acc -> kn K acc'.
Proof.
  induction m as [|[k v] m IH]; intros acc acc' Q Hm Ha; cbn [pour] in Q; [ok_inj; exact Ha|].
  assert (Hm' : kn K m) by (intros r x Hin; eapply Hm; right; exact Hin).
  destruct (nz && (v =? 0)); [eapply IH; eassumption|].
  bind_inv Q as acc1 H1. eapply IH; [exact Q|exact Hm'|]. eapply add_to_kn; [exact H1|eapply Hm; left; reflexivity|exact Ha].
Qed.

Lemma default_phase_kn (K : id -> Prop) outs art un al al' burned :
  default_phase outs art un al = Ok (al', burned) -> kn K un -> Forall (kn K) al -> Forall (kn K) al' /\ kn K burned.
Proof.
  intros Q Hu Hal. unfold default_phase in Q.
  assert (Hgen : forall (vr : Res (option N)),
    (do vout <- vr;
     match vout with
     | Some v => do m <- pour true un (nth (N.to_nat v) al []); Ok (set_nth (N.to_nat v) m al, [])
     | None => do b <- pour true un []; Ok (al, b) end) = Ok (al', burned) -> Forall (kn K) al' /\ kn K burned).
  { intros vr Q'. bind_inv Q' as vout Hv. destruct vout as [v|].
    - bind_inv Q' as m Hm. ok_inj. split; [|apply kn_nil]. apply Forall_set_nth; [exact Hal|].
      eapply pour_kn; [exact Hm|exact Hu|]. apply Forall_nth_default; [apply kn_nil|exact Hal].
    - bind_inv Q' as b Hm. ok_inj. split; [exact Hal|]. eapply pour_kn; [exact Hm|exact Hu|apply kn_nil]. }
  destruct art as [[eds et m p|et m]|].
  - eapply Hgen; exact Q.
  - bind_inv Q as b Hm. ok_inj. split; [exact Hal|]. eapply pour_kn; [exact Hm|exact Hu|apply kn_nil].
  - eapply Hgen; exact Q.
Qed.

Lemma store_outputs_kn (K : id -> Prop) txid : forall outs al vout bt burned bt' burned',
  store_outputs txid outs al vout bt burned = Ok (bt', burned') ->
  Forall (kn K) al -> tkn K bt -> kn K burned -> tkn K bt' /\ kn K burned'.
Proof.
  induction outs as [|opret outs IH]; intros al vout bt burned bt' burned' Q Hal Hbt Hb;
    destruct al as [|m al]; cbn [store_outputs] in Q; try (ok_inj; auto).
  assert (Hal' : Forall (kn K) al) by (inversion Hal; assumption).
  assert (Hm : kn K m) by (inversion Hal; assumption).
  destruct m as [|kv m]; [eapply IH; eassumption|]. destruct opret.
  - bind_inv Q as b1 Hp. eapply IH; [exact Q|exact Hal'|exact Hbt|]. eapply pour_kn; eassumption.
  - eapply IH; [exact Q|exact Hal'| |exact Hb].
    intros k m0 Hin. apply In_aupd in Hin. destruct Hin as [E|Hin]; [injection E as _ ->; exact Hm|eapply Hbt; exact Hin].
Qed.

(* ================================================================== hypotheses on transactions *)
Definition cap_t (t : option terms) : N := match t with Some t => odef (t_cap t) | None => 0 end.
Definition amt_t (t : option terms) : N := match t with Some t => odef (t_amount t) | None => 0 end.

(* what Etching::supply() enforces in Runestone::decipher (else the artifact is a cenotaph), with
   the field widths: premine + cap * amount <= u128::MAX, cap : u128 *)
Definition etching_ok (e : etching) : Prop :=
  odef (et_premine e) + cap_t (et_terms e) * amt_t (et_terms e) <= U128_MAX /\ cap_t (et_terms e) <= U128_MAX.

(* what the decoder guarantees about a runestone: edict outputs <= number of outputs
   (Edict::from_integers), pointer < number of outputs, supply representable *)
Definition art_ok (nout : N) (art : artifact) : Prop :=
  match art with
  | Runestone eds et _ p =>
    (forall e, In e eds -> ed_output e <= nout) /\ (forall x, p = Some x -> x < nout) /\
    (forall e, et = Some e -> etching_ok e)
  | Cenotaph _ _ => True
  end.

(* a transaction of a valid chain: decoder guarantees, and spent outputs are not from the future *)
Definition tx_ok (height : N) (tx : txm) : Prop :=
  (forall art, tx_art tx = Some art -> art_ok (N.of_nat (length (tx_outs tx))) art) /\
  (forall i, In i (tx_ins tx) -> in_height i <= height).

(* per-entry invariant: the maximal supply is representable *)
Definition Pent (e : entry) : Prop :=
  e_premine e + cap_of e * amount_of e <= U128_MAX /\ e_mints e <= cap_of e /\ cap_of e <= U128_MAX.

Lemma supply_le es r : entries_ok Pent es -> supply r es <= U128_MAX.
Proof.
  intros H. unfold supply. destruct (alookup id_eqb r es) as [e|] eqn:El; [|unfold U128_MAX; lia].
  destruct (H r e El) as [H1 [H2 _]]. nia.
Qed.

Lemma Pent_new art txid r rune number time nout :
  art_ok nout art -> Pent (new_entry art txid r rune number time).
Proof.
  intros Ha. unfold Pent, new_entry, cap_of, amount_of.
  destruct art as [eds [et|] m p|c m]; cbn; try (unfold U128_MAX; lia).
  destruct Ha as [_ [_ He]]. destruct (He et eq_refl) as [H1 H2]. unfold cap_t, amt_t in *.
  destruct (et_terms et); lia.
Qed.

Lemma tx_commits_progress height c ins :
  (forall i, In i ins -> in_height i <= height) -> exists b, tx_commits height c ins = Ok b.
Proof.
  induction ins as [|i ins IH]; intros H; cbn [tx_commits]; [eexists; reflexivity|].
  assert (IH' : exists b, tx_commits height c ins = Ok b) by (apply IH; intros j Hj; apply H; right; exact Hj).
  destruct (existsb (list_N_eqb c) (in_pushes i) && in_p2tr i); [|exact IH'].
  pose proof (H i (or_introl eq_refl)). destruct (N.ltb_spec height (in_height i)); [lia|].
  destruct (_ <=? _); [eexists; reflexivity|exact IH'].
Qed.

Lemma etched_progress height txi minimum st tx art :
  (forall i, In i (tx_ins tx) -> in_height i <= height) ->
  height <= U64_MAX -> txi < TWO32 -> s_reserved st + 1 <= U64_MAX ->
  exists st' et, etched height txi minimum st tx art = Ok (st', et).
Proof.
  intros Hi Hh Ht Hc. unfold etched. destruct (art_etching_rune art) as [[rune|]|]; [| |eexists; eexists; reflexivity].
  - destruct (_ || _); [eexists; eexists; reflexivity|].
    destruct (tx_commits_progress height (commitment rune) (tx_ins tx) Hi) as [b Hb]. rewrite Hb. cbn [bind].
    destruct b; eexists; eexists; reflexivity.
  - destruct (N.leb_spec (s_reserved st + 1) U64_MAX); [|lia].
    unfold reserved_name.
    destruct (N.leb_spec (RU_RESERVED + (height * 4294967296 + txi)) U128_MAX) as [L|L].
    + cbn [bind]. eexists; eexists; reflexivity.
    + exfalso. unfold RU_RESERVED, U128_MAX, U64_MAX, TWO32 in *. lia.
Qed.

(* ---------- the artifact phase ---------- *)
Lemma art_phase_progress height time minimum txi st tx un al :
  tx_ok height tx -> height <= U64_MAX -> txi < TWO32 ->
  s_reserved st + 1 <= U64_MAX -> s_runes st + 1 <= U64_MAX ->
  entries_ok Pent (s_entries st) -> ~ has_entry (height, txi) (s_entries st) ->
  length al = length (tx_outs tx) ->
  (forall r, msum r un + asum r al <= supply r (s_entries st)) ->
  exists st' un' al', art_phase height time minimum txi st tx un al = Ok (st', un', al') /\ entries_ok Pent (s_entries st').
Proof.
  intros [Hart Hins] Hh Ht Hres Hrun Hent Hfresh L Hb. unfold art_phase.
  destruct (tx_art tx) as [art|] eqn:Ea; [|eexists; eexists; eexists; split; [reflexivity|exact Hent]].
  specialize (Hart art eq_refl).
  (* mint *)
  assert (Hm : exists st1 un1, mint_phase height st un art = Ok (st1, un1) /\
            entries_ok Pent (s_entries st1) /\ ~ has_entry (height, txi) (s_entries st1) /\
            s_reserved st1 = s_reserved st /\ s_runes st1 = s_runes st /\
            (forall r, msum r un1 + asum r al <= supply r (s_entries st1))).
  { unfold mint_phase. destruct (art_mint art) as [r0|]; [|exists st, un; auto 8].
    unfold mint. destruct (alookup id_eqb r0 (s_entries st)) as [e|] eqn:El.
    2:{ cbn [bind]. exists (set_entries st (s_entries st)), un. rewrite set_entries_same. auto 8. }
    destruct (mintable e height) as [err|a] eqn:Em.
    { cbn [bind]. exists (set_entries st (s_entries st)), un. rewrite set_entries_same. auto 8. }
    pose proof Em as Em'. apply mintable_iff in Em'. destruct Em' as [t [Htm [_ [_ [Hc Ha]]]]].
    destruct (Hent r0 e El) as [P1 [P2 P3]]. unfold cap_of in *. rewrite Htm in *.
    destruct (N.leb_spec (e_mints e + 1) U128_MAX); [|lia]. cbn [bind].
    set (es1 := aupd id_eqb r0 (set_mints e (e_mints e + 1)) (s_entries st)).
    assert (Hent1 : entries_ok Pent es1).
    { apply entries_ok_aupd; [exact Hent|]. unfold Pent, cap_of, amount_of, set_mints in *; cbn. rewrite Htm in *. lia. }
    assert (Hs : forall r, supply r es1 = supply r (s_entries st) + (if id_eqb r r0 then a else 0)).
    { intros r. assert (Q : mint height (s_entries st) r0 = Ok (es1, Some a)).
      { unfold mint. rewrite El, Em. destruct (N.leb_spec (e_mints e + 1) U128_MAX); [reflexivity|lia]. }
      apply (mint_supply _ _ _ _ _ r) in Q. destruct Q as [Q _]. exact Q. }
    destruct (add_to_progress r0 a un) as [un1 H1].
    { pose proof (getd_le_msum r0 un). pose proof (Hb r0). pose proof (supply_le es1 r0 Hent1).
      rewrite Hs, id_eqb_refl in H2. alia. }
    rewrite H1. cbn [bind]. exists (set_entries st es1), un1. cbn [set_entries s_entries s_reserved s_runes].
    split; [reflexivity|]. split; [exact Hent1|]. split.
    - intros HH. apply Hfresh. unfold es1 in HH. apply has_entry_aupd in HH. destruct HH as [HH|HH]; [exact HH|].
      rewrite HH. unfold has_entry. rewrite El. discriminate.
    - split; [reflexivity|]. split; [reflexivity|]. intros r. rewrite (add_to_msum _ _ _ _ r H1), Hs.
      specialize (Hb r). destruct (id_eqb r r0); alia. }
  destruct Hm as [st1 [un1 [Hm1 [Hent1 [Hfresh1 [R1 [R2 Hb1]]]]]]]. rewrite Hm1. cbn [bind].
  (* etched *)
  destruct (etched_progress height txi minimum st1 tx art Hins Hh Ht ltac:(lia)) as [st2 [et He]].
  rewrite He. cbn [bind].
  pose proof (etched_frame _ _ _ _ _ _ _ _ He) as [E1 [_ [_ [_ E5]]]].
  (* premine and edicts *)
  assert (Hed : exists un2 al2, edict_phase (tx_outs tx) art et un1 al = Ok (un2, al2)).
  { unfold edict_phase. destruct art as [eds etching m p|c m]; [|eexists; eexists; reflexivity].
    destruct Hart as [Ho [_ Hetch]].
    assert (Hpre : exists un2, (match et with Some (r, _) => add_to r (premine_of etching) un1 | None => Ok un1 end) = Ok un2 /\
              forall r, msum r un2 + asum r al <= U128_MAX).
    { destruct et as [[r0 rune]|].
      - assert (r0 = (height, txi)) as -> by (eapply etched_id; exact He).
        assert (S0 : supply (height, txi) (s_entries st1) = 0).
        { unfold supply. destruct (alookup id_eqb (height, txi) (s_entries st1)) eqn:X; [|reflexivity].
          exfalso. apply Hfresh1. unfold has_entry. rewrite X. discriminate. }
        assert (Hp : premine_of etching <= U128_MAX).
        { unfold premine_of. destruct etching as [e0|]; [|unfold U128_MAX; lia]. destruct (Hetch e0 eq_refl) as [H1 _]. lia. }
        destruct (add_to_progress (height, txi) (premine_of etching) un1) as [un2 H2].
        { pose proof (getd_le_msum (height, txi) un1). pose proof (Hb1 (height, txi)). rewrite S0 in H0. alia. }
        exists un2. split; [exact H2|]. intros r. rewrite (add_to_msum _ _ _ _ r H2).
        pose proof (Hb1 r) as B. pose proof (supply_le _ r Hent1).
        destruct (id_eqb r (height, txi)) eqn:E; [apply id_eqb_eq in E; subst r; rewrite S0 in B; alia|alia].
      - exists un1. split; [reflexivity|]. intros r. pose proof (Hb1 r). pose proof (supply_le _ r Hent1). alia. }
    destruct Hpre as [un2 [Hp2 Hb2]]. rewrite Hp2. cbn [bind].
    apply apply_edicts_progress; [exact L|exact Ho|exact Hb2]. }
  destruct Hed as [un2 [al2 Hed]]. rewrite Hed. cbn [bind].
  (* create *)
  unfold create_phase. destruct et as [[r rune]|].
  2:{ cbn [bind]. eexists; eexists; eexists. split; [reflexivity|]. rewrite E1. exact Hent1. }
  unfold create_rune_entry. rewrite E5, R2. destruct (N.leb_spec (s_runes st + 1) U64_MAX); [|lia].
  cbn [bind]. eexists; eexists; eexists. split; [reflexivity|]. cbn [s_entries].
  apply entries_ok_aupd; [rewrite E1; exact Hent1|]. eapply Pent_new. exact Hart.
Qed.

(* ---------- keys and counters through the artifact phase ---------- *)
Lemma art_phase_kn height time minimum txi st tx un al st' un' al' :
  art_phase height time minimum txi st tx un al = Ok (st', un', al') ->
  let K := fun r => has_entry r (s_entries st') in
  (forall r, has_entry r (s_entries st) -> K r) /\
  (kn K un -> Forall (kn K) al -> kn K un' /\ Forall (kn K) al').
Proof.
  intros Q K. unfold art_phase in Q. destruct (tx_art tx) as [art|]; [|ok_inj; split; auto].
  bind_inv Q as [st1 un1] Hmint. bind_inv Q as [st2 et] Het. bind_inv Q as [un2 al2] Hed.
  bind_inv Q as st3 Hcr. ok_inj.
  pose proof (etched_frame _ _ _ _ _ _ _ _ Het) as [E1 _].
  assert (M1 : forall r, has_entry r (s_entries st) -> has_entry r (s_entries st1)).
  { intros r. pose proof (mint_phase_conserve _ _ _ _ _ _ r Hmint) as [_ [_ M]]. apply M. }
  assert (M2 : forall r, has_entry r (s_entries st1) -> K r).
  { intros r Hr. unfold K. unfold create_phase in Hcr. destruct et as [[r0 rune]|]; [|ok_inj; rewrite E1; exact Hr].
    unfold create_rune_entry in Hcr. destruct (_ <=? _); [|discriminate]. ok_inj. cbn [s_entries].
    apply has_entry_aupd. left. rewrite E1. exact Hr. }
  assert (M3 : forall r0 rune, et = Some (r0, rune) -> K r0).
  { intros r0 rune ->. unfold K. unfold create_phase, create_rune_entry in Hcr. destruct (_ <=? _); [|discriminate].
    ok_inj. cbn [s_entries]. apply has_entry_aupd. right. reflexivity. }
  split; [intros r Hr; apply M2, M1; exact Hr|]. intros Hu Hal.
  assert (U1 : kn K un1).
  { unfold mint_phase in Hmint. destruct (art_mint art) as [r|]; [|ok_inj; exact Hu].
    bind_inv Hmint as [es am] Hm. destruct am as [a|]; [|ok_inj; exact Hu].
    bind_inv Hmint as un3 Hadd. ok_inj. eapply add_to_kn; [exact Hadd| |exact Hu].
    apply mint_spec in Hm. destruct (alookup id_eqb r (s_entries st)) as [e|] eqn:El.
    - apply M2, M1. unfold has_entry. rewrite El. discriminate.
    - destruct Hm as [_ Hm]. discriminate. }
  unfold edict_phase in Hed. destruct art as [eds etching m p|c m]; [|ok_inj; auto].
  bind_inv Hed as un3 Hpre.
  assert (U3 : kn K un3).
  { destruct et as [[r0 rune]|]; [|ok_inj; exact U1]. eapply add_to_kn; [exact Hpre|eapply M3; reflexivity|exact U1]. }
  eapply apply_edicts_kn; eassumption.
Qed.

Lemma art_phase_counters height time minimum txi st tx un al st' un' al' :
  art_phase height time minimum txi st tx un al = Ok (st', un', al') ->
  s_reserved st' <= s_reserved st + 1 /\ s_runes st' <= s_runes st + 1.
Proof.
  intros Q. unfold art_phase in Q. destruct (tx_art tx) as [art|]; [|ok_inj; lia].
  bind_inv Q as [st1 un1] Hmint. bind_inv Q as [st2 et] Het. bind_inv Q as [un2 al2] Hed.
  bind_inv Q as st3 Hcr. ok_inj.
  pose proof (mint_phase_frame _ _ _ _ _ _ Hmint) as [_ [_ [_ [F4 F5]]]].
  pose proof (etched_frame _ _ _ _ _ _ _ _ Het) as [_ [_ [_ [_ E5]]]].
  assert (R : s_reserved st2 <= s_reserved st1 + 1).
  { apply etched_spec in Het. destruct (art_etching_rune art) as [[rn|]|].
    - destruct Het as [-> _]. lia.
    - destruct Het as [-> _]. cbn. lia.
    - destruct Het as [-> _]. lia. }
  unfold create_phase in Hcr. destruct et as [[r rune]|]; [|ok_inj; lia].
  unfold create_rune_entry in Hcr. destruct (_ <=? _); [|discriminate]. ok_inj. cbn. lia.
Qed.

(* ================================================================== one transaction *)
Record TxInv (height txi : N) (u : upd) : Prop := mkTxInv {
  ti_cons : ConsU u;
  ti_ent : entries_ok Pent (s_entries (u_st u));
  ti_tkn : tkn (fun r => has_entry r (s_entries (u_st u))) (s_balances (u_st u));
  ti_ub : kn (fun r => has_entry r (s_entries (u_st u))) (u_burned u);
  ti_ids : ids_before height txi (s_entries (u_st u)) }.

Lemma Forall_repeat_nil {P : bmap -> Prop} n : P [] -> Forall P (repeat [] n).
Proof. intros H. induction n; cbn; constructor; assumption. Qed.

Lemma index_runes_total height time minimum txi u tx :
  TxInv height txi u -> tx_ok height tx -> height <= U64_MAX -> txi < TWO32 ->
  s_reserved (u_st u) + 1 <= U64_MAX -> s_runes (u_st u) + 1 <= U64_MAX ->
  (forall o, alookup op_eqb (tx_id tx, o) (s_balances (u_st u)) = None) ->
  exists u', index_runes height time minimum txi u tx = Ok u' /\ TxInv height (txi + 1) u' /\
    s_reserved (u_st u') <= s_reserved (u_st u) + 1 /\ s_runes (u_st u') <= s_runes (u_st u) + 1.
Proof.
  intros [Ic Ie It Iu Ii] Hok Hh Ht Hres Hrun Hfr.
  assert (Hfresh : ~ has_entry (height, txi) (s_entries (u_st u))).
  { intros H. apply Ii in H. cbn in H. lia. }
  (* 1: unallocated *)
  destruct (unallocated_progress (tx_ins tx) (s_balances (u_st u)) []) as [bt [un Hun]].
  { intros r. pose proof (Ic r). pose proof (supply_le _ r Ie). cbn [msum]. alia. }
  pose proof (fun r => unallocated_msum r _ _ _ _ _ Hun) as U1. cbn [msum] in U1.
  (* 2: artifact phase *)
  destruct (art_phase_progress height time minimum txi (set_balances (u_st u) bt) tx un (repeat [] (length (tx_outs tx))))
    as [st1 [un1 [al1 [Hart Hent1]]]]; try assumption.
  { apply repeat_length. }
  { intros r. rewrite asum_repeat. cbn [set_balances s_entries]. pose proof (Ic r). pose proof (U1 r). alia. }
  pose proof (fun r => art_phase_conserve _ _ _ _ _ _ _ _ _ _ _ r Hart (repeat_length _ _) Hfresh) as A.
  cbn [set_balances s_entries s_balances] in A.
  assert (L1 : length al1 = length (tx_outs tx)).
  { destruct (A (0, 0)) as [_ [L _]]. rewrite L. apply repeat_length. }
  assert (B1 : s_balances st1 = bt) by (destruct (A (0, 0)) as [_ [_ [B _]]]; exact B).
  assert (Hb1 : forall r, msum r un1 + asum r al1 + (tsum r bt + msum r (u_burned u)) <= U128_MAX).
  { intros r. destruct (A r) as [A1 [_ [_ [A4 _]]]]. rewrite asum_repeat in A1.
    pose proof (Ic r). pose proof (U1 r). pose proof (supply_le _ r Hent1). alia. }
  (* 3: default output *)
  destruct (default_phase_progress (tx_outs tx) (tx_art tx) un1 al1 L1) as [al2 [burned Hdef]].
  { intros eds et m p Ea. destruct Hok as [Hart' _]. specialize (Hart' _ Ea). destruct Hart' as [_ [Hp _]]. apply Hp. reflexivity. }
  { intros r. specialize (Hb1 r). alia. }
  pose proof (fun r => default_phase_conserve _ _ _ _ _ _ r Hdef L1) as D.
  (* 4: storing *)
  destruct (store_outputs_progress (tx_id tx) (tx_outs tx) al2 0 (s_balances st1) burned) as [bt2 [burned2 Hst]].
  { intros r. destruct (D r) as [D1 _]. specialize (Hb1 r). alia. }
  assert (Hf2 : forall v, 0 <= v -> alookup op_eqb (tx_id tx, v) (s_balances st1) = None).
  { intros v _. rewrite B1. eapply unallocated_none; [exact Hun|apply Hfr]. }
  pose proof (fun r => store_outputs_conserve r _ _ _ _ _ _ _ _ Hst ltac:(destruct (D (0, 0)) as [_ L2]; lia) Hf2) as S.
  (* 5: block burned map *)
  destruct (pour_progress false burned2 (u_burned u)) as [ub Hp].
  { intros r. destruct (D r) as [D1 _]. pose proof (S r) as S1. rewrite B1 in S1. specialize (Hb1 r). alia. }
  (* the run *)
  assert (Hrun' : index_runes height time minimum txi u tx = Ok (mkUpd (set_balances st1 bt2) ub)).
  { unfold index_runes. rewrite Hun. cbn [bind]. rewrite Hart. cbn [bind]. rewrite Hdef. cbn [bind].
    rewrite Hst. cbn [bind]. rewrite Hp. reflexivity. }
  exists (mkUpd (set_balances st1 bt2) ub). split; [exact Hrun'|].
  pose proof (art_phase_kn _ _ _ _ _ _ _ _ _ _ _ Hart) as [Kmono Kphase].
  cbn [set_balances s_entries] in Kmono, Kphase.
  set (K := fun r => has_entry r (s_entries st1)) in *.
  destruct (unallocated_kn (fun r => has_entry r (s_entries (u_st u))) _ _ _ _ _ Hun It (kn_nil _)) as [T0 U0].
  assert (T1 : tkn K bt) by (eapply tkn_weaken; [exact Kmono|exact T0]).
  destruct (Kphase (kn_weaken _ K _ Kmono U0) (Forall_repeat_nil _ (kn_nil K))) as [Ku1 Ka1].
  destruct (default_phase_kn K _ _ _ _ _ _ Hdef Ku1 Ka1) as [Ka2 Kb].
  destruct (store_outputs_kn K _ _ _ _ _ _ _ _ Hst Ka2 ltac:(rewrite B1; exact T1) Kb) as [T2 Kb2].
  pose proof (pour_kn K _ _ _ _ Hp Kb2 (kn_weaken _ K _ Kmono Iu)) as Kub.
  split; [|split].
  - constructor; cbn [u_st u_burned set_balances s_entries s_balances].
    + intros r. pose proof (index_runes_conserves _ _ _ _ _ _ _ r Hrun' Hfresh Hfr) as [C1 [C2 _]].
      cbn [u_st u_burned set_balances s_entries s_balances] in C1, C2 |- *. pose proof (Ic r) as C0. alia.
    + exact Hent1.
    + exact T2.
    + exact Kub.
    + intros r Hr. destruct (A r) as [_ [_ [_ [_ [A5 _]]]]]. destruct (A5 Hr) as [H|H].
      * apply Ii in H. lia.
      * subst r. cbn. lia.
  - apply art_phase_counters in Hart. cbn [set_balances s_reserved s_runes u_st] in *. lia.
  - apply art_phase_counters in Hart. cbn [set_balances s_reserved s_runes u_st] in *. lia.
Qed.

(* ================================================================== end of block *)
Lemma update_burned_progress bl : forall es,
  kn (fun r => has_entry r es) bl -> (forall r, eburned r es + msum r bl <= U128_MAX) ->
  exists es', update_burned bl es = Ok es'.
Proof.
  induction bl as [|[r0 b] bl IH]; intros es Hk Hb; cbn [update_burned]; [eexists; reflexivity|].
  assert (He : has_entry r0 es) by (eapply Hk; left; reflexivity).
  destruct (alookup id_eqb r0 es) as [e|] eqn:El; [|exfalso; apply He; exact El].
  pose proof (Hb r0) as Hb0. unfold eburned in Hb0. rewrite El in Hb0. cbn [msum] in Hb0. rewrite id_eqb_refl in Hb0.
  destruct (N.leb_spec (e_burned e + b) U128_MAX); [|alia].
  apply IH.
  - intros r v Hin. apply has_entry_aupd. left. eapply Hk. right. exact Hin.
  - intros r. specialize (Hb r). cbn [msum] in Hb. unfold eburned in *. rewrite (alookup_aupd id_eqb id_eqb_eq).
    destruct (id_eqb r r0) eqn:E; [apply id_eqb_eq in E; subst r0; rewrite El in Hb; cbn [set_burned e_burned]; alia|alia].
Qed.

(* ================================================================== a block *)
Lemma index_txs_total height time minimum later txs : forall txi u,
  TxInv height txi u -> Forall (tx_ok height) txs -> height <= U64_MAX ->
  txi + N.of_nat (length txs) <= TWO32 ->
  s_reserved (u_st u) + N.of_nat (length txs) <= U64_MAX ->
  s_runes (u_st u) + N.of_nat (length txs) <= U64_MAX ->
  NoDup (map tx_id txs ++ later) -> fresh_txids (map tx_id txs ++ later) (s_balances (u_st u)) ->
  exists u' txi', index_txs height time minimum txi u txs = Ok u' /\ TxInv height txi' u' /\
    fresh_txids later (s_balances (u_st u')) /\
    s_reserved (u_st u') <= s_reserved (u_st u) + N.of_nat (length txs) /\
    s_runes (u_st u') <= s_runes (u_st u) + N.of_nat (length txs).
Proof.
  induction txs as [|tx txs IH]; intros txi u I Hok Hh Ht Hres Hrun Hnd Hfr; cbn [index_txs].
  - exists u, txi. split; [reflexivity|]. split; [exact I|]. split; [exact Hfr|]. cbn [length]. lia.
  - cbn [length map app] in *. inversion Hok as [|? ? Hok1 Hok2]; subst. inversion Hnd as [|? ? Hn1 Hn2]; subst.
    destruct (index_runes_total height time minimum txi u tx I Hok1 Hh ltac:(lia) ltac:(lia) ltac:(lia))
      as [u1 [H1 [I1 [R1 R2]]]].
    { intros o. apply Hfr. left. reflexivity. }
    rewrite H1. cbn [bind].
    destruct (IH (txi + 1) u1 I1 Hok2 Hh) as [u2 [txi2 [H2 [I2 [F2 [R3 R4]]]]]]; try lia; [exact Hn2| |].
    + intros t o Hin.
      destruct (alookup op_eqb (t, o) (s_balances (u_st u1))) eqn:X; [|reflexivity]. exfalso.
      assert (Hfresh : ~ has_entry (height, txi) (s_entries (u_st u))).
      { intros H. apply (ti_ids _ _ _ I) in H. cbn in H. lia. }
      pose proof (index_runes_conserves _ _ _ _ _ _ _ (0, 0) H1 Hfresh ltac:(intros o'; apply Hfr; left; reflexivity)) as [_ [_ [_ [_ K]]]].
      destruct (K (t, o)) as [K1|K1]; [rewrite X; discriminate| |].
      * apply K1. apply Hfr. right. exact Hin.
      * cbn in K1. subst t. contradiction.
    + exists u2, txi2. split; [exact H2|]. split; [exact I2|]. split; [exact F2|]. lia.
Qed.

(* what must hold of the index state before a block *)
Record StateOk (height : N) (st : state) : Prop := mkStateOk {
  so_cons : Conserved st;
  so_ent : entries_ok Pent (s_entries st);
  so_tkn : tkn (fun r => has_entry r (s_entries st)) (s_balances st);
  so_ids : forall r, has_entry r (s_entries st) -> fst r < height }.

(* what must hold of the block (named hypotheses of runes_index_total):
   bo_txs      every transaction satisfies what the decoder / a valid chain guarantee (tx_ok)
   bo_height   the height fits u64 (Rune::reserved)
   bo_count    at most 2^32 transactions (u32 transaction index)
   bo_nodup    transaction ids are pairwise distinct
   bo_fresh    and are not keys of the balance table yet
   bo_runes / bo_reserved   the u64 counters have room for one etching per transaction *)
Record BlockOk (height : N) (st : state) (b : block) : Prop := mkBlockOk {
  bo_txs : Forall (tx_ok height) (b_txs b);
  bo_height : height <= U64_MAX;
  bo_count : N.of_nat (length (b_txs b)) <= TWO32;
  bo_nodup : NoDup (map tx_id (b_txs b));
  bo_fresh : fresh_txids (map tx_id (b_txs b)) (s_balances st);
  bo_runes : s_runes st + N.of_nat (length (b_txs b)) <= U64_MAX;
  bo_reserved : s_reserved st + N.of_nat (length (b_txs b)) <= U64_MAX }.

(* general form: [later] = transaction ids of the blocks still to come *)
Lemma runes_index_total_gen first height st b later :
  StateOk height st -> BlockOk height st b ->
  NoDup (map tx_id (b_txs b) ++ later) -> fresh_txids (map tx_id (b_txs b) ++ later) (s_balances st) ->
  exists st', index_block first height st b = Ok st' /\ StateOk (height + 1) st' /\
    fresh_txids later (s_balances st') /\
    s_reserved st' <= s_reserved st + N.of_nat (length (b_txs b)) /\
    s_runes st' <= s_runes st + N.of_nat (length (b_txs b)).
Proof.
  intros [Sc Se St Si] [Bt Bh Bc Bn Bf Br Bs] Hnd Hfr. unfold index_block. destruct (height <? first).
  - exists st. split; [reflexivity|]. split; [|split].
    + constructor; try assumption. intros r Hr. apply Si in Hr. lia.
    + intros t o Hin. apply Hfr. apply in_or_app. right. exact Hin.
    + lia.
  - assert (I0 : TxInv height 0 (mkUpd st [])).
    { constructor; cbn [u_st u_burned].
      - intros r. cbn [u_st u_burned msum]. specialize (Sc r). lia.
      - exact Se.
      - exact St.
      - apply kn_nil.
      - intros r Hr. left. apply Si. exact Hr. }
    destruct (index_txs_total height (b_time b) (minimum_at_height first height) later (b_txs b) 0 (mkUpd st []) I0 Bt Bh)
      as [u1 [txi' [Htx [[Ic Ie It Iu Ii] [F1 [R1 R2]]]]]]; cbn [u_st]; try assumption; try lia.
    rewrite Htx. cbn [bind]. cbn [u_st] in R1, R2.
    destruct (update_burned_progress (u_burned u1) (s_entries (u_st u1)) Iu) as [es1 Hup].
    { intros r. pose proof (Ic r). pose proof (supply_le _ r Ie). alia. }
    rewrite Hup. cbn [bind]. eexists. split; [reflexivity|]. split; [|split; [exact F1|cbn; lia]].
    constructor; cbn [set_entries s_entries s_balances].
    + intros r. cbn [set_entries s_entries s_balances]. pose proof (update_burned_spec _ _ _ r Hup) as [U1 [U2 _]].
      pose proof (Ic r). alia.
    + eapply update_burned_entries_ok; [|exact Hup|exact Ie].
      intros e b0 [P1 [P2 P3]]. unfold Pent, cap_of, amount_of, set_burned in *; cbn. auto.
    + eapply tkn_weaken; [|exact It]. intros r Hr. cbn beta in *.
      pose proof (update_burned_spec _ _ _ r Hup) as [_ [_ U3]]. apply U3. exact Hr.
    + intros r Hr. pose proof (update_burned_spec _ _ _ r Hup) as [_ [_ U3]]. apply U3 in Hr. apply Ii in Hr. lia.
Qed.

(* one block: index_block of the model never panics *)
Theorem runes_index_total first height st b :
  StateOk height st -> BlockOk height st b ->
  exists st', index_block first height st b = Ok st' /\ StateOk (height + 1) st'.
Proof.
  intros S B. destruct (runes_index_total_gen first height st b [] S B) as [st' [H1 [H2 _]]].
  - rewrite app_nil_r. exact (bo_nodup _ _ _ B).
  - rewrite app_nil_r. exact (bo_fresh _ _ _ B).
  - exists st'. auto.
Qed.

(* a chain: blocks at consecutive heights *)
Fixpoint chain_ok (height : N) (bs : list block) : Prop :=
  match bs with
  | [] => True
  | b :: r =>
    Forall (tx_ok height) (b_txs b) /\ height <= U64_MAX /\ N.of_nat (length (b_txs b)) <= TWO32 /\
    chain_ok (height + 1) r
  end.

Theorem runes_index_chain_total first bs : forall height st,
  StateOk height st -> chain_ok height bs ->
  NoDup (txids bs) -> fresh_txids (txids bs) (s_balances st) ->
  s_runes st + N.of_nat (length (txids bs)) <= U64_MAX ->
  s_reserved st + N.of_nat (length (txids bs)) <= U64_MAX ->
  exists sts, index_chain first height st bs = Ok sts.
Proof.
  induction bs as [|b bs IH]; intros height st S C Hnd Hfr Hr1 Hr2; cbn [index_chain]; [eexists; reflexivity|].
  cbn [chain_ok] in C. destruct C as [C1 [C2 [C3 C4]]]. cbn [txids flat_map] in Hnd, Hfr, Hr1, Hr2.
  fold (txids bs) in *. rewrite app_length, map_length in Hr1, Hr2.
  assert (B : BlockOk height st b).
  { constructor; try assumption; try lia.
    - clear -Hnd. induction (map tx_id (b_txs b)) as [|x l IHl]; [constructor|]. cbn in Hnd. inversion Hnd; subst.
      constructor; [intros H; apply H1; apply in_or_app; left; exact H|apply IHl; assumption].
    - intros t o Hin. apply Hfr. apply in_or_app. left. exact Hin. }
  destruct (runes_index_total_gen first height st b (txids bs) S B Hnd Hfr) as [st1 [H1 [S1 [F1 [R1 R2]]]]].
  rewrite H1. cbn [bind].
  destruct (IH (height + 1) st1 S1 C4) as [sts Hs]; [eapply NoDup_app_r; exact Hnd|exact F1|lia|lia|].
  rewrite Hs. cbn [bind]. eexists; reflexivity.
Qed.

(* the empty index satisfies StateOk *)
Lemma state_ok_empty height : StateOk height empty_state.
Proof.
  constructor; cbn.
  - intros r. reflexivity.
  - apply entries_ok_empty.
  - intros k m [].
  - intros r H. exfalso. apply H. reflexivity.
Qed.

(* Non-vacuity: a block that etches (premine + cap * amount within u128), then one that mints and
   splits over the outputs, satisfy the hypotheses. *)
Example runes_index_total_nonvacuous :
  let et := mkEtching None (Some 100) None None None (Some (mkTerms (Some 7) (Some 2) None None None None)) false in
  let tx0 := mkTx 1 [] [false] (Some (Runestone [] (Some et) None None)) in
  let b0 := mkBlock 0 [tx0] in
  StateOk 5 empty_state /\ BlockOk 5 empty_state b0 /\
  exists st', index_block 0 5 empty_state b0 = Ok st' /\ s_runes st' = 1.
Proof.
  cbv zeta. split; [apply state_ok_empty|]. split.
  - constructor; cbn; try (unfold U64_MAX, TWO32; lia).
    + constructor; [|constructor]. split.
      * intros art H. injection H as <-. cbn. split; [intros e []|]. split; [intros x H; discriminate|].
        intros e H. injection H as <-. unfold etching_ok, cap_t, amt_t, U128_MAX; cbn. lia.
      * intros i [].
    + constructor; [intros []|constructor].
    + intros t v _. reflexivity.
  - vm_compute. eexists. split; reflexivity.
Qed.

(* from the empty index (regtest / signet / testnet; mainnet starts with one hard-coded entry) *)
Corollary runes_index_chain_total_from_empty first height bs :
  chain_ok height bs -> NoDup (txids bs) -> N.of_nat (length (txids bs)) <= U64_MAX ->
  exists sts, index_chain first height empty_state bs = Ok sts.
Proof.
  intros C Hnd Hl. apply runes_index_chain_total; try assumption.
  - apply state_ok_empty.
  - intros t o _. reflexivity.
Qed.
