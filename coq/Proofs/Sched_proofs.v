(* Proofs about the commit / savepoint / reorg model (Index/Sched.v). *)
From OrdV Require Import Base.Prelude Index.Sched.
Require Import ZifyBool ZifyN.

Definition prefix (a b : list N) : Prop := exists r, b = a ++ r.

Definition params_ok (p : params) : Prop :=
  0 < interval p /\ 0 < maxsp p /\ 0 < commit_iv p.

(* every retained savepoint is a snapshot of a prefix of the current blocks *)
Definition Inv (st : store) : Prop :=
  Forall (fun s => prefix (blocks (snd s)) (blocks (cur st))) (sps st).

(* ---------------------------------------------------------------- lists *)

Lemma prefix_refl a : prefix a a.
Proof. exists []. rewrite app_nil_r. reflexivity. Qed.

Lemma prefix_trans a b c : prefix a b -> prefix b c -> prefix a c.
Proof. intros [r ->] [s ->]. exists (r ++ s). rewrite app_assoc. reflexivity. Qed.

Lemma prefix_app a r : prefix a (a ++ r).
Proof. exists r. reflexivity. Qed.

Lemma prefix_length a b : prefix a b -> (length a <= length b)%nat.
Proof. intros [r ->]. rewrite app_length. lia. Qed.

Lemma prefix_firstn a b : prefix a b -> a = firstn (length a) b.
Proof.
  intros [r ->]. rewrite firstn_app, Nat.sub_diag, firstn_all. cbn. rewrite app_nil_r. reflexivity.
Qed.

Lemma firstn_prefix n b : prefix (firstn n b) b.
Proof. exists (skipn n b). symmetry. apply firstn_skipn. Qed.

Lemma prefix_same_length a b : prefix a b -> length a = length b -> a = b.
Proof.
  intros [r ->] H. rewrite app_length in H. assert (length r = 0)%nat by lia.
  destruct r; [rewrite app_nil_r; reflexivity|discriminate].
Qed.

Lemma list_N_eqb_spec a : forall b, list_N_eqb a b = true <-> a = b.
Proof.
  induction a as [|x a IH]; intros [|y b]; cbn [list_N_eqb]; split; intros H;
    try reflexivity; try discriminate.
  - apply andb_true_iff in H. destruct H as [H1 H2]. apply N.eqb_eq in H1. apply IH in H2. congruence.
  - inversion H; subst. rewrite N.eqb_refl. cbn. apply IH. reflexivity.
Qed.

Lemma len_app {A} (a b : list A) : len (a ++ b) = len a + len b.
Proof. unfold len. rewrite app_length. lia. Qed.

Lemma to_nat_len {A} (l : list A) : N.to_nat (len l) = length l.
Proof. unfold len. apply Nat2N.id. Qed.

Lemma hash_at_some c i x : hash_at c i = Some x -> i < len c /\ x = firstn (N.to_nat (i + 1)) c.
Proof.
  unfold hash_at. destruct (N.ltb_spec i (len c)) as [Hlt|Hge]; intros Hx; [|discriminate].
  inversion Hx. split; [assumption|reflexivity].
Qed.

Lemma hash_at_lt c i : i < len c -> hash_at c i = Some (firstn (N.to_nat (i + 1)) c).
Proof. unfold hash_at. intros Hi. destruct (N.ltb_spec i (len c)) as [Hlt|Hge]; [reflexivity|lia]. Qed.

Lemma hash_at_ge c i : len c <= i -> hash_at c i = None.
Proof. unfold hash_at. intros Hi. destruct (N.ltb_spec i (len c)) as [Hlt|Hge]; [lia|reflexivity]. Qed.

(* ---------------------------------------------------------------- detect *)

(* On a database that is a prefix of the node chain no reorg is ever detected. *)
Lemma detect_prefix p committed working nodec :
  prefix committed working -> prefix working nodec -> len working < len nodec ->
  detect p committed nodec (len working) = NoReorg.
Proof.
  intros Hcw Hwn Hlt. unfold detect.
  destruct (N.eqb_spec (len working) 0) as [|Hnz]; [reflexivity|].
  destruct (hash_at committed (len working - 1)) as [ih|] eqn:Hc; [|reflexivity].
  apply hash_at_some in Hc. destruct Hc as [Hlen ->].
  assert (Hcl: length committed = length working).
  { apply prefix_length in Hcw. unfold len in *. lia. }
  pose proof (prefix_same_length _ _ Hcw Hcl) as ->.
  rewrite hash_at_lt by lia.
  replace (len working - 1 + 1) with (len working) by lia.
  rewrite !to_nat_len.
  rewrite firstn_all.
  rewrite <- (prefix_firstn _ _ Hwn).
  cbn [opt_hash_eqb].
  assert (E: list_N_eqb working working = true) by (apply list_N_eqb_spec; reflexivity).
  rewrite E. reflexivity.
Qed.

(* What a first-block NoReorg verdict means: the committed database is a prefix of the node chain. *)
Lemma detect_noreorg_prefix p committed nodec :
  len committed < len nodec ->
  detect p committed nodec (len committed) = NoReorg -> prefix committed nodec.
Proof.
  intros Hlt. unfold detect.
  destruct (N.eqb_spec (len committed) 0) as [Hz|Hnz].
  - intros _. destruct committed; [exists nodec; reflexivity|]. unfold len in Hz. cbn in Hz. lia.
  - rewrite hash_at_lt by lia.
    rewrite hash_at_lt by lia.
    replace (len committed - 1 + 1) with (len committed) by lia.
    cbn [opt_hash_eqb].
    destruct (list_N_eqb _ _) eqn:E.
    + intros _. apply list_N_eqb_spec in E.
      rewrite !to_nat_len, firstn_all in E.
      rewrite E. apply firstn_prefix.
    + intros H. exfalso.
      set (maxd := (maxsp p - 1) * interval p + len committed mod interval p) in H.
      clearbody maxd.
      assert (G: forall fuel depth, depth_search fuel committed nodec (len committed) depth maxd <> NoReorg).
      { induction fuel as [|f IH]; intros depth; cbn [depth_search]; [discriminate|].
        destruct (depth <? maxd); [|discriminate].
        destruct (opt_hash_eqb _ _); [discriminate|apply IH]. }
      exact (G _ _ H).
Qed.

(* A Recoverable verdict exhibits a common ancestor: index and node agree on
   the first (h - d + 1) blocks (truncated subtraction, as in the code). *)
Lemma depth_search_recoverable idx nodec h maxd : forall fuel depth h' d,
  len idx = h -> 1 <= h -> 1 <= depth ->
  depth_search fuel idx nodec h depth maxd = Recoverable h' d ->
  h' = h /\ 1 <= d /\ h - d + 1 <= len nodec /\ h - d + 1 <= len idx /\
  firstn (N.to_nat (h - d + 1)) idx = firstn (N.to_nat (h - d + 1)) nodec.
Proof.
  induction fuel as [|f IH]; intros depth h' d Hlen Hh Hd; cbn [depth_search]; [discriminate|].
  destruct (depth <? maxd); [|discriminate].
  destruct (opt_hash_eqb _ _) eqn:E.
  - intros H. inversion H; subst h' d. split; [reflexivity|]. split; [assumption|].
    destruct (N.leb_spec depth h) as [Hle|Hgt].
    + rewrite hash_at_lt in E by lia.
      destruct (hash_at nodec (h - depth)) as [nh|] eqn:Hn; [|discriminate].
      apply hash_at_some in Hn. destruct Hn as [Hnl ->].
      cbn [opt_hash_eqb] in E. apply list_N_eqb_spec in E.
      repeat split; try lia. exact E.
    + (* depth > h: the index side is the tip hash *)
      replace (h - depth) with 0 in * by lia.
      destruct idx as [|x idx']; [unfold len in Hlen; cbn in Hlen; lia|].
      unfold tip_hash in E.
      destruct (hash_at nodec 0) as [nh|] eqn:Hn; [|discriminate].
      apply hash_at_some in Hn. destruct Hn as [Hnl ->].
      cbn [opt_hash_eqb] in E. apply list_N_eqb_spec in E.
      repeat split; try lia.
      change (N.to_nat (0 + 1)) with 1%nat in *.
      rewrite E at 1. rewrite firstn_firstn. reflexivity.
  - intros H. apply (IH (depth + 1) h' d Hlen Hh) in H; [exact H|lia].
Qed.

Lemma detect_recoverable p committed nodec h' d :
  len committed < len nodec ->
  detect p committed nodec (len committed) = Recoverable h' d ->
  h' = len committed /\ 1 <= d /\ len committed - d + 1 <= len nodec /\
  len committed - d + 1 <= len committed /\
  firstn (N.to_nat (len committed - d + 1)) committed = firstn (N.to_nat (len committed - d + 1)) nodec.
Proof.
  intros Hlt. unfold detect.
  destruct (N.eqb_spec (len committed) 0) as [Hz|Hnz]; [discriminate|].
  destruct (hash_at committed (len committed - 1)); [|discriminate].
  destruct (opt_hash_eqb _ _); [discriminate|].
  intros H. eapply depth_search_recoverable in H; try reflexivity; try lia. exact H.
Qed.

(* ---------------------------------------------------------------- commit *)

Lemma remove_first_sp_Forall (P : N * db -> Prop) l : Forall P l -> Forall P (remove_first_sp l).
Proof. destruct l; cbn; intros H; [constructor|inversion H; assumption]. Qed.

Lemma commit_spec p nd st working pending st' t :
  commit p nd st working pending = (st', t) ->
  blocks (cur st') = working /\
  (Inv st -> prefix (blocks (cur st)) working -> Inv st') /\
  Forall (fun s => blocks (cur s) = working /\
                   (Inv st -> prefix (blocks (cur st)) working -> Inv s)) t.
Proof.
  unfold commit.
  assert (Hmono: forall l, Inv st -> prefix (blocks (cur st)) working ->
     (l = sps st \/ l = remove_first_sp (sps st)) ->
     Forall (fun s : N * db => prefix (blocks (snd s)) working) l).
  { intros l HI Hp Hl.
    assert (F: Forall (fun s : N * db => prefix (blocks (snd s)) working) (sps st)).
    { unfold Inv in HI. eapply Forall_impl; [|exact HI]. intros s Hs. cbn beta in *. exact (prefix_trans _ _ _ Hs Hp). }
    destruct Hl as [->| ->]; [exact F|apply remove_first_sp_Forall; exact F]. }
  destruct (is_sp_required p (last_sp (cur st)) (headers nd) (len working)).
  - intros H. inversion H; subst st' t. clear H. cbn [cur blocks sps].
    set (sps1 := if maxsp p <=? len (sps st) then remove_first_sp (sps st) else sps st).
    assert (Hs1: sps1 = sps st \/ sps1 = remove_first_sp (sps st)).
    { unfold sps1. destruct (maxsp p <=? len (sps st)); [right|left]; reflexivity. }
    split; [reflexivity|]. split.
    + intros HI Hp. unfold Inv. cbn [cur blocks sps].
      apply Forall_app. split; [apply Hmono; assumption|].
      constructor; [cbn; apply prefix_refl|constructor].
    + repeat constructor; cbn [cur blocks sps]; try reflexivity; intros HI Hp; unfold Inv; cbn [cur blocks sps].
      * apply Hmono; auto.
      * apply Hmono; auto.
      * apply Hmono; auto.
      * apply Forall_app. split; [apply Hmono; assumption|].
        constructor; [cbn; apply prefix_refl|constructor].
  - intros H. inversion H; subst st' t. clear H. cbn [cur blocks sps].
    split; [reflexivity|]. split.
    + intros HI Hp. unfold Inv. cbn [cur blocks sps]. apply Hmono; auto.
    + repeat constructor; cbn [cur blocks sps]; try reflexivity; intros HI Hp; unfold Inv; cbn [cur blocks sps];
        apply Hmono; auto.
Qed.

(* ---------------------------------------------------------------- pass *)

(* The block loop on a database that is a prefix of the node chain: runs to the
   end, never reports a reorg, ends with exactly the node chain, and every
   durable state on the way is a prefix of the node chain satisfying Inv. *)
Lemma pass_loop_prefix p nd : forall rest st working pending unc tr o st' tr',
  Inv st ->
  prefix (blocks (cur st)) working ->
  chain nd = working ++ rest ->
  (unc = 0 -> blocks (cur st) = working) ->
  pass_loop p nd rest st working pending unc tr = (o, st', tr') ->
  o = Done /\ blocks (cur st') = chain nd /\ Inv st' /\
  exists t, tr' = tr ++ t /\
    Forall (fun s => Inv s /\ prefix (blocks (cur s)) (chain nd)) t.
Proof.
  induction rest as [|blk rest IH]; intros st working pending unc tr o st' tr' HI Hp Hc Hunc; cbn [pass_loop].
  - rewrite app_nil_r in Hc.
    destruct (N.ltb_spec 0 unc) as [Hpos|Hz].
    + destruct (commit p nd st working pending) as [st1 t] eqn:Ec.
      intros H. inversion H; subst o st' tr'. clear H.
      apply commit_spec in Ec. destruct Ec as (Hb & HInv & Ht).
      split; [reflexivity|]. split; [congruence|]. split; [auto|].
      exists t. split; [reflexivity|].
      eapply Forall_impl; [|exact Ht]. intros s [Hsb Hsi]. split; [auto|].
      rewrite Hsb, Hc. apply prefix_refl.
    + intros H. inversion H; subst o st' tr'. clear H.
      assert (unc = 0) by lia. split; [reflexivity|]. split; [rewrite Hunc by assumption; congruence|].
      split; [assumption|]. exists []. split; [rewrite app_nil_r; reflexivity|constructor].
  - assert (Hwn: prefix working (chain nd)) by (rewrite Hc; apply prefix_app).
    assert (Hlt: len working < len (chain nd)).
    { rewrite Hc, len_app. unfold len. cbn [length]. lia. }
    rewrite (detect_prefix p _ _ _ Hp Hwn Hlt).
    assert (Hc': chain nd = (working ++ [blk]) ++ rest) by (rewrite <- app_assoc; exact Hc).
    destruct (orb _ _).
    + destruct (commit p nd st (working ++ [blk]) pending) as [st1 t] eqn:Ec.
      intros H. apply commit_spec in Ec. destruct Ec as (Hb & HInv & Ht).
      assert (Hp1: prefix (blocks (cur st)) (working ++ [blk])).
      { eapply prefix_trans; [exact Hp|apply prefix_app]. }
      eapply IH in H; try exact Hc'.
      * destruct H as (-> & Hfin & HI' & t2 & -> & Ht2).
        split; [reflexivity|]. split; [assumption|]. split; [assumption|].
        exists (t ++ t2). split; [rewrite app_assoc; reflexivity|].
        apply Forall_app. split; [|assumption].
        eapply Forall_impl; [|exact Ht]. intros s [Hsb Hsi]. split; [auto|].
        rewrite Hsb, Hc'. apply prefix_app.
      * auto.
      * rewrite Hb. apply prefix_refl.
      * intros _. exact Hb.
    + intros H. eapply IH in H; try exact Hc'.
      * exact H.
      * assumption.
      * eapply prefix_trans; [exact Hp|apply prefix_app].
      * intros Hu. lia.
Qed.

Inductive pass_shape (p : params) (nd : node) (st : store)
  : pass_outcome * store * list store -> Prop :=
| PS_nothing : len (chain nd) <= len (blocks (cur st)) -> pass_shape p nd st (Done, st, [])
| PS_reorg r : r <> NoReorg -> len (blocks (cur st)) < len (chain nd) ->
    detect p (blocks (cur st)) (chain nd) (len (blocks (cur st))) = r ->
    pass_shape p nd st (Reorged r, st, [])
| PS_done st' tr : prefix (blocks (cur st)) (chain nd) -> blocks (cur st') = chain nd -> Inv st' ->
    Forall (fun s => Inv s /\ prefix (blocks (cur s)) (chain nd)) tr ->
    pass_shape p nd st (Done, st', tr).

Lemma skipn_nil_length {A} (l : list A) n : skipn n l = [] -> (length l <= n)%nat.
Proof.
  revert l; induction n as [|n IH]; intros [|x l]; cbn; intros H; try lia; try discriminate.
  apply IH in H. lia.
Qed.

Lemma pass_cases p nd st : Inv st -> pass_shape p nd st (pass p nd st).
Proof.
  intros HI. unfold pass.
  set (b := blocks (cur st)).
  destruct (skipn (length b) (chain nd)) as [|blk rest] eqn:Hs.
  - cbn [pass_loop]. rewrite N.ltb_irrefl. apply PS_nothing.
    apply skipn_nil_length in Hs. unfold len. fold b. lia.
  - assert (Hlt: len b < len (chain nd)).
    { assert (length (skipn (length b) (chain nd)) = S (length rest)) by (rewrite Hs; reflexivity).
      rewrite skipn_length in H. unfold len. lia. }
    cbn [pass_loop]. fold b.
    destruct (detect p b (chain nd) (len b)) eqn:Ed.
    + (* the committed database is a prefix of the node chain *)
      pose proof (detect_noreorg_prefix p b (chain nd) Hlt Ed) as Hpre.
      assert (Hc: chain nd = b ++ blk :: rest).
      { rewrite <- Hs. rewrite (prefix_firstn _ _ Hpre) at 1. symmetry. apply firstn_skipn. }
      pose proof (pass_loop_prefix p nd (blk :: rest) st b (len b) 0 []) as L.
      cbn [pass_loop] in L. fold b in L. rewrite Ed in L.
      destruct (if (0 + 1 =? commit_iv p) || is_sp_required p (last_sp (cur st)) (headers nd) (len b + 1)
                then _ else _) as [[o st'] tr'] eqn:E.
      specialize (L o st' tr' HI (prefix_refl b) Hc (fun _ => eq_refl) eq_refl).
      destruct L as (-> & Hfin & HI' & t & -> & Ht).
      apply PS_done; auto.
    + apply PS_reorg; [discriminate|assumption|assumption].
    + apply PS_reorg; [discriminate|assumption|assumption].
Qed.

Lemma pass_cases' p nd st : Inv st ->
  (pass p nd st = (Done, st, []) /\ len (chain nd) <= len (blocks (cur st))) \/
  (exists r, r <> NoReorg /\ len (blocks (cur st)) < len (chain nd) /\
             detect p (blocks (cur st)) (chain nd) (len (blocks (cur st))) = r /\
             pass p nd st = (Reorged r, st, [])) \/
  (exists st' tr, pass p nd st = (Done, st', tr) /\
             prefix (blocks (cur st)) (chain nd) /\ blocks (cur st') = chain nd /\ Inv st' /\
             Forall (fun s => Inv s /\ prefix (blocks (cur s)) (chain nd)) tr).
Proof.
  intros HI. pose proof (pass_cases p nd st HI) as PS.
  inversion PS as [Hle E|r Hr Hlt Hd E|st1 tr1 Hpre Hfin HI1 Ht1 E].
  - left. split; [reflexivity|assumption].
  - right. left. exists r. repeat split; auto.
  - right. right. exists st1, tr1. repeat split; auto.
Qed.

(* ---------------------------------------------------------------- update *)

Lemma handle_reorg_fixed p st h d : fixed p = true -> Inv st ->
  match handle_reorg p st h d with
  | Restored st2 => Inv st2 /\ prefix (blocks (cur st2)) (blocks (cur st)) /\
                    len (blocks (cur st2)) <= h - d + 1
  | NoSavepoint => sps st = []
  | PastFork st2 => st2 = st
  end.
Proof.
  intros Hf HI. unfold handle_reorg.
  destruct (sps st) as [|[id snap] r] eqn:Es; [reflexivity|].
  rewrite Hf. cbn [andb].
  destruct (N.ltb_spec (h - d + 1) (len (blocks snap))); [reflexivity|].
  cbn [cur blocks].
  unfold Inv in HI. rewrite Es in HI. inversion HI as [|? ? Hsnap _]; subst.
  split; [|split; [exact Hsnap|assumption]].
  unfold Inv. cbn [cur blocks sps]. constructor; [cbn; apply prefix_refl|constructor].
Qed.

Lemma update_S f p nd st tr :
  update (S f) p nd st tr =
    let '(o, st1, t1) := pass p nd st in
    match o with
    | Done => (UOk, st1, false, tr ++ t1)
    | Reorged (Recoverable h d) =>
      match handle_reorg p st1 h d with
      | Restored st2 => update f p nd st2 (tr ++ t1 ++ [st2])
      | NoSavepoint => if fixed p then (UUnrecoverable, st1, true, tr ++ t1) else (UPanic, st1, false, tr ++ t1)
      | PastFork st2 => (UUnrecoverable, st2, true, tr ++ t1)
      end
    | Reorged Unrecoverable => (UUnrecoverable, st1, true, tr ++ t1)
    | Reorged NoReorg => (UOk, st1, false, tr ++ t1)
    end.
Proof. reflexivity. Qed.

(* The main result for the repaired code: Index::update terminates within two
   passes, never panics, and either reports Ok with the index equal to the
   node's best chain (or untouched when the node is not ahead of it), or
   reports Unrecoverable with the flag set and the database untouched. *)
Theorem update_fixed p nd st fuel o st' flag tr :
  params_ok p -> fixed p = true -> Inv st -> (2 <= fuel)%nat ->
  update fuel p nd st [] = (o, st', flag, tr) ->
  (o = UOk \/ o = UUnrecoverable) /\
  (o = UOk -> flag = false /\
     (blocks (cur st') = chain nd \/
      (len (chain nd) <= len (blocks (cur st)) /\ st' = st))) /\
  (o = UUnrecoverable -> flag = true /\ st' = st) /\
  Inv st' /\
  Forall (fun s => Inv s /\ prefix (blocks (cur s)) (chain nd)) tr.
Proof.
  intros Hp Hf HI Hfuel.
  destruct fuel as [|fuel]; [lia|].
  rewrite update_S.
  destruct (pass_cases' p nd st HI) as [[E Hle]|[(r & Hr & Hlt & Hd & E)|(st1 & t1 & E & Hpre & Hfin & HI1 & Ht1)]];
    rewrite E; clear E.
  - intros H. inversion H; subst. repeat split; auto; try discriminate.
  - destruct r as [|h d|]; [congruence| |].
    + (* recoverable *)
      pose proof (detect_recoverable p _ _ _ _ Hlt Hd) as (-> & Hd1 & Hn & Hi & Hfst).
      pose proof (handle_reorg_fixed p st (len (blocks (cur st))) d Hf HI) as HR.
      destruct (handle_reorg p st (len (blocks (cur st))) d) as [st2| |st2].
      * destruct HR as (HI2 & Hpre2 & Hlen2).
        (* the restored database is a prefix of the node chain *)
        assert (Hp2: prefix (blocks (cur st2)) (chain nd)).
        { rewrite (prefix_firstn _ _ Hpre2).
          set (k := N.to_nat (len (blocks (cur st)) - d + 1)) in *.
          assert (Hk: (length (blocks (cur st2)) <= k)%nat) by (unfold k, len in *; lia).
          replace (firstn (length (blocks (cur st2))) (blocks (cur st)))
            with (firstn (length (blocks (cur st2))) (firstn k (blocks (cur st)))).
          2:{ rewrite firstn_firstn. f_equal. lia. }
          rewrite Hfst, firstn_firstn.
          replace (Nat.min (length (blocks (cur st2))) k) with (length (blocks (cur st2))) by lia.
          apply firstn_prefix. }
        destruct fuel as [|fuel]; [lia|].
        rewrite update_S.
        destruct (pass_cases' p nd st2 HI2) as [[E Hle2]|[(r2 & Hr2 & Hlt2 & Hd2 & E)|(st3 & t2 & E & Hpre3 & Hfin3 & HI3 & Ht3)]];
          rewrite E; clear E.
        -- (* node not ahead of the restored database: it equals the node chain *)
           intros H. inversion H; subst. clear H.
           assert (Heq: blocks (cur st') = chain nd).
           { apply prefix_same_length; [assumption|].
             apply prefix_length in Hp2. unfold len in Hle2. lia. }
           repeat split; auto; try discriminate.
           all: try (cbn [app]; constructor; [split; assumption|constructor]).
        -- exfalso. apply Hr2. rewrite <- Hd2.
           apply (detect_prefix p (blocks (cur st2)) (blocks (cur st2)) (chain nd));
             [apply prefix_refl|assumption|assumption].
        -- intros H. inversion H; subst. clear H.
           repeat split; auto; try discriminate.
           all: try (cbn [app]; constructor; [split; assumption|]; assumption).
      * rewrite Hf. intros H. inversion H; subst. repeat split; auto; try discriminate.
      * subst st2. intros H. inversion H; subst. repeat split; auto; try discriminate.
    + intros H. inversion H; subst. repeat split; auto; try discriminate.
  - intros H. inversion H; subst. repeat split; auto; try discriminate.
Qed.

(* Crash / resume: from any durable state on the trace of an update, a fresh
   update (empty volatile state) ends with the node's best chain. *)
Lemma resume_after_crash_tr p nd s fuel tr0 o st' flag tr :
  params_ok p -> fixed p = true -> (1 <= fuel)%nat ->
  Inv s -> prefix (blocks (cur s)) (chain nd) ->
  update fuel p nd s tr0 = (o, st', flag, tr) ->
  o = UOk /\ blocks (cur st') = chain nd.
Proof.
  intros Hp Hf Hfuel HI Hpre.
  destruct fuel as [|fuel]; [lia|].
  rewrite update_S.
  destruct (pass_cases' p nd s HI) as [[E Hle]|[(r & Hr & Hlt & Hd & E)|(st1 & t1 & E & Hpre1 & Hfin & HI1 & Ht1)]];
    rewrite E; clear E.
  - intros H. inversion H; subst. split; [reflexivity|].
    apply prefix_same_length; [assumption|].
    apply prefix_length in Hpre. unfold len in Hle. lia.
  - exfalso. apply Hr. rewrite <- Hd.
    apply (detect_prefix p (blocks (cur s)) (blocks (cur s)) (chain nd));
      [apply prefix_refl|assumption|assumption].
  - intros H. inversion H; subst. split; [reflexivity|assumption].
Qed.

Theorem resume_after_crash p nd s fuel o st' flag tr :
  params_ok p -> fixed p = true -> (2 <= fuel)%nat ->
  Inv s -> prefix (blocks (cur s)) (chain nd) ->
  update fuel p nd s [] = (o, st', flag, tr) ->
  o = UOk /\ blocks (cur st') = chain nd.
Proof.
  intros Hp Hf Hfuel HI Hpre H.
  eapply resume_after_crash_tr; try eassumption. lia.
Qed.

Lemma Inv_empty : Inv empty_store.
Proof. constructor. Qed.

(* ---------------------------------------------------------------- the pinned commit loops forever *)

Definition p_orig : params := mkP 10 2 5000 false.

(* five blocks (genesis + 4) indexed one update call each *)
Definition st_five : store :=
  let step st c := let '(_, s, _, _) := update 4 p_orig (mkNode c 0) st [] in s in
  step (step (step (step (step empty_store [0]) [0;1]) [0;1;2]) [0;1;2;3]) [0;1;2;3;4].

(* the node drops blocks 3 and 4 and mines 5, 6, 7 *)
Definition nd_fork : node := mkNode [0;1;2;5;6;7] 0.

Definition st_loop : store :=
  match pass p_orig nd_fork st_five with
  | (Reorged (Recoverable h d), s, _) =>
    match handle_reorg p_orig s h d with Restored s2 => s2 | _ => s end
  | (_, s, _) => s
  end.

Lemma st_loop_step : forall tr, exists tr',
  forall f, update (S f) p_orig nd_fork st_loop tr = update f p_orig nd_fork st_loop tr'.
Proof.
  intros tr. eexists. intros f. cbn [update].
  replace (pass p_orig nd_fork st_loop) with
    (Reorged (Recoverable 4 2), st_loop, @nil store) by (vm_compute; reflexivity).
  cbv beta iota.
  replace (handle_reorg p_orig st_loop 4 2) with (Restored st_loop) by (vm_compute; reflexivity).
  reflexivity.
Qed.

Lemma orig_loops_from_st_loop : forall fuel tr, exists tr',
  update fuel p_orig nd_fork st_loop tr = (UOutOfFuel, st_loop, false, tr').
Proof.
  induction fuel as [|f IH]; intros tr.
  - eexists. reflexivity.
  - destruct (st_loop_step tr) as [tr1 H]. rewrite H. apply IH.
Qed.

Theorem orig_livelock : forall fuel, exists tr,
  update (S fuel) p_orig nd_fork st_five [] = (UOutOfFuel, st_loop, false, tr).
Proof.
  intros fuel. cbn [update].
  replace (pass p_orig nd_fork st_five) with
    (Reorged (Recoverable 5 3), st_five, @nil store) by (vm_compute; reflexivity).
  cbv beta iota.
  replace (handle_reorg p_orig st_five 5 3) with (Restored st_loop) by (vm_compute; reflexivity).
  apply orig_loops_from_st_loop.
Qed.

(* the same history on the repaired code *)
Example fixed_terminates :
  let p := mkP 10 2 5000 true in
  let '(o, s, fl, _) := update 2 p nd_fork st_five [] in
  o = UUnrecoverable /\ fl = true /\ s = st_five.
Proof. vm_compute. repeat split. Qed.
