(* Bridge between the sat-range plumbing of Index/Inscr.v (sat index on) and the sat-index model
   Index/SatIndex.v (properties C01/C02): on the same chain, with inscriptions erased, the two models hold the
   same sat ranges.  Used to combine C03's invariant with C02's partition into Index::find(sat) = satpoint. *)
From OrdV Require Import Base.Prelude Generated Index.Inscr Proofs.Inscr_tables Proofs.Inscr_proofs
  Proofs.Inscr_c07 Proofs.Inscr_c04 Proofs.Inscr_c03 Proofs.Inscr_sats Proofs.Inscr_c04off Proofs.Inscr_satinv Proofs.Inscr_total.
From OrdV Require Index.SatIndex Proofs.SatIndex_proofs Proofs.SatIndex_partition.
From Coq Require Import Permutation ZifyBool ZifyN.

Module S := SatIndex.

(* the chain as the sat-index model sees it: scripts reduced to 0/1 (OP_RETURN), envelopes dropped *)
Definition erase_tx (t : tx) : S.tx :=
  S.mkTx (t_id t) (t_ins t) (map (fun o => (o_value o, if o_opret o then 1 else 0)) (t_outs t)).
Definition erase_chain (c : list block) : list (list S.tx) := map (map erase_tx) c.

(* ---- association-list facts of the other model *)

Lemma op_eqb_pair : forall a b, S.op_eqb a b = pair_eqb a b.
Proof. reflexivity. Qed.

Lemma aget_adel : forall {V} op k (m : list (S.outpoint * V)),
  S.aget S.op_eqb op (S.adel S.op_eqb k m) = if pair_eqb op k then None else S.aget S.op_eqb op m.
Proof.
  intros V op k m. change S.op_eqb with pair_eqb. induction m as [|[k' v] r IH]; cbn [S.adel S.aget].
  - destruct (pair_eqb op k); reflexivity.
  - destruct (pair_eqb k k') eqn:Q.
    + apply pair_eqb_eq in Q. subst k'. rewrite IH. destruct (pair_eqb op k); reflexivity.
    + cbn [S.aget]. rewrite IH. destruct (pair_eqb op k') eqn:Q2; [|reflexivity].
      apply pair_eqb_eq in Q2. subst k'. destruct (pair_eqb op k) eqn:Q3; [|reflexivity].
      apply pair_eqb_eq in Q3. subst. rewrite pair_eqb_refl in Q. discriminate.
Qed.

Lemma aget_aset : forall {V} op k (v : V) m,
  S.aget S.op_eqb op (S.aset S.op_eqb k v m) = if pair_eqb op k then Some v else S.aget S.op_eqb op m.
Proof.
  intros V op k v m. unfold S.aset. cbn [S.aget]. change (S.op_eqb op k) with (pair_eqb op k). destruct (pair_eqb op k) eqn:Q; [reflexivity|].
  rewrite aget_adel, Q. reflexivity.
Qed.

(* ---- the relation between the two UTXO maps: every entry of the sat-index model is an entry of ours with the
   same ranges (real outpoints), and our null-outpoint entry holds its lost ranges *)
Definition RU (U : list (outpoint * uentry)) (m : S.umap) : Prop :=
  forall op rs, fst op <> 0 -> S.aget S.op_eqb op m = Some rs -> exists u, tgP op U = Some u /\ u_ranges u = rs.
Definition RN (U : list (outpoint * uentry)) (lost : list (N * N)) : Prop :=
  u_ranges (entry_at null_op U) = lost.

(* ---- take_sats / split_sats against take_sats / assign_outputs *)

Lemma take_sats_eq : forall fuel remaining rs acc mine rest op v,
  take_sats fuel remaining rs acc = Ok (mine, rest) ->
  exists a w, S.take_sats op v remaining rs = Ok (a, rest, w) /\ mine = acc ++ a.
Proof.
  intros fuel. induction fuel as [|fu IH]; intros remaining rs acc mine rest op v H; cbn [take_sats] in H.
  - destruct (N.eqb_spec remaining 0); [|discriminate]. inv H. exists [], []. rewrite app_nil_r. split; [|reflexivity]. destruct rest; reflexivity.
  - destruct (N.eqb_spec remaining 0) as [Z|NZ].
    + inv H. exists [], []. rewrite app_nil_r. split; [|reflexivity]. destruct rest; reflexivity.
    + destruct rs as [|[s e] r]; [discriminate|]. cbn [S.take_sats].
      destruct (N.eqb_spec remaining 0); [contradiction|].
      destruct (N.ltb_spec remaining (e - s)).
      * inv H. do 2 eexists. split; [reflexivity|reflexivity].
      * destruct (IH _ _ _ _ _ op v H) as (a & w & A & B). rewrite A. cbn [bind]. do 2 eexists. split; [reflexivity|].
        rewrite B, <- app_assoc. reflexivity.
Qed.

Definition erase_outs (outs : list txout) : list (N * N) := map (fun o => (o_value o, if o_opret o then 1 else 0)) outs.

Lemma split_sats_eq : forall outs rs per_out lft t vout,
  split_sats outs rs = Ok (per_out, lft) ->
  exists w, S.assign_outputs t vout (erase_outs outs) rs = Ok (per_out, lft, w).
Proof.
  intros outs. induction outs as [|o r IH]; intros rs per_out lft t vout H; cbn [split_sats] in H; cbn [erase_outs map S.assign_outputs].
  - inv H. eauto.
  - dbind H. destruct a as [mine rest]. dbind H. destruct a as [others l2]. inv H.
    destruct (take_sats_eq _ _ _ _ _ _ (t, vout) (o_value o) E) as (a & w & A & B). cbn [app] in B. subst a.
    rewrite A. cbn [bind]. destruct (IH _ _ _ t (vout + 1) E0) as (w2 & A2). fold (erase_outs r). rewrite A2. cbn [bind]. eauto.
Qed.

(* ---- inputs *)

Lemma take_inputs_bridge : forall ins U m ents U1 irs m1,
  RU U m -> Forall (fun p => fst p <> 0) ins ->
  take_inputs ins U = Ok (ents, U1) -> S.take_inputs ins m = Ok (irs, m1) ->
  irs = concat (map u_ranges ents) /\ RU U1 m1.
Proof.
  intros ins. induction ins as [|p r IH]; intros U m ents U1 irs m1 HR HZ H1 H2; cbn [take_inputs S.take_inputs] in *.
  - inv H1. inv H2. auto.
  - apply Forall_cons_iff in HZ. destruct HZ as [Z1 Z2]. destruct (tgP p U) as [u|] eqn:Q1; [|discriminate]. destruct (S.aget S.op_eqb p m) as [rs|] eqn:Q2; [|discriminate].
    dbind H1. destruct a as [us U2]. inv H1. dbind H2. destruct a as [rest m2]. inv H2.
    destruct (HR p rs Z1 Q2) as (u' & A & B). rewrite Q1 in A. inv A.
    assert (HR' : RU (tdel pair_eqb p U) (S.adel S.op_eqb p m)).
    { intros op rs' Hz Hq. rewrite aget_adel in Hq. destruct (pair_eqb op p) eqn:Q; [discriminate|].
      destruct (HR op rs' Hz Hq) as (u2 & A2 & B2). exists u2. split; auto.
      rewrite (tget_tdel_other pair_eqb pair_eqb_eq); auto. intro. subst. rewrite pair_eqb_refl in Q. discriminate. }
    destruct (IH _ _ _ _ _ _ HR' Z2 E E0) as [I1 I2]. split; auto. cbn [map concat]. rewrite I1. reflexivity.
Qed.

(* ---- outputs *)

Lemma put_outputs_bridge : forall cfg txid outs per_out vout U m d,
  c_sats cfg = true -> length per_out = length outs -> RU U m ->
  RU (put_outputs cfg txid vout outs per_out U) (fst (S.put_outputs txid vout per_out m d)).
Proof.
  intros cfg txid outs. induction outs as [|o r IH]; intros per_out vout U m d HS HL HR.
  - destruct per_out; [|discriminate]. cbn. exact HR.
  - destruct per_out as [|e es]; [discriminate|]. cbn [put_outputs S.put_outputs hd tl]. rewrite HS. apply IH; auto.
    intros op rs Hz Hq. rewrite aget_aset in Hq. rewrite tgP_set. destruct (pair_eqb op (txid, vout)).
    + inv Hq. eexists. split; [reflexivity|]. reflexivity.
    + apply HR; auto.
Qed.

Lemma split_sats_length : forall outs rs per_out lft, split_sats outs rs = Ok (per_out, lft) -> length per_out = length outs.
Proof.
  intros outs rs per_out lft H. apply split_sats_sizes in H. revert H. clear. intro H. induction H; cbn; auto.
Qed.

(* ---- the inscription half of a transaction does not touch sat ranges *)

Lemma step_ranges : forall h rg f sp o b b' k,
  update_location h rg f sp o b = Ok b' ->
  u_ranges (entry_at k (s_utxo (b_st b'))) = u_ranges (entry_at k (s_utxo (b_st b))) /\
  (forall u, tgP k (s_utxo (b_st b)) = Some u -> exists u', tgP k (s_utxo (b_st b')) = Some u' /\ u_ranges u' = u_ranges u).
Proof.
  intros h rg f sp o b b' k H. destruct (update_utxo_shape _ _ _ _ _ _ _ H) as (op & s & off & U & _). rewrite U. split.
  - apply entry_at_push_ranges.
  - intros u Hu. unfold push_insc. rewrite tgP_set. destruct (pair_eqb k op) eqn:Q.
    + apply pair_eqb_eq in Q. subst. rewrite Hu. eexists. split; [reflexivity|reflexivity].
    + eauto.
Qed.

Definition keeps_ranges (U U' : list (outpoint * uentry)) : Prop :=
  (forall k, u_ranges (entry_at k U') = u_ranges (entry_at k U)) /\
  (forall k u, tgP k U = Some u -> exists u', tgP k U' = Some u' /\ u_ranges u' = u_ranges u).

Lemma keeps_refl : forall U, keeps_ranges U U.
Proof. intro U. split; eauto. Qed.

Lemma keeps_trans : forall A B C, keeps_ranges A B -> keeps_ranges B C -> keeps_ranges A C.
Proof.
  intros A B C [H1 H2] [H3 H4]. split.
  - intro k. rewrite H3. apply H1.
  - intros k u Hu. destruct (H2 k u Hu) as (u1 & X1 & Y1). destruct (H4 k u1 X1) as (u2 & X2 & Y2). exists u2. split; auto. congruence.
Qed.

Lemma apply_locs_keeps : forall h rg locs b b', apply_locs h rg locs b = Ok b' -> keeps_ranges (s_utxo (b_st b)) (s_utxo (b_st b')).
Proof.
  intros h rg locs. induction locs as [|[[[op off] f] o] r IH]; intros b b' H; cbn [apply_locs] in H.
  - inv H. apply keeps_refl.
  - dbind H. eapply keeps_trans; [|eapply IH; eauto]. split; intros; eapply step_ranges; eauto.
Qed.

Lemma apply_lost_keeps : forall h rg ov l b b', apply_lost h rg ov l b = Ok b' -> keeps_ranges (s_utxo (b_st b)) (s_utxo (b_st b')).
Proof.
  intros h rg ov l. induction l as [|f r IH]; intros b b' H; cbn [apply_lost] in H.
  - inv H. apply keeps_refl.
  - dbind H. dbind H. eapply keeps_trans; [|eapply IH; eauto]. split; intros; eapply step_ranges; eauto.
Qed.

Lemma index_inscriptions_keeps : forall cfg h t ents rg b b',
  index_inscriptions cfg h t ents rg b = Ok b' ->
  keeps_ranges (s_utxo (b_st b)) (s_utxo (b_st b')) /\
  b_lost_ranges b' = b_lost_ranges b /\ b_cb_ranges b' = b_cb_ranges b.
Proof.
  intros cfg h t ents rg b b' H. unfold index_inscriptions in H. dbind H. destruct a as [F tiv].
  destruct (tx_is_coinbase t).
  - destruct (assign _ _ _ _ _) as [[locs rest] ov]. dbind H. dbind H. dbind H. inv H. cbn [b_st b_lost_ranges b_cb_ranges].
    pose proof (apply_locs_aux _ _ _ _ _ E0) as (_ & _ & _ & A4 & A5 & _).
    pose proof (apply_lost_aux _ _ _ _ _ _ E1) as (_ & _ & _ & B4 & B5 & _).
    cbn [set_flot b_lost_ranges b_cb_ranges] in A4, A5.
    split; [|split; congruence].
    eapply keeps_trans; [eapply (apply_locs_keeps _ _ _ _ _ E0)|eapply apply_lost_keeps; eauto].
  - destruct (assign _ _ _ _ _) as [[locs rest] ov]. dbind H. dbind H. dbind H. inv H. cbn [b_st b_lost_ranges b_cb_ranges].
    pose proof (apply_locs_aux _ _ _ _ _ E0) as (_ & _ & _ & A4 & A5 & _).
    split; [|split; congruence]. eapply apply_locs_keeps; eauto.
Qed.

(* ---- one transaction *)

Lemma RU_keeps : forall U U' m, keeps_ranges U U' -> RU U m -> RU U' m.
Proof.
  intros U U' m [_ K] HR op rs Hz Hq. destruct (HR op rs Hz Hq) as (u & A & B). destruct (K op u A) as (u' & A' & B').
  exists u'. split; auto. congruence.
Qed.

Lemma RN_keeps : forall U U' l, keeps_ranges U U' -> RN U l -> RN U' l.
Proof. intros U U' l [K _] H. unfold RN. rewrite K. exact H. Qed.

Lemma index_tx_bridge : forall cfg h insc t b b' m m2 lft w d lost,
  c_sats cfg = true -> RU (s_utxo (b_st b)) m -> RN (s_utxo (b_st b)) lost ->
  tx_plain t -> ins_real t -> t_id t <> 0 ->
  index_tx cfg h insc false t b = Ok b' -> S.index_tx (erase_tx t) m = Ok (m2, lft, w, d) ->
  RU (s_utxo (b_st b')) m2 /\ RN (s_utxo (b_st b')) lost /\
  b_cb_ranges b' = b_cb_ranges b ++ lft /\ b_lost_ranges b' = b_lost_ranges b.
Proof.
  intros cfg h insc t b b' m m2 lft w d lost HS HR HN HP HI Hz H1 H2.
  unfold index_tx in H1. rewrite HS in H1. unfold S.index_tx in H2. cbn [erase_tx S.ins S.outs S.txid] in H2.
  dbind H1. destruct a as [ents U1]. rename E into ET. dbind H1. destruct a as [[per_out in_ranges] b1]. dbind E. destruct a as [po left1]. inv E. rename E0 into ESp.
  dbind H2. destruct a as [irs m1]. rename E into ET2. dbind H2. destruct a as [[ents2 lft2] w2]. rename E into EA2.
  destruct (S.put_outputs (t_id t) 0 ents2 m1 []) as [m2' d'] eqn:EP. inv H2.
  destruct (take_inputs_bridge _ _ _ _ _ _ _ HR HI ET ET2) as [-> HR1].
  destruct (split_sats_eq _ _ _ _ (t_id t) 0 ESp) as (w' & EA). unfold erase_outs in EA. rewrite EA in EA2. inv EA2.
  destruct (take_inputs_tg _ _ _ _ ET) as (_ & _ & T3).
  set (utxo2 := put_outputs cfg (t_id t) 0 (t_outs t) ents2 U1) in *.
  assert (R2 : RU utxo2 m2).
  { pose proof (put_outputs_bridge cfg (t_id t) (t_outs t) ents2 0 U1 m1 [] HS (split_sats_length _ _ _ _ ESp) HR1) as Q.
    rewrite EP in Q. exact Q. }
  assert (N2 : RN utxo2 lost).
  { unfold RN, entry_at in *. subst utxo2. rewrite put_outputs_tg_other by (cbn; auto). rewrite T3; auto.
    intro Hin0. unfold tx_plain in HP. rewrite forallb_forall in HP. specialize (HP _ Hin0). discriminate. }
  destruct insc.
  - destruct (index_inscriptions_keeps _ _ _ _ _ _ _ H1) as (K & A & B). cbn [set_st b_st with_utxo s_utxo b_lost_ranges b_cb_ranges] in K, A, B.
    split; [eapply RU_keeps; eauto|]. split; [eapply RN_keeps; eauto|]. auto.
  - inv H1. cbn [set_st b_st with_utxo s_utxo b_lost_ranges b_cb_ranges]. auto.
Qed.

Lemma index_txs_bridge : forall cfg h insc l b b' m cbin w0 d0 m2 cbin2 w2 d2 lost,
  c_sats cfg = true -> RU (s_utxo (b_st b)) m -> RN (s_utxo (b_st b)) lost -> b_cb_ranges b = cbin ->
  Forall (tx_ok3) l ->
  index_txs cfg h insc l b = Ok b' -> S.index_txs (map erase_tx l) m cbin w0 d0 = Ok (m2, cbin2, w2, d2) ->
  RU (s_utxo (b_st b')) m2 /\ RN (s_utxo (b_st b')) lost /\ b_cb_ranges b' = cbin2 /\ b_lost_ranges b' = b_lost_ranges b.
Proof.
  intros cfg h insc l. induction l as [|t r IH]; intros b b' m cbin w0 d0 m2 cbin2 w2 d2 lost HS HR HN HC HF H1 H2; cbn [index_txs map S.index_txs] in *.
  - inv H1. inv H2. auto.
  - dbind H1. rename a into b1. dbind H2. destruct a as [[[m' lft] w'] d']. apply Forall_cons_iff in HF. destruct HF as [(F1 & F2 & F3) HF2].
    destruct (index_tx_bridge _ _ _ _ _ _ _ _ _ _ _ _ HS HR HN F1 F2 F3 E E0) as (A & B & C & D).
    destruct (IH _ _ _ _ _ _ _ _ _ _ _ HS A B (eq_trans C (f_equal (fun x => x ++ lft) HC)) HF2 H1 H2) as (A' & B' & C' & D').
    split; auto. split; auto. split; auto. congruence.
Qed.

(* ---- blocks *)

Lemma subsidy_bridge : forall h, h < SUBSIDY_HALVING_INTERVAL ->
  S.subsidy h = subsidy h /\ S.starting_sat h = h * (50 * COIN_VALUE).
Proof.
  intros h Hh. unfold S.subsidy, S.starting_sat, subsidy.
  change SI_HALVING_INTERVAL with SUBSIDY_HALVING_INTERVAL.
  assert (E' : h / SUBSIDY_HALVING_INTERVAL = 0) by (apply N.div_small; exact Hh).
  rewrite E'. split; [reflexivity|].
  assert (A : S.epoch_start 0 = 0) by (vm_compute; reflexivity).
  assert (B : S.epoch_subsidy 0 = 50 * COIN_VALUE) by (vm_compute; reflexivity).
  rewrite A, B. lia.
Qed.

Record BR (h : N) (st : state) (st2 : S.state) : Prop := {
  br_u : RU (s_utxo st) (S.utxo st2);
  br_n : RN (s_utxo st) (S.lost st2);
  br_h : S.height st2 = h
}.

Lemma index_block_bridge : forall cfg h blk st st' st2 st2',
  c_sats cfg = true -> BR h st st2 -> block_ok3 blk -> blk <> [] ->
  index_block cfg h blk st = Ok st' -> S.index_block st2 (map erase_tx blk) = Ok st2' ->
  BR (h + 1) st' st2'.
Proof.
  intros cfg h blk st st' st2 st2' HS [BU BN BH] BO NE H1 H2. subst h. set (h := S.height st2) in *.
  destruct blk as [|t0 r]; [congruence|]. destruct BO as [[B1 B2] B3].
  unfold index_block in H1. rewrite HS in H1. unfold S.index_block in H2. cbn [map] in H2. fold h in H2.
  dbind H1. rename a into cb. dbind H1. rename a into b1. dbind H1. rename a into b2. inv H1. cbn [tl] in *.
  dbind H2. destruct a as [[[m1 cbin] w1] d1]. dbind H2. destruct a as [[ents lostr] w2].
  destruct (S.put_outputs (S.txid (erase_tx t0)) 0 ents m1 []) as [m2 d2] eqn:EP.
  destruct (S.lost_writes lostr (S.lost_sats st2)) as [w3 ls]. inv H2.
  (* the coinbase input ranges agree *)
  assert (Hcb : cb = if 0 <? S.subsidy h then [(S.starting_sat h, S.starting_sat h + S.subsidy h)] else []).
  { destruct (0 <? subsidy h) eqn:Q.
    - unfold starting_sat in E. destruct (N.ltb_spec h SUBSIDY_HALVING_INTERVAL) as [Hh|Hh]; [|discriminate]. cbn [bind] in E. inv E.
      destruct (subsidy_bridge h Hh) as [-> ->]. rewrite Q. reflexivity.
    - inv E. destruct (N.ltb_spec h SUBSIDY_HALVING_INTERVAL) as [Hh|Hh].
      + destruct (subsidy_bridge h Hh) as [-> _]. rewrite Q. reflexivity.
      + (* beyond the first halving our model only continues when the subsidy is 0 *)
        assert (Z : subsidy h = 0) by (destruct (N.ltb_spec 0 (subsidy h)); [discriminate|lia]).
        assert (Z2 : S.subsidy h = 0).
        { unfold S.subsidy, S.epoch_subsidy, subsidy in *. change SI_HALVING_INTERVAL with SUBSIDY_HALVING_INTERVAL.
          change SI_FIRST_POST_SUBSIDY with 33. change (SI_INITIAL_SUBSIDY_COINS * SI_COIN_VALUE) with (50 * COIN_VALUE).
          exact Z. }
        rewrite Z2. reflexivity. }
  match type of E0 with index_txs _ _ _ _ ?B = _ => set (b0 := B) in * end.
  rewrite <- Hcb in E2.
  assert (HC0 : b_cb_ranges b0 = cb) by (subst b0; reflexivity).
  destruct (index_txs_bridge cfg h (c_first cfg <=? h) r b0 b1 (S.utxo st2) cb [] [] m1 cbin w1 d1 (S.lost st2) HS BU BN HC0 B3 E0 E2) as (R1 & N1 & C1 & L1).
  { subst b0. cbn [b_lost_ranges] in L1.
    (* the coinbase *)
    rename E3 into EA3.
    unfold index_tx in E1. rewrite HS in E1. cbn [bind] in E1.
    destruct (split_sats (t_outs t0) (b_cb_ranges b1)) as [[po left1]| |] eqn:ESp; cbn [bind] in E1; try discriminate E1.
    rewrite C1 in ESp.
    destruct (split_sats_eq _ _ _ _ (t_id t0) 0 ESp) as (w' & EA). unfold erase_outs in EA. cbn [erase_tx S.txid S.outs] in EA3, EP. rewrite EA in EA3. inv EA3.
    set (utxo2 := put_outputs cfg (t_id t0) 0 (t_outs t0) ents (s_utxo (b_st b1))) in *.
    assert (R2 : RU utxo2 m2).
    { pose proof (put_outputs_bridge cfg (t_id t0) (t_outs t0) ents 0 (s_utxo (b_st b1)) m1 [] HS (split_sats_length _ _ _ _ ESp) R1) as Q.
      rewrite EP in Q. exact Q. }
    assert (N2 : RN utxo2 (S.lost st2)).
    { unfold RN, entry_at in *. subst utxo2. rewrite put_outputs_tg_other by (cbn; auto). exact N1. }
    assert (HK : keeps_ranges utxo2 (s_utxo (b_st b2)) /\ b_lost_ranges b2 = b_lost_ranges b1 ++ lostr).
    { destruct (c_first cfg <=? h).
      - destruct (index_inscriptions_keeps _ _ _ _ _ _ _ E1) as (K & A & B). cbn [set_st b_st with_utxo s_utxo b_lost_ranges] in K, A. auto.
      - inv E1. cbn [set_st b_st with_utxo s_utxo b_lost_ranges]. split; [apply keeps_refl|reflexivity]. }
    destruct HK as [K LR]. rewrite L1 in LR. cbn [app] in LR.
    split; cbn [s_utxo S.utxo S.lost S.height].
    - intros op rs Hz Hq. destruct (RU_keeps _ _ _ K R2 op rs Hz Hq) as (u & A & B).
      destruct (b_lost_ranges b2) as [|p l]; [eauto|]. exists u. split; auto. rewrite tgP_set, pair_eqb_false; auto.
      intro. subst. apply Hz. reflexivity.
    - pose proof (RN_keeps _ _ _ K N2) as N3. unfold RN in *. rewrite LR. destruct lostr as [|p l].
      + rewrite app_nil_r. exact N3.
      + unfold entry_at at 1. rewrite tgP_set, pair_eqb_refl. cbn [u_ranges]. unfold entry_at in N3. rewrite N3. reflexivity.
    - reflexivity. }
Qed.

(* ---- the converse direction: every real output of ours is an entry of the sat-index model *)

Definition RV (U : list (outpoint * uentry)) (m : S.umap) : Prop :=
  forall op u, fst op <> 0 -> tgP op U = Some u -> S.aget S.op_eqb op m = Some (u_ranges u).

Lemma take_inputs_rv : forall ins U m ents U1 irs m1,
  RV U m -> take_inputs ins U = Ok (ents, U1) -> S.take_inputs ins m = Ok (irs, m1) -> RV U1 m1.
Proof.
  intros ins. induction ins as [|p r IH]; intros U m ents U1 irs m1 HR H1 H2; cbn [take_inputs S.take_inputs] in *.
  - inv H1. inv H2. auto.
  - destruct (tgP p U) as [u|] eqn:Q1; [|discriminate]. destruct (S.aget S.op_eqb p m) as [rs|] eqn:Q2; [|discriminate].
    dbind H1. destruct a as [us U2]. inv H1. dbind H2. destruct a as [rest m2]. inv H2.
    eapply IH; [|exact E|exact E0].
    intros op u0 Hz Hq. assert (op <> p) by (intro; subst; rewrite (tget_tdel_same pair_eqb) in Hq; discriminate).
    rewrite (tget_tdel_other pair_eqb pair_eqb_eq) in Hq by auto. rewrite aget_adel, pair_eqb_false by auto. apply HR; auto.
Qed.

Lemma put_outputs_rv : forall cfg txid outs per_out vout U m d,
  c_sats cfg = true -> length per_out = length outs -> RV U m ->
  RV (put_outputs cfg txid vout outs per_out U) (fst (S.put_outputs txid vout per_out m d)).
Proof.
  intros cfg txid outs. induction outs as [|o r IH]; intros per_out vout U m d HS HL HR.
  - destruct per_out; [|discriminate]. cbn. exact HR.
  - destruct per_out as [|e es]; [discriminate|]. cbn [put_outputs S.put_outputs hd tl]. rewrite HS. apply IH; auto.
    intros op u Hz Hq. rewrite tgP_set in Hq. rewrite aget_aset. destruct (pair_eqb op (txid, vout)).
    + inv Hq. reflexivity.
    + apply HR; auto.
Qed.

(* the inscription half creates no entry for a real outpoint *)
Definition keeps2 (U U' : list (outpoint * uentry)) : Prop :=
  forall k u', fst k <> 0 -> tgP k U' = Some u' -> exists u, tgP k U = Some u /\ u_ranges u' = u_ranges u.

Definition Pres (txid : N) (outs : list txout) (U : list (outpoint * uentry)) : Prop :=
  forall k o, nth_error outs k = Some o -> tgP (txid, N.of_nat k) U <> None.

Lemma step_keeps2 : forall h rg f sp o b b',
  update_location h rg f sp o b = Ok b' ->
  fst (fst sp) = 0 \/ tgP (fst sp) (s_utxo (b_st b)) <> None ->
  keeps2 (s_utxo (b_st b)) (s_utxo (b_st b')).
Proof.
  intros h rg f sp o b b' H HT k u' Hz Hu. destruct (update_utxo_shape _ _ _ _ _ _ _ H) as (op & s & off & U & Hc). rewrite U in Hu.
  unfold push_insc in Hu. rewrite tgP_set in Hu. destruct (pair_eqb k op) eqn:Q; [|eauto].
  apply pair_eqb_eq in Q. subst k. inv Hu. cbn [u_ranges].
  assert (Hop : tgP op (s_utxo (b_st b)) <> None).
  { destruct Hc as [(seq & _ & _ & _ & Q)|(_ & _ & _ & [Q|Q])].
    - rewrite <- Q in HT. cbn [fst] in HT. destruct HT; [contradiction|auto].
    - rewrite <- Q in HT. cbn [fst] in HT. destruct HT; [contradiction|auto].
    - subst op. exfalso. apply Hz. reflexivity. }
  destruct (tgP op (s_utxo (b_st b))) as [u|]; [|congruence]. eauto.
Qed.

Lemma step_pres : forall h rg f sp o b b' txid outs,
  update_location h rg f sp o b = Ok b' -> Pres txid outs (s_utxo (b_st b)) -> Pres txid outs (s_utxo (b_st b')).
Proof.
  intros h rg f sp o b b' txid outs H HP k o0 Hk. destruct (update_utxo_shape _ _ _ _ _ _ _ H) as (op & s & off & U & _). rewrite U.
  unfold push_insc. rewrite tgP_set. destruct (pair_eqb (txid, N.of_nat k) op); [discriminate|]. eapply HP; eauto.
Qed.

Lemma keeps2_trans : forall A B C, keeps2 A B -> keeps2 B C -> keeps2 A C.
Proof.
  intros A B C H1 H2 k u Hz Hu. destruct (H2 k u Hz Hu) as (u1 & X1 & Y1). destruct (H1 k u1 Hz X1) as (u0 & X0 & Y0). exists u0. split; auto. congruence.
Qed.

Lemma apply_locs_keeps2 : forall h rg txid outs locs b b',
  txid <> 0 -> Pres txid outs (s_utxo (b_st b)) -> Forall (located txid 0 0 outs) locs ->
  apply_locs h rg locs b = Ok b' -> keeps2 (s_utxo (b_st b)) (s_utxo (b_st b')).
Proof.
  intros h rg txid outs locs. induction locs as [|[[[op off] f] o] r IH]; intros b b' Hz HP HL H; cbn [apply_locs] in H.
  - inv H. intros k u _ Hu. eauto.
  - dbind H. apply Forall_cons_iff in HL. destruct HL as [HL1 HL2].
    eapply keeps2_trans; [|eapply IH; [exact Hz| |exact HL2|exact H]].
    + eapply step_keeps2; [exact E|]. right. cbn [fst]. destruct HL1 as (k & o' & K1 & K2 & _). cbn [fst snd loc_flot] in K2. rewrite K2, N.add_0_l. eapply HP; eauto.
    + eapply step_pres; eauto.
Qed.

Lemma apply_lost_keeps2 : forall h rg ov l b b', apply_lost h rg ov l b = Ok b' -> keeps2 (s_utxo (b_st b)) (s_utxo (b_st b')).
Proof.
  intros h rg ov l. induction l as [|f r IH]; intros b b' H; cbn [apply_lost] in H.
  - inv H. intros k u _ Hu. eauto.
  - dbind H. dbind H. eapply keeps2_trans; [|eapply IH; exact H]. eapply step_keeps2; [exact E0|]. left. reflexivity.
Qed.

Lemma index_inscriptions_keeps2 : forall cfg h t ents rg b b',
  t_id t <> 0 -> Pres (t_id t) (t_outs t) (s_utxo (b_st b)) ->
  index_inscriptions cfg h t ents rg b = Ok b' -> keeps2 (s_utxo (b_st b)) (s_utxo (b_st b')).
Proof.
  intros cfg h t ents rg b b' Hz HP H. unfold index_inscriptions in H. dbind H. destruct a as [F tiv].
  destruct (tx_is_coinbase t).
  - destruct (assign (t_id t) 0 0 (t_outs t) (sort_by f_offset (F ++ b_flot b))) as [[locs rest] ov] eqn:EA.
    assert (AS0 : Forall (fun f => 0 <= f_offset f) (sort_by f_offset (F ++ b_flot b))) by (apply Forall_forall; intros; lia).
    destruct (assign_spec _ _ _ _ _ _ _ _ (sort_by_sorted f_offset (F ++ b_flot b)) AS0 EA) as (_ & _ & HL).
    dbind H. dbind H. dbind H. inv H. cbn [b_st].
    eapply keeps2_trans; [eapply (apply_locs_keeps2 _ _ _ _ _ _ _ Hz) with (3 := E0); [exact HP|exact HL] | eapply apply_lost_keeps2; eauto].
  - destruct (assign (t_id t) 0 0 (t_outs t) (sort_by f_offset F)) as [[locs rest] ov] eqn:EA.
    assert (AS0 : Forall (fun f => 0 <= f_offset f) (sort_by f_offset F)) by (apply Forall_forall; intros; lia).
    destruct (assign_spec _ _ _ _ _ _ _ _ (sort_by_sorted f_offset F) AS0 EA) as (_ & _ & HL).
    dbind H. dbind H. dbind H. inv H. cbn [b_st].
    eapply (apply_locs_keeps2 _ _ _ _ _ _ _ Hz) with (3 := E0); [exact HP|exact HL].
Qed.

Lemma put_outputs_pres : forall cfg txid outs per_out U, Pres txid outs (put_outputs cfg txid 0 outs per_out U).
Proof.
  intros cfg txid outs per_out U k o Hk. rewrite <- (N.add_0_l (N.of_nat k)). rewrite (put_outputs_lookup cfg _ _ _ _ _ _ _ Hk). discriminate.
Qed.

Lemma RV_keeps2 : forall U U' m, keeps2 U U' -> RV U m -> RV U' m.
Proof.
  intros U U' m K HR op u' Hz Hu. destruct (K op u' Hz Hu) as (u & A & B). rewrite B. apply HR; auto.
Qed.

Lemma index_tx_rv : forall cfg h insc t b b' m m2 lft w d,
  c_sats cfg = true -> RU (s_utxo (b_st b)) m -> RV (s_utxo (b_st b)) m -> ins_real t -> t_id t <> 0 ->
  index_tx cfg h insc false t b = Ok b' -> S.index_tx (erase_tx t) m = Ok (m2, lft, w, d) ->
  RV (s_utxo (b_st b')) m2.
Proof.
  intros cfg h insc t b b' m m2 lft w d HS HU HR HI Hz H1 H2.
  unfold index_tx in H1. rewrite HS in H1. unfold S.index_tx in H2. cbn [erase_tx S.ins S.outs S.txid] in H2.
  destruct (take_inputs (t_ins t) (s_utxo (b_st b))) as [[ents U1]| |] eqn:ET; cbn [bind] in H1; try discriminate H1.
  destruct (split_sats (t_outs t) (concat (map u_ranges ents))) as [[po left1]| |] eqn:ESp; cbn [bind] in H1; try discriminate H1.
  destruct (S.take_inputs (t_ins t) m) as [[irs m1]| |] eqn:ET2; cbn [bind] in H2; try discriminate H2.
  destruct (take_inputs_bridge _ _ _ _ _ _ _ HU HI ET ET2) as [-> _].
  destruct (split_sats_eq _ _ _ _ (t_id t) 0 ESp) as (w' & EA). unfold erase_outs in EA. rewrite EA in H2. cbn [bind] in H2.
  destruct (S.put_outputs (t_id t) 0 po m1 []) as [m2' d'] eqn:EP. inv H2.
  pose proof (take_inputs_rv _ _ _ _ _ _ _ HR ET ET2) as V1.
  pose proof (put_outputs_rv cfg (t_id t) (t_outs t) po 0 U1 m1 [] HS (split_sats_length _ _ _ _ ESp) V1) as V2. rewrite EP in V2. cbn [fst] in V2.
  destruct insc.
  - eapply RV_keeps2; [|exact V2]. eapply index_inscriptions_keeps2 in H1; [exact H1|exact Hz|]. cbn [set_st b_st with_utxo s_utxo]. apply put_outputs_pres.
  - inv H1. cbn [set_st b_st with_utxo s_utxo]. exact V2.
Qed.

Lemma index_txs_rv : forall cfg h insc l b b' m cbin w0 d0 m2 cbin2 w2 d2 lost,
  c_sats cfg = true -> RU (s_utxo (b_st b)) m -> RN (s_utxo (b_st b)) lost -> RV (s_utxo (b_st b)) m -> b_cb_ranges b = cbin ->
  Forall tx_ok3 l ->
  index_txs cfg h insc l b = Ok b' -> S.index_txs (map erase_tx l) m cbin w0 d0 = Ok (m2, cbin2, w2, d2) ->
  RV (s_utxo (b_st b')) m2.
Proof.
  intros cfg h insc l. induction l as [|t r IH]; intros b b' m cbin w0 d0 m2 cbin2 w2 d2 lost HS HU HN HR HC HF H1 H2; cbn [index_txs map S.index_txs] in *.
  - inv H1. inv H2. auto.
  - dbind H1. rename a into b1. dbind H2. destruct a as [[[m' lft] w'] d']. apply Forall_cons_iff in HF. destruct HF as [(F1 & F2 & F3) HF2].
    destruct (index_tx_bridge _ _ _ _ _ _ _ _ _ _ _ _ HS HU HN F1 F2 F3 E E0) as (A & B & C & D).
    pose proof (index_tx_rv _ _ _ _ _ _ _ _ _ _ _ HS HU HR F2 F3 E E0) as V.
    eapply (IH _ _ _ _ _ _ _ _ _ _ _ HS A B V (eq_trans C (f_equal (fun x => x ++ lft) HC)) HF2 H1 H2).
Qed.

Lemma index_block_rv : forall cfg h blk st st' st2 st2',
  c_sats cfg = true -> BR h st st2 -> RV (s_utxo st) (S.utxo st2) -> block_ok3 blk -> blk <> [] ->
  index_block cfg h blk st = Ok st' -> S.index_block st2 (map erase_tx blk) = Ok st2' ->
  RV (s_utxo st') (S.utxo st2').
Proof.
  intros cfg h blk st st' st2 st2' HS [BU BN BH] BV BO NE H1 H2. subst h. set (h := S.height st2) in *.
  destruct blk as [|t0 r]; [congruence|]. destruct BO as [[B1 B2] B3].
  unfold index_block in H1. rewrite HS in H1. unfold S.index_block in H2. cbn [map] in H2. fold h in H2.
  dbind H1. rename a into cb. dbind H1. rename a into b1. dbind H1. rename a into b2. inv H1. cbn [tl] in *.
  dbind H2. destruct a as [[[m1 cbin] w1] d1]. dbind H2. destruct a as [[ents lostr] w2]. rename E3 into EA3.
  destruct (S.put_outputs (S.txid (erase_tx t0)) 0 ents m1 []) as [m2 d2] eqn:EP.
  destruct (S.lost_writes lostr (S.lost_sats st2)) as [w3 ls]. inv H2.
  assert (Hcb : cb = if 0 <? S.subsidy h then [(S.starting_sat h, S.starting_sat h + S.subsidy h)] else []).
  { destruct (0 <? subsidy h) eqn:Q.
    - unfold starting_sat in E. destruct (N.ltb_spec h SUBSIDY_HALVING_INTERVAL) as [Hh|Hh]; [|discriminate]. cbn [bind] in E. inv E.
      destruct (subsidy_bridge h Hh) as [-> ->]. rewrite Q. reflexivity.
    - inv E. destruct (N.ltb_spec h SUBSIDY_HALVING_INTERVAL) as [Hh|Hh].
      + destruct (subsidy_bridge h Hh) as [-> _]. rewrite Q. reflexivity.
      + assert (Z : subsidy h = 0) by (destruct (N.ltb_spec 0 (subsidy h)); [discriminate|lia]).
        assert (Z2 : S.subsidy h = 0).
        { unfold S.subsidy, S.epoch_subsidy, subsidy in *. change SI_HALVING_INTERVAL with SUBSIDY_HALVING_INTERVAL.
          change SI_FIRST_POST_SUBSIDY with 33. change (SI_INITIAL_SUBSIDY_COINS * SI_COIN_VALUE) with (50 * COIN_VALUE).
          exact Z. }
        rewrite Z2. reflexivity. }
  match type of E0 with index_txs _ _ _ _ ?B = _ => set (b0 := B) in * end.
  rewrite <- Hcb in E2.
  assert (HC0 : b_cb_ranges b0 = cb) by (subst b0; reflexivity).
  destruct (index_txs_bridge cfg h (c_first cfg <=? h) r b0 b1 (S.utxo st2) cb [] [] m1 cbin w1 d1 (S.lost st2) HS BU BN HC0 B3 E0 E2) as (R1 & N1 & C1 & L1).
  pose proof (index_txs_rv cfg h (c_first cfg <=? h) r b0 b1 (S.utxo st2) cb [] [] m1 cbin w1 d1 (S.lost st2) HS BU BN BV HC0 B3 E0 E2) as V1.
  unfold index_tx in E1. rewrite HS in E1. cbn [bind] in E1.
  destruct (split_sats (t_outs t0) (b_cb_ranges b1)) as [[po left1]| |] eqn:ESp; cbn [bind] in E1; try discriminate E1.
  rewrite C1 in ESp.
  destruct (split_sats_eq _ _ _ _ (t_id t0) 0 ESp) as (w' & EA). unfold erase_outs in EA. cbn [erase_tx S.txid S.outs] in EA3, EP. rewrite EA in EA3. inv EA3.
  pose proof (put_outputs_rv cfg (t_id t0) (t_outs t0) ents 0 (s_utxo (b_st b1)) m1 [] HS (split_sats_length _ _ _ _ ESp) V1) as V2. rewrite EP in V2. cbn [fst] in V2.
  assert (V3 : RV (s_utxo (b_st b2)) m2).
  { destruct (c_first cfg <=? h).
    - eapply RV_keeps2; [|exact V2]. eapply index_inscriptions_keeps2 in E1; [exact E1|exact B2|]. cbn [set_st b_st with_utxo s_utxo]. apply put_outputs_pres.
    - inv E1. cbn [set_st b_st with_utxo s_utxo]. exact V2. }
  cbn [s_utxo S.utxo]. intros op u Hz Hu. destruct (b_lost_ranges b2) as [|p l]; [apply V3; auto|].
  rewrite tgP_set in Hu. rewrite pair_eqb_false in Hu; [apply V3; auto|]. intro. subst. apply Hz. reflexivity.
Qed.

(* ---- chains *)

Lemma index_chain_bridge : forall cfg c h st st' st2 st2',
  c_sats cfg = true -> BR h st st2 -> RV (s_utxo st) (S.utxo st2) ->
  Forall block_ok3 c -> Forall (fun b => b <> []) c ->
  index_chain cfg h c st = Ok st' -> S.run_from st2 (erase_chain c) = Ok st2' ->
  (exists h', BR h' st' st2') /\ RV (s_utxo st') (S.utxo st2').
Proof.
  intros cfg c. induction c as [|blk r IH]; intros h st st' st2 st2' HS HB HV BO NE H1 H2; cbn [index_chain erase_chain map S.run_from] in *.
  - inv H1. inv H2. split; eauto.
  - dbind H1. dbind H2. apply Forall_cons_iff in BO. destruct BO as [B1 B2]. apply Forall_cons_iff in NE. destruct NE as [N1 N2].
    pose proof (index_block_bridge _ _ _ _ _ _ _ HS HB B1 N1 E E0) as HB'.
    pose proof (index_block_rv _ _ _ _ _ _ _ HS HB HV B1 N1 E E0) as HV'.
    eapply IH; eauto.
Qed.

Lemma BR_init : BR 0 empty_state S.init.
Proof. split; cbn; [intros op rs _ H; discriminate | reflexivity | reflexivity]. Qed.

(* ---- Index::find on the sat of an inscription *)

Module SP := SatIndex_partition.

Lemma calc_nth : forall rs o g n, calc_sat_in rs o g = Ok n -> o <= g ->
  nth_error (S.flatten rs) (N.to_nat (g - o)) = Some n.
Proof.
  intros rs. induction rs as [|[s e] r IH]; intros o g n H Hle; cbn [calc_sat_in] in H; [discriminate|].
  unfold S.flatten. cbn [flat_map]. fold (S.flatten r). unfold S.flat1. cbn [fst snd].
  destruct (N.ltb_spec g (o + (e - s))).
  - inv H. rewrite nth_error_app1 by (rewrite SatIndex_proofs.nseq_length; lia).
    rewrite SP.nth_error_nseq by lia. f_equal. lia.
  - rewrite nth_error_app2 by (rewrite SatIndex_proofs.nseq_length; lia). rewrite SatIndex_proofs.nseq_length.
    specialize (IH _ _ _ H). replace (N.to_nat (g - o) - N.to_nat (e - s))%nat with (N.to_nat (g - (o + (e - s)))) by lia. apply IH. lia.
Qed.

Lemma aget_In : forall {V} k (v : V) m, S.aget S.op_eqb k m = Some v -> In (k, v) m.
Proof.
  intros V k v m. change S.op_eqb with pair_eqb. induction m as [|[k' v'] r IH]; cbn [S.aget]; [discriminate|].
  destruct (pair_eqb k k') eqn:Q; intro H.
  - apply pair_eqb_eq in Q. inv H. left. reflexivity.
  - right. auto.
Qed.

Lemma sat_at_unique : forall (m : S.umap) o rs k o' rs' k' s,
  NoDup (SP.usats m) -> In (o, rs) m -> In (o', rs') m ->
  nth_error (S.flatten rs) k = Some s -> nth_error (S.flatten rs') k' = Some s ->
  o = o' /\ k = k'.
Proof.
  intros m. induction m as [|[k0 r0] m' IH]; intros o rs k o' rs' k' s ND I1 I2 N1 N2; [destruct I1|].
  rewrite SP.usats_cons in ND. apply NoDup_app_iff in ND. destruct ND as (ND1 & ND2 & ND3).
  assert (InU : forall oo rr kk, In (oo, rr) m' -> nth_error (S.flatten rr) kk = Some s -> In s (SP.usats m')).
  { intros oo rr kk Hi Hn. unfold SP.usats. apply in_flat_map. exists (oo, rr). split; auto. cbn. eapply nth_error_In; eauto. }
  destruct I1 as [I1|I1]; destruct I2 as [I2|I2].
  - inv I1. inv I2. split; [reflexivity|]. rewrite NoDup_nth_error in ND1. apply ND1; [apply nth_error_Some; congruence|congruence].
  - inv I1. exfalso. eapply ND3; [eapply nth_error_In; exact N1|eapply InU; eauto].
  - inv I2. exfalso. eapply ND3; [eapply nth_error_In; exact N2|eapply InU; eauto].
  - eapply IH; eauto.
Qed.

Lemma erase_nonempty : forall c, Forall (fun b : block => b <> []) c -> SP.nonempty_blocks (erase_chain c).
Proof.
  intros c H. unfold SP.nonempty_blocks, erase_chain. apply Forall_forall. intros b Hb. apply in_map_iff in Hb.
  destruct Hb as (b0 & <- & Hin). rewrite Forall_forall in H. specialize (H b0 Hin). destruct b0; [congruence|discriminate].
Qed.

(* Index::find(sat) returns the satpoint the inscription index reports - for every inscription that has a sat
   and is held by a real output or by the lost-sats pseudo-output. *)
Theorem find_is_satpoint : forall cfg c st st2,
  c_sats cfg = true -> Forall block_ok3 c -> Forall (fun b : block => b <> []) c ->
  index_chain cfg 0 c empty_state = Ok st -> S.run (erase_chain c) = Ok st2 ->
  forall op u, tgP op (s_utxo st) = Some u -> (fst op <> 0 \/ op = null_op) ->
  forall s off, In (s, off) (u_insc u) ->
  forall e n, tgN s (s_entries st) = Some e -> i_sat e = Some n ->
    S.find st2 n = Ok (Some (op, off)).
Proof.
  intros cfg c st st2 HS BO NE H1 H2 op u Hu Hop s off Hp e n He Hn.
  assert (Hnu : op <> unbound_op).
  { destruct Hop as [Hz| ->]; [intro; subst; apply Hz; reflexivity | discriminate]. }
  pose proof (sat_invariant cfg HS c st BO H1 op u Hu Hnu s off Hp e n He Hn) as Hcalc.
  destruct (index_chain_bridge cfg c 0 empty_state st S.init st2 HS BR_init) as [(h' & [BU BN BH]) BV]; auto.
  { intros o x _ Hq. discriminate. }
  pose proof (erase_nonempty c NE) as NE2.
  pose proof (calc_nth _ _ _ _ Hcalc (N.le_0_l _)) as Hnth. rewrite N.sub_0_r in Hnth.
  (* the sat is stored at (op, off) in the other model *)
  assert (Hat : exists rs, In (op, rs) (S.entries st2) /\ nth_error (S.flatten rs) (N.to_nat off) = Some n).
  { destruct Hop as [Hz| ->].
    - exists (u_ranges u). split; auto. specialize (BV op u Hz Hu). apply aget_In in BV.
      unfold S.entries. destruct (S.lost st2); [exact BV|right; exact BV].
    - exists (S.lost st2). unfold RN, entry_at in BN. rewrite Hu in BN. rewrite <- BN. split; auto.
      unfold S.entries. rewrite <- BN. destruct (u_ranges u) as [|r0 l0] eqn:Q.
      + exfalso. rewrite ?Q in Hnth. cbn in Hnth. destruct (N.to_nat off); discriminate Hnth.
      + left. reflexivity. }
  destruct Hat as (rs & Hin & Hn2).
  assert (Hall : In n (SP.all_sats st2)).
  { apply SP.usats_entries. unfold SP.usats. apply in_flat_map. exists (op, rs). split; auto. cbn. eapply nth_error_In; eauto. }
  destruct (SP.stored_sats_below_supply _ _ _ NE2 H2 Hall) as [L1 L2].
  rewrite (SP.find_indexed st2 n L1 L2).
  destruct (SP.find_scan_correct st2 n) as [F1 F2].
  destruct (S.find_scan n (S.entries st2)) as [[o k]|] eqn:Q; [|exfalso; exact (F2 eq_refl Hall)].
  destruct (F1 o k eq_refl) as (rs' & Hin' & Hn').
  assert (ND : NoDup (SP.usats (S.entries st2))).
  { pose proof (SP.no_sat_twice _ _ NE2 H2) as ND0. apply NoDup_app_iff in ND0. destruct ND0 as (ND0 & _ & _).
    unfold S.entries, SP.all_sats in *. destruct (S.lost st2) as [|r0 l0]; [rewrite app_nil_r in ND0; exact ND0|].
    rewrite SP.usats_cons. eapply Permutation_NoDup; [apply Permutation_app_comm|exact ND0]. }
  destruct (sat_at_unique _ _ _ _ _ _ _ _ ND Hin' Hin Hn' Hn2) as [-> Hk].
  f_equal. f_equal. f_equal. lia.
Qed.
