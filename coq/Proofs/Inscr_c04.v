(* C04: census of sequence numbers over the UTXO entries. *)
From OrdV Require Import Base.Prelude Generated Index.Inscr Proofs.Inscr_tables Proofs.Inscr_proofs Proofs.Inscr_c07.
From Coq Require Import Permutation Sorting.Sorted ZifyBool ZifyN.

Definition seqs_of (u : uentry) : list N := map fst (u_insc u).
Definition held_u (U : list (outpoint * uentry)) : list N := concat (map (fun kv => seqs_of (snd kv)) U).
Definition old_seq (f : flotsam) : list N := match f_origin f with OOld s => [s] | _ => [] end.
Definition old_seqs (l : list flotsam) : list N := flat_map old_seq l.
Definition nlist (n : N) : list N := map N.of_nat (seq 0 (N.to_nat n)).

Lemma nlist_succ : forall n, nlist (n + 1) = nlist n ++ [n].
Proof.
  intro n. unfold nlist. replace (N.to_nat (n + 1)) with (S (N.to_nat n)) by lia.
  rewrite seq_S, map_app. cbn. rewrite N2Nat.id. reflexivity.
Qed.

Lemma nlist_In : forall n s, In s (nlist n) <-> s < n.
Proof.
  intros n s. unfold nlist. rewrite in_map_iff. split.
  - intros (k & <- & Hk). apply in_seq in Hk. lia.
  - intro H. exists (N.to_nat s). split; [lia|]. apply in_seq. lia.
Qed.

Lemma nlist_NoDup : forall n, NoDup (nlist n).
Proof.
  intro n. unfold nlist. apply FinFun.Injective_map_NoDup; [|apply seq_NoDup].
  intros a b H. lia.
Qed.

Lemma held_u_app : forall a b, held_u (a ++ b) = held_u a ++ held_u b.
Proof. intros. unfold held_u. rewrite map_app, concat_app. reflexivity. Qed.

Lemma old_seqs_app : forall a b, old_seqs (a ++ b) = old_seqs a ++ old_seqs b.
Proof. intros. unfold old_seqs. apply flat_map_app. Qed.

Lemma old_seqs_perm : forall a b, Permutation a b -> Permutation (old_seqs a) (old_seqs b).
Proof. intros. unfold old_seqs. apply Permutation_flat_map. assumption. Qed.

(* ---- table facts needed here *)

Lemma tgP_none_keys : forall {V} k (U : list (outpoint * V)), tgP k U = None <-> ~ In k (map fst U).
Proof.
  intros V k U. split.
  - intros H Hin. apply (tget_keys pair_eqb pair_eqb_eq) in Hin. congruence.
  - intro H. destruct (tgP k U) eqn:E; auto. exfalso. apply H. apply (tget_keys pair_eqb pair_eqb_eq). congruence.
Qed.

Lemma tset_absent : forall {V} k (v : V) U, tgP k U = None -> tset pair_eqb k v U = U ++ [(k, v)].
Proof.
  intros V k v U. induction U as [|[k' v'] r IH]; cbn [tget tset]; auto.
  destruct (pair_eqb k k'); [discriminate|]. intro H. rewrite IH; auto.
Qed.

Lemma tset_present : forall {V} k (v v0 : V) U, tgP k U = Some v0 ->
  exists a b, U = a ++ (k, v0) :: b /\ tset pair_eqb k v U = a ++ (k, v) :: b /\ tgP k a = None.
Proof.
  intros V k v v0 U. induction U as [|[k' v'] r IH]; cbn [tget tset]; [discriminate|].
  destruct (pair_eqb k k') eqn:E.
  - intro H. inv H. apply pair_eqb_eq in E. subst k'. exists [], r. auto.
  - intro H. destruct (IH H) as (a & b & A & B & C). exists ((k', v') :: a), b. subst. cbn [app tget].
    rewrite B, E. auto.
Qed.

Lemma keys_tset : forall {V} k (v : V) U,
  map fst (tset pair_eqb k v U) = if is_some (tgP k U) then map fst U else map fst U ++ [k].
Proof.
  intros V k v U. destruct (tgP k U) as [v0|] eqn:E; cbn [is_some].
  - destruct (tset_present k v v0 U E) as (a & b & A & B & _). rewrite B, A, !map_app. reflexivity.
  - rewrite tset_absent, map_app; auto.
Qed.

Lemma NoDup_keys_tset : forall {V} k (v : V) U, NoDup (map fst U) -> NoDup (map fst (tset pair_eqb k v U)).
Proof.
  intros V k v U H. rewrite keys_tset. destruct (tgP k U) eqn:E; cbn [is_some]; auto.
  apply NoDup_snoc; auto. apply tgP_none_keys. auto.
Qed.

Lemma tdel_split : forall {V} k (v : V) U, NoDup (map fst U) -> tgP k U = Some v ->
  exists a b, U = a ++ (k, v) :: b /\ tdel pair_eqb k U = a ++ b.
Proof.
  intros V k v U. induction U as [|[k' v'] r IH]; cbn [tget map]; [discriminate|].
  intros ND H. inv ND. unfold tdel. cbn [filter fst]. destruct (pair_eqb k k') eqn:E.
  - inv H. apply pair_eqb_eq in E. subst k'. exists [], r. split; auto. cbn [negb app].
    rewrite (proj2 (filter_ext_in_iff _ (fun _ => true) r)); [|].
    + clear. induction r; cbn; congruence.
    + intros [k2 v2] Hin. cbn [fst]. rewrite pair_eqb_false; auto. intro. subst. apply H2.
      apply in_map_iff. exists (k2, v2). auto.
  - destruct (IH H3 H) as (a & b & A & B). exists ((k', v') :: a), b. subst. cbn [negb app]. split; auto.
    f_equal. exact B.
Qed.

Lemma keys_tdel_incl : forall {V} k (U : list (outpoint * V)) x, In x (map fst (tdel pair_eqb k U)) -> In x (map fst U).
Proof.
  intros V k U x H. apply in_map_iff in H. destruct H as (kv & A & B). unfold tdel in B. apply filter_In in B.
  apply in_map_iff. exists kv. tauto.
Qed.

Lemma NoDup_keys_tdel : forall {V} k (U : list (outpoint * V)), NoDup (map fst U) -> NoDup (map fst (tdel pair_eqb k U)).
Proof.
  intros V k U. unfold tdel. induction U as [|[k' v'] r IH]; cbn [filter map fst]; auto.
  intro H. inv H. destruct (negb (pair_eqb k k')); cbn [map fst]; auto. constructor; auto.
  intro Hin. apply H2. eapply (keys_tdel_incl k). exact Hin.
Qed.

(* ---- the census moves *)

Lemma perm_insert : forall (A I B : list N) s, Permutation (A ++ (I ++ [s]) ++ B) (s :: A ++ I ++ B).
Proof.
  intros A I B s. apply Permutation_sym. rewrite <- (app_assoc I [s] B). cbn [app].
  rewrite (app_assoc A I (s :: B)). apply Permutation_cons_app. rewrite app_assoc. reflexivity.
Qed.

Lemma push_insc_held : forall op s off U, Permutation (held_u (push_insc op s off U)) (s :: held_u U).
Proof.
  intros op s off U. unfold push_insc. destruct (tgP op U) as [u|] eqn:E.
  - destruct (tset_present op (mkU (u_value u) (u_ranges u) (u_insc u ++ [(s, off)])) u U E) as (a & b & A & B & _).
    rewrite B, A, !held_u_app.
    change (held_u ((op, mkU (u_value u) (u_ranges u) (u_insc u ++ [(s, off)])) :: b))
      with (map fst (u_insc u ++ [(s, off)]) ++ held_u b).
    change (held_u ((op, u) :: b)) with (map fst (u_insc u) ++ held_u b).
    rewrite map_app. cbn [map fst]. apply perm_insert.
  - rewrite tset_absent by auto. rewrite held_u_app.
    change (held_u [(op, mkU (u_value empty_entry) (u_ranges empty_entry) (u_insc empty_entry ++ [(s, off)]))]) with [s].
    apply Permutation_sym, Permutation_cons_append.
Qed.

Lemma same_insc_held : forall op u' U,
  u_insc u' = u_insc (match tgP op U with Some e => e | None => empty_entry end) ->
  held_u (tset pair_eqb op u' U) = held_u U.
Proof.
  intros op u' U H. destruct (tgP op U) as [u|] eqn:E.
  - destruct (tset_present op u' u U E) as (a & b & A & B & _). rewrite B, A, !held_u_app.
    unfold held_u at 2 4. cbn [map concat snd]. unfold seqs_of. rewrite H. reflexivity.
  - rewrite tset_absent by auto. rewrite held_u_app. unfold held_u at 2. cbn. unfold seqs_of. rewrite H. cbn.
    rewrite !app_nil_r. reflexivity.
Qed.

Definition ents_seqs (ents : list uentry) : list N := concat (map seqs_of ents).

Lemma take_inputs_held : forall ins U ents U',
  NoDup (map fst U) -> take_inputs ins U = Ok (ents, U') ->
  Permutation (held_u U) (held_u U' ++ ents_seqs ents) /\ NoDup (map fst U') /\
  (forall x, In x (map fst U') -> In x (map fst U)) /\ length ents = length ins.
Proof.
  intros ins. induction ins as [|p r IH]; intros U ents U' ND H; cbn [take_inputs] in H.
  - inv H. cbn. rewrite app_nil_r. auto.
  - destruct (tgP p U) as [u|] eqn:E; [|discriminate]. dbind H. destruct a as [us U2]. inv H.
    destruct (tdel_split p u U ND E) as (a & b & A & B).
    destruct (IH _ _ _ (NoDup_keys_tdel p U ND) E0) as (P & N2 & K & L).
    split; [|split; [|split]]; auto.
    + unfold ents_seqs. cbn [map concat]. fold (ents_seqs us).
      eapply perm_trans with (seqs_of u ++ held_u (tdel pair_eqb p U)).
      * rewrite B, A, !held_u_app. change (held_u ((p, u) :: b)) with (seqs_of u ++ held_u b).
        rewrite app_assoc. eapply perm_trans; [apply Permutation_app_tail, Permutation_app_comm|].
        rewrite <- app_assoc. reflexivity.
      * eapply perm_trans; [apply Permutation_app_head, P|].
        rewrite !app_assoc. apply Permutation_app_tail. apply Permutation_app_comm.
    + intros x Hx. eapply keys_tdel_incl. apply K. exact Hx.
    + cbn. lia.
Qed.

Lemma put_outputs_held : forall cfg txid outs vout rs U,
  (forall v, ~ In (txid, v) (map fst U)) -> NoDup (map fst U) ->
  held_u (put_outputs cfg txid vout outs rs U) = held_u U /\
  NoDup (map fst (put_outputs cfg txid vout outs rs U)) /\
  (forall x, In x (map fst (put_outputs cfg txid vout outs rs U)) -> In x (map fst U) \/ fst x = txid).
Proof.
  intros cfg txid outs.
  assert (G : forall vout rs U,
    (forall v, vout <= v -> ~ In (txid, v) (map fst U)) -> NoDup (map fst U) ->
    held_u (put_outputs cfg txid vout outs rs U) = held_u U /\
    NoDup (map fst (put_outputs cfg txid vout outs rs U)) /\
    (forall x, In x (map fst (put_outputs cfg txid vout outs rs U)) -> In x (map fst U) \/ fst x = txid)).
  { induction outs as [|o r IH]; intros vout rs U FR ND; cbn [put_outputs]; auto.
    set (u := if c_sats cfg then mkU 0 (hd [] rs) [] else mkU (o_value o) [] []).
    assert (Hn : tgP (txid, vout) U = None) by (apply tgP_none_keys, FR; lia).
    destruct (IH (vout + 1) (tl rs) (tset pair_eqb (txid, vout) u U)) as (A & B & C).
    - intros v Hv. rewrite keys_tset, Hn. cbn [is_some]. rewrite in_app_iff. intros [H|[H|[]]].
      + apply (FR v); auto. lia.
      + inv H. lia.
    - apply NoDup_keys_tset. auto.
    - split; [|split]; auto.
      + rewrite A. rewrite tset_absent by auto. rewrite held_u_app. unfold held_u at 2. cbn.
        assert (Hu : seqs_of u = []) by (subst u; destruct (c_sats cfg); reflexivity). rewrite Hu. cbn. apply app_nil_r.
      + intros x Hx. destruct (C x Hx) as [Hy|Hy]; auto. rewrite keys_tset, Hn in Hy. cbn [is_some] in Hy.
        apply in_app_or in Hy. destruct Hy as [Hy|[Hy|[]]]; auto. subst. auto. }
  intros vout rs U FR ND. apply G; auto.
Qed.

(* ---- the old inscriptions among the floating inscriptions of a transaction *)

Lemma old_seqs_snoc : forall l f, old_seqs (l ++ [f]) = old_seqs l ++ old_seq f.
Proof. intros. rewrite old_seqs_app. unfold old_seqs at 2. cbn. rewrite app_nil_r. reflexivity. Qed.

Lemma olds_seqs : forall ents base l acc io fl io',
  olds ents base l acc io = Ok (fl, io') -> old_seqs fl = old_seqs acc ++ map fst l.
Proof.
  intros ents base l. induction l as [|[seq off] r IH]; intros acc io fl io' H; cbn [olds] in H.
  - inv H. cbn. rewrite app_nil_r. reflexivity.
  - destruct (tgN seq ents) as [e|]; [|discriminate]. apply IH in H. rewrite H, old_seqs_snoc.
    unfold old_seq at 1. cbn [f_origin map fst]. rewrite <- app_assoc. reflexivity.
Qed.

Lemma news_seqs : forall st txid jubilant tov offset iv l a a',
  news st txid jubilant tov offset iv l a = Ok a' -> old_seqs (a_float a') = old_seqs (a_float a).
Proof.
  intros st txid jubilant tov offset iv l. induction l as [|v r IH]; intros a a' H; cbn [news] in H.
  - inv H. reflexivity.
  - dbind H. apply IH in H. rewrite H. cbn [a_float]. rewrite old_seqs_snoc. unfold old_seq. cbn. apply app_nil_r.
Qed.

Definition tx_plain (t : tx) : Prop := forallb (fun p => negb (is_null p)) (t_ins t) = true.
Definition tx_cb (t : tx) : Prop := t_ins t <> [] /\ forallb is_null (t_ins t) = true.

Lemma inputs_loop_seqs_plain : forall cfg st txid height jubilant tov ins idx pre cur envs a a',
  length pre = N.to_nat idx -> length cur = length ins ->
  forallb (fun p => negb (is_null p)) ins = true ->
  inputs_loop cfg st txid height jubilant tov ins idx (pre ++ cur) envs a = Ok a' ->
  Permutation (old_seqs (a_float a')) (old_seqs (a_float a) ++ ents_seqs cur).
Proof.
  intros cfg st txid height jubilant tov ins. induction ins as [|prev r IH]; intros idx pre cur envs a a' L1 L2 NN H; cbn [inputs_loop] in H.
  - inv H. destruct cur; [|discriminate]. cbn. rewrite app_nil_r. reflexivity.
  - cbn [forallb] in NN. apply andb_true_iff in NN. destruct NN as [N1 N2].
    destruct (is_null prev); [discriminate|]. destruct cur as [|u cur']; [discriminate|].
    assert (Hn : nth_error (pre ++ u :: cur') (N.to_nat idx) = Some u).
    { rewrite nth_error_app2 by lia. rewrite <- L1, Nat.sub_diag. reflexivity. }
    rewrite Hn in H. dbind H. destruct a0 as [fl io]. destruct (span_input idx envs) as [mine rest].
    dbind H. rename a0 into a1.
    replace (pre ++ u :: cur') with ((pre ++ [u]) ++ cur') in H by (rewrite <- app_assoc; reflexivity).
    apply IH in H; [| rewrite app_length; cbn; lia | cbn in L2; lia | exact N2].
    apply olds_seqs in E. apply news_seqs in E0. cbn [a_float] in E0.
    eapply perm_trans; [exact H|]. rewrite E0, E. unfold ents_seqs. cbn [map concat]. rewrite <- app_assoc.
    apply Permutation_app_head. apply Permutation_app_tail. unfold seqs_of. apply Permutation_map. apply sort_by_perm.
Qed.

Lemma inputs_loop_seqs_cb : forall cfg st txid height jubilant tov ins idx ents envs a a',
  forallb is_null ins = true ->
  inputs_loop cfg st txid height jubilant tov ins idx ents envs a = Ok a' ->
  a_float a' = a_float a /\ a_idc a' = a_idc a.
Proof.
  intros cfg st txid height jubilant tov ins. induction ins as [|prev r IH]; intros idx ents envs a a' NN H; cbn [inputs_loop] in H.
  - inv H. auto.
  - cbn [forallb] in NN. apply andb_true_iff in NN. destruct NN as [N1 N2]. rewrite N1 in H.
    apply IH in H; auto.
Qed.

Lemma old_seqs_fix : forall p fee l, old_seqs (map (fix_new p fee) l) = old_seqs l.
Proof.
  intros p fee l. induction l as [|f r IH]; auto. cbn [map]. unfold old_seqs in *. cbn [flat_map]. rewrite IH. f_equal.
  unfold old_seq, fix_new. destruct (f_origin f) eqn:E; cbn; rewrite ?E; reflexivity.
Qed.

Lemma floating_of_olds_plain : forall cfg st h t ents F tiv,
  tx_plain t -> length ents = length (t_ins t) ->
  floating_of cfg st h t ents = Ok (F, tiv) -> Permutation (old_seqs F) (ents_seqs ents).
Proof.
  intros cfg st h t ents F tiv HP HL H. unfold floating_of in H. dbind H. dbind H. inv H.
  rewrite old_seqs_fix. apply (inputs_loop_seqs_plain _ _ _ _ _ _ _ 0 [] ents) in E; auto.
Qed.

Lemma floating_of_olds_cb : forall cfg st h t ents F tiv,
  tx_cb t -> floating_of cfg st h t ents = Ok (F, tiv) -> F = [].
Proof.
  intros cfg st h t ents F tiv [_ HC] H. unfold floating_of in H. dbind H. dbind H. inv H.
  apply inputs_loop_seqs_cb in E; auto. destruct E as [E _]. cbn in E. rewrite E. reflexivity.
Qed.

(* ---- update_inscription_location: where the (sequence number, offset) pair goes *)

Lemma update_utxo_shape : forall h rg f sp o b b',
  update_location h rg f sp o b = Ok b' ->
  exists op s off,
    s_utxo (b_st b') = push_insc op s off (s_utxo (b_st b)) /\
    ((exists seq, f_origin f = OOld seq /\ s = seq /\ b_next b' = b_next b /\ (op, off) = sp) \/
     (is_new f = true /\ s = b_next b /\ b_next b' = b_next b + 1 /\ ((op, off) = sp \/ op = unbound_op))).
Proof.
  intros h rg f sp o b b' H. unfold update_location in H. destruct (f_origin f) eqn:Ho.
  - dbind H. destruct a as [[number bl] cu]. dbind H. dbind H. destruct a0 as [st1 pseqs].
    apply link_parents_core in E1. destruct E1 as (_ & _ & _ & L4 & _). cbn [s_utxo] in L4.
    assert (Hn : is_new f = true) by (unfold is_new; rewrite Ho; reflexivity).
    destruct unbound; inv H; cbn [b_st s_utxo b_next fst snd]; rewrite L4.
    + exists unbound_op, (b_next b), (b_unb b). split; auto. right. auto.
    + exists (fst sp), (b_next b), (snd sp). split; auto. right. repeat split; auto. left. destruct sp; reflexivity.
  - dbind H. inv H. cbn [b_st s_utxo b_next set_st]. exists (fst sp), seq, (snd sp).
    assert (Hu : s_utxo a = s_utxo (b_st b)).
    { destruct o; [destruct (tgN seq (s_entries (b_st b))); [|discriminate]|]; inv E; reflexivity. }
    rewrite Hu. split; auto. left. exists seq. repeat split; auto. destruct sp; reflexivity.
Qed.

Lemma step_census : forall h rg f sp o b b' R,
  update_location h rg f sp o b = Ok b' ->
  Permutation (held_u (s_utxo (b_st b)) ++ old_seq f ++ R) (nlist (b_next b)) ->
  Permutation (held_u (s_utxo (b_st b')) ++ R) (nlist (b_next b')).
Proof.
  intros h rg f sp o b b' R H P. destruct (update_utxo_shape _ _ _ _ _ _ _ H) as (op & s & off & U & [(seq & A1 & A2 & A3 & _)|(A1 & A2 & A3 & _)]).
  - rewrite U, A3. unfold old_seq in P. rewrite A1 in P. cbn [app] in P. subst s.
    eapply perm_trans; [apply Permutation_app_tail, push_insc_held|]. cbn [app].
    eapply perm_trans; [apply Permutation_middle|]. exact P.
  - rewrite U, A3, nlist_succ. unfold old_seq, is_new in *. destruct (f_origin f); [|discriminate]. cbn [app] in P. subst s.
    eapply perm_trans; [apply Permutation_app_tail, push_insc_held|]. cbn [app].
    eapply perm_trans; [|apply Permutation_cons_append]. apply perm_skip. exact P.
Qed.

Definition DomIff (nx : N) (E : list (N * ientry)) : Prop := forall s, tgN s E <> None <-> s < nx.

Lemma step_dom : forall h rg f sp o b b',
  update_location h rg f sp o b = Ok b' ->
  DomIff (b_next b) (s_entries (b_st b)) -> DomIff (b_next b') (s_entries (b_st b')).
Proof.
  intros h rg f sp o b b' H D. unfold DomIff in *. destruct (f_origin f) as [c fee hid ps re ub vi|seq] eqn:Ho.
  - destruct (update_new_shape _ _ _ _ _ _ _ _ _ _ _ _ _ _ Ho H) as (e & [S1 S2 S3 S4 S5 S6 S7 S8 S9 S10 S11 S12]).
    rewrite S5, S8. intro s. rewrite tgN_set. destruct (N.eqb_spec s (b_next b)).
    + subst. split; [lia|discriminate].
    + rewrite D. lia.
  - destruct (update_old_shape _ _ _ _ _ _ _ _ Ho H) as (_ & _ & O3 & _ & _ & _ & _ & O8).
    rewrite O3. destruct O8 as [O8|(e & He & O8)]; rewrite O8; auto.
    intro s. rewrite tgN_set. destruct (N.eqb_spec s seq); [|apply D].
    subst. split; [intros _; apply D; congruence | discriminate].
Qed.

Lemma old_seqs_cons : forall f l, old_seqs (f :: l) = old_seq f ++ old_seqs l.
Proof. reflexivity. Qed.

Definition key_ok (seen : list N) (op : outpoint) : Prop := fst op = 0 \/ In (fst op) seen.

Record Cen (seen : list N) (b : bst) : Prop := {
  c_dom : DomIff (b_next b) (s_entries (b_st b));
  c_keys : NoDup (map fst (s_utxo (b_st b)));
  c_seen : forall op, In op (map fst (s_utxo (b_st b))) -> key_ok seen op
}.

Lemma step_cen : forall seen h rg f sp o b b',
  Cen seen b -> key_ok seen (fst sp) -> update_location h rg f sp o b = Ok b' -> Cen seen b'.
Proof.
  intros seen h rg f sp o b b' [CD CK CS] Hk H. split.
  - eapply step_dom; eauto.
  - destruct (update_utxo_shape _ _ _ _ _ _ _ H) as (op & s & off & U & _). rewrite U. unfold push_insc. apply NoDup_keys_tset. auto.
  - destruct (update_utxo_shape _ _ _ _ _ _ _ H) as (op & s & off & U & Hc). rewrite U. unfold push_insc.
    intros x Hx. rewrite keys_tset in Hx.
    assert (Hop : key_ok seen op).
    { destruct Hc as [(seq & _ & _ & _ & Q)|(_ & _ & _ & [Q|Q])].
      - rewrite <- Q in Hk. exact Hk.
      - rewrite <- Q in Hk. exact Hk.
      - subst op. left. reflexivity. }
    destruct (is_some (tgP op (s_utxo (b_st b)))); auto. apply in_app_or in Hx. destruct Hx as [Hx|[Hx|[]]]; auto. subst. auto.
Qed.

Lemma apply_locs_census : forall seen h rg locs b b' R,
  Cen seen b -> Forall (fun loc => key_ok seen (fst (fst (fst loc)))) locs ->
  Permutation (held_u (s_utxo (b_st b)) ++ old_seqs (map loc_flot locs) ++ R) (nlist (b_next b)) ->
  apply_locs h rg locs b = Ok b' ->
  Cen seen b' /\ Permutation (held_u (s_utxo (b_st b')) ++ R) (nlist (b_next b')).
Proof.
  intros seen h rg locs. induction locs as [|[[[op off] f] o] r IH]; intros b b' R HC HK P H; cbn [apply_locs] in H.
  - inv H. auto.
  - dbind H. inv HK. cbn [map loc_flot fst snd] in P. rewrite old_seqs_cons, <- app_assoc in P.
    eapply IH; [| |eapply step_census; eauto|exact H]; auto.
    eapply step_cen; eauto.
Qed.

Lemma apply_lost_census : forall seen h rg ov l b b' R,
  Cen seen b ->
  Permutation (held_u (s_utxo (b_st b)) ++ old_seqs l ++ R) (nlist (b_next b)) ->
  apply_lost h rg ov l b = Ok b' ->
  Cen seen b' /\ Permutation (held_u (s_utxo (b_st b')) ++ R) (nlist (b_next b')).
Proof.
  intros seen h rg ov l. induction l as [|f r IH]; intros b b' R HC P H; cbn [apply_lost] in H.
  - inv H. auto.
  - dbind H. dbind H. rewrite old_seqs_cons, <- app_assoc in P.
    eapply IH; [|eapply step_census; eauto|exact H].
    eapply step_cen; eauto. left. reflexivity.
Qed.

Lemma rebase_olds : forall reward ov l l', rebase reward ov l = Ok l' -> old_seqs l' = old_seqs l.
Proof.
  intros reward ov l. induction l as [|f r IH]; intros l' H; cbn [rebase] in H.
  - inv H. reflexivity.
  - dbind H. dbind H. inv H. rewrite !old_seqs_cons, (IH _ eq_refl). reflexivity.
Qed.

Lemma assign_ops : forall txid outs vout base fl locs rest ov,
  assign txid vout base outs fl = (locs, rest, ov) -> Forall (fun loc => fst (fst (fst (fst loc))) = txid) locs.
Proof.
  intros txid outs. induction outs as [|o r IH]; intros vout base fl locs rest ov H; cbn [assign] in H.
  - inv H. constructor.
  - destruct (span_lt (base + o_value o) fl) as [a b].
    destruct (assign txid (vout + 1) (base + o_value o) r b) as [[locs' rest'] ov'] eqn:E2. inv H.
    apply Forall_app. split; [|eapply IH; eauto]. apply Forall_forall. intros x Hx. apply in_map_iff in Hx.
    destruct Hx as (f & <- & _). reflexivity.
Qed.

(* ---- one transaction *)

Lemma plain_not_coinbase : forall t, tx_plain t -> tx_is_coinbase t = false.
Proof.
  intros t H. unfold tx_plain, tx_is_coinbase in *. destruct (t_ins t) as [|p r]; auto.
  cbn [forallb] in H. apply andb_true_iff in H. destruct H as [H _]. destruct (is_null p); [discriminate|reflexivity].
Qed.

Lemma cb_is_coinbase : forall t, tx_cb t -> tx_is_coinbase t = true.
Proof.
  intros t [H1 H2]. unfold tx_is_coinbase. destruct (t_ins t) as [|p r]; [congruence|].
  cbn [forallb] in H2. apply andb_true_iff in H2. tauto.
Qed.

Lemma Cen_ext : forall seen b b2,
  b_st b2 = b_st b -> b_next b2 = b_next b -> Cen seen b -> Cen seen b2.
Proof. intros seen b b2 E1 E2 [A B C]. split; rewrite ?E1, ?E2; auto. Qed.

Lemma index_inscriptions_census : forall cfg h t ents rg seen b b',
  Cen seen b -> In (t_id t) seen ->
  ((tx_plain t /\ length ents = length (t_ins t) /\
    Permutation (held_u (s_utxo (b_st b)) ++ ents_seqs ents ++ old_seqs (b_flot b)) (nlist (b_next b))) \/
   (tx_cb t /\ Permutation (held_u (s_utxo (b_st b)) ++ old_seqs (b_flot b)) (nlist (b_next b)))) ->
  index_inscriptions cfg h t ents rg b = Ok b' ->
  Cen seen b' /\ Permutation (held_u (s_utxo (b_st b')) ++ old_seqs (b_flot b')) (nlist (b_next b')) /\
  (tx_cb t -> b_flot b' = []).
Proof.
  intros cfg h t ents rg seen b b' HC Hin Hcase H. unfold index_inscriptions in H. dbind H. destruct a as [F tiv].
  destruct Hcase as [(HP & HL & P)|(HCB & P)].
  - rewrite (plain_not_coinbase t HP) in H.
    apply floating_of_olds_plain in E; auto.
    destruct (assign (t_id t) 0 0 (t_outs t) (sort_by f_offset F)) as [[locs rest] ov] eqn:EA.
    pose proof (assign_ops _ _ _ _ _ _ _ _ EA) as HO. apply assign_split in EA.
    assert (PM : Permutation (old_seqs (map loc_flot locs) ++ old_seqs rest) (ents_seqs ents)).
    { rewrite <- old_seqs_app, <- EA. eapply perm_trans; [apply old_seqs_perm, sort_by_perm|]. exact E. }
    dbind H. rename a into b1. dbind H. rename a into rest'. dbind H. inv H.
    destruct (apply_locs_census seen h rg locs b b1 (old_seqs rest ++ old_seqs (b_flot b))) as [C1 P1]; auto.
    { eapply Forall_impl; [|exact HO]. intros [[[[tx vo] off] f] o] Hx. cbn in Hx. subst tx. right. exact Hin. }
    { eapply perm_trans; [|exact P]. apply Permutation_app_head.
      rewrite app_assoc. apply Permutation_app_tail. exact PM. }
    split; [|split].
    + eapply Cen_ext; [| |exact C1]; reflexivity.
    + cbn [b_st b_flot b_next]. rewrite (apply_locs_flot _ _ _ _ _ E0), old_seqs_app, (rebase_olds _ _ _ _ E1).
      eapply perm_trans; [|exact P1]. apply Permutation_app_head. apply Permutation_app_comm.
    + intro HCB. exfalso. pose proof (cb_is_coinbase t HCB) as Q. rewrite (plain_not_coinbase t HP) in Q. discriminate.
  - rewrite (cb_is_coinbase t HCB) in H. apply floating_of_olds_cb in E; auto. subst F. cbn [app] in H.
    destruct (assign (t_id t) 0 0 (t_outs t) (sort_by f_offset (b_flot b))) as [[locs rest] ov] eqn:EA.
    pose proof (assign_ops _ _ _ _ _ _ _ _ EA) as HO. apply assign_split in EA.
    assert (PM : Permutation (old_seqs (map loc_flot locs) ++ old_seqs rest) (old_seqs (b_flot b))).
    { rewrite <- old_seqs_app, <- EA. apply old_seqs_perm, sort_by_perm. }
    dbind H. rename a into b1. dbind H. rename a into b2. dbind H. inv H.
    destruct (apply_locs_census seen h rg locs (set_flot b []) b1 (old_seqs rest ++ [])) as [C1 P1]; auto.
    { eapply Cen_ext; [| |exact HC]; reflexivity. }
    { eapply Forall_impl; [|exact HO]. intros [[[[tx vo] off] f] o] Hx. cbn in Hx. subst tx. right. exact Hin. }
    { cbn [set_flot b_st b_next]. rewrite app_nil_r. eapply perm_trans; [|exact P]. apply Permutation_app_head. exact PM. }
    destruct (apply_lost_census seen h rg ov rest b1 b2 []) as [C2 P2]; auto.
    assert (Fl : b_flot b2 = []).
    { rewrite (apply_lost_flot _ _ _ _ _ _ E0), (apply_locs_flot _ _ _ _ _ E). reflexivity. }
    split; [|split].
    + eapply Cen_ext; [| |exact C2]; reflexivity.
    + cbn [b_st b_flot b_next]. rewrite Fl. exact P2.
    + intros _. cbn [b_flot]. exact Fl.
Qed.

Lemma index_tx_census : forall cfg h (first : bool) t seen b b',
  Cen seen b -> ~ In (t_id t) seen -> t_id t <> 0 ->
  (if first then tx_cb t else tx_plain t) ->
  Permutation (held_u (s_utxo (b_st b)) ++ old_seqs (b_flot b)) (nlist (b_next b)) ->
  index_tx cfg h true first t b = Ok b' ->
  Cen (t_id t :: seen) b' /\ Permutation (held_u (s_utxo (b_st b')) ++ old_seqs (b_flot b')) (nlist (b_next b')) /\
  (first = true -> b_flot b' = []).
Proof.
  intros cfg h first t seen b b' [CD CK CS] Hf Hz Hshape P H. unfold index_tx in H.
  dbind H. destruct a as [ents utxo1]. dbind H. destruct a as [[per_out in_ranges] b1].
  assert (Hb1 : b_st b1 = b_st b /\ b_next b1 = b_next b /\ b_flot b1 = b_flot b).
  { destruct (c_sats cfg).
    - dbind E0. destruct a as [po lft]. destruct first; inv E0; cbn; auto.
    - inv E0. auto. }
  destruct Hb1 as (Q1 & Q2 & Q3).
  assert (HT : Permutation (held_u (s_utxo (b_st b))) (held_u utxo1 ++ ents_seqs ents) /\ NoDup (map fst utxo1) /\
               (forall x, In x (map fst utxo1) -> In x (map fst (s_utxo (b_st b)))) /\
               (first = false -> length ents = length (t_ins t)) /\ (first = true -> ents = [])).
  { destruct first.
    - inv E. cbn. rewrite app_nil_r. repeat split; auto. discriminate.
    - destruct (take_inputs_held _ _ _ _ CK E) as (A & B & C & D). repeat split; auto. discriminate. }
  destruct HT as (T1 & T2 & T3 & T4 & T5).
  assert (HFR : forall v, ~ In (t_id t, v) (map fst utxo1)).
  { intros v Hin. apply T3, CS in Hin. destruct Hin as [Hin|Hin]; cbn in Hin; auto. }
  destruct (put_outputs_held cfg (t_id t) (t_outs t) 0 per_out utxo1 HFR T2) as (U1 & U2 & U3).
  match type of H with index_inscriptions _ _ _ _ _ ?B = _ => set (b2 := B) in * end.
  assert (HC2 : Cen (t_id t :: seen) b2).
  { subst b2. unfold set_st, with_utxo. split; cbn [b_st b_next s_entries s_utxo]; rewrite ?Q2; auto.
    intros op Hop. destruct (U3 op Hop) as [Hx|Hx].
    - destruct (CS op (T3 op Hx)) as [?|?]; [left; auto | right; right; auto].
    - right. left. auto. }
  assert (HP2 : Permutation (held_u (s_utxo (b_st b2)) ++ ents_seqs ents ++ old_seqs (b_flot b2)) (nlist (b_next b2))).
  { subst b2. unfold set_st, with_utxo. cbn [b_st b_next b_flot s_utxo]. rewrite U1, Q2, Q3.
    rewrite app_assoc. eapply perm_trans; [|exact P]. apply Permutation_app_tail. apply Permutation_sym. exact T1. }
  destruct (index_inscriptions_census cfg h t ents in_ranges (t_id t :: seen) b2 b' HC2) as (A & B & C); auto.
  - left. reflexivity.
  - destruct first.
    + right. split; auto. rewrite (T5 eq_refl) in HP2. exact HP2.
    + left. split; auto.
  - split; [exact A|]. split; [exact B|]. intro Hfi. subst first. apply C. exact Hshape.
Qed.

Lemma index_tx_noinsc : forall cfg h (first : bool) t seen b b',
  Cen seen b -> held_u (s_utxo (b_st b)) = [] -> ~ In (t_id t) seen -> t_id t <> 0 ->
  index_tx cfg h false first t b = Ok b' ->
  Cen (t_id t :: seen) b' /\ held_u (s_utxo (b_st b')) = [] /\ b_flot b' = b_flot b /\ b_next b' = b_next b /\
  s_entries (b_st b') = s_entries (b_st b).
Proof.
  intros cfg h first t seen b b' [CD CK CS] HE Hf Hz H. unfold index_tx in H.
  dbind H. destruct a as [ents utxo1]. dbind H. destruct a as [[per_out in_ranges] b1].
  assert (Hb1 : b_st b1 = b_st b /\ b_next b1 = b_next b /\ b_flot b1 = b_flot b).
  { destruct (c_sats cfg).
    - dbind E0. destruct a as [po lft]. destruct first; inv E0; cbn; auto.
    - inv E0. auto. }
  destruct Hb1 as (Q1 & Q2 & Q3). inv H.
  assert (HT : held_u utxo1 = [] /\ NoDup (map fst utxo1) /\
               (forall x, In x (map fst utxo1) -> In x (map fst (s_utxo (b_st b))))).
  { destruct first.
    - inv E. auto.
    - destruct (take_inputs_held _ _ _ _ CK E) as (A & B & C & _). rewrite HE in A.
      apply Permutation_nil in A. apply app_eq_nil in A. tauto. }
  destruct HT as (T1 & T2 & T3).
  assert (HFR : forall v, ~ In (t_id t, v) (map fst utxo1)).
  { intros v Hin. apply T3, CS in Hin. destruct Hin as [Hin|Hin]; cbn in Hin; auto. }
  destruct (put_outputs_held cfg (t_id t) (t_outs t) 0 per_out utxo1 HFR T2) as (U1 & U2 & U3).
  unfold set_st, with_utxo. cbn [b_st b_next b_flot s_utxo s_entries]. rewrite U1, Q2, Q3.
  split; [|split; [exact T1|split; [reflexivity|split; reflexivity]]].
  split; cbn [b_st b_next s_utxo s_entries]; rewrite ?Q2; auto.
  intros op Hop. destruct (U3 op Hop) as [Hx|Hx].
  - destruct (CS op (T3 op Hx)) as [?|?]; [left; auto | right; right; auto].
  - right. left. auto.
Qed.

(* ---- transactions of a block, blocks, chains *)

Lemma index_txs_census : forall cfg h l seen b b',
  Cen seen b -> NoDup (map t_id l) -> (forall x, In x (map t_id l) -> ~ In x seen /\ x <> 0) ->
  Forall tx_plain l ->
  Permutation (held_u (s_utxo (b_st b)) ++ old_seqs (b_flot b)) (nlist (b_next b)) ->
  index_txs cfg h true l b = Ok b' ->
  exists seen', Cen seen' b' /\ (forall x, In x seen' <-> In x (map t_id l) \/ In x seen) /\
    Permutation (held_u (s_utxo (b_st b')) ++ old_seqs (b_flot b')) (nlist (b_next b')).
Proof.
  intros cfg h l. induction l as [|t r IH]; intros seen b b' HC ND FR HP P H; cbn [index_txs] in H.
  - inv H. exists seen. split; auto. split; auto. intro x. cbn. tauto.
  - dbind H. rename a into b1. cbn [map] in ND, FR. apply NoDup_cons_iff in ND. destruct ND as [ND1 ND2].
    apply Forall_cons_iff in HP. destruct HP as [HP1 HP2].
    assert (F12 : ~ In (t_id t) seen /\ t_id t <> 0) by (apply FR; left; reflexivity). destruct F12 as [F1 F2].
    destruct (index_tx_census cfg h false t seen b b1 HC F1 F2 HP1 P E) as (C1 & P1 & _).
    assert (FR1 : forall x, In x (map t_id r) -> ~ In x (t_id t :: seen) /\ x <> 0).
    { intros x Hx. assert (AB : ~ In x seen /\ x <> 0) by (apply FR; right; exact Hx). destruct AB as [A B].
      split; auto. intros [Hs|Hs]; [subst; contradiction | auto]. }
    destruct (IH _ _ _ C1 ND2 FR1 HP2 P1 H) as (seen' & C' & HS & P').
    exists seen'. split; auto. split; auto. intro x. rewrite HS. cbn [map In]. tauto.
Qed.

Lemma index_txs_noinsc : forall cfg h l seen b b',
  Cen seen b -> held_u (s_utxo (b_st b)) = [] -> NoDup (map t_id l) ->
  (forall x, In x (map t_id l) -> ~ In x seen /\ x <> 0) ->
  index_txs cfg h false l b = Ok b' ->
  exists seen', Cen seen' b' /\ (forall x, In x seen' <-> In x (map t_id l) \/ In x seen) /\
    held_u (s_utxo (b_st b')) = [] /\ b_flot b' = b_flot b /\ b_next b' = b_next b /\
    s_entries (b_st b') = s_entries (b_st b).
Proof.
  intros cfg h l. induction l as [|t r IH]; intros seen b b' HC HE ND FR H; cbn [index_txs] in H.
  - inv H. exists seen. split; auto. split; [intro x; cbn; tauto|]. auto.
  - dbind H. rename a into b1. cbn [map] in ND, FR. apply NoDup_cons_iff in ND. destruct ND as [ND1 ND2].
    assert (F12 : ~ In (t_id t) seen /\ t_id t <> 0) by (apply FR; left; reflexivity). destruct F12 as [F1 F2].
    destruct (index_tx_noinsc cfg h false t seen b b1 HC HE F1 F2 E) as (C1 & E1 & A1 & A2 & A3).
    assert (FR1 : forall x, In x (map t_id r) -> ~ In x (t_id t :: seen) /\ x <> 0).
    { intros x Hx. assert (AB : ~ In x seen /\ x <> 0) by (apply FR; right; exact Hx). destruct AB as [A B].
      split; auto. intros [Hs|Hs]; [subst; contradiction | auto]. }
    destruct (IH _ _ _ C1 E1 ND2 FR1 H) as (seen' & C' & HS & E' & B1 & B2 & B3).
    exists seen'. split; auto. split; [intro x; rewrite HS; cbn [map In]; tauto|].
    repeat split; congruence.
Qed.

(* ---- counting: every envelope of a non-coinbase transaction becomes exactly one inscription *)

Definition nnew (l : list flotsam) : N := N.of_nat (length (new_ids l)).
Definition le_input (a b : envelope) : Prop := v_input a <= v_input b.

(* what the model assumes about the parser's answer (checked by the oracle on the real parser): envelopes
   come in input order and name existing inputs *)
Definition envs_ok (t : tx) : Prop :=
  StronglySorted le_input (t_envs t) /\
  Forall (fun v => v_input v < N.of_nat (length (t_ins t))) (t_envs t).

Lemma nnew_app : forall a b, nnew (a ++ b) = nnew a + nnew b.
Proof. intros. unfold nnew. rewrite new_ids_app, app_length. lia. Qed.

Lemma nnew_perm : forall a b, Permutation a b -> nnew a = nnew b.
Proof. intros a b H. unfold nnew. f_equal. apply Permutation_length. apply new_ids_perm. exact H. Qed.

Lemma span_input_spec : forall idx l mine rest,
  span_input idx l = (mine, rest) ->
  StronglySorted le_input l -> Forall (fun v => idx <= v_input v) l ->
  l = mine ++ rest /\ StronglySorted le_input rest /\ Forall (fun v => idx + 1 <= v_input v) rest.
Proof.
  intros idx l. induction l as [|v r IH]; intros mine rest H HS HB; cbn [span_input] in H.
  - inv H. repeat split; constructor.
  - apply StronglySorted_inv in HS. destruct HS as [HS1 HS2].
    apply Forall_cons_iff in HB. destruct HB as [HB1 HB2].
    destruct (N.eqb_spec (v_input v) idx) as [Heq|Hne].
    + destruct (span_input idx r) as [a b] eqn:E. inv H. destruct (IH _ _ eq_refl HS1 HB2) as (A & B & C).
      rewrite A at 1. repeat split; auto.
    + inv H. split; [reflexivity|]. split; [constructor; auto|].
      constructor; [lia|]. eapply Forall_impl; [|exact HS2]. intros z Hz. unfold le_input in Hz. lia.
Qed.

Lemma news_count : forall st txid jubilant tov offset iv l a a',
  news st txid jubilant tov offset iv l a = Ok a' -> nnew (a_float a') = nnew (a_float a) + N.of_nat (length l).
Proof.
  intros st txid jubilant tov offset iv l. induction l as [|v r IH]; intros a a' H; cbn [news] in H.
  - inv H. cbn. lia.
  - dbind H. apply IH in H. rewrite H. cbn [a_float]. rewrite nnew_app. unfold nnew at 2. cbn. lia.
Qed.

Lemma olds_count : forall ents base l acc io fl io',
  olds ents base l acc io = Ok (fl, io') -> nnew fl = nnew acc.
Proof.
  intros ents base l acc io fl io' H. apply olds_spec in H. destruct H as (extra & -> & F).
  rewrite nnew_app. unfold nnew at 2. rewrite (new_ids_old _ F). cbn. lia.
Qed.

Lemma inputs_loop_count : forall cfg st txid height jubilant tov ins idx pre cur envs a a',
  length pre = N.to_nat idx -> length cur = length ins ->
  forallb (fun p => negb (is_null p)) ins = true ->
  StronglySorted le_input envs ->
  Forall (fun v => idx <= v_input v < idx + N.of_nat (length ins)) envs ->
  inputs_loop cfg st txid height jubilant tov ins idx (pre ++ cur) envs a = Ok a' ->
  nnew (a_float a') = nnew (a_float a) + N.of_nat (length envs).
Proof.
  intros cfg st txid height jubilant tov ins. induction ins as [|prev r IH]; intros idx pre cur envs a a' L1 L2 NN HS HB H; cbn [inputs_loop] in H.
  - inv H. destruct envs as [|v e]; [cbn; lia|]. apply Forall_cons_iff in HB. destruct HB as [HB _]. cbn in HB. lia.
  - cbn [forallb] in NN. apply andb_true_iff in NN. destruct NN as [N1 N2].
    destruct (is_null prev); [discriminate|]. destruct cur as [|u cur']; [discriminate|].
    assert (Hn : nth_error (pre ++ u :: cur') (N.to_nat idx) = Some u).
    { rewrite nth_error_app2 by lia. rewrite <- L1, Nat.sub_diag. reflexivity. }
    rewrite Hn in H. dbind H. destruct a0 as [fl io]. destruct (span_input idx envs) as [mine rest] eqn:ES.
    dbind H. rename a0 into a1.
    destruct (span_input_spec _ _ _ _ ES HS) as (A & B & C).
    { eapply Forall_impl; [|exact HB]. intros z Hz. cbv beta in *. lia. }
    replace (pre ++ u :: cur') with ((pre ++ [u]) ++ cur') in H by (rewrite <- app_assoc; reflexivity).
    apply IH in H; [| rewrite app_length; cbn; lia | cbn in L2; lia | exact N2 | exact B |].
    + apply olds_count in E. apply news_count in E0. cbn [a_float] in E0. rewrite H, E0, E, A, app_length. lia.
    + rewrite Forall_forall in *. intros z Hz. specialize (C z Hz).
      assert (Hz' : In z envs) by (rewrite A; apply in_or_app; auto). specialize (HB z Hz'). cbn [length] in HB. lia.
Qed.

Lemma floating_of_count_plain : forall cfg st h t ents F tiv,
  tx_plain t -> length ents = length (t_ins t) -> envs_ok t ->
  floating_of cfg st h t ents = Ok (F, tiv) -> nnew F = N.of_nat (length (t_envs t)).
Proof.
  intros cfg st h t ents F tiv HP HL [HS HB] H. unfold floating_of in H. dbind H. dbind H. inv H.
  unfold nnew. rewrite new_ids_fix. fold (nnew (a_float a)).
  apply (inputs_loop_count _ _ _ _ _ _ _ 0 [] ents) in E; auto.
  eapply Forall_impl; [|exact HB]. intros z Hz. cbn beta in Hz. lia.
Qed.

Lemma step_next : forall h rg f sp o b b',
  update_location h rg f sp o b = Ok b' -> b_next b' = b_next b + nnew [f].
Proof.
  intros h rg f sp o b b' H. destruct (update_utxo_shape _ _ _ _ _ _ _ H) as (op & s & off & _ & [(seq & A1 & _ & A3 & _)|(A1 & _ & A3 & _)]).
  - rewrite A3. unfold nnew, new_ids. cbn [filter]. unfold is_new. rewrite A1. cbn. lia.
  - rewrite A3. unfold nnew, new_ids. cbn [filter]. rewrite A1. cbn. lia.
Qed.

Lemma apply_locs_next : forall h rg locs b b',
  apply_locs h rg locs b = Ok b' -> b_next b' = b_next b + nnew (map loc_flot locs).
Proof.
  intros h rg locs. induction locs as [|[[[op off] f] o] r IH]; intros b b' H; cbn [apply_locs] in H.
  - inv H. cbn. lia.
  - dbind H. apply IH in H. apply step_next in E. cbn [map loc_flot fst snd].
    change (f :: map loc_flot r) with ([f] ++ map loc_flot r). rewrite nnew_app. lia.
Qed.

Lemma apply_lost_next : forall h rg ov l b b',
  apply_lost h rg ov l b = Ok b' -> b_next b' = b_next b + nnew l.
Proof.
  intros h rg ov l. induction l as [|f r IH]; intros b b' H; cbn [apply_lost] in H.
  - inv H. cbn. lia.
  - dbind H. dbind H. apply IH in H. apply step_next in E0.
    change (f :: r) with ([f] ++ r). rewrite nnew_app. lia.
Qed.

Lemma index_inscriptions_count : forall cfg h t ents rg b b',
  ((tx_plain t /\ length ents = length (t_ins t) /\ envs_ok t) \/ tx_cb t) ->
  index_inscriptions cfg h t ents rg b = Ok b' ->
  b_next b' + nnew (b_flot b') =
  b_next b + nnew (b_flot b) + (if tx_is_coinbase t then 0 else N.of_nat (length (t_envs t))).
Proof.
  intros cfg h t ents rg b b' Hcase H. unfold index_inscriptions in H. dbind H. destruct a as [F tiv].
  destruct Hcase as [(HP & HL & HE)|HCB].
  - rewrite (plain_not_coinbase t HP) in *. apply floating_of_count_plain in E; auto.
    destruct (assign (t_id t) 0 0 (t_outs t) (sort_by f_offset F)) as [[locs rest] ov] eqn:EA. apply assign_split in EA.
    dbind H. dbind H. dbind H. inv H. cbn [b_next b_flot].
    rewrite (apply_locs_next _ _ _ _ _ E0), (apply_locs_flot _ _ _ _ _ E0), nnew_app.
    assert (Q : nnew a0 = nnew rest) by (unfold nnew; destruct (rebase_ids _ _ _ _ E1) as (R1 & _); rewrite R1; reflexivity).
    assert (Q2 : nnew F = nnew (map loc_flot locs) + nnew rest).
    { rewrite <- nnew_app, <- EA. apply nnew_perm. apply Permutation_sym, sort_by_perm. }
    lia.
  - rewrite (cb_is_coinbase t HCB) in *. apply floating_of_olds_cb in E; auto. subst F. cbn [app] in H.
    destruct (assign (t_id t) 0 0 (t_outs t) (sort_by f_offset (b_flot b))) as [[locs rest] ov] eqn:EA. apply assign_split in EA.
    dbind H. dbind H. dbind H. inv H. cbn [b_next b_flot].
    rewrite (apply_lost_next _ _ _ _ _ _ E0), (apply_locs_next _ _ _ _ _ E), (apply_lost_flot _ _ _ _ _ _ E0), (apply_locs_flot _ _ _ _ _ E).
    cbn [set_flot b_next b_flot].
    assert (Q2 : nnew (b_flot b) = nnew (map loc_flot locs) + nnew rest).
    { rewrite <- nnew_app, <- EA. apply nnew_perm. apply Permutation_sym, sort_by_perm. }
    unfold nnew at 3. cbn. lia.
Qed.

Lemma take_inputs_length : forall ins U ents U', take_inputs ins U = Ok (ents, U') -> length ents = length ins.
Proof.
  intros ins. induction ins as [|p r IH]; intros U ents U' E; cbn [take_inputs] in E.
  - inv E. reflexivity.
  - destruct (tgP p U); [|discriminate]. dbind E. destruct a as [us U2]. inv E. cbn. f_equal. eapply IH; eauto.
Qed.

Lemma index_tx_count : forall cfg h (first : bool) t b b',
  (if first then tx_cb t else tx_plain t /\ envs_ok t) ->
  index_tx cfg h true first t b = Ok b' ->
  b_next b' + nnew (b_flot b') = b_next b + nnew (b_flot b) + (if first then 0 else N.of_nat (length (t_envs t))).
Proof.
  intros cfg h first t b b' Hshape H. unfold index_tx in H.
  dbind H. destruct a as [ents utxo1]. dbind H. destruct a as [[per_out in_ranges] b1].
  assert (Hb1 : b_next b1 = b_next b /\ b_flot b1 = b_flot b).
  { destruct (c_sats cfg).
    - dbind E0. destruct a as [po lft]. destruct first; inv E0; cbn; auto.
    - inv E0. auto. }
  destruct Hb1 as (Q2 & Q3).
  apply index_inscriptions_count in H.
  - cbn [set_st b_next b_flot] in H. rewrite Q2, Q3 in H. rewrite H. destruct first.
    + rewrite (cb_is_coinbase t Hshape). reflexivity.
    + destruct Hshape as [HP HE]. rewrite (plain_not_coinbase t HP). reflexivity.
  - destruct first; [right; exact Hshape|]. destruct Hshape as [HP HE]. left.
    split; [exact HP|]. split; [|exact HE]. eapply take_inputs_length; eauto.
Qed.

Definition count_envs (l : list tx) : N := fold_right (fun t a => N.of_nat (length (t_envs t)) + a) 0 l.

Lemma index_txs_count : forall cfg h l b b',
  Forall (fun t => tx_plain t /\ envs_ok t) l ->
  index_txs cfg h true l b = Ok b' ->
  b_next b' + nnew (b_flot b') = b_next b + nnew (b_flot b) + count_envs l.
Proof.
  intros cfg h l. induction l as [|t r IH]; intros b b' HF H; cbn [index_txs] in H.
  - inv H. cbn. lia.
  - dbind H. apply Forall_cons_iff in HF. destruct HF as [HF1 HF2].
    apply IH in H; auto. apply (index_tx_count cfg h false) in E; auto. cbn [count_envs fold_right]. fold (count_envs r). lia.
Qed.

Definition block_ok (blk : block) : Prop :=
  match blk with [] => True | t0 :: r => tx_cb t0 /\ Forall tx_plain r end.

Record St4 (seen : list N) (st : state) : Prop := {
  s4_dom : DomIff (next_seq_of (s_entries st)) (s_entries st);
  s4_keys : NoDup (map fst (s_utxo st));
  s4_seen : forall op, In op (map fst (s_utxo st)) -> key_ok seen op;
  s4_perm : Permutation (held_u (s_utxo st)) (nlist (next_seq_of (s_entries st)))
}.

Lemma index_block_st4 : forall cfg h blk seen st st',
  St4 seen st -> NoDup (map t_id blk) -> (forall x, In x (map t_id blk) -> ~ In x seen /\ x <> 0) ->
  block_ok blk -> ((c_first cfg <=? h) = false -> next_seq_of (s_entries st) = 0) ->
  index_block cfg h blk st = Ok st' ->
  exists seen', St4 seen' st' /\ (forall x, In x seen' <-> In x (map t_id blk) \/ In x seen) /\
    ((c_first cfg <=? h) = false -> s_entries st' = s_entries st).
Proof.
  intros cfg h blk seen st st' [SD SK SS SP] ND FR BO HZ H. unfold index_block in H.
  dbind H. rename a into cb. dbind H. rename a into b1. dbind H. rename a into b2. inv H.
  match type of E0 with index_txs _ _ _ _ ?B = _ => set (b0 := B) in * end.
  assert (HC0 : Cen seen b0) by (subst b0; split; cbn; auto).
  assert (Hfin : forall seen' , Cen seen' b2 -> held_u (s_utxo (b_st b2)) ++ old_seqs (b_flot b2) = held_u (s_utxo (b_st b2)) ++ [] ->
                 Permutation (held_u (s_utxo (b_st b2)) ++ old_seqs (b_flot b2)) (nlist (b_next b2)) ->
                 St4 seen' (mkSt
                   match b_lost_ranges b2 with
                   | [] => s_utxo (b_st b2)
                   | p :: l => tset pair_eqb null_op
                       (mkU (u_value match tgP null_op (s_utxo (b_st b2)) with Some e => e | None => empty_entry end)
                            (u_ranges match tgP null_op (s_utxo (b_st b2)) with Some e => e | None => empty_entry end ++ p :: l)
                            (u_insc match tgP null_op (s_utxo (b_st b2)) with Some e => e | None => empty_entry end))
                       (s_utxo (b_st b2))
                   end
                   (s_entries (b_st b2)) (s_id2seq (b_st b2)) (s_num2seq (b_st b2)) (s_sat2seq (b_st b2))
                   (s_children (b_st b2)) (s_coll (b_st b2)) (s_latest (b_st b2))
                   (if c_first cfg <=? h then tset N.eqb h (b_next b2) (s_h2last (b_st b2)) else s_h2last (b_st b2))
                   (b_blessed b2) (b_cursed b2) (b_unb b2)
                   (if c_sats cfg then s_lost st + ranges_size (b_lost_ranges b2) else b_lost b2))).
  { intros seen' [CD CK CS] Hfl P. rewrite Hfl, app_nil_r in P.
    assert (Hnx : next_seq_of (s_entries (b_st b2)) = b_next b2) by (apply next_seq_of_dom; exact CD).
    split; cbn [s_entries s_utxo]; rewrite ?Hnx; auto.
    - destruct (b_lost_ranges b2); auto. apply NoDup_keys_tset. auto.
    - destruct (b_lost_ranges b2); auto. intros op Hop. rewrite keys_tset in Hop.
      destruct (is_some (tgP null_op (s_utxo (b_st b2)))); auto.
      apply in_app_or in Hop. destruct Hop as [Hop|[Hop|[]]]; auto. subst. left. reflexivity.
    - destruct (b_lost_ranges b2); auto. rewrite same_insc_held; auto. }
  destruct (c_first cfg <=? h) eqn:INS.
  - (* inscriptions are indexed at this height *)
    assert (P0 : Permutation (held_u (s_utxo (b_st b0)) ++ old_seqs (b_flot b0)) (nlist (b_next b0))).
    { subst b0. cbn. rewrite app_nil_r. exact SP. }
    destruct blk as [|t0 r].
    + cbn [tl] in E0. cbn in E0. inv E0. inv E1. exists seen. split; [|split; [intro x; cbn; tauto | discriminate]].
      apply Hfin; auto.
    + cbn [tl] in E0. cbn [map] in ND, FR. apply NoDup_cons_iff in ND. destruct ND as [ND1 ND2]. destruct BO as [BO1 BO2].
      assert (FR1 : forall x, In x (map t_id r) -> ~ In x seen /\ x <> 0) by (intros x Hx; apply FR; right; auto).
      destruct (index_txs_census cfg h r seen b0 b1 HC0 ND2 FR1 BO2 P0 E0) as (s1 & C1 & HS1 & P1).
      assert (F12 : ~ In (t_id t0) seen /\ t_id t0 <> 0) by (apply FR; left; reflexivity). destruct F12 as [F1 F2].
      destruct (index_tx_census cfg h true t0 s1 b1 b2 C1) as (C2 & P2 & Fl2); auto.
      { intro Hx. apply HS1 in Hx. destruct Hx as [Hx|Hx]; contradiction. }
      exists (t_id t0 :: s1). split; [|split; [|discriminate]].
      * apply Hfin; auto. rewrite (Fl2 eq_refl). reflexivity.
      * intro x. cbn [In map]. rewrite HS1. tauto.
  - (* below the first inscription height: nothing is inscribed yet *)
    specialize (HZ eq_refl).
    assert (HE0 : held_u (s_utxo (b_st b0)) = []).
    { subst b0. cbn. rewrite HZ in SP. apply Permutation_sym, Permutation_nil in SP. exact SP. }
    assert (exists seen', Cen seen' b2 /\ (forall x, In x seen' <-> In x (map t_id blk) \/ In x seen) /\
             held_u (s_utxo (b_st b2)) = [] /\ b_flot b2 = [] /\ b_next b2 = 0 /\ s_entries (b_st b2) = s_entries st)
      as (seen' & C2 & HS2 & E2 & Fl2 & N2 & En2).
    { destruct blk as [|t0 r].
      - cbn [tl] in E0. cbn in E0. inv E0. inv E1. exists seen. split; auto. split; [intro x; cbn; tauto|]. auto.
      - cbn [tl] in E0. cbn [map] in ND, FR. apply NoDup_cons_iff in ND. destruct ND as [ND1 ND2].
        assert (FR1 : forall x, In x (map t_id r) -> ~ In x seen /\ x <> 0) by (intros x Hx; apply FR; right; auto).
        destruct (index_txs_noinsc cfg h r seen b0 b1 HC0 HE0 ND2 FR1 E0) as (s1 & C1 & HS1 & E1' & A1 & A2 & A3).
        assert (F12 : ~ In (t_id t0) seen /\ t_id t0 <> 0) by (apply FR; left; reflexivity). destruct F12 as [F1 F2].
        destruct (index_tx_noinsc cfg h true t0 s1 b1 b2 C1 E1') as (C2 & E2 & B1 & B2 & B3); auto.
        { intro Hx. apply HS1 in Hx. destruct Hx as [Hx|Hx]; contradiction. }
        exists (t_id t0 :: s1). split; auto. split; [intro x; cbn [In map]; rewrite HS1; tauto|].
        subst b0. cbn in *. repeat split; congruence. }
    exists seen'. split; [|split; auto].
    + apply Hfin; auto.
      * rewrite Fl2. reflexivity.
      * rewrite E2, Fl2, N2. cbn. constructor.
Qed.

Definition count_block (cfg : config) (h : N) (blk : block) : N :=
  if c_first cfg <=? h then count_envs (tl blk) else 0.

Lemma index_block_count : forall cfg h blk seen st st',
  St4 seen st -> NoDup (map t_id blk) -> (forall x, In x (map t_id blk) -> ~ In x seen /\ x <> 0) ->
  block_ok blk -> Forall envs_ok (tl blk) ->
  ((c_first cfg <=? h) = false -> next_seq_of (s_entries st) = 0) ->
  index_block cfg h blk st = Ok st' ->
  next_seq_of (s_entries st') = next_seq_of (s_entries st) + count_block cfg h blk.
Proof.
  intros cfg h blk seen st st' HS ND FR BO HE HZ H. unfold count_block.
  destruct (index_block_st4 cfg h blk seen st st' HS ND FR BO HZ H) as (s0 & _ & _ & HEq).
  destruct (c_first cfg <=? h) eqn:INS.
  2:{ rewrite (HEq eq_refl). lia. }
  clear HEq s0.
  destruct HS as [SD SK SS SP]. unfold index_block in H. rewrite INS in H.
  dbind H. rename a into cb. dbind H. rename a into b1. dbind H. rename a into b2. inv H. cbn [s_entries].
  match type of E0 with index_txs _ _ _ _ ?B = _ => set (b0 := B) in * end.
  assert (HC0 : Cen seen b0) by (subst b0; split; cbn; auto).
  assert (P0 : Permutation (held_u (s_utxo (b_st b0)) ++ old_seqs (b_flot b0)) (nlist (b_next b0))).
  { subst b0. cbn. rewrite app_nil_r. exact SP. }
  destruct blk as [|t0 r].
  - cbn [tl] in E0. cbn in E0. inv E0. inv E1. cbn. lia.
  - cbn [tl] in E0, HE. cbn [map] in ND, FR. apply NoDup_cons_iff in ND. destruct ND as [ND1 ND2]. destruct BO as [BO1 BO2].
    assert (FR1 : forall x, In x (map t_id r) -> ~ In x seen /\ x <> 0) by (intros x Hx; apply FR; right; auto).
    destruct (index_txs_census cfg h r seen b0 b1 HC0 ND2 FR1 BO2 P0 E0) as (s1 & C1 & HS1 & P1).
    assert (F12 : ~ In (t_id t0) seen /\ t_id t0 <> 0) by (apply FR; left; reflexivity). destruct F12 as [F1 F2].
    destruct (index_tx_census cfg h true t0 s1 b1 b2 C1) as (C2 & P2 & Fl2); auto.
    { intro Hx. apply HS1 in Hx. destruct Hx as [Hx|Hx]; contradiction. }
    assert (HFE : Forall (fun t => tx_plain t /\ envs_ok t) r).
    { rewrite Forall_forall in *. intros t Ht. split; auto. }
    pose proof (index_txs_count cfg h r b0 b1 HFE E0) as K1.
    pose proof (index_tx_count cfg h true t0 b1 b2 BO1 E1) as K2.
    rewrite (Fl2 eq_refl) in K2. subst b0. cbn [b_next b_flot] in K1. unfold nnew at 1 in K2. unfold nnew at 2 in K1. cbn in K1, K2.
    rewrite (next_seq_of_dom _ (b_next b2)); [|apply C2]. cbn [tl]. lia.
Qed.

Fixpoint count_chain (cfg : config) (h : N) (c : list block) : N :=
  match c with [] => 0 | blk :: r => count_block cfg h blk + count_chain cfg (h + 1) r end.

Lemma index_chain_st4 : forall cfg c h seen st st',
  St4 seen st -> NoDup (chain_txids c) -> (forall x, In x (chain_txids c) -> ~ In x seen /\ x <> 0) ->
  Forall block_ok c -> ((c_first cfg <=? h) = false -> next_seq_of (s_entries st) = 0) ->
  index_chain cfg h c st = Ok st' ->
  exists seen', St4 seen' st'.
Proof.
  intros cfg c. induction c as [|blk r IH]; intros h seen st st' HS ND FR BO HZ H; cbn [index_chain] in H.
  - inv H. exists seen. exact HS.
  - dbind H. rename a into st1. unfold chain_txids in ND, FR. cbn [map concat] in ND, FR.
    apply NoDup_app_iff in ND. destruct ND as (ND1 & ND2 & ND3).
    apply Forall_cons_iff in BO. destruct BO as [BO1 BO2].
    assert (FR1 : forall x, In x (map t_id blk) -> ~ In x seen /\ x <> 0).
    { intros x Hx. apply FR. apply in_or_app. auto. }
    destruct (index_block_st4 cfg h blk seen st st1 HS ND1 FR1 BO1 HZ E) as (s1 & HS1 & HQ1 & HE1).
    assert (FR2 : forall x, In x (chain_txids r) -> ~ In x s1 /\ x <> 0).
    { intros x Hx. assert (AB : ~ In x seen /\ x <> 0) by (apply FR; apply in_or_app; auto). destruct AB as [A B].
      split; auto. intro Hs. apply HQ1 in Hs. destruct Hs as [Hs|Hs]; [exact (ND3 x Hs Hx) | contradiction]. }
    eapply (IH (h + 1) s1 st1 st' HS1 ND2 FR2 BO2); [|exact H].
    intro Hlt. assert (Hlt' : (c_first cfg <=? h) = false) by lia. rewrite (HE1 Hlt'). auto.
Qed.

Lemma St4_empty : St4 [] empty_state.
Proof.
  split; cbn.
  - intro s. split; [intro H; exfalso; apply H; reflexivity | lia].
  - constructor.
  - intros op [].
  - constructor.
Qed.

Definition chain_ok (c : list block) : Prop :=
  NoDup (chain_txids c) /\ ~ In 0 (chain_txids c) /\ Forall block_ok c.

Theorem census_invariant : forall cfg c st,
  chain_ok c -> index_chain cfg 0 c empty_state = Ok st ->
  Permutation (held_u (s_utxo st)) (nlist (next_seq_of (s_entries st))) /\
  DomIff (next_seq_of (s_entries st)) (s_entries st).
Proof.
  intros cfg c st (ND & NZ & BO) H.
  assert (FR : forall x, In x (chain_txids c) -> ~ In x (@nil N) /\ x <> 0).
  { intros x Hx. split; [intros []|]. intro. subst. contradiction. }
  assert (HZ : (c_first cfg <=? 0) = false -> next_seq_of (s_entries empty_state) = 0) by (intros _; reflexivity).
  destruct (index_chain_st4 cfg c 0 [] empty_state st St4_empty ND FR BO HZ H) as (seen' & [A B C D]). auto.
Qed.

(* the parser's envelopes come in input order and name existing inputs *)
Definition envelopes_ok (c : list block) : Prop := Forall (fun blk => Forall envs_ok (tl blk)) c.

Lemma index_chain_count : forall cfg c h seen st st',
  St4 seen st -> NoDup (chain_txids c) -> (forall x, In x (chain_txids c) -> ~ In x seen /\ x <> 0) ->
  Forall block_ok c -> envelopes_ok c ->
  ((c_first cfg <=? h) = false -> next_seq_of (s_entries st) = 0) ->
  index_chain cfg h c st = Ok st' ->
  next_seq_of (s_entries st') = next_seq_of (s_entries st) + count_chain cfg h c.
Proof.
  intros cfg c. induction c as [|blk r IH]; intros h seen st st' HS ND FR BO EO HZ H; cbn [index_chain] in H.
  - inv H. cbn. lia.
  - dbind H. rename a into st1. unfold chain_txids in ND, FR. cbn [map concat] in ND, FR.
    apply NoDup_app_iff in ND. destruct ND as (ND1 & ND2 & ND3).
    apply Forall_cons_iff in BO. destruct BO as [BO1 BO2].
    apply Forall_cons_iff in EO. destruct EO as [EO1 EO2].
    assert (FR1 : forall x, In x (map t_id blk) -> ~ In x seen /\ x <> 0).
    { intros x Hx. apply FR. apply in_or_app. auto. }
    pose proof (index_block_count cfg h blk seen st st1 HS ND1 FR1 BO1 EO1 HZ E) as KB.
    destruct (index_block_st4 cfg h blk seen st st1 HS ND1 FR1 BO1 HZ E) as (s1 & HS1 & HQ1 & HE1).
    assert (FR2 : forall x, In x (chain_txids r) -> ~ In x s1 /\ x <> 0).
    { intros x Hx. assert (AB : ~ In x seen /\ x <> 0) by (apply FR; apply in_or_app; auto). destruct AB as [A B].
      split; auto. intro Hs. apply HQ1 in Hs. destruct Hs as [Hs|Hs]; [exact (ND3 x Hs Hx) | contradiction]. }
    assert (HZ1 : (c_first cfg <=? h + 1) = false -> next_seq_of (s_entries st1) = 0).
    { intro Hlt. assert (Hlt' : (c_first cfg <=? h) = false) by lia. rewrite (HE1 Hlt'). auto. }
    rewrite (IH (h + 1) s1 st1 st' HS1 ND2 FR2 BO2 EO2 HZ1 H). cbn [count_chain]. lia.
Qed.

Theorem count_invariant : forall cfg c st,
  chain_ok c -> envelopes_ok c -> index_chain cfg 0 c empty_state = Ok st ->
  next_seq_of (s_entries st) = count_chain cfg 0 c.
Proof.
  intros cfg c st (ND & NZ & BO) EO H.
  assert (FR : forall x, In x (chain_txids c) -> ~ In x (@nil N) /\ x <> 0).
  { intros x Hx. split; [intros []|]. intro. subst. contradiction. }
  assert (HZ : (c_first cfg <=? 0) = false -> next_seq_of (s_entries empty_state) = 0) by (intros _; reflexivity).
  rewrite (index_chain_count cfg c 0 [] empty_state st St4_empty ND FR BO EO HZ H). cbn. lia.
Qed.
