(* C11: which transactions create rune entries, and the name / id / number invariants. *)
From OrdV Require Import Base.Prelude Generated Index.Runes Proofs.Runes_proofs Proofs.Runes_alloc
  Proofs.Runes_supply.
Require Import ZifyBool ZifyN.

(* ---------- commitment search ---------- *)
Lemma list_N_eqb_eq a : forall b, list_N_eqb a b = true <-> a = b.
Proof.
  induction a as [|x a IH]; destruct b as [|y b]; cbn [list_N_eqb]; try (split; [discriminate|discriminate]); [tauto|].
  rewrite andb_true_iff, N.eqb_eq, IH. split; [intros [-> ->]; reflexivity|intros H; injection H; auto].
Qed.

(* an input that reveals the commitment and spends a sufficiently buried taproot output *)
Definition commits (height : N) (c : list N) (i : txin) : Prop :=
  In c (in_pushes i) /\ in_p2tr i = true /\ in_height i <= height /\
  RU_COMMIT_CONFIRMATIONS <= height - in_height i + 1.

Lemma existsb_pushes c ps : existsb (list_N_eqb c) ps = true <-> In c ps.
Proof.
  rewrite existsb_exists. split.
  - intros [x [H1 H2]]. apply list_N_eqb_eq in H2. subst x. exact H1.
  - intros H. exists c. split; [exact H|apply list_N_eqb_eq; reflexivity].
Qed.

Lemma tx_commits_true height c ins : tx_commits height c ins = Ok true -> exists i, In i ins /\ commits height c i.
Proof.
  induction ins as [|i ins IH]; cbn [tx_commits]; [discriminate|].
  destruct (existsb (list_N_eqb c) (in_pushes i) && in_p2tr i) eqn:E.
  - apply andb_true_iff in E. destruct E as [E1 E2]. apply existsb_pushes in E1.
    destruct (N.ltb_spec height (in_height i)); [discriminate|].
    destruct (N.leb_spec RU_COMMIT_CONFIRMATIONS (height - in_height i + 1)).
    + intros _. exists i. split; [left; reflexivity|]. repeat split; assumption.
    + intros Q. apply IH in Q. destruct Q as [j [Hj Hc]]. exists j. split; [right; exact Hj|exact Hc].
  - intros Q. apply IH in Q. destruct Q as [j [Hj Hc]]. exists j. split; [right; exact Hj|exact Hc].
Qed.

Lemma tx_commits_false height c ins : tx_commits height c ins = Ok false -> forall i, In i ins -> ~ commits height c i.
Proof.
  induction ins as [|i ins IH]; cbn [tx_commits]; [intros _ i []|].
  destruct (existsb (list_N_eqb c) (in_pushes i) && in_p2tr i) eqn:E.
  - destruct (N.ltb_spec height (in_height i)); [discriminate|].
    destruct (N.leb_spec RU_COMMIT_CONFIRMATIONS (height - in_height i + 1)); [discriminate|].
    intros Q j [<-|Hj]; [|apply IH; assumption]. intros [_ [_ [_ C]]]. lia.
  - intros Q j [<-|Hj]; [|apply IH; assumption]. intros [C1 [C2 _]].
    apply existsb_pushes in C1. rewrite C1, C2 in E. discriminate.
Qed.

(* ---------- the statement's conditions for a transaction to etch ---------- *)
Definition etch_ok (height txi minimum : N) (r2i : list (N * id)) (tx : txm) (art : artifact) (rune : N) : Prop :=
  (art_etching_rune art = Some (Some rune) /\ minimum <= rune /\ rune < RU_RESERVED /\
   alookup N.eqb rune r2i = None /\ exists i, In i (tx_ins tx) /\ commits height (commitment rune) i) \/
  (art_etching_rune art = Some None /\ rune = RU_RESERVED + (height * 4294967296 + txi)).

Lemma etched_some_ok height txi minimum st tx art st' r rune :
  etched height txi minimum st tx art = Ok (st', Some (r, rune)) ->
  r = (height, txi) /\ etch_ok height txi minimum (s_rune_to_id st) tx art rune.
Proof.
  intros Q. split; [eapply etched_id; exact Q|]. apply etched_spec in Q. unfold etch_ok.
  destruct (art_etching_rune art) as [[rn|]|].
  - destruct Q as [_ [[Q _]|[Q [H1 [H2 [H3 H4]]]]]]; [discriminate|]. injection Q as _ <-.
    left. split; [reflexivity|]. repeat split; try assumption. apply tx_commits_true. exact H4.
  - destruct Q as [_ [res [Hres Q]]]. injection Q as _ <-. right. split; [reflexivity|].
    unfold reserved_name in Hres. destruct (_ <=? _); [ok_inj; reflexivity|discriminate].
  - destruct Q as [_ Q]. discriminate.
Qed.

(* ---------- how one transaction changes the entry / name / number tables ---------- *)
Definition minted_step (height : N) (es es1 : etable) : Prop :=
  es1 = es \/ exists r e, alookup id_eqb r es = Some e /\ es1 = aupd id_eqb r (set_mints e (e_mints e + 1)) es.

Definition tables_step (height time minimum txi : N) (tx : txm) (st st' : state) : Prop :=
  exists es1, minted_step height (s_entries st) es1 /\
    ((s_entries st' = es1 /\ s_rune_to_id st' = s_rune_to_id st /\ s_tx_to_rune st' = s_tx_to_rune st /\
      s_runes st' = s_runes st) \/
     (exists art rune, tx_art tx = Some art /\
        etch_ok height txi minimum (s_rune_to_id st) tx art rune /\
        s_entries st' = aupd id_eqb (height, txi) (new_entry art (tx_id tx) (height, txi) rune (s_runes st) time) es1 /\
        s_rune_to_id st' = aupd N.eqb rune (height, txi) (s_rune_to_id st) /\
        s_tx_to_rune st' = aupd N.eqb (tx_id tx) rune (s_tx_to_rune st) /\
        s_runes st' = s_runes st + 1)).

Lemma art_phase_tables height time minimum txi st tx un al st' un' al' :
  art_phase height time minimum txi st tx un al = Ok (st', un', al') ->
  tables_step height time minimum txi tx st st'.
Proof.
  unfold art_phase, tables_step. destruct (tx_art tx) as [art|] eqn:Ha.
  2:{ intros Q; ok_inj. exists (s_entries st'). split; [left; reflexivity|]. left. auto. }
  intros Q.
  bind_inv Q as [st1 un1] Hmint. bind_inv Q as [st2 et] Het. bind_inv Q as [un2 al2] Hed.
  bind_inv Q as st3 Hcr. ok_inj.
  pose proof (mint_phase_frame _ _ _ _ _ _ Hmint) as [F1 [F2 [F3 [F4 F5]]]].
  pose proof (etched_frame _ _ _ _ _ _ _ _ Het) as [E1 [E2 [E3 [E4 E5]]]].
  exists (s_entries st1). split.
  - unfold mint_phase in Hmint. destruct (art_mint art) as [r|]; [|ok_inj; left; reflexivity].
    bind_inv Hmint as [es am] Hm. apply mint_spec in Hm.
    assert (s_entries st1 = es) as -> by (destruct am; [bind_inv Hmint as un3 Hadd|]; ok_inj; reflexivity).
    destruct (alookup id_eqb r (s_entries st)) as [e|] eqn:El.
    + destruct (mintable e height); destruct Hm as [-> _]; [left; reflexivity|right; eauto].
    + destruct Hm as [-> _]. left; reflexivity.
  - unfold create_phase in Hcr. destruct et as [[r rune]|].
    + apply etched_some_ok in Het. destruct Het as [-> Hok].
      unfold create_rune_entry in Hcr. destruct (_ <=? _); [|discriminate]. ok_inj. cbn.
      right. exists art, rune. rewrite F2 in Hok. rewrite E1, E3, E4, E5, F2, F3, F4. auto 8.
    + ok_inj. left. rewrite E1, E3, E4, E5, F2, F3, F4. auto.
Qed.

Lemma index_runes_tables height time minimum txi u tx u' :
  index_runes height time minimum txi u tx = Ok u' ->
  tables_step height time minimum txi tx (u_st u) (u_st u').
Proof.
  unfold index_runes. intros Q.
  bind_inv Q as [bt un] Hun. bind_inv Q as [[st1 un1] al1] Hart. bind_inv Q as [al2 burned] Hdef.
  bind_inv Q as [bt2 burned2] Hst. bind_inv Q as ub Hp. ok_inj. cbn [u_st].
  apply art_phase_tables in Hart. unfold tables_step in *. cbn [set_balances s_entries s_rune_to_id s_tx_to_rune s_runes] in *.
  exact Hart.
Qed.

(* ---------- the invariant on names, ids and numbers ---------- *)
Definition TWO32 : N := 4294967296.

Record EtchInv (height txi : N) (st : state) : Prop := mkEtchInv {
  (* entries were created at earlier positions; tx indices fit u32 *)
  ei_before : forall r, has_entry r (s_entries st) ->
              (fst r < height \/ (fst r = height /\ snd r < txi)) /\ snd r < TWO32;
  (* RUNE_TO_RUNE_ID is exactly the inverse of the entries' names *)
  ei_bij : forall rune r, alookup N.eqb rune (s_rune_to_id st) = Some r <->
                          exists e, alookup id_eqb r (s_entries st) = Some e /\ e_rune e = rune;
  (* reserved-range names are the reserved name of their own id *)
  ei_res : forall r e, alookup id_eqb r (s_entries st) = Some e -> RU_RESERVED <= e_rune e ->
                       e_rune e = RU_RESERVED + (fst r * TWO32 + snd r);
  (* numbers: below the counter, increasing with the id (= etching order) *)
  ei_num : forall r e, alookup id_eqb r (s_entries st) = Some e -> e_number e < s_runes st;
  ei_ord : forall r1 r2 e1 e2, alookup id_eqb r1 (s_entries st) = Some e1 ->
             alookup id_eqb r2 (s_entries st) = Some e2 -> id_ltb r1 r2 = true -> e_number e1 < e_number e2;
  ei_len : s_runes st = N.of_nat (length (s_entries st))
}.

Lemma id_ltb_before height txi r : (fst r < height \/ (fst r = height /\ snd r < txi)) -> id_ltb r (height, txi) = true.
Proof. unfold id_ltb; cbn [fst snd]. intros H. destruct (N.ltb_spec (fst r) height); cbn [orb]; [reflexivity|]. lia. Qed.

Lemma id_ltb_irrefl r : id_ltb r r = false.
Proof. unfold id_ltb. lia. Qed.

(* replacing an existing entry by one with the same name and number keeps the invariant *)
Lemma upd_entry_inv height txi st r0 e0 e' :
  alookup id_eqb r0 (s_entries st) = Some e0 -> e_rune e' = e_rune e0 -> e_number e' = e_number e0 ->
  EtchInv height txi st ->
  EtchInv height txi (set_entries st (aupd id_eqb r0 e' (s_entries st))) /\
  length (aupd id_eqb r0 e' (s_entries st)) = length (s_entries st) /\
  (forall r, has_entry r (aupd id_eqb r0 e' (s_entries st)) <-> has_entry r (s_entries st)).
Proof.
  intros El Hrn Hnm I.
  assert (Hl : forall r, alookup id_eqb r (aupd id_eqb r0 e' (s_entries st)) =
               match alookup id_eqb r (s_entries st) with
               | Some e => Some (if id_eqb r r0 then e' else e)
               | None => None end).
  { intros r. rewrite (alookup_aupd id_eqb id_eqb_eq). destruct (id_eqb r r0) eqn:E.
    - apply id_eqb_eq in E; subst r0. rewrite El. reflexivity.
    - destruct (alookup id_eqb r (s_entries st)); reflexivity. }
  assert (Hk : forall r, has_entry r (aupd id_eqb r0 e' (s_entries st)) <-> has_entry r (s_entries st)).
  { intros r. unfold has_entry. rewrite Hl. destruct (alookup id_eqb r (s_entries st)); split; congruence. }
  assert (Hsame : forall r x, alookup id_eqb r (aupd id_eqb r0 e' (s_entries st)) = Some x ->
            exists e, alookup id_eqb r (s_entries st) = Some e /\ e_rune x = e_rune e /\ e_number x = e_number e).
  { intros r x H. rewrite Hl in H. destruct (alookup id_eqb r (s_entries st)) as [e|] eqn:X; [|discriminate].
    injection H as <-. exists e. split; [reflexivity|]. destruct (id_eqb r r0) eqn:E; [|split; reflexivity].
    apply id_eqb_eq in E. subst r0. rewrite El in X. injection X as <-. split; assumption. }
  split; [|split; [|exact Hk]].
  + destruct I as [I1 I2 I3 I4 I5 I6]. constructor; cbn [set_entries s_entries s_rune_to_id s_runes].
    * intros r Hr. apply I1. apply Hk. exact Hr.
    * intros rune r. rewrite I2. split.
      -- intros [e [H1 H2]]. rewrite Hl, H1. eexists; split; [reflexivity|]. destruct (id_eqb r r0) eqn:E; [|exact H2].
         apply id_eqb_eq in E. subst r0. rewrite El in H1. injection H1 as <-. congruence.
      -- intros [x [H1 H2]]. apply Hsame in H1. destruct H1 as [e [H1 [H3 _]]]. exists e. split; [exact H1|congruence].
    * intros r x H Hres. apply Hsame in H. destruct H as [e [H1 [H3 _]]]. rewrite H3 in *. eapply I3; eassumption.
    * intros r x H. apply Hsame in H. destruct H as [e [H1 [_ H3]]]. rewrite H3. eapply I4; exact H1.
    * intros r1 r2 e1 e2 H1 H2 Hlt. apply Hsame in H1. apply Hsame in H2.
      destruct H1 as [a1 [A1 [_ A3]]]. destruct H2 as [a2 [A2 [_ A4]]]. rewrite A3, A4. eapply I5; eassumption.
    * rewrite I6. rewrite (length_aupd id_eqb), El. reflexivity.
  + rewrite (length_aupd id_eqb), El. reflexivity.
Qed.

(* a mint keeps the invariant (same keys, same names and numbers) *)
Lemma minted_step_inv height txi st es1 :
  minted_step height (s_entries st) es1 -> EtchInv height txi st ->
  EtchInv height txi (set_entries st es1) /\ length es1 = length (s_entries st) /\
  (forall r, has_entry r es1 <-> has_entry r (s_entries st)).
Proof.
  intros [->|[r0 [e0 [El ->]]]] I.
  - rewrite set_entries_same. split; [exact I|]. split; [reflexivity|tauto].
  - apply (upd_entry_inv _ _ _ _ _ _ El); [reflexivity|reflexivity|exact I].
Qed.

Lemma reserved_inj b1 t1 b2 t2 : t1 < TWO32 -> t2 < TWO32 ->
  b1 * TWO32 + t1 = b2 * TWO32 + t2 -> b1 = b2 /\ t1 = t2.
Proof. unfold TWO32. intros. nia. Qed.

Lemma index_runes_etchinv height time minimum txi u tx u' :
  index_runes height time minimum txi u tx = Ok u' -> txi < TWO32 ->
  EtchInv height txi (u_st u) -> EtchInv height (txi + 1) (u_st u').
Proof.
  intros Q Htxi I. apply index_runes_tables in Q. destruct Q as [es1 [Hm Hc]].
  pose proof (minted_step_inv _ _ _ _ Hm I) as [I1 [L1 K1]].
  destruct I1 as [J1 J2 J3 J4 J5 J6]. cbn [set_entries s_entries s_rune_to_id s_runes] in *.
  destruct Hc as [[C1 [C2 [C3 C4]]]|[art [rune [Ha [Hok [C1 [C2 [C3 C4]]]]]]]].
  - constructor; rewrite ?C1, ?C2, ?C4; try assumption.
    intros r Hr. destruct (J1 r Hr) as [H1 H2]. split; [lia|exact H2].
  - set (r0 := (height, txi)) in *.
    set (e0 := new_entry art (tx_id tx) r0 rune (s_runes (u_st u)) time) in *.
    assert (Hfresh : alookup id_eqb r0 es1 = None).
    { destruct (alookup id_eqb r0 es1) eqn:X; [|reflexivity]. exfalso.
      assert (Hh : has_entry r0 es1) by (unfold has_entry; rewrite X; discriminate).
      apply J1 in Hh. cbn in Hh. lia. }
    assert (He0 : e_rune e0 = rune /\ e_number e0 = s_runes (u_st u)).
    { unfold e0, new_entry. destruct art as [eds [etc|] m p|c m]; cbn; auto. }
    destruct He0 as [Hr0 Hn0].
    assert (Hnew : alookup N.eqb rune (s_rune_to_id (u_st u)) = None).
    { destruct Hok as [[_ [_ [_ [H _]]]]|[_ Hres]]; [exact H|].
      destruct (alookup N.eqb rune (s_rune_to_id (u_st u))) as [r|] eqn:X; [|reflexivity]. exfalso.
      apply J2 in X. destruct X as [e [X1 X2]].
      assert (Hres' : e_rune e = RU_RESERVED + (fst r * TWO32 + snd r)) by (eapply J3; [exact X1|rewrite X2, Hres; lia]).
      assert (Hh : has_entry r es1) by (unfold has_entry; rewrite X1; discriminate).
      destruct (J1 r Hh) as [Hb Ht].
      rewrite X2, Hres in Hres'. unfold TWO32 in *.
      assert (height * 4294967296 + txi = fst r * 4294967296 + snd r) by lia.
      apply (reserved_inj height txi (fst r) (snd r)) in H; [|exact Htxi|exact Ht]. lia. }
    assert (Hl : forall r, alookup id_eqb r (s_entries (u_st u')) = if id_eqb r r0 then Some e0 else alookup id_eqb r es1).
    { intros r. rewrite C1. apply (alookup_aupd id_eqb id_eqb_eq). }
    constructor.
    + intros r Hr. unfold has_entry in Hr. rewrite Hl in Hr. destruct (id_eqb r r0) eqn:E.
      * apply id_eqb_eq in E. subst r. cbn [fst snd r0]. split; [lia|exact Htxi].
      * destruct (J1 r Hr) as [H1 H2]. split; [lia|exact H2].
    + intros rn r. rewrite C2, (alookup_aupd N.eqb N.eqb_eq). rewrite Hl.
      destruct (N.eqb_spec rn rune) as [->|Hne].
      * split.
        -- intros H; injection H as <-. rewrite id_eqb_refl. exists e0. auto.
        -- intros [e [H1 H2]]. destruct (id_eqb r r0) eqn:E; [apply id_eqb_eq in E; subst r; reflexivity|].
           exfalso. assert (X : alookup N.eqb rune (s_rune_to_id (u_st u)) = Some r) by (apply J2; eauto).
           rewrite Hnew in X. discriminate.
      * rewrite J2. destruct (id_eqb r r0) eqn:E.
        -- apply id_eqb_eq in E. subst r. rewrite Hfresh. split.
           ++ intros [e [H _]]. discriminate.
           ++ intros [e [H1 H2]]. injection H1 as <-. rewrite Hr0 in H2. congruence.
        -- tauto.
    + intros r e H Hres. rewrite Hl in H. destruct (id_eqb r r0) eqn:E.
      * apply id_eqb_eq in E. subst r. injection H as <-. rewrite Hr0 in *. cbn [fst snd r0].
        destruct Hok as [[_ [_ [Hlt _]]]|[_ ->]]; [lia|reflexivity].
      * eapply J3; eassumption.
    + intros r e H. rewrite C4. rewrite Hl in H. destruct (id_eqb r r0).
      * injection H as <-. rewrite Hn0. lia.
      * apply J4 in H. lia.
    + intros r1 r2 e1 e2 H1 H2 Hlt. rewrite Hl in H1, H2.
      destruct (id_eqb r1 r0) eqn:E1; destruct (id_eqb r2 r0) eqn:E2.
      * apply id_eqb_eq in E1, E2. subst r1 r2. rewrite id_ltb_irrefl in Hlt. discriminate.
      * apply id_eqb_eq in E1. subst r1. exfalso.
        assert (Hh : has_entry r2 es1) by (unfold has_entry; rewrite H2; discriminate).
        destruct (J1 r2 Hh) as [Hb _]. apply (id_ltb_before height txi) in Hb. fold r0 in Hb.
        unfold id_ltb in *. cbn [fst snd r0] in *. lia.
      * injection H2 as <-. rewrite Hn0. eapply J4. exact H1.
      * eapply J5; eassumption.
    + rewrite C4, C1, J6. rewrite (length_aupd id_eqb), Hfresh. lia.
Qed.

(* ---------- blocks and chains ---------- *)
Lemma index_txs_etchinv height time minimum txs : forall txi u u',
  index_txs height time minimum txi u txs = Ok u' -> txi + N.of_nat (length txs) <= TWO32 ->
  EtchInv height txi (u_st u) -> EtchInv height (txi + N.of_nat (length txs)) (u_st u').
Proof.
  induction txs as [|tx txs IH]; intros txi u u' Q Hb I; cbn [index_txs length] in *.
  - ok_inj. replace (txi + N.of_nat 0) with txi by lia. exact I.
  - bind_inv Q as u1 H1. apply index_runes_etchinv in H1; [|lia|exact I].
    apply IH in Q; [|lia|exact H1]. replace (txi + N.of_nat (S (length txs))) with (txi + 1 + N.of_nat (length txs)) by lia. exact Q.
Qed.

Lemma update_burned_etchinv height txi bl : forall st es',
  update_burned bl (s_entries st) = Ok es' -> EtchInv height txi st -> EtchInv height txi (set_entries st es').
Proof.
  induction bl as [|[r b] bl IH]; intros st es' Q I; cbn [update_burned] in Q.
  - ok_inj. rewrite set_entries_same. exact I.
  - destruct (alookup id_eqb r (s_entries st)) as [e|] eqn:El; [|discriminate].
    destruct (_ <=? _); [|discriminate].
    pose proof (upd_entry_inv height txi st r e (set_burned e (e_burned e + b)) El eq_refl eq_refl I) as [I1 _].
    specialize (IH (set_entries st (aupd id_eqb r (set_burned e (e_burned e + b)) (s_entries st))) es').
    cbn [set_entries s_entries] in IH. specialize (IH Q I1).
    destruct st; exact IH.
Qed.

Lemma etchinv_next height txi st : EtchInv height txi st -> EtchInv (height + 1) 0 st.
Proof.
  intros [I1 I2 I3 I4 I5 I6]. constructor; try assumption.
  intros r Hr. destruct (I1 r Hr) as [H1 H2]. split; [lia|exact H2].
Qed.

Lemma index_block_etchinv first height st b st' :
  index_block first height st b = Ok st' -> N.of_nat (length (b_txs b)) <= TWO32 ->
  EtchInv height 0 st -> EtchInv (height + 1) 0 st'.
Proof.
  unfold index_block. intros Q Hb I. destruct (height <? first).
  - ok_inj. eapply etchinv_next; exact I.
  - bind_inv Q as u1 Htx. bind_inv Q as es1 Hup. ok_inj.
    apply index_txs_etchinv in Htx; [|lia|exact I].
    eapply etchinv_next. eapply update_burned_etchinv; eassumption.
Qed.

Lemma index_chain_etchinv first bs : forall height st sts,
  index_chain first height st bs = Ok sts ->
  Forall (fun b => N.of_nat (length (b_txs b)) <= TWO32) bs ->
  EtchInv height 0 st -> Forall (fun s => exists h, EtchInv h 0 s) sts.
Proof.
  induction bs as [|b bs IH]; intros height st sts Q Hb I; cbn [index_chain] in Q; [ok_inj; constructor|].
  bind_inv Q as st1 Hblk. bind_inv Q as rest Hrest. ok_inj. inversion Hb; subst.
  apply index_block_etchinv in Hblk; [|assumption|exact I].
  constructor; [exists (height + 1); exact Hblk|]. eapply IH; eassumption.
Qed.

Lemma etchinv_empty height : EtchInv height 0 empty_state.
Proof.
  constructor; cbn.
  - intros r H. exfalso. apply H. reflexivity.
  - intros rune r. split; [discriminate|intros [e [H _]]; discriminate].
  - intros r e H. discriminate.
  - intros r e H. discriminate.
  - intros r1 r2 e1 e2 H. discriminate.
  - reflexivity.
Qed.

(* before the first rune height nothing is indexed *)
Lemma index_block_before_activation first height st b :
  height < first -> index_block first height st b = Ok st.
Proof. unfold index_block. intros H. destruct (N.ltb_spec height first); [reflexivity|lia]. Qed.

(* a new entry appears only at the position of a transaction whose artifact etches validly *)
Lemma index_runes_new_entries height time minimum txi u tx u' r :
  index_runes height time minimum txi u tx = Ok u' ->
  has_entry r (s_entries (u_st u')) -> ~ has_entry r (s_entries (u_st u)) ->
  r = (height, txi) /\
  exists art rune, tx_art tx = Some art /\
    etch_ok height txi minimum (s_rune_to_id (u_st u)) tx art rune /\
    (exists es1, s_entries (u_st u') =
       aupd id_eqb (height, txi) (new_entry art (tx_id tx) (height, txi) rune (s_runes (u_st u)) time) es1) /\
    s_rune_to_id (u_st u') = aupd N.eqb rune (height, txi) (s_rune_to_id (u_st u)) /\
    s_runes (u_st u') = s_runes (u_st u) + 1.
Proof.
  intros Q Hnew Hold. apply index_runes_tables in Q. destruct Q as [es1 [Hm Hc]].
  assert (K1 : forall x, has_entry x es1 <-> has_entry x (s_entries (u_st u))).
  { destruct Hm as [->|[r0 [e0 [El ->]]]]; [tauto|]. intros x. rewrite has_entry_aupd. split; [|auto].
    intros [H| ->]; [exact H|]. unfold has_entry. rewrite El. discriminate. }
  destruct Hc as [[C1 _]|[art [rune [Ha [Hok [C1 [C2 [C3 C4]]]]]]]].
  - exfalso. apply Hold. apply K1. rewrite <- C1. exact Hnew.
  - rewrite C1 in Hnew. apply has_entry_aupd in Hnew. destruct Hnew as [Hn|Hn]; [exfalso; apply Hold, K1; exact Hn|].
    split; [exact Hn|]. exists art, rune. split; [exact Ha|]. split; [exact Hok|]. split; [exists es1; exact C1|]. auto.
Qed.
