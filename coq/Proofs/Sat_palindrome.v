(* C29: Sat::palindrome decides "the decimal digits read the same backwards" (below the supply). *)
From OrdV Require Import Base.Prelude Generated Ord.Sat Proofs.Sat_proofs.
Require Import ZifyBool ZifyN.
Ltac Zify.zify_post_hook ::= Z.div_mod_to_equations.

(* decimal digits of n, least significant first, none for 0 (fuel = bit size + 1) *)
Fixpoint dle (fuel : nat) (n : N) : list N :=
  match fuel with
  | O => []
  | S f => if 0 <? n then n mod 10 :: dle f (n / 10) else []
  end.
Definition decimal_digits_le (n : N) : list N := dle (S (N.to_nat (N.size n))) n.

(* value of a digit list read most significant first, continuing from a *)
Definition horner (l : list N) (a : N) : N := fold_left (fun a d => a * 10 + d) l a.

Lemma horner_app : forall l1 l2 a, horner (l1 ++ l2) a = horner l2 (horner l1 a).
Proof. intros. unfold horner. apply fold_left_app. Qed.

Lemma dle_digits : forall f n, Forall (fun d => d < 10) (dle f n).
Proof.
  induction f as [|f IH]; intros n; cbn [dle]; [constructor|].
  destruct (0 <? n); [|constructor]. constructor; [apply N.mod_lt; lia|apply IH].
Qed.

(* the loop of Sat::palindrome computes the value of the digits read backwards *)
Lemma reverse_digits_horner : forall fuel m r j, (j <= 16)%nat ->
  r < 10 ^ N.of_nat j -> m < 10 ^ N.of_nat (16 - j) ->
  reverse_digits fuel m r = Ok (horner (dle fuel m) r).
Proof.
  induction fuel as [|fuel IH]; intros m r j Hj Hr Hm; cbn [reverse_digits dle]; [reflexivity|].
  destruct (N.ltb_spec 0 m) as [Hpos|_]; [|reflexivity].
  destruct (Nat.eq_dec j 16) as [->|Hne].
  { change (10 ^ N.of_nat (16 - 16)) with 1 in Hm. lia. }
  replace (16 - j)%nat with (S (16 - S j)) in Hm by lia.
  rewrite Nat2N.inj_succ, N.pow_succ_r' in Hm.
  assert (Hr' : r * 10 + m mod 10 < 10 ^ N.of_nat (S j)).
  { rewrite Nat2N.inj_succ, N.pow_succ_r'. pose proof (N.mod_lt m 10 ltac:(lia)). lia. }
  assert (Hb : 10 ^ N.of_nat (S j) <= 10 ^ 16).
  { apply N.pow_le_mono_r; lia. }
  change (10 ^ 16) with 10000000000000000 in Hb. change U64_MAX with 18446744073709551615.
  destruct (N.ltb_spec 18446744073709551615 (r * 10 + m mod 10)) as [X|_]; [lia|].
  rewrite (IH _ _ (S j)); [reflexivity|lia|exact Hr'|lia].
Qed.

(* n is the value of its digits read most significant first *)
Lemma horner_rev_dle : forall f n, n < 2 ^ N.of_nat f -> horner (rev (dle f n)) 0 = n.
Proof.
  induction f as [|f IH]; intros n Hn.
  - change (2 ^ N.of_nat 0) with 1 in Hn. assert (n = 0) as -> by lia. reflexivity.
  - rewrite Nat2N.inj_succ, N.pow_succ_r' in Hn. cbn [dle].
    destruct (N.ltb_spec 0 n) as [Hp|Hz]; [|assert (n = 0) as -> by lia; reflexivity].
    cbn [rev]. rewrite horner_app, IH by lia. unfold horner. cbn [fold_left]. lia.
Qed.

Lemma horner_inj : forall l1 l2 a,
  length l1 = length l2 -> Forall (fun d => d < 10) l1 -> Forall (fun d => d < 10) l2 ->
  horner l1 a = horner l2 a -> l1 = l2.
Proof.
  induction l1 as [|x l1 IH] using rev_ind; intros l2 a Hlen H1 H2 E.
  - destruct l2; [reflexivity|discriminate].
  - destruct l2 as [|y l2] using rev_ind; [rewrite app_length in Hlen; cbn in Hlen; lia|].
    clear IHl2. rewrite !app_length in Hlen. cbn [length] in Hlen.
    apply Forall_app in H1. destruct H1 as [H1 Hx]. inversion Hx as [|? ? Hx' _]. subst.
    apply Forall_app in H2. destruct H2 as [H2 Hy]. inversion Hy as [|? ? Hy' _]. subst.
    rewrite !horner_app in E. unfold horner at 1 3 in E. cbn [fold_left] in E.
    assert (horner l1 a = horner l2 a /\ x = y) as [E1 ->] by lia.
    rewrite (IH l2 a); [reflexivity|lia|assumption|assumption|exact E1].
Qed.

(* Sat::palindrome below the supply: no overflow, and true exactly when the digit list equals its reverse *)
Lemma sat_palindrome_spec : forall n, n < SAT_SUPPLY ->
  exists p, sat_palindrome n = Ok p /\
    (p = true <-> decimal_digits_le n = rev (decimal_digits_le n)).
Proof.
  intros n Hn. unfold sat_palindrome, decimal_digits_le.
  set (fuel := S (N.to_nat (N.size n))).
  rewrite (reverse_digits_horner fuel n 0 0); [|lia|reflexivity|].
  2:{ change (10 ^ N.of_nat (16 - 0)) with 10000000000000000.
      change SAT_SUPPLY with 2099999997690000 in Hn. lia. }
  cbn [bind]. eexists. split; [reflexivity|].
  assert (V : horner (rev (dle fuel n)) 0 = n).
  { apply horner_rev_dle. unfold fuel. rewrite Nat2N.inj_succ, N2Nat.id, N.pow_succ_r'.
    pose proof (N.size_gt n). lia. }
  split; intros H.
  - apply N.eqb_eq in H. symmetry. apply (horner_inj _ _ 0).
    + apply rev_length.
    + apply Forall_rev. apply dle_digits.
    + apply dle_digits.
    + rewrite V. exact H.
  - apply N.eqb_eq. rewrite H. symmetry. exact V.
Qed.
