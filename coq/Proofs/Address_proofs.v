(* Proofs about the address-index model (C17). *)
From OrdV Require Import Base.Prelude Index.SatIndex Index.Address Proofs.SatIndex_proofs Proofs.SatIndex_partition.
From Coq Require Import ZifyBool ZifyN.

(* ------------------------------------------------------------------ the multimap as a set *)

Lemma pair_eqb_spec : forall a b : N * outpoint, reflect (a = b) (pair_eqb a b).
Proof.
  intros [s1 o1] [s2 o2]. unfold pair_eqb. cbn [fst snd].
  destruct (N.eqb_spec s1 s2), (op_eqb_spec o1 o2); cbn; constructor; congruence.
Qed.

Lemma mm_mem_In : forall p m, mm_mem p m = true <-> In p m.
Proof.
  intros p m. induction m as [|q m IH]; cbn [mm_mem In]; [split; [discriminate|tauto]|].
  destruct (pair_eqb_spec p q) as [E|E].
  - split; [intros _; left; congruence|reflexivity].
  - rewrite IH. split; [tauto|]. intros [H|H]; [congruence|exact H].
Qed.

Lemma mm_remove_In : forall p q m, In q (mm_remove p m) <-> In q m /\ q <> p.
Proof.
  intros p q m. induction m as [|r m IH]; cbn [mm_remove In]; [tauto|].
  destruct (pair_eqb_spec p r) as [E|E].
  - rewrite IH. subst. split; [tauto|]. intros [[H|H] N]; [congruence|tauto].
  - cbn [In]. rewrite IH. split; [intros [H|H]; [subst; split; [tauto|congruence]|tauto]|tauto].
Qed.

Lemma mm_insert_In : forall p q m, In q (mm_insert p m) <-> q = p \/ In q m.
Proof.
  intros p q m. unfold mm_insert. destruct (mm_mem p m) eqn:E.
  - apply mm_mem_In in E. split; [tauto|]. intros [H|H]; [subst; exact E|exact H].
  - cbn [In]. split; intros [H|H]; auto.
Qed.

(* ------------------------------------------------------------------ invariants *)

Section Inv.
  Variable outs_of : N -> list (N * N).      (* the outputs of THE transaction with a given txid *)

  Definition tx_wf (t : tx) : Prop := outs t = outs_of (txid t).
  Definition chain_wf (c : list (list tx)) : Prop := Forall (Forall tx_wf) c.

  (* every stored entry is the output of the creating transaction *)
  Definition origin (m : amap) : Prop :=
    forall t i e, aget op_eqb (t, i) m = Some e -> nth_error (outs_of t) (N.to_nat i) = Some e.

  (* the multimap holds exactly the (script, outpoint) pairs of the table *)
  Definition mm_ok (tb : amap) (m : list (N * outpoint)) : Prop :=
    forall s o, In (s, o) m <-> exists v, aget op_eqb o tb = Some (v, s).

  Definition winv (w : wstate) : Prop :=
    origin (w_cache w) /\ origin (w_table w) /\ mm_ok (w_table w) (w_mm w) /\ nodupkeys (w_cache w).

  Lemma origin_adel : forall k m, origin m -> origin (adel op_eqb k m).
  Proof.
    intros k m O t i e H. destruct (op_eqb_spec (t, i) k) as [E|E].
    - subst. rewrite aget_adel_same in H. discriminate.
    - rewrite aget_adel_other in H by exact E. apply O. exact H.
  Qed.

  Lemma spend_inputs_inv : forall inps w w',
    winv w -> spend_inputs inps w = Ok w' -> winv w'.
  Proof.
    induction inps as [|i inps IH]; intros w w' I H; cbn [spend_inputs] in H.
    - inversion H; subst. exact I.
    - destruct I as [OC [OT [MM ND]]].
      destruct (aget op_eqb i (w_cache w)) as [e|] eqn:C.
      + eapply IH; [|exact H]. repeat split; cbn [w_cache w_table w_mm].
        * apply origin_adel. exact OC.
        * exact OT.
        * apply MM.
        * apply MM.
        * apply adel_nodup. exact ND.
      + destruct (aget op_eqb i (w_table w)) as [[v s]|] eqn:T; [|discriminate].
        destruct (mm_mem (s, i) (w_mm w)) eqn:M; [|discriminate].
        eapply IH; [|exact H]. repeat split; cbn [w_cache w_table w_mm]; try assumption.
        * apply origin_adel. exact OT.
        * intros I2. apply mm_remove_In in I2. destruct I2 as [I2 NE].
          apply MM in I2. destruct I2 as [v2 G]. exists v2.
          destruct (op_eqb_spec o i) as [E|E].
          -- subst. rewrite T in G. inversion G; subst. congruence.
          -- rewrite aget_adel_other by exact E. exact G.
        * intros [v2 G]. apply mm_remove_In.
          destruct (op_eqb_spec o i) as [E|E].
          -- subst. rewrite aget_adel_same in G. discriminate.
          -- rewrite aget_adel_other in G by exact E. split; [apply MM; eauto|congruence].
  Qed.

  Lemma cache_outputs_origin : forall os t v0 c pre,
    outs_of t = pre ++ os -> v0 = N.of_nat (length pre) ->
    origin c -> origin (cache_outputs t v0 os c).
  Proof.
    induction os as [|o os IH]; intros t v0 c pre E V O; cbn [cache_outputs]; [exact O|].
    apply (IH t (v0 + 1) _ (pre ++ [o])).
    - rewrite <- app_assoc. exact E.
    - rewrite app_length. cbn [length]. lia.
    - intros t2 i2 e2 H. destruct (op_eqb_spec (t2, i2) (t, v0)) as [K|K].
      + inversion K; subst. rewrite aget_aset_same in H. inversion H; subst.
        rewrite E, nth_error_app2 by lia.
        replace (N.to_nat (N.of_nat (length pre)) - length pre)%nat with 0%nat by lia. reflexivity.
      + rewrite aget_aset_other in H by exact K. apply O. exact H.
  Qed.

  Lemma cache_outputs_nodup : forall os t v0 (c : amap), nodupkeys c -> nodupkeys (cache_outputs t v0 os c).
  Proof.
    induction os as [|o os IH]; intros t v0 c ND; cbn [cache_outputs]; [exact ND|].
    apply IH. apply aset_nodup. exact ND.
  Qed.

  Lemma a_tx_inv : forall cbf t w w', tx_wf t -> winv w -> a_tx cbf t w = Ok w' -> winv w'.
  Proof.
    intros cbf t w w' WF I H. unfold a_tx in H.
    apply bind_ok in H. destruct H as [w1 [H1 H]]. inversion H; subst; clear H.
    assert (I1 : winv w1).
    { destruct cbf; [inversion H1; subst; exact I|eapply spend_inputs_inv; eassumption]. }
    destruct I1 as [OC [OT [MM ND]]]. repeat split; cbn [w_cache w_table w_mm]; try assumption; try apply MM.
    - apply (cache_outputs_origin (outs t) (txid t) 0 _ []); [symmetry; exact WF|reflexivity|exact OC].
    - apply cache_outputs_nodup. exact ND.
  Qed.

  Lemma a_txs_inv : forall ts w w', Forall tx_wf ts -> winv w -> a_txs ts w = Ok w' -> winv w'.
  Proof.
    induction ts as [|t ts IH]; intros w w' F I H; cbn [a_txs] in H.
    - inversion H; subst. exact I.
    - inversion F as [|x l F1 F2]; subst.
      apply bind_ok in H. destruct H as [w1 [H1 H]].
      eapply IH; [exact F2| |exact H]. eapply a_tx_inv; eassumption.
  Qed.

  (* commit *)
  Lemma origin_tail : forall k e (c : amap), nodupkeys ((k, e) :: c) -> origin ((k, e) :: c) -> origin c.
  Proof.
    intros k e c ND O t i e2 G. apply O. cbn [aget].
    destruct (op_eqb_spec (t, i) k) as [E|E]; [|exact G].
    exfalso. inversion ND as [|x l N1 N2]; subst. apply N1. eapply aget_in_keys. exact G.
  Qed.

  Lemma flush_inv : forall c tb m tb' m',
    nodupkeys c -> origin c -> origin tb -> mm_ok tb m -> flush c tb m = (tb', m') ->
    origin tb' /\ mm_ok tb' m'.
  Proof.
    induction c as [|[k [v s]] c IH]; intros tb m tb' m' ND OC OT MM H; cbn [flush] in H.
    - inversion H; subst. split; assumption.
    - assert (HK : forall t i, k = (t, i) -> nth_error (outs_of t) (N.to_nat i) = Some (v, s)).
      { intros t i E. subst. apply OC. cbn [aget]. destruct (op_eqb_spec (t, i) (t, i)); [reflexivity|contradiction]. }
      inversion ND as [|x l N1 N2]; subst.
      apply (IH _ _ _ _ N2 (origin_tail _ _ _ ND OC)) in H; [exact H| |].
      + intros t i e G. destruct (op_eqb_spec (t, i) k) as [E|E].
        * subst. rewrite aget_aset_same in G. inversion G; subst. apply HK. reflexivity.
        * rewrite aget_aset_other in G by exact E. apply OT. exact G.
      + intros s2 o. rewrite mm_insert_In. split.
        * intros [E|I2].
          -- inversion E; subst. exists v. apply aget_aset_same.
          -- apply MM in I2. destruct I2 as [v2 G]. destruct (op_eqb_spec o k) as [E|E].
             ++ subst. destruct k as [t i]. pose proof (OT t i _ G) as X. rewrite (HK t i eq_refl) in X.
                inversion X; subst. exists v2. apply aget_aset_same.
             ++ exists v2. rewrite aget_aset_other by exact E. exact G.
        * intros [v2 G]. destruct (op_eqb_spec o k) as [E|E].
          -- subst. rewrite aget_aset_same in G. inversion G; subst. left. reflexivity.
          -- rewrite aget_aset_other in G by exact E. right. apply MM. eauto.
  Qed.

  Definition ainv (st : astate) : Prop :=
    origin (cache st) /\ origin (table st) /\ mm_ok (table st) (mm st) /\ nodupkeys (cache st).

  Lemma ainv_winv : forall st, ainv st -> winv (mkW (cache st) (table st) (mm st) (shadowed st)).
  Proof. intros st I. exact I. Qed.

  Lemma origin_nil : origin [].
  Proof. intros t i e G. discriminate. Qed.

  Lemma a_block_inv : forall cm st b st', Forall tx_wf b -> ainv st -> a_block cm st b = Ok st' -> ainv st'.
  Proof.
    intros cm st b st' F I H. unfold a_block in H. destruct b as [|cb rest].
    - destruct cm; [|inversion H; subst; exact I].
      destruct I as [OC [OT [MM ND]]].
      destruct (flush (cache st) (table st) (mm st)) as [tb m] eqn:FL. inversion H; subst; clear H.
      destruct (flush_inv _ _ _ _ _ ND OC OT MM FL) as [A B].
      split; [exact origin_nil|]. split; [exact A|]. split; [exact B|constructor].
    - inversion F as [|x l F1 F2]; subst.
      apply bind_ok in H. destruct H as [w1 [H1 H]].
      apply bind_ok in H. destruct H as [w2 [H2 H]].
      pose proof (a_txs_inv _ _ _ F2 (ainv_winv st I) H1) as I1.
      pose proof (a_tx_inv _ _ _ _ F1 I1 H2) as [OC2 [OT2 [MM2 ND2]]].
      destruct cm.
      + destruct (flush (w_cache w2) (w_table w2) (w_mm w2)) as [tb m] eqn:FL. inversion H; subst; clear H.
        destruct (flush_inv _ _ _ _ _ ND2 OC2 OT2 MM2 FL) as [A B].
        split; [exact origin_nil|]. split; [exact A|]. split; [exact B|constructor].
      + inversion H; subst; clear H. repeat split; assumption || apply MM2.
  Qed.

  Lemma a_run_from_inv : forall c sched st st', chain_wf c -> ainv st -> a_run_from sched st c = Ok st' -> ainv st'.
  Proof.
    induction c as [|b c IH]; intros sched st st' F I H; cbn [a_run_from] in H.
    - inversion H; subst. exact I.
    - inversion F as [|x l F1 F2]; subst.
      destruct sched as [|cm sched]; apply bind_ok in H; destruct H as [st1 [H1 H]];
        (eapply IH; [exact F2| |exact H]); eapply a_block_inv; eassumption.
  Qed.

  Lemma ainv_init : ainv a_init.
  Proof.
    split; [exact origin_nil|]. split; [exact origin_nil|]. split; [|constructor].
    intros s o. cbn. split; [tauto|]. intros [v G]. discriminate.
  Qed.

  Theorem address_invariant : forall sched c st, chain_wf c -> a_run sched c = Ok st -> ainv st.
  Proof. intros sched c st F H. exact (a_run_from_inv c sched a_init st F ainv_init H). Qed.

  (* ---------------------------------------------------------------- the panic site is unreachable *)

  Lemma spend_inputs_no_panic5 : forall inps w, winv w -> spend_inputs inps w <> Panic 5.
  Proof.
    induction inps as [|i inps IH]; intros w I; cbn [spend_inputs]; [discriminate|].
    destruct (aget op_eqb i (w_cache w)) as [e|] eqn:C.
    - apply IH. eapply (spend_inputs_inv [i] w); [exact I|]. cbn [spend_inputs]. rewrite C. reflexivity.
    - destruct (aget op_eqb i (w_table w)) as [[v s]|] eqn:T; [|discriminate].
      destruct (mm_mem (s, i) (w_mm w)) eqn:M.
      + apply IH. eapply (spend_inputs_inv [i] w); [exact I|]. cbn [spend_inputs]. rewrite C, T, M. reflexivity.
      + exfalso. destruct I as [_ [_ [MM _]]].
        assert (In (s, i) (w_mm w)) by (apply MM; eauto).
        apply mm_mem_In in H. congruence.
  Qed.

  Lemma bind_panic : forall {A B} (r : Res A) (f : A -> Res B) t,
    bind r f = Panic t -> r = Panic t \/ exists a, r = Ok a /\ f a = Panic t.
  Proof. intros A B [a|e|t0] f t H; cbn in H; [right; eauto|discriminate|left; inversion H; reflexivity]. Qed.

  Lemma a_tx_no_panic5 : forall cbf t w, winv w -> a_tx cbf t w <> Panic 5.
  Proof.
    intros cbf t w I H. unfold a_tx in H. apply bind_panic in H. destruct H as [H|[a [_ H]]]; [|discriminate].
    destruct cbf; [discriminate|]. exact (spend_inputs_no_panic5 _ _ I H).
  Qed.

  Lemma a_txs_no_panic5 : forall ts w, Forall tx_wf ts -> winv w -> a_txs ts w <> Panic 5.
  Proof.
    induction ts as [|t ts IH]; intros w F I; cbn [a_txs]; [discriminate|].
    inversion F as [|x l F1 F2]; subst. intros H. apply bind_panic in H. destruct H as [H|[w1 [H1 H]]].
    - exact (a_tx_no_panic5 _ _ _ I H).
    - exact (IH w1 F2 (a_tx_inv _ _ _ _ F1 I H1) H).
  Qed.

  Lemma a_block_no_panic5 : forall cm st b, Forall tx_wf b -> ainv st -> a_block cm st b <> Panic 5.
  Proof.
    intros cm st b F I H. unfold a_block in H. destruct b as [|cb rest].
    - destruct cm; [destruct (flush (cache st) (table st) (mm st))|]; discriminate.
    - inversion F as [|x l F1 F2]; subst.
      apply bind_panic in H. destruct H as [H|[w1 [H1 H]]]; [exact (a_txs_no_panic5 _ _ F2 (ainv_winv st I) H)|].
      pose proof (a_txs_inv _ _ _ F2 (ainv_winv st I) H1) as I1.
      apply bind_panic in H. destruct H as [H|[w2 [H2 H]]]; [exact (a_tx_no_panic5 _ _ _ I1 H)|].
      destruct cm; [destruct (flush (w_cache w2) (w_table w2) (w_mm w2))|]; discriminate.
  Qed.

  Theorem no_missing_pair_panic : forall sched c, chain_wf c -> a_run sched c <> Panic 5.
  Proof.
    intros sched c. unfold a_run. generalize ainv_init. generalize a_init. revert sched.
    induction c as [|b c IH]; intros sched st I F; cbn [a_run_from]; [discriminate|].
    inversion F as [|x l F1 F2]; subst.
    destruct sched as [|cm sched]; intros H; apply bind_panic in H; destruct H as [H|[st1 [H1 H]]];
      try (exact (a_block_no_panic5 _ _ _ F1 I H));
      exact (IH _ st1 (a_block_inv _ _ _ _ F1 I H1) F2 H).
  Qed.
End Inv.

(* ------------------------------------------------------------------ the table is the UTXO set *)

Definition merged (w : wstate) (o : outpoint) : option aentry :=
  match aget op_eqb o (w_cache w) with Some e => Some e | None => aget op_eqb o (w_table w) end.
Definition sim (w : wstate) (u : amap) : Prop := forall o, aget op_eqb o u = merged w o.

Lemma shadow_mono_spend : forall inps w w',
  spend_inputs inps w = Ok w' -> w_shadow w = true -> w_shadow w' = true.
Proof.
  induction inps as [|j inps IH]; intros w w' H T; cbn [spend_inputs] in H.
  - inversion H; subst. exact T.
  - destruct (aget op_eqb j (w_cache w)).
    + apply (IH _ _ H). cbn [w_shadow]. destruct (aget op_eqb j (w_table w)); [reflexivity|exact T].
    + destruct (aget op_eqb j (w_table w)) as [[v s]|]; [|discriminate].
      destruct (mm_mem (s, j) (w_mm w)); [|discriminate]. apply (IH _ _ H). exact T.
Qed.

Lemma shadow_mono_tx : forall cbf t w w', a_tx cbf t w = Ok w' -> w_shadow w = true -> w_shadow w' = true.
Proof.
  intros cbf t w w' H T. unfold a_tx in H. apply bind_ok in H. destruct H as [w1 [H1 H]].
  inversion H; subst. cbn [w_shadow]. destruct cbf; [inversion H1; subst; exact T|].
  exact (shadow_mono_spend _ _ _ H1 T).
Qed.

Lemma shadow_mono_txs : forall ts w w', a_txs ts w = Ok w' -> w_shadow w = true -> w_shadow w' = true.
Proof.
  induction ts as [|t ts IH]; intros w w' H T; cbn [a_txs] in H.
  - inversion H; subst. exact T.
  - apply bind_ok in H. destruct H as [w1 [H1 H]]. apply (IH _ _ H). exact (shadow_mono_tx _ _ _ _ H1 T).
Qed.

Lemma spend_inputs_sim : forall inps w w' u,
  sim w u -> spend_inputs inps w = Ok w' -> w_shadow w' = false ->
  sim w' (u_spend inps u) /\ w_shadow w = false.
Proof.
  induction inps as [|i inps IH]; intros w w' u S H F; cbn [spend_inputs] in H; cbn [u_spend].
  - inversion H; subst. split; assumption.
  - destruct (aget op_eqb i (w_cache w)) as [e|] eqn:C.
    + assert (T : aget op_eqb i (w_table w) = None).
      { destruct (aget op_eqb i (w_table w)) eqn:T; [|reflexivity]. exfalso.
        rewrite (shadow_mono_spend _ _ _ H) in F; [discriminate|reflexivity]. }
      rewrite T in H.
      assert (S1 : sim (mkW (adel op_eqb i (w_cache w)) (w_table w) (w_mm w) (w_shadow w)) (adel op_eqb i u)).
      { intros o. unfold merged. cbn [w_cache w_table].
        destruct (op_eqb_spec o i) as [E|E].
        - subst. rewrite !aget_adel_same. symmetry. exact T.
        - rewrite !aget_adel_other by exact E. apply S. }
      destruct (IH _ _ _ S1 H F) as [S' F']. split; [exact S'|exact F'].
    + destruct (aget op_eqb i (w_table w)) as [[v s]|] eqn:T; [|discriminate].
      destruct (mm_mem (s, i) (w_mm w)) eqn:M; [|discriminate].
      assert (S1 : sim (mkW (w_cache w) (adel op_eqb i (w_table w)) (mm_remove (s, i) (w_mm w)) (w_shadow w))
                       (adel op_eqb i u)).
      { intros o. unfold merged. cbn [w_cache w_table].
        destruct (op_eqb_spec o i) as [E|E].
        - subst. rewrite C, !aget_adel_same. reflexivity.
        - rewrite !aget_adel_other by exact E. apply S. }
      destruct (IH _ _ _ S1 H F) as [S' F']. split; [exact S'|exact F'].
Qed.

Lemma cache_outputs_sim : forall os t v0 w u,
  sim w u ->
  sim (mkW (cache_outputs t v0 os (w_cache w)) (w_table w) (w_mm w) (w_shadow w)) (cache_outputs t v0 os u).
Proof.
  induction os as [|o os IH]; intros t v0 w u S; cbn [cache_outputs].
  - destruct w. exact S.
  - apply (IH t (v0 + 1) (mkW (aset op_eqb (t, v0) o (w_cache w)) (w_table w) (w_mm w) (w_shadow w))).
    intros k. unfold merged. cbn [w_cache w_table].
    destruct (op_eqb_spec k (t, v0)) as [E|E].
    + subst. rewrite !aget_aset_same. reflexivity.
    + rewrite !aget_aset_other by exact E. apply S.
Qed.

Lemma a_tx_sim : forall cbf t w w' u,
  sim w u -> a_tx cbf t w = Ok w' -> w_shadow w' = false ->
  sim w' (u_tx cbf t u) /\ w_shadow w = false.
Proof.
  intros cbf t w w' u S H F. unfold a_tx in H. apply bind_ok in H. destruct H as [w1 [H1 H]].
  inversion H; subst; clear H. cbn [w_shadow] in F. unfold u_tx. destruct cbf.
  - inversion H1; subst. split; [apply cache_outputs_sim; exact S|exact F].
  - destruct (spend_inputs_sim _ _ _ _ S H1 F) as [S1 F1]. split; [apply cache_outputs_sim; exact S1|exact F1].
Qed.

Lemma a_txs_sim : forall ts w w' u,
  sim w u -> a_txs ts w = Ok w' -> w_shadow w' = false ->
  sim w' (fold_left (fun u t => u_tx false t u) ts u) /\ w_shadow w = false.
Proof.
  induction ts as [|t ts IH]; intros w w' u S H F; cbn [a_txs] in H; cbn [fold_left].
  - inversion H; subst. split; assumption.
  - apply bind_ok in H. destruct H as [w1 [H1 H]].
    assert (F1 : w_shadow w1 = false).
    { destruct (w_shadow w1) eqn:X; [|reflexivity]. rewrite (shadow_mono_txs _ _ _ H X) in F. discriminate. }
    destruct (a_tx_sim _ _ _ _ _ S H1 F1) as [S1 F0].
    destruct (IH _ _ _ S1 H F) as [S2 _]. split; assumption.
Qed.

Lemma spend_inputs_nodup : forall inps w w', nodupkeys (w_cache w) -> spend_inputs inps w = Ok w' -> nodupkeys (w_cache w').
Proof.
  induction inps as [|i inps IH]; intros w w' ND H; cbn [spend_inputs] in H.
  - inversion H; subst. exact ND.
  - destruct (aget op_eqb i (w_cache w)).
    + eapply IH; [|exact H]. cbn [w_cache]. apply adel_nodup. exact ND.
    + destruct (aget op_eqb i (w_table w)) as [[v s]|]; [|discriminate].
      destruct (mm_mem (s, i) (w_mm w)); [|discriminate]. eapply IH; [|exact H]. exact ND.
Qed.

Lemma a_tx_nodup : forall cbf t w w', nodupkeys (w_cache w) -> a_tx cbf t w = Ok w' -> nodupkeys (w_cache w').
Proof.
  intros cbf t w w' ND H. unfold a_tx in H. apply bind_ok in H. destruct H as [w1 [H1 H]].
  inversion H; subst. cbn [w_cache]. apply cache_outputs_nodup.
  destruct cbf; [inversion H1; subst; exact ND|exact (spend_inputs_nodup _ _ _ ND H1)].
Qed.

Lemma a_txs_nodup : forall ts w w', nodupkeys (w_cache w) -> a_txs ts w = Ok w' -> nodupkeys (w_cache w').
Proof.
  induction ts as [|t ts IH]; intros w w' ND H; cbn [a_txs] in H.
  - inversion H; subst. exact ND.
  - apply bind_ok in H. destruct H as [w1 [H1 H]]. exact (IH _ _ (a_tx_nodup _ _ _ _ ND H1) H).
Qed.

Lemma flush_get : forall c tb m o,
  nodupkeys c ->
  aget op_eqb o (fst (flush c tb m)) = match aget op_eqb o c with Some e => Some e | None => aget op_eqb o tb end.
Proof.
  induction c as [|[k [v s]] c IH]; intros tb m o ND; cbn [flush]; [reflexivity|].
  inversion ND as [|x l N1 N2]; subst. rewrite IH by exact N2. cbn [aget].
  destruct (op_eqb_spec o k) as [E|E].
  - subst. destruct (aget op_eqb k c) eqn:G.
    + exfalso. apply N1. eapply aget_in_keys. exact G.
    + apply aget_aset_same.
  - destruct (aget op_eqb o c); [reflexivity|]. apply aget_aset_other. exact E.
Qed.

Definition aview (st : astate) (o : outpoint) : option aentry :=
  match aget op_eqb o (cache st) with Some e => Some e | None => aget op_eqb o (table st) end.

Lemma a_block_sim : forall cm st b st' u,
  nodupkeys (cache st) -> (forall o, aget op_eqb o u = aview st o) ->
  a_block cm st b = Ok st' -> shadowed st' = false ->
  nodupkeys (cache st') /\ (forall o, aget op_eqb o (u_block u b) = aview st' o) /\ shadowed st = false.
Proof.
  intros cm st b st' u ND E H F. unfold a_block in H. destruct b as [|cb rest].
  - destruct cm; [|inversion H; subst; repeat split; assumption].
    destruct (flush (cache st) (table st) (mm st)) as [tb m] eqn:FL. inversion H; subst; clear H.
    cbn [shadowed] in F. split; [constructor|]. split; [|exact F].
    intros o. unfold aview. cbn [cache table aget u_block].
    pose proof (flush_get (cache st) (table st) (mm st) o ND) as G. rewrite FL in G. cbn [fst] in G.
    rewrite G. apply E.
  - apply bind_ok in H. destruct H as [w1 [H1 H]].
    apply bind_ok in H. destruct H as [w2 [H2 H]].
    assert (S0 : sim (mkW (cache st) (table st) (mm st) (shadowed st)) u) by exact E.
    assert (ND2 : nodupkeys (w_cache w2)).
    { eapply a_tx_nodup; [|exact H2]. eapply a_txs_nodup; [|exact H1]. exact ND. }
    assert (F2 : w_shadow w2 = false).
    { destruct cm; [destruct (flush (w_cache w2) (w_table w2) (w_mm w2))|]; inversion H; subst; exact F. }
    assert (F1 : w_shadow w1 = false).
    { destruct (w_shadow w1) eqn:X; [|reflexivity]. rewrite (shadow_mono_tx _ _ _ _ H2 X) in F2. discriminate. }
    destruct (a_txs_sim _ _ _ _ S0 H1 F1) as [S1 F0]. cbn [w_shadow] in F0.
    destruct (a_tx_sim _ _ _ _ _ S1 H2 F2) as [S2 _].
    destruct cm.
    + destruct (flush (w_cache w2) (w_table w2) (w_mm w2)) as [tb m] eqn:FL. inversion H; subst; clear H.
      split; [constructor|]. split; [|exact F0]. intros o. unfold aview, u_block. cbn [cache table aget].
      pose proof (flush_get (w_cache w2) (w_table w2) (w_mm w2) o ND2) as G. rewrite FL in G. cbn [fst] in G.
      rewrite G. apply S2.
    + inversion H; subst; clear H. split; [exact ND2|]. split; [|exact F0]. intros o. apply S2.
Qed.

Lemma shadow_mono_block : forall cm st b st', a_block cm st b = Ok st' -> shadowed st = true -> shadowed st' = true.
Proof.
  intros cm st b st' H T. unfold a_block in H. destruct b as [|cb rest].
  - destruct cm; [destruct (flush (cache st) (table st) (mm st))|]; inversion H; subst; exact T.
  - apply bind_ok in H. destruct H as [w1 [G1 H]]. apply bind_ok in H. destruct H as [w2 [G2 H]].
    assert (T2 : w_shadow w2 = true) by (apply (shadow_mono_tx _ _ _ _ G2); apply (shadow_mono_txs _ _ _ G1); exact T).
    destruct cm; [destruct (flush (w_cache w2) (w_table w2) (w_mm w2))|]; inversion H; subst; exact T2.
Qed.

Lemma shadow_mono_run : forall c sched s0 s1, a_run_from sched s0 c = Ok s1 -> shadowed s0 = true -> shadowed s1 = true.
Proof.
  induction c as [|b c IH]; intros sched s0 s1 H T; cbn [a_run_from] in H.
  - inversion H; subst. exact T.
  - destruct sched as [|cm sched]; apply bind_ok in H; destruct H as [s2 [H1 H]];
      apply (IH _ _ _ H); exact (shadow_mono_block _ _ _ _ H1 T).
Qed.

Lemma a_run_from_sim : forall c sched st st' u,
  nodupkeys (cache st) -> (forall o, aget op_eqb o u = aview st o) ->
  a_run_from sched st c = Ok st' -> shadowed st' = false ->
  forall o, aget op_eqb o (fold_left u_block c u) = aview st' o.
Proof.
  induction c as [|b c IH]; intros sched st st' u ND E H F; cbn [a_run_from] in H; cbn [fold_left].
  - inversion H; subst. exact E.
  - destruct sched as [|cm sched]; apply bind_ok in H; destruct H as [st1 [H1 H]].
    + assert (F1 : shadowed st1 = false).
      { destruct (shadowed st1) eqn:X; [|reflexivity]. rewrite (shadow_mono_run _ _ _ _ H X) in F. discriminate. }
      destruct (a_block_sim _ _ _ _ _ ND E H1 F1) as [ND1 [E1 _]]. exact (IH _ _ _ _ ND1 E1 H F).
    + assert (F1 : shadowed st1 = false).
      { destruct (shadowed st1) eqn:X; [|reflexivity]. rewrite (shadow_mono_run _ _ _ _ H X) in F. discriminate. }
      destruct (a_block_sim _ _ _ _ _ ND E H1 F1) as [ND1 [E1 _]]. exact (IH _ _ _ _ ND1 E1 H F).
Qed.

(* whatever the commit schedule: if no spent input was shadowed, cache-over-table is, outpoint for
   outpoint, the set of unspent outputs; right after a commit (empty cache) that is the table *)
Theorem view_is_utxo_set : forall sched c st,
  a_run sched c = Ok st -> shadowed st = false ->
  forall o, aview st o = aget op_eqb o (u_run c).
Proof.
  intros sched c st H F o. symmetry.
  apply (a_run_from_sim c sched a_init st []); [constructor|reflexivity|exact H|exact F].
Qed.

Corollary table_is_utxo_set : forall sched c st,
  a_run sched c = Ok st -> shadowed st = false -> cache st = [] ->
  forall o, aget op_eqb o (table st) = aget op_eqb o (u_run c).
Proof.
  intros sched c st H F C o. rewrite <- (view_is_utxo_set sched c st H F o). unfold aview. rewrite C. reflexivity.
Qed.

Lemma listed_In : forall st s o, In o (listed st s) <-> In (s, o) (mm st).
Proof.
  intros st s o. unfold listed. rewrite in_map_iff. split.
  - intros [[s2 o2] [E I]]. cbn [snd] in E. subst. apply filter_In in I. destruct I as [I K].
    cbn [fst] in K. apply N.eqb_eq in K. subst. exact I.
  - intros I. exists (s, o). split; [reflexivity|]. apply filter_In. split; [exact I|]. cbn [fst]. apply N.eqb_refl.
Qed.

Lemma a_block_committed : forall st b st', a_block true st b = Ok st' -> cache st' = [].
Proof.
  intros st b st' H. unfold a_block in H. destruct b as [|cb rest].
  - destruct (flush (cache st) (table st) (mm st)). inversion H; subst. reflexivity.
  - apply bind_ok in H. destruct H as [w1 [H1 H]]. apply bind_ok in H. destruct H as [w2 [H2 H]].
    destruct (flush (w_cache w2) (w_table w2) (w_mm w2)). inversion H; subst. reflexivity.
Qed.

(* with a commit after every block the cache is empty after every block *)
Lemma a_run_committed : forall c st, a_run [] c = Ok st -> cache st = [].
Proof.
  intros c st. unfold a_run. assert (I : cache a_init = []) by reflexivity. revert I. generalize a_init.
  induction c as [|b c IH]; intros s0 I H; cbn [a_run_from] in H.
  - inversion H; subst. exact I.
  - apply bind_ok in H. destruct H as [s1 [H1 H]]. apply (IH s1); [|exact H]. exact (a_block_committed _ _ _ H1).
Qed.
