(* Lemmas about Codec/Cbor.v (C28), part 1: bounded decompression and candidate choice. *)
From OrdV Require Import Base.Prelude Generated Codec.EnvScript Codec.Envelope Codec.Cbor Proofs.Envelope_proofs.
Require Import ZifyBool ZifyN.
Ltac Zify.zify_post_hook ::= Z.div_mod_to_equations.

(* ------------------------------------------------------------------ bounded decompression *)

(* For ANY stream of chunks: a returned value is the accumulator followed by the first k
   chunks, none of them empty, and it never exceeds max; the accumulator never grows
   beyond max on the way (it only ever becomes acc ++ c after the test lenN acc + lenN c <= max). *)
Lemma decompress_loop_spec max chunks err : forall acc v,
  lenN acc <= max -> decompress_loop max acc chunks err = Some v ->
  lenN v <= max /\ exists k, v = acc ++ concat (firstn k chunks) /\
    Forall (fun c => c <> []) (firstn k chunks).
Proof.
  induction chunks as [|c r IH]; intros acc v Ha H; cbn [decompress_loop] in H.
  - destruct err; [discriminate|]. injection H as <-. split; [exact Ha|].
    exists 0%nat. cbn. rewrite app_nil_r. split; [reflexivity|constructor].
  - destruct c as [|x c]; cbn [is_nil] in H.
    + injection H as <-. split; [exact Ha|]. exists 0%nat. cbn. rewrite app_nil_r. split; [reflexivity|constructor].
    + destruct (N.ltb_spec max (lenN acc + lenN (x :: c))) as [|Hle]; [discriminate|].
      apply IH in H; [|unfold lenN in *; rewrite app_length; lia].
      destruct H as [Hv [k [E F]]]. split; [exact Hv|]. exists (S k). cbn [firstn concat].
      rewrite app_assoc. split; [exact E|]. constructor; [discriminate|exact F].
Qed.

Lemma decompress_max_le n :
  decompress_max n <= n * MAX_PROPERTIES_COMPRESSION_RATIO /\ decompress_max n <= MAX_COMPRESSED_PROPERTIES_SIZE.
Proof. unfold decompress_max. lia. Qed.

Lemma properties_cbor_bounded value e chunks err v :
  properties_cbor value (Some e) chunks err = Some v ->
  e = BROTLI /\ lenN v <= lenN value * MAX_PROPERTIES_COMPRESSION_RATIO /\
  lenN v <= MAX_COMPRESSED_PROPERTIES_SIZE /\
  exists k, v = concat (firstn k chunks).
Proof.
  unfold properties_cbor. destruct (bytes_eqb e BROTLI) eqn:E; [|discriminate].
  apply bytes_eqb_eq in E. intros H.
  apply decompress_loop_spec in H; [|unfold lenN; cbn; lia].
  destruct H as [Hv [k [Ek _]]]. pose proof (decompress_max_le (lenN value)) as [B1 B2].
  split; [exact E|]. split; [lia|]. split; [lia|]. exists k. exact Ek.
Qed.

Lemma properties_cbor_plain value chunks err : properties_cbor value None chunks err = Some value.
Proof. reflexivity. Qed.

(* completeness: a stream that ends normally within the bound is returned whole *)
Lemma decompress_loop_complete max chunks : forall acc,
  Forall (fun c => c <> []) chunks -> lenN acc + lenN (concat chunks) <= max ->
  decompress_loop max acc chunks false = Some (acc ++ concat chunks).
Proof.
  induction chunks as [|c r IH]; intros acc HF H; cbn [decompress_loop concat].
  - rewrite app_nil_r. reflexivity.
  - inversion HF as [|? ? Hc Hr]; subst. destruct c as [|x c]; [congruence|]. cbn [is_nil].
    cbn [concat] in H. unfold lenN in H. rewrite app_length in H.
    destruct (N.ltb_spec max (lenN acc + lenN (x :: c))) as [Hlt|_]; [unfold lenN in Hlt; lia|].
    rewrite IH; [rewrite <- app_assoc; reflexivity|exact Hr|unfold lenN; rewrite app_length; lia].
Qed.

(* what the encoder accepts, the decoder's bound admits *)
Lemma compress_accepts_bound len clen : compress_accepts len clen = true -> len <= decompress_max clen.
Proof.
  unfold compress_accepts, decompress_max. intros H. apply andb_true_iff in H. destruct H as [H1 H2].
  apply N.leb_le in H1. apply N.leb_le in H2. lia.
Qed.

(* the length-only loop is the length of the byte-level loop *)
Lemma decompress_len_spec max chunks err : forall acc,
  decompress_len max (lenN acc) (map (@lenN N) chunks) err = option_map (@lenN N) (decompress_loop max acc chunks err).
Proof.
  induction chunks as [|c r IH]; intros acc; cbn [map decompress_len decompress_loop].
  - destruct err; reflexivity.
  - destruct c as [|x c].
    + reflexivity.
    + cbn [is_nil]. assert (lenN (x :: c) =? 0 = false) as -> by (apply N.eqb_neq; unfold lenN; cbn [length]; lia).
      destruct (max <? lenN acc + lenN (x :: c)); [reflexivity|].
      replace (lenN acc + lenN (x :: c)) with (lenN (acc ++ x :: c)) by (unfold lenN; rewrite app_length; lia).
      apply IH.
Qed.

Lemma properties_cbor_len_spec value enc chunks err :
  properties_cbor_len (lenN value) enc (map (@lenN N) chunks) err = option_map (@lenN N) (properties_cbor value enc chunks err).
Proof.
  unfold properties_cbor_len, properties_cbor. destruct enc as [e|]; [|reflexivity].
  destruct (bytes_eqb e BROTLI); [|reflexivity]. apply (decompress_len_spec _ chunks err []).
Qed.

(* ------------------------------------------------------------------ candidate choice *)

Lemma first_min_spec lens : forall bi b i,
  (bi < i) -> 
  let j := first_min bi b i lens in
  (j = bi \/ (i <= j /\ j < i + lenN lens)) /\
  (forall k, (k < length lens)%nat -> (if j =? bi then b else nth (N.to_nat (j - i)) lens 0) <= nth k lens 0) /\
  (if j =? bi then b else nth (N.to_nat (j - i)) lens 0) <= b.
Proof.
  induction lens as [|n r IH]; intros bi b i Hlt; cbn [first_min].
  - cbv zeta. rewrite N.eqb_refl. split; [left; reflexivity|]. split; [intros k Hk; cbn [length] in Hk; lia|lia].
  - cbv zeta. destruct (N.ltb_spec n b) as [Hn|Hn].
    + specialize (IH i n (i + 1)). cbv zeta in IH. destruct IH as [A [B C]]; [lia|].
      set (j := first_min i n (i + 1) r) in *.
      unfold lenN in *. cbn [length].
      destruct (N.eqb_spec j i) as [Ej|Ej].
      * assert (j =? bi = false) as -> by (apply N.eqb_neq; lia).
        rewrite Ej, N.sub_diag. cbn [N.to_nat nth].
        split; [right; lia|]. split; [|lia].
        intros [|k] Hk; cbn [nth]; [lia|]. apply B. cbn [length] in Hk. lia.
      * destruct A as [A|A]; [contradiction|].
        assert (j =? bi = false) as -> by (apply N.eqb_neq; lia).
        replace (N.to_nat (j - i)) with (S (N.to_nat (j - (i + 1)))) by lia. cbn [nth].
        split; [right; lia|]. split; [|lia].
        intros [|k] Hk; cbn [nth]; [lia|]. apply B. cbn [length] in Hk. lia.
    + specialize (IH bi b (i + 1)). cbv zeta in IH. destruct IH as [A [B C]]; [lia|].
      set (j := first_min bi b (i + 1) r) in *.
      unfold lenN in *. cbn [length].
      destruct (N.eqb_spec j bi) as [Ej|Ej].
      * split; [left; exact Ej|]. split; [|lia].
        intros [|k] Hk; cbn [nth]; [lia|]. apply B. cbn [length] in Hk. lia.
      * destruct A as [A|A]; [contradiction|].
        replace (N.to_nat (j - i)) with (S (N.to_nat (j - (i + 1)))) by lia. cbn [nth].
        split; [right; lia|]. split; [|exact C].
        intros [|k] Hk; cbn [nth]; [lia|]. apply B. cbn [length] in Hk. lia.
Qed.

(* encode_properties picks a candidate of minimal length *)
Lemma choose_min lens i : choose lens = Some i ->
  (N.to_nat i < length lens)%nat /\ forall k, (k < length lens)%nat -> nth (N.to_nat i) lens 0 <= nth k lens 0.
Proof.
  destruct lens as [|n r]; [discriminate|]. cbn [choose]. intros H; injection H as <-.
  pose proof (first_min_spec r 0 n 1) as S. cbv zeta in S. destruct S as [A [B C]]; [lia|].
  set (j := first_min 0 n 1 r) in *. unfold lenN in *. cbn [length].
  destruct (N.eqb_spec j 0) as [Ej|Ej].
  - rewrite Ej. cbn [N.to_nat nth]. split; [lia|]. intros [|k] Hk; cbn [nth]; [lia|]. apply B. cbn [length] in Hk; lia.
  - destruct A as [A|A]; [contradiction|]. split; [lia|].
    replace (N.to_nat j) with (S (N.to_nat (j - 1))) by lia. cbn [nth].
    intros [|k] Hk; cbn [nth]; [exact C|]. apply B. cbn [length] in Hk; lia.
Qed.
