(* C06 at the sat level: when the sat ranges of the inputs are pairwise disjoint (C02), equal sats mean equal
   offsets inside the reveal transaction. *)
From OrdV Require Import Base.Prelude Generated Index.Inscr Proofs.Inscr_tables Proofs.Inscr_proofs
  Proofs.Inscr_c07 Proofs.Inscr_c06 Proofs.Inscr_c04 Proofs.Inscr_c03 Proofs.Inscr_sats Proofs.Inscr_c04off Proofs.Inscr_satinv.
From Coq Require Import ZifyBool ZifyN.

Definition in_range (n : N) (p : N * N) : Prop := fst p <= n < snd p.

(* no sat occurs in two different ranges of the list (what C02 proves for the ranges of the UTXO set) *)
Definition Disj (rs : list (N * N)) : Prop :=
  forall i j p q n, nth_error rs i = Some p -> nth_error rs j = Some q -> in_range n p -> in_range n q -> i = j.

Definition before (rs : list (N * N)) (i : nat) : N := ranges_size (firstn i rs).

Lemma calc_result : forall rs off g n, calc_sat_in rs off g = Ok n -> off <= g ->
  exists i p, nth_error rs i = Some p /\ in_range n p /\ g = off + before rs i + (n - fst p).
Proof.
  intros rs. induction rs as [|[s e] r IH]; intros off g n H Hle; cbn [calc_sat_in] in H; [discriminate|].
  destruct (N.ltb_spec g (off + (e - s))).
  - inv H. exists 0%nat, (s, e). unfold in_range, before. cbn. repeat split; try lia.
  - destruct (IH _ _ _ H) as (i & p & A & B & C); [lia|]. exists (S i), p. cbn [nth_error]. split; auto. split; auto.
    unfold before in *. cbn [firstn ranges_size fold_right fst snd]. fold (ranges_size (firstn i r)). lia.
Qed.

Lemma calc_inj : forall rs g1 g2 n, Disj rs ->
  calc_sat_in rs 0 g1 = Ok n -> calc_sat_in rs 0 g2 = Ok n -> g1 = g2.
Proof.
  intros rs g1 g2 n HD H1 H2.
  destruct (calc_result _ _ _ _ H1) as (i1 & p1 & A1 & B1 & C1); [lia|].
  destruct (calc_result _ _ _ _ H2) as (i2 & p2 & A2 & B2 & C2); [lia|].
  assert (i1 = i2) by (eapply HD; eauto). subst i2. rewrite A1 in A2. inv A2. lia.
Qed.

(* the old inscriptions among the floating inscriptions of a transaction sit, in the concatenated input
   ranges, on their sats *)
Lemma floating_flinv : forall cfg h t b ents U1 st' F tiv,
  c_sats cfg = true ->
  EntInv (s_entries (b_st b)) (s_utxo (b_st b)) [] -> KeyU (s_entries (b_st b)) (s_utxo (b_st b)) ->
  tx_plain t -> ins_real t ->
  take_inputs (t_ins t) (s_utxo (b_st b)) = Ok (ents, U1) ->
  s_entries st' = s_entries (b_st b) ->
  floating_of cfg st' h t ents = Ok (F, tiv) ->
  FlInv (s_entries (b_st b)) (concat (map u_ranges ents)) F.
Proof.
  intros cfg h t b ents U1 st' F tiv HS HE HK HP HR ET HEq EF.
  destruct (take_inputs_tg _ _ _ _ ET) as (T1 & _ & _).
  pose proof (take_inputs_length _ _ _ _ ET) as TL.
  destruct (floating_of_old_src _ _ _ _ _ _ _ HP TL EF) as [_ Hsrc].
  intros f s Hf Ho. destruct (Hsrc f s Hf Ho) as (i & u & off & A & B & C).
  destruct (Forall2_nth _ _ _ _ _ T1 A) as (p & P1 & P2).
  assert (Pin : In p (t_ins t)) by (eapply nth_error_In; eauto).
  assert (Pnn : is_null p = false).
  { unfold tx_plain in HP. rewrite forallb_forall in HP. specialize (HP p Pin). destruct (is_null p); [discriminate|reflexivity]. }
  assert (Pnu : p <> unbound_op).
  { unfold ins_real in HR. rewrite Forall_forall in HR. specialize (HR p Pin). intro. subst. apply HR. reflexivity. }
  split; [eapply HK; eauto|].
  specialize (HE p u P2 Pnu s off B). unfold eranges in HE. rewrite Pnn in HE.
  intros e n He Hn. rewrite C, (in_start_sizes cfg HS). eapply calc_concat; eauto.
Qed.
