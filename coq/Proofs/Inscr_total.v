(* C16 for the inscription updater: on every valid chain the model of Index/Inscr.v returns Ok. *)
From OrdV Require Import Base.Prelude Generated Index.Inscr Proofs.Inscr_tables Proofs.Inscr_proofs
  Proofs.Inscr_c07 Proofs.Inscr_c06 Proofs.Inscr_c04 Proofs.Inscr_c03 Proofs.Inscr_sats Proofs.Inscr_c04off
  Proofs.Inscr_satinv Proofs.Inscr_idh Proofs.Inscr_ids.
From Coq Require Import Permutation Sorting.Sorted ZifyBool ZifyN.

(* ---- the table facts that make every unwrap succeed *)

Record TI (b : bst) : Prop := {
  t_dom : DomIff (b_next b) (s_entries (b_st b));
  t_vals : forall i s, tgP i (s_id2seq (b_st b)) = Some s -> tgN s (s_entries (b_st b)) <> None;
  t_ididx : forall s e, tgN s (s_entries (b_st b)) = Some e -> tgP (i_id e) (s_id2seq (b_st b)) <> None;
  t_key : forall op u s off, tgP op (s_utxo (b_st b)) = Some u -> In (s, off) (u_insc u) ->
          tgN s (s_entries (b_st b)) <> None;
  t_cnt : b_blessed b <= b_next b /\ b_cursed b <= b_next b
}.

Definition KeyF (E : list (N * ientry)) (l : list flotsam) : Prop :=
  forall f s, In f l -> f_origin f = OOld s -> tgN s E <> None.

Lemma link_parents_total : forall seq ps st acc,
  (forall i s, tgP i (s_id2seq st) = Some s -> tgN s (s_entries st) <> None) ->
  exists r, link_parents seq ps st acc = Ok r.
Proof.
  intros seq ps. induction ps as [|p r IH]; intros st acc HV; cbn [link_parents]; [eauto|].
  destruct (tgP p (s_id2seq st)) as [pseq|] eqn:E1; [|apply IH; auto].
  destruct (tgN pseq (s_entries st)) as [pe|] eqn:E2; [|exfalso; eapply HV; eauto].
  destruct (i_hidden pe); apply IH; cbn [s_id2seq s_entries]; auto.
Qed.

Lemma calc_sat_in_total : forall rs off g, off <= g -> g < off + ranges_size rs -> exists n, calc_sat_in rs off g = Ok n.
Proof.
  intros rs. induction rs as [|[s e] r IH]; intros off g H1 H2; cbn [calc_sat_in ranges_size fold_right fst snd] in *; [lia|].
  fold (ranges_size r) in H2. destruct (N.ltb_spec g (off + (e - s))); [eauto|]. apply IH; lia.
Qed.

Definition f_unbound (f : flotsam) : bool :=
  match f_origin f with ONew _ _ _ _ _ ub _ => ub | OOld _ => false end.

(* progress of update_inscription_location *)
Lemma update_location_total : forall h rg f sp o b,
  TI b -> (is_new f = true -> b_next b < I32_LIMIT) ->
  (forall s, f_origin f = OOld s -> tgN s (s_entries (b_st b)) <> None) ->
  (forall rs, rg = Some rs -> is_new f = true -> f_unbound f = false -> f_offset f < ranges_size rs) ->
  exists b', update_location h rg f sp o b = Ok b'.
Proof.
  intros h rg f sp o b [TD TV TX TK [C1 C2]] HL0 HO HR. unfold update_location.
  destruct (f_origin f) as [c fee hid ps re ub vi|seq] eqn:Ho.
  - assert (HL : b_next b < I32_LIMIT) by (apply HL0; unfold is_new; rewrite Ho; reflexivity).
    assert (Hnum : exists r, (if c then if b_cursed b <? I32_LIMIT then Ok ((- Z.of_N (b_cursed b) - 1)%Z, b_blessed b, b_cursed b + 1) else Panic 6
                             else if b_blessed b <? I32_LIMIT then Ok (Z.of_N (b_blessed b), b_blessed b + 1, b_cursed b) else Panic 6) = Ok r).
    { destruct c; [destruct (N.ltb_spec (b_cursed b) I32_LIMIT) | destruct (N.ltb_spec (b_blessed b) I32_LIMIT)]; eauto; lia. }
    destruct Hnum as ([[number bl] cu] & ->). cbn [bind].
    assert (Hsat : exists sat, (if ub then Ok None else calc_sat rg (f_offset f)) = Ok sat).
    { destruct ub; [eauto|]. destruct rg as [rs|]; cbn; [|eauto].
      destruct (calc_sat_in_total rs 0 (f_offset f)) as (n & ->); [lia| |cbn; eauto].
      rewrite N.add_0_l. apply HR; auto; unfold is_new, f_unbound; rewrite Ho; reflexivity. }
    destruct Hsat as (sat & ->). cbn [bind].
    match goal with |- context [link_parents ?a ?b ?c ?d] => destruct (link_parents_total a b c d) as ([st1 pseqs] & ->) end.
    { cbn [s_id2seq s_entries]. exact TV. }
    cbn [bind]. destruct ub; eauto.
  - destruct o.
    + destruct (tgN seq (s_entries (b_st b))) eqn:Q; [cbn [bind]; eauto | exfalso; eapply HO; eauto].
    + cbn [bind]. eauto.
Qed.

(* TI is kept by every step *)
Lemma step_ti : forall h rg f sp o b b',
  TI b -> (forall s, f_origin f = OOld s -> tgN s (s_entries (b_st b)) <> None) ->
  update_location h rg f sp o b = Ok b' -> TI b'.
Proof.
  intros h rg f sp o b b' [TD TV TX TK [C1 C2]] HO H.
  pose proof (step_dom _ _ _ _ _ _ _ H TD) as TD'.
  destruct (update_utxo_shape _ _ _ _ _ _ _ H) as (op & s0 & off0 & U & Hc).
  destruct (f_origin f) as [c fee hid ps re ub vi|seq] eqn:Ho.
  - destruct (update_new_shape _ _ _ _ _ _ _ _ _ _ _ _ _ _ Ho H) as (e & [S1 S2 S3 S4 S5 S6 S7 S8 S9 S10 S11 S12]).
    assert (Hs0 : s0 = b_next b).
    { destruct Hc as [(sq & Q & _)|(_ & Q & _)]; [congruence|exact Q]. }
    assert (Hkeep : forall s, tgN s (s_entries (b_st b)) <> None -> tgN s (s_entries (b_st b')) <> None).
    { intros s Hs. rewrite S5, tgN_set. destruct (N.eqb_spec s (b_next b)); [discriminate|exact Hs]. }
    split.
    + exact TD'.
    + intros i s. rewrite S6, tgP_set. destruct (pair_eqb i (f_id f)).
      * intro Hx. inv Hx. rewrite S5, tgN_set, N.eqb_refl. discriminate.
      * intro Hx. apply Hkeep. eapply TV; eauto.
    + intros s x. rewrite S5, S6, tgN_set, tgP_set. destruct (N.eqb_spec s (b_next b)).
      * intro Hx. inv Hx. rewrite S1, pair_eqb_refl. discriminate.
      * intro Hx. destruct (pair_eqb (i_id x) (f_id f)); [discriminate|]. eapply TX; eauto.
    + rewrite U. intros op' u' s off Hu Hp. apply tg_push in Hu. destruct Hu as [[Hu _]|(-> & R & Hps)].
      * apply Hkeep. eapply TK; eauto.
      * destruct (Hps _ Hp) as [Hq|[Hq Hq2]].
        -- inv Hq. rewrite S5, tgN_set, N.eqb_refl. discriminate.
        -- unfold entry_at in *. destruct (tgP op (s_utxo (b_st b))) as [e0|] eqn:T; [|congruence]. apply Hkeep. eapply TK; eauto.
    + rewrite S8, S9, S10. destruct c; lia.
  - destruct (update_old_shape _ _ _ _ _ _ _ _ Ho H) as (O1 & O2 & O3 & O4 & O5 & O6 & O7 & O8).
    assert (Hs0 : s0 = seq).
    { destruct Hc as [(sq & Q & Q2 & _)|(Q & _)]; [congruence|unfold is_new in Q; rewrite Ho in Q; discriminate]. }
    assert (Hkeep : forall s, tgN s (s_entries (b_st b)) <> None -> tgN s (s_entries (b_st b')) <> None).
    { intros s Hs. destruct O8 as [O8|(e0 & He0 & O8)]; rewrite O8; auto. rewrite tgN_set. destruct (N.eqb_spec s seq); [discriminate|exact Hs]. }
    assert (Hback : forall s x, tgN s (s_entries (b_st b')) = Some x ->
              exists y, tgN s (s_entries (b_st b)) = Some y /\ i_id x = i_id y).
    { intros s x Hx. destruct O8 as [O8|(e0 & He0 & O8)]; rewrite O8 in Hx; eauto.
      rewrite tgN_set in Hx. destruct (N.eqb_spec s seq); eauto. inv Hx. eauto. }
    split.
    + exact TD'.
    + rewrite O1. intros i s Hx. apply Hkeep. eapply TV; eauto.
    + rewrite O1. intros s x Hx. destruct (Hback _ _ Hx) as (y & Y & Q). rewrite Q. eapply TX; eauto.
    + rewrite U. intros op' u' s off Hu Hp. apply tg_push in Hu. destruct Hu as [[Hu _]|(-> & R & Hps)].
      * apply Hkeep. eapply TK; eauto.
      * destruct (Hps _ Hp) as [Hq|[Hq Hq2]].
        -- inv Hq. apply Hkeep. apply HO. reflexivity.
        -- unfold entry_at in *. destruct (tgP op (s_utxo (b_st b))) as [e0|] eqn:T; [|congruence]. apply Hkeep. eapply TK; eauto.
    + rewrite O3, O4, O5. auto.
Qed.

Lemma step_keep : forall h rg f sp o b b' s,
  TI b -> update_location h rg f sp o b = Ok b' ->
  tgN s (s_entries (b_st b)) <> None -> tgN s (s_entries (b_st b')) <> None.
Proof.
  intros h rg f sp o b b' s [TD _ _ _ _] H Hs. destruct (f_origin f) as [c fee hid ps re ub vi|seq] eqn:Ho.
  - destruct (update_new_shape _ _ _ _ _ _ _ _ _ _ _ _ _ _ Ho H) as (e & [_ _ _ _ S5 _ _ _ _ _ _ _]).
    rewrite S5, tgN_set. destruct (N.eqb_spec s (b_next b)); [discriminate|exact Hs].
  - destruct (update_old_shape _ _ _ _ _ _ _ _ Ho H) as (_ & _ & _ & _ & _ & _ & _ & [O8|(e0 & He0 & O8)]); rewrite O8; auto.
    rewrite tgN_set. destruct (N.eqb_spec s seq); [discriminate|exact Hs].
Qed.

Definition calc_ok (rg : option (list (N * N))) (f : flotsam) : Prop :=
  forall rs, rg = Some rs -> is_new f = true -> f_unbound f = false -> f_offset f < ranges_size rs.

Lemma apply_locs_total : forall h rg locs b,
  TI b -> b_next b + nnew (map loc_flot locs) <= I32_LIMIT ->
  KeyF (s_entries (b_st b)) (map loc_flot locs) -> (forall f, In f (map loc_flot locs) -> calc_ok rg f) ->
  exists b', apply_locs h rg locs b = Ok b' /\ TI b' /\
    (forall s, tgN s (s_entries (b_st b)) <> None -> tgN s (s_entries (b_st b')) <> None).
Proof.
  intros h rg locs. induction locs as [|[[[op off] f] o] r IH]; intros b HT HB HK HC; cbn [apply_locs].
  - eauto.
  - cbn [map loc_flot fst snd] in *. change (f :: map loc_flot r) with ([f] ++ map loc_flot r) in HB. rewrite nnew_app in HB.
    assert (HO : forall s, f_origin f = OOld s -> tgN s (s_entries (b_st b)) <> None) by (intros s Hs; eapply HK; [left; reflexivity|exact Hs]).
    destruct (update_location_total h rg f (op, off) o b HT) as (b1 & E1); auto.
    { intro Q. assert (nnew [f] = 1) by (unfold nnew, new_ids; cbn; rewrite Q; reflexivity). lia. }
    { apply HC. left. reflexivity. }
    rewrite E1. cbn [bind].
    pose proof (step_ti _ _ _ _ _ _ _ HT HO E1) as T1.
    pose proof (step_next _ _ _ _ _ _ _ E1) as N1.
    destruct (IH b1 T1) as (b' & E' & T' & K'); [lia | | | ].
    + intros g s Hg Hs. apply (step_keep _ _ _ _ _ _ _ s HT E1). eapply HK; [right; exact Hg|exact Hs].
    + intros g Hg. apply HC. right. exact Hg.
    + exists b'. split; auto. split; auto. intros s Hs. apply K'. apply (step_keep _ _ _ _ _ _ _ s HT E1). exact Hs.
Qed.

Lemma apply_lost_total : forall h rg ov l b,
  TI b -> b_next b + nnew l <= I32_LIMIT -> Forall (fun f => ov <= f_offset f) l ->
  KeyF (s_entries (b_st b)) l -> (forall f, In f l -> calc_ok rg f) ->
  exists b', apply_lost h rg ov l b = Ok b' /\ TI b' /\
    (forall s, tgN s (s_entries (b_st b)) <> None -> tgN s (s_entries (b_st b')) <> None).
Proof.
  intros h rg ov l. induction l as [|f r IH]; intros b HT HB HG HK HC; cbn [apply_lost].
  - eauto.
  - change (f :: r) with ([f] ++ r) in HB. rewrite nnew_app in HB. apply Forall_cons_iff in HG. destruct HG as [G1 G2].
    unfold csub. destruct (N.leb_spec ov (b_lost b + f_offset f)); [|lia]. cbn [bind].
    assert (HO : forall s, f_origin f = OOld s -> tgN s (s_entries (b_st b)) <> None) by (intros s Hs; eapply HK; [left; reflexivity|exact Hs]).
    destruct (update_location_total h rg f (null_op, b_lost b + f_offset f - ov) false b HT) as (b1 & E1); auto.
    { intro Q. assert (nnew [f] = 1) by (unfold nnew, new_ids; cbn; rewrite Q; reflexivity). lia. }
    { apply HC. left. reflexivity. }
    rewrite E1. cbn [bind].
    pose proof (step_ti _ _ _ _ _ _ _ HT HO E1) as T1.
    pose proof (step_next _ _ _ _ _ _ _ E1) as N1.
    destruct (IH b1 T1) as (b' & E' & T' & K'); [lia | exact G2 | | | ].
    + intros g s Hg Hs. apply (step_keep _ _ _ _ _ _ _ s HT E1). eapply HK; [right; exact Hg|exact Hs].
    + intros g Hg. apply HC. right. exact Hg.
    + exists b'. split; auto. split; auto. intros s Hs. apply K'. apply (step_keep _ _ _ _ _ _ _ s HT E1). exact Hs.
Qed.

(* ---- floating_of never fails *)

Definition reach (v : envelope) : bool := (v_input v =? 0) && (v_offset v =? 0).

Definition IOok (st : state) (io : list (N * (iid * N))) : Prop :=
  forall o id c, tgN o io = Some (id, c) ->
    exists s, tgP id (s_id2seq st) = Some s /\ tgN s (s_entries st) <> None.

Lemma curse_of_total : forall st v offset io,
  reach v = false \/ IOok st io -> exists c, curse_of st v offset io = Ok c.
Proof.
  intros st v offset io H. unfold curse_of.
  destruct (v_uneven v); [eauto|]. destruct (v_dup v); [eauto|]. destruct (v_incomplete v); [eauto|].
  destruct (N.eqb_spec (v_input v) 0) as [I0|I0]; cbn [negb]; [|eauto].
  destruct (N.eqb_spec (v_offset v) 0) as [O0|O0]; cbn [negb]; [|eauto].
  destruct (v_ptr_field v); [eauto|]. destruct (v_pushnum v); [eauto|]. destruct (v_stutter v); [eauto|].
  destruct (tgN offset io) as [[id count]|] eqn:Q; [|eauto].
  destruct (1 <? count); [eauto|].
  destruct H as [H|H].
  - unfold reach in H. rewrite I0, O0 in H. discriminate.
  - destruct (H _ _ _ Q) as (s & S1 & S2). rewrite S1. destruct (tgN s (s_entries st)) as [e|]; [|congruence].
    destruct ((i_number e <? 0)%Z || has CHARM_VINDICATED (i_charms e)); eauto.
Qed.

Lemma news_total : forall st txid jubilant tov offset iv l a,
  Forall (fun v => reach v = false) (tl l) ->
  (match l with v :: _ => reach v = false \/ IOok st (a_io a) | [] => True end) ->
  exists a', news st txid jubilant tov offset iv l a = Ok a'.
Proof.
  intros st txid jubilant tov offset iv l. induction l as [|v r IH]; intros a HT HH; cbn [news]; [eauto|].
  destruct (curse_of_total st v offset (a_io a) HH) as (c & ->). cbn [bind]. cbn [tl] in HT.
  apply IH.
  - destruct r; [constructor|]. apply Forall_cons_iff in HT. tauto.
  - destruct r; auto. left. apply Forall_cons_iff in HT. tauto.
Qed.

Lemma io_bump_ok : forall st o id io,
  IOok st io -> (exists s, tgP id (s_id2seq st) = Some s /\ tgN s (s_entries st) <> None) -> IOok st (io_bump o id io).
Proof.
  intros st o id io H Hid o' id' c' Hq. unfold io_bump in Hq. destruct (tgN o io) as [[id0 c0]|] eqn:Q; rewrite tgN_set in Hq;
    destruct (N.eqb_spec o' o); try (eapply H; eauto; fail).
  - inv Hq. eapply H; eauto.
  - inv Hq. exact Hid.
Qed.

Lemma olds_total : forall st base l acc io,
  (forall s off, In (s, off) l -> tgN s (s_entries st) <> None) ->
  exists fl io', olds (s_entries st) base l acc io = Ok (fl, io') /\
    (IOok st io ->
     (forall s e, tgN s (s_entries st) = Some e -> tgP (i_id e) (s_id2seq st) <> None) ->
     (forall i s, tgP i (s_id2seq st) = Some s -> tgN s (s_entries st) <> None) -> IOok st io').
Proof.
  intros st base l. induction l as [|[seq off] r IH]; intros acc io HK; cbn [olds]; [eauto|].
  destruct (tgN seq (s_entries st)) as [e|] eqn:Q; [|exfalso; eapply (HK seq off); [left; reflexivity|exact Q]].
  destruct (IH (acc ++ [mkF (i_id e) (base + off) (OOld seq)]) (io_bump (base + off) (i_id e) io)) as (fl & io' & A & B).
  { intros s o Hin. eapply HK. right. exact Hin. }
  exists fl, io'. split; auto. intros HI TX TV. apply B; auto.
  apply io_bump_ok; auto. destruct (tgP (i_id e) (s_id2seq st)) as [s'|] eqn:P; [|exfalso; eapply TX; eauto].
  exists s'. split; auto. eapply TV; eauto.
Qed.

Lemma span_input_app : forall idx l mine rest, span_input idx l = (mine, rest) ->
  l = mine ++ rest /\ Forall (fun v => v_input v = idx) mine.
Proof.
  intros idx l. induction l as [|v r IH]; intros mine rest H; cbn [span_input] in H.
  - inv H. split; [reflexivity|constructor].
  - destruct (N.eqb_spec (v_input v) idx).
    + destruct (span_input idx r) as [a b] eqn:E. inv H. destruct (IH _ _ eq_refl) as [A B]. split; [cbn; f_equal; exact A|constructor; auto].
    + inv H. split; [reflexivity|constructor].
Qed.

Definition first_only (envs : list envelope) : Prop :=
  forall i v, nth_error envs i = Some v -> reach v = true -> i = 0%nat.

Lemma inputs_loop_total : forall cfg st txid height jubilant tov ins idx pre cur envs a,
  length pre = N.to_nat idx -> length cur = length ins ->
  forallb (fun p => negb (is_null p)) ins = true ->
  (forall s e, tgN s (s_entries st) = Some e -> tgP (i_id e) (s_id2seq st) <> None) ->
  (forall i s, tgP i (s_id2seq st) = Some s -> tgN s (s_entries st) <> None) ->
  (forall u s off, In u cur -> In (s, off) (u_insc u) -> tgN s (s_entries st) <> None) ->
  (idx = 0 -> IOok st (a_io a) /\ first_only envs) ->
  exists a', inputs_loop cfg st txid height jubilant tov ins idx (pre ++ cur) envs a = Ok a'.
Proof.
  intros cfg st txid height jubilant tov ins. induction ins as [|prev r IH]; intros idx pre cur envs a L1 L2 NN TX TV HK H0; cbn [inputs_loop]; [eauto|].
  cbn [forallb] in NN. apply andb_true_iff in NN. destruct NN as [N1 N2].
  destruct (is_null prev); [discriminate|]. destruct cur as [|u cur']; [discriminate|].
  assert (Hn : nth_error (pre ++ u :: cur') (N.to_nat idx) = Some u).
  { rewrite nth_error_app2 by lia. rewrite <- L1, Nat.sub_diag. reflexivity. }
  rewrite Hn.
  assert (HKs : forall s off, In (s, off) (sort_by fst (u_insc u)) -> tgN s (s_entries st) <> None).
  { intros s off Hin. eapply Permutation_in in Hin; [|apply sort_by_perm]. eapply HK; [left; reflexivity|exact Hin]. }
  destruct (olds_total st (a_tiv a) (sort_by fst (u_insc u)) (a_float a) (a_io a) HKs) as (fl & io' & -> & HIO'). cbn [bind].
  destruct (span_input idx envs) as [mine rest] eqn:ES. destruct (span_input_app _ _ _ _ ES) as [EA EF].
  match goal with |- context [news ?s ?t ?j ?tv ?o ?iv mine ?acc] => destruct (news_total s t j tv o iv mine acc) as (a1 & ->) end.
  - destruct mine as [|v m]; [constructor|]. cbn [tl]. destruct (N.eq_dec idx 0) as [Z|NZ].
    + destruct (H0 Z) as [_ HFo]. apply Forall_forall. intros x Hx.
      destruct (reach x) eqn:Rx; auto. exfalso. apply In_nth_error in Hx. destruct Hx as (k & Hk).
      assert (Hpos : nth_error envs (S k) = Some x).
      { rewrite EA. cbn [app nth_error]. rewrite nth_error_app1; [exact Hk|]. apply nth_error_Some. congruence. }
      specialize (HFo _ _ Hpos Rx). discriminate.
    + apply Forall_cons_iff in EF. destruct EF as [_ EF].
      eapply Forall_impl; [|exact EF]. intros x Hx. unfold reach. destruct (N.eqb_spec (v_input x) 0); [congruence|reflexivity].
  - destruct mine as [|v m]; auto. cbn [a_io]. destruct (N.eq_dec idx 0) as [Z|NZ].
    + right. destruct (H0 Z) as [HI _]. apply HIO'; auto.
    + left. apply Forall_cons_iff in EF. destruct EF as [EF _]. unfold reach. destruct (N.eqb_spec (v_input v) 0); [congruence|reflexivity].
  - cbn [bind]. replace (pre ++ u :: cur') with ((pre ++ [u]) ++ cur') by (rewrite <- app_assoc; reflexivity).
    apply IH; auto; try (rewrite app_length; cbn [length]; lia); try (cbn [length] in L2; lia); try (intro Hc; lia).
    intros u0 s off Hu Hp. eapply HK; [right; exact Hu|exact Hp].
Qed.

(* ---- offsets of bound new inscriptions lie inside the inputs (calculate_sat's unreachable!) *)

Definition NO (tov : N) (a : facc) : Prop :=
  forall f, In f (a_float a) -> is_new f = true -> f_unbound f = false -> f_offset f < a_tiv a \/ f_offset f < tov.

Lemma inputs_loop_no : forall cfg st txid height jubilant tov ins idx ents envs a a',
  NO tov a -> inputs_loop cfg st txid height jubilant tov ins idx ents envs a = Ok a' -> NO tov a' /\ a_tiv a <= a_tiv a'.
Proof.
  intros cfg st txid height jubilant tov ins. induction ins as [|prev r IH]; intros idx ents envs a a' HN H; cbn [inputs_loop] in H.
  - inv H. split; auto. lia.
  - destruct (is_null prev).
    + apply IH in H.
      * cbn [a_tiv] in H. destruct H. split; auto. lia.
      * intros f Hf Hn Hu. cbn [a_float a_tiv] in *. destruct (HN f Hf Hn Hu); [left; lia|right; auto].
    + destruct (nth_error ents (N.to_nat idx)) as [u|]; [|discriminate].
      dbind H. destruct a0 as [fl io]. destruct (span_input idx envs) as [mine rest].
      dbind H. rename a0 into a1. apply IH in H.
      * destruct H as [H1 H2]. split; auto. destruct (news_offsets _ _ _ _ _ _ _ _ _ E0) as [T _]. cbn [a_tiv] in T. lia.
      * destruct (news_offsets _ _ _ _ _ _ _ _ _ E0) as [T Hnews]. cbn [a_tiv a_float] in *.
        intros f Hf Hn Hu. rewrite T. destruct (Hnews f Hf) as [Hin|(_ & _ & v & V1 & V2 & V3)].
        -- apply olds_spec in E. destruct E as (extra & -> & Fo). apply in_app_or in Hin. destruct Hin as [Hin|Hin].
           ++ destruct (HN f Hin Hn Hu); [left; lia|right; auto].
           ++ rewrite Forall_forall in Fo. rewrite (Fo f Hin) in Hn. discriminate.
        -- unfold f_unbound in Hu. destruct (f_origin f) as [c fee hid ps re ub vi|]; [|contradiction]. rewrite V3 in Hu.
           apply orb_false_iff in Hu. destruct Hu as [Hiv _]. destruct (N.eqb_spec (total_value cfg u) 0); [discriminate|].
           destruct (v_ptr v) as [p|]; [destruct (N.ltb_spec p tov); [right; lia|left; lia] | left; lia].
Qed.

Lemma f_unbound_fix : forall p fee f, f_unbound (fix_new p fee f) = f_unbound f.
Proof. intros. unfold fix_new, f_unbound. destruct (f_origin f) eqn:E; cbn; rewrite ?E; auto. Qed.

(* ---- the ledger of unspent values: the validity predicate of chains *)

Definition ledger := list (outpoint * N).

Fixpoint ledger_take (ins : list outpoint) (L : ledger) : option (N * ledger) :=
  match ins with
  | [] => Some (0, L)
  | p :: r =>
    match tgP p L with
    | None => None
    | Some v => match ledger_take r (tdel pair_eqb p L) with Some (s, L') => Some (v + s, L') | None => None end
    end
  end.

Fixpoint ledger_put (txid vout : N) (outs : list txout) (L : ledger) : ledger :=
  match outs with
  | [] => L
  | o :: r => ledger_put txid (vout + 1) r (tset pair_eqb (txid, vout) (o_value o) L)
  end.

Definition Led (cfg : config) (L : ledger) (U : list (outpoint * uentry)) : Prop :=
  forall op v, tgP op L = Some v -> fst op <> 0 /\ exists u, tgP op U = Some u /\ total_value cfg u = v.

Definition sum_tv (cfg : config) (ents : list uentry) : N := fold_right (fun u a => total_value cfg u + a) 0 ents.

Lemma take_inputs_led : forall cfg ins L U s L1,
  Led cfg L U -> ledger_take ins L = Some (s, L1) ->
  exists ents U1, take_inputs ins U = Ok (ents, U1) /\ Led cfg L1 U1 /\ s = sum_tv cfg ents.
Proof.
  intros cfg ins. induction ins as [|p r IH]; intros L U s L1 HL H; cbn [ledger_take] in H.
  - inv H. exists [], U. cbn. auto.
  - destruct (tgP p L) as [v|] eqn:Q; [|discriminate]. destruct (ledger_take r (tdel pair_eqb p L)) as [[s' L']|] eqn:Q2; [|discriminate]. inv H.
    destruct (HL p v Q) as (_ & u & U1 & U2).
    assert (HL' : Led cfg (tdel pair_eqb p L) (tdel pair_eqb p U)).
    { intros op v' Hq. assert (op <> p) by (intro; subst; rewrite (tget_tdel_same pair_eqb) in Hq; discriminate).
      rewrite (tget_tdel_other pair_eqb pair_eqb_eq) in Hq by auto. destruct (HL op v' Hq) as (Z & u' & A & B). split; auto. exists u'.
      rewrite (tget_tdel_other pair_eqb pair_eqb_eq) by auto. auto. }
    destruct (IH _ _ _ _ HL' Q2) as (ents & U1' & A & B & C). exists (u :: ents), U1'. cbn [take_inputs]. rewrite U1, A. cbn [bind].
    split; auto. split; auto. cbn [sum_tv fold_right]. fold (sum_tv cfg ents). lia.
Qed.

Lemma Led_tset : forall cfg L U k v u, Led cfg L U -> total_value cfg u = v -> fst k <> 0 ->
  Led cfg (tset pair_eqb k v L) (tset pair_eqb k u U).
Proof.
  intros cfg L U k v u HL Hv Hk op v' Hq. rewrite tgP_set in Hq. rewrite tgP_set. destruct (pair_eqb op k) eqn:Q.
  - apply pair_eqb_eq in Q. subst op. inv Hq. split; auto. exists u. auto.
  - apply HL. exact Hq.
Qed.

Lemma put_outputs_led : forall cfg txid outs vout rs L U,
  txid <> 0 -> Led cfg L U ->
  (c_sats cfg = true -> Forall2 (fun o m => ranges_size m = o_value o) outs rs) ->
  Led cfg (ledger_put txid vout outs L) (put_outputs cfg txid vout outs rs U).
Proof.
  intros cfg txid outs. induction outs as [|o r IH]; intros vout rs L U Hz HL HS; cbn [ledger_put put_outputs]; auto.
  apply IH; auto.
  - apply Led_tset; auto. unfold total_value. destruct (c_sats cfg) eqn:S; cbn [u_value u_ranges]; auto.
    specialize (HS eq_refl). inv HS. cbn [hd]. auto.
  - intro S. specialize (HS S). inv HS. cbn [tl]. auto.
Qed.

Lemma split_sats_sizes : forall outs rs per_out lft,
  split_sats outs rs = Ok (per_out, lft) -> Forall2 (fun o m => ranges_size m = o_value o) outs per_out.
Proof.
  intros outs. induction outs as [|o r IH]; intros rs per_out lft H; cbn [split_sats] in H.
  - inv H. constructor.
  - dbind H. destruct a as [mine rest]. dbind H. destruct a as [others l2]. inv H.
    apply take_sats_spec in E. destruct E as (m' & A & B & _). cbn [app] in A. subst m'. constructor; eauto.
Qed.

Lemma take_sats_total : forall fuel remaining rs acc,
  (length rs < fuel)%nat -> remaining <= ranges_size rs -> exists r, take_sats fuel remaining rs acc = Ok r.
Proof.
  intros fuel. induction fuel as [|fu IH]; intros remaining rs acc HF HR; [lia|]. cbn [take_sats].
  destruct (N.eqb_spec remaining 0); [eauto|]. destruct rs as [|[s e] r]; [cbn in HR; lia|].
  cbn [ranges_size fold_right fst snd] in HR. fold (ranges_size r) in HR.
  destruct (N.ltb_spec remaining (e - s)); [eauto|]. apply IH; [cbn in HF; lia|lia].
Qed.

Lemma split_sats_total : forall outs rs, sum_values outs <= ranges_size rs -> exists r, split_sats outs rs = Ok r.
Proof.
  intros outs. induction outs as [|o r IH]; intros rs H; cbn [split_sats]; [eauto|].
  cbn [sum_values fold_right] in H. fold (sum_values r) in H.
  destruct (take_sats_total (S (length rs)) (o_value o) rs []) as ([mine rest] & E); [lia|lia|]. rewrite E. cbn [bind].
  pose proof (take_sats_size _ _ _ _ _ _ E) as SZ. destruct (IH rest) as ([others l2] & E2); [lia|]. rewrite E2. cbn [bind]. eauto.
Qed.

Lemma push_insc_led : forall cfg L op s off U, Led cfg L U -> Led cfg L (push_insc op s off U).
Proof.
  intros cfg L op s off U HL k v Hq. destruct (HL k v Hq) as (Z & u & A & B). split; auto.
  destruct (push_insc_lookup cfg op s off U k u A) as (u' & A' & B'). exists u'. split; auto. congruence.
Qed.

Lemma step_led : forall cfg L h rg f sp o b b',
  Led cfg L (s_utxo (b_st b)) -> update_location h rg f sp o b = Ok b' -> Led cfg L (s_utxo (b_st b')).
Proof.
  intros cfg L h rg f sp o b b' HL H. destruct (update_utxo_shape _ _ _ _ _ _ _ H) as (op & s & off & U & _).
  rewrite U. apply push_insc_led. exact HL.
Qed.

Lemma apply_locs_led : forall cfg L h rg locs b b',
  Led cfg L (s_utxo (b_st b)) -> apply_locs h rg locs b = Ok b' -> Led cfg L (s_utxo (b_st b')).
Proof.
  intros cfg L h rg locs. induction locs as [|[[[op off] f] o] r IH]; intros b b' HL H; cbn [apply_locs] in H.
  - inv H. auto.
  - dbind H. eapply IH; [|exact H]. eapply step_led; eauto.
Qed.

Lemma apply_lost_led : forall cfg L h rg ov l b b',
  Led cfg L (s_utxo (b_st b)) -> apply_lost h rg ov l b = Ok b' -> Led cfg L (s_utxo (b_st b')).
Proof.
  intros cfg L h rg ov l. induction l as [|f r IH]; intros b b' HL H; cbn [apply_lost] in H.
  - inv H. auto.
  - dbind H. dbind H. eapply IH; [|exact H]. eapply step_led; eauto.
Qed.

(* ---- floating_of never fails *)

Lemma inputs_loop_null_total : forall cfg st txid height jubilant tov ins idx ents envs a,
  forallb is_null ins = true ->
  exists a', inputs_loop cfg st txid height jubilant tov ins idx ents envs a = Ok a' /\ a_float a' = a_float a.
Proof.
  intros cfg st txid height jubilant tov ins. induction ins as [|p r IH]; intros idx ents envs a H; cbn [inputs_loop]; [eauto|].
  cbn [forallb] in H. apply andb_true_iff in H. destruct H as [H1 H2]. rewrite H1.
  destruct (IH (idx + 1) ents envs (mkA (a_float a) (a_io a) (a_idc a) (a_tiv a + subsidy height)) H2) as (a' & A & B). eauto.
Qed.

Lemma sum_tv_in_start : forall cfg ents, in_start cfg 0 ents (length ents) = sum_tv cfg ents.
Proof. intros. unfold in_start, sum_tv. rewrite firstn_all. lia. Qed.

Lemma floating_of_total_plain : forall cfg st h t ents,
  tx_plain t -> length ents = length (t_ins t) -> first_only (t_envs t) ->
  (forall s e, tgN s (s_entries st) = Some e -> tgP (i_id e) (s_id2seq st) <> None) ->
  (forall i s, tgP i (s_id2seq st) = Some s -> tgN s (s_entries st) <> None) ->
  (forall u s off, In u ents -> In (s, off) (u_insc u) -> tgN s (s_entries st) <> None) ->
  sum_values (t_outs t) <= sum_tv cfg ents ->
  exists F, floating_of cfg st h t ents = Ok (F, sum_tv cfg ents) /\
    (forall f, In f F -> is_new f = true -> f_unbound f = false -> f_offset f < sum_tv cfg ents) /\
    KeyF (s_entries st) F /\ nnew F <= N.of_nat (length (t_envs t)).
Proof.
  intros cfg st h t ents HP HL HFo TX TV HK HV. unfold floating_of.
  destruct (inputs_loop_total cfg st (t_id t) h (c_jubilee cfg <=? h) (sum_values (t_outs t)) (t_ins t) 0 [] ents (t_envs t) (mkA [] [] 0 0)) as (a & E); auto.
  { intros _. split; auto. intros o id c Hq. discriminate. }
  cbn [app] in E. rewrite E. cbn [bind].
  destruct (inputs_loop_old_src cfg st (t_id t) h (c_jubilee cfg <=? h) (sum_values (t_outs t)) (t_ins t) 0 [] ents (t_envs t) (mkA [] [] 0 0) a) as [T Hsrc]; auto.
  cbn [a_tiv] in T. rewrite sum_tv_in_start in T.
  assert (NO0 : NO (sum_values (t_outs t)) (mkA [] [] 0 0)) by (intros f []).
  destruct (inputs_loop_no _ _ _ _ _ _ _ _ _ _ _ _ NO0 E) as [HNO _].
  pose proof (inputs_loop_idc _ _ _ _ _ _ _ _ _ _ _ _ E) as Hidc. cbn [a_idc] in Hidc.
  assert (A0 : AI (t_id t) (mkA [] [] 0 0)) by (split; reflexivity).
  pose proof (inputs_loop_ai _ _ _ _ _ _ _ _ _ _ _ _ A0 E) as [_ Hai].
  assert (Hfee : exists fee, (if existsb is_new (a_float a) then do d <- csub 4 (a_tiv a) (sum_values (t_outs t)); Ok (d / a_idc a) else Ok 0) = Ok fee).
  { destruct (existsb is_new (a_float a)); [|eauto]. unfold csub. rewrite T. destruct (N.leb_spec (sum_values (t_outs t)) (sum_tv cfg ents)); [cbn; eauto|lia]. }
  destruct Hfee as (fee & ->). cbn [bind]. rewrite T. eexists. split; [reflexivity|]. split; [|split].
  - intros f Hf Hn Hu. apply in_map_iff in Hf. destruct Hf as (g & <- & G2).
    destruct (fix_new_props (map f_id (a_float a)) fee g) as (_ & B & _ & D). rewrite B in Hn. rewrite f_unbound_fix in Hu. rewrite D.
    destruct (HNO g G2 Hn Hu); lia.
  - intros f s Hf Ho. apply in_map_iff in Hf. destruct Hf as (g & G1 & G2).
    assert (Hg : f_origin g = OOld s).
    { subst f. unfold fix_new in Ho. destruct (f_origin g) eqn:Q; cbn in Ho; [discriminate|]. rewrite Q in Ho. exact Ho. }
    destruct (Hsrc g s G2 Hg) as [[]|(i & u & off & A & B & _)]. eapply HK; [eapply nth_error_In; exact A|exact B].
  - unfold nnew. rewrite new_ids_fix. lia.
Qed.

Lemma floating_of_total_cb : forall cfg st h t ents, tx_cb t -> exists tiv, floating_of cfg st h t ents = Ok ([], tiv).
Proof.
  intros cfg st h t ents [_ HC]. unfold floating_of.
  destruct (inputs_loop_null_total cfg st (t_id t) h (c_jubilee cfg <=? h) (sum_values (t_outs t)) (t_ins t) 0 ents (t_envs t) (mkA [] [] 0 0) HC) as (a & -> & B).
  cbn [bind]. cbn [a_float] in B. rewrite B. cbn. eauto.
Qed.

Lemma rebase_total : forall reward ov l, Forall (fun f => ov <= f_offset f) l -> exists l', rebase reward ov l = Ok l'.
Proof.
  intros reward ov l. induction l as [|f r IH]; intro H; cbn [rebase]; [eauto|].
  apply Forall_cons_iff in H. destruct H as [H1 H2]. unfold csub. destruct (N.leb_spec ov (reward + f_offset f)); [|lia]. cbn [bind].
  destruct (IH H2) as (l' & ->). cbn [bind]. eauto.
Qed.

(* ---- one transaction *)

Record TM (cfg : config) (h : N) (L : ledger) (K fees : N) (b : bst) : Prop := {
  m_ti : TI b;
  m_keyf : KeyF (s_entries (b_st b)) (b_flot b);
  m_led : Led cfg L (s_utxo (b_st b));
  m_cnt : b_next b + nnew (b_flot b) <= K;
  m_rew : b_reward b = subsidy h + fees;
  m_cb : c_sats cfg = true -> ranges_size (b_cb_ranges b) = b_reward b;
  m_pend : forall f, In f (b_flot b) -> is_new f = true -> f_unbound f = false -> f_offset f < b_reward b
}.

Lemma TI_ext : forall b b2,
  s_entries (b_st b2) = s_entries (b_st b) -> s_id2seq (b_st b2) = s_id2seq (b_st b) ->
  b_next b2 = b_next b -> b_blessed b2 = b_blessed b -> b_cursed b2 = b_cursed b ->
  (forall op u s off, tgP op (s_utxo (b_st b2)) = Some u -> In (s, off) (u_insc u) -> tgN s (s_entries (b_st b)) <> None) ->
  TI b -> TI b2.
Proof.
  intros b b2 E1 E2 E3 E4 E5 HK [TD TV TX TK TC]. split; rewrite ?E1, ?E2, ?E3, ?E4, ?E5; auto.
Qed.

Lemma sum_tv_sizes : forall cfg ents, c_sats cfg = true -> ranges_size (concat (map u_ranges ents)) = sum_tv cfg ents.
Proof.
  intros cfg ents HS. rewrite ranges_size_concat. unfold sum_tv. induction ents as [|u r IH]; cbn [fold_right]; [reflexivity|].
  rewrite IH. unfold total_value. rewrite HS. reflexivity.
Qed.

Definition tx_valid (cfg : config) (L : ledger) (t : tx) (L' : ledger) (fee : N) : Prop :=
  t_id t <> 0 /\ tx_plain t /\ first_only (t_envs t) /\
  exists s L1, ledger_take (t_ins t) L = Some (s, L1) /\ sum_values (t_outs t) <= s /\
    L' = ledger_put (t_id t) 0 (t_outs t) L1 /\ fee = s - sum_values (t_outs t).

Lemma index_tx_total_plain : forall cfg h t L L' K fees fee b,
  TM cfg h L K fees b -> tx_valid cfg L t L' fee -> K + N.of_nat (length (t_envs t)) <= I32_LIMIT ->
  exists b', index_tx cfg h true false t b = Ok b' /\ TM cfg h L' (K + N.of_nat (length (t_envs t))) (fees + fee) b'.
Proof.
  intros cfg h t L L' K fees fee b [MT MK ML MC MR MB MP] (Hz & HP & HFo & s & L1 & HT & HV & -> & ->) HB.
  destruct (take_inputs_led cfg _ _ _ _ _ ML HT) as (ents & U1 & ET & L1ed & ->).
  destruct (take_inputs_tg _ _ _ _ ET) as (T1 & T2 & T3). pose proof (take_inputs_length _ _ _ _ ET) as TL.
  destruct MT as [TD TV TX TK TC].
  assert (HKe : forall u s off, In u ents -> In (s, off) (u_insc u) -> tgN s (s_entries (b_st b)) <> None).
  { intros u s off Hu Hp. destruct (Forall2_In_r _ _ _ _ T1 Hu) as (p & _ & P). eapply TK; eauto. }
  unfold index_tx. rewrite ET. cbn [bind].
  (* sat ranges *)
  assert (HSp : exists per_out in_ranges b1,
     (if c_sats cfg
      then do '(per_out, lft) <- split_sats (t_outs t) (concat (map u_ranges ents));
           Ok (per_out, Some (concat (map u_ranges ents)),
               mkB (b_st b) (b_flot b) (b_reward b) (b_lost b) (b_blessed b) (b_cursed b) (b_unb b) (b_next b) (b_cb_ranges b ++ lft) (b_lost_ranges b))
      else Ok ([], None, b)) = Ok (per_out, in_ranges, b1) /\
     b_st b1 = b_st b /\ b_flot b1 = b_flot b /\ b_reward b1 = b_reward b /\ b_next b1 = b_next b /\
     b_blessed b1 = b_blessed b /\ b_cursed b1 = b_cursed b /\
     (c_sats cfg = true -> Forall2 (fun o m => ranges_size m = o_value o) (t_outs t) per_out) /\
     (forall rs, in_ranges = Some rs -> ranges_size rs = sum_tv cfg ents) /\
     (c_sats cfg = true -> ranges_size (b_cb_ranges b1) = b_reward b + (sum_tv cfg ents - sum_values (t_outs t)))).
  { destruct (c_sats cfg) eqn:S.
    - destruct (split_sats_total (t_outs t) (concat (map u_ranges ents))) as ([po lft] & E); [rewrite (sum_tv_sizes cfg) by auto; lia|].
      rewrite E. cbn [bind]. do 3 eexists. split; [reflexivity|]. cbn. repeat split; auto.
      + intros _. eapply split_sats_sizes; eauto.
      + intros rs Hr. inv Hr. apply sum_tv_sizes. auto.
      + intros _. rewrite ranges_size_app, (MB eq_refl). pose proof (split_sats_size _ _ _ _ E) as SZ. rewrite (sum_tv_sizes cfg) in SZ by auto. lia.
    - do 3 eexists. split; [reflexivity|]. repeat split; auto; try discriminate. }
  destruct HSp as (per_out & in_ranges & b1 & -> & Q1 & Q2 & Q3 & Q4 & Q5 & Q6 & HSz & HIr & HCb). cbn [bind].
  set (utxo2 := put_outputs cfg (t_id t) 0 (t_outs t) per_out U1).
  set (b2 := set_st b1 (with_utxo (b_st b) utxo2)).
  assert (T2i : TI b2).
  { split; subst b2; unfold set_st, with_utxo; cbn [b_st b_next b_blessed b_cursed s_entries s_id2seq s_utxo]; rewrite ?Q4, ?Q5, ?Q6; auto.
    intros op u s0 off Hu Hp. subst utxo2. apply put_outputs_tg in Hu. destruct Hu as [[_ Hu]|Hu]; [rewrite Hu in Hp; destruct Hp|]. eapply TK; eauto. }
  assert (L2 : Led cfg (ledger_put (t_id t) 0 (t_outs t) L1) utxo2) by (apply put_outputs_led; auto).
  (* floating inscriptions *)
  destruct (floating_of_total_plain cfg (with_utxo (b_st b) utxo2) h t ents HP TL HFo) as (F & EF & FO & FK & FN); auto.
  unfold index_inscriptions. fold b2. change (b_st b2) with (with_utxo (b_st b) utxo2). rewrite EF. cbn [bind].
  rewrite (plain_not_coinbase t HP).
  destruct (assign (t_id t) 0 0 (t_outs t) (sort_by f_offset F)) as [[locs rest] ov] eqn:EA.
  pose proof (assign_split _ _ _ _ _ _ _ _ EA) as ESplit.
  assert (AS0 : Forall (fun f => 0 <= f_offset f) (sort_by f_offset F)) by (apply Forall_forall; intros; lia).
  destruct (assign_spec (t_id t) (t_outs t) 0 0 (sort_by f_offset F) locs rest ov (sort_by_sorted f_offset F) AS0 EA) as (Hov & Hrest & HLoc).
  rewrite N.add_0_l in Hov.
  assert (PM : Permutation (map loc_flot locs ++ rest) F) by (rewrite <- ESplit; apply sort_by_perm).
  assert (InF : forall f, In f (map loc_flot locs ++ rest) -> In f F) by (intros f Hf; eapply Permutation_in; eauto).
  assert (NN : nnew F = nnew (map loc_flot locs) + nnew rest) by (rewrite <- nnew_app; symmetry; apply nnew_perm; exact PM).
  destruct (apply_locs_total h in_ranges locs b2 T2i) as (b3 & EL & T3i & K3).
  { subst b2. unfold set_st. cbn [b_next]. rewrite Q4. lia. }
  { intros f s0 Hf Ho. apply (FK f s0); auto. apply InF. apply in_or_app. auto. }
  { intros f Hf rs Hr Hn Hu. rewrite (HIr rs Hr). apply FO; auto. apply InF. apply in_or_app. auto. }
  rewrite EL. cbn [bind].
  destruct (rebase_total (b_reward b3) ov rest) as (rest' & ER); [exact Hrest|]. rewrite ER. cbn [bind].
  unfold csub. destruct (N.leb_spec ov (sum_tv cfg ents)) as [_|Hbad]; [|lia]. cbn [bind].
  eexists. split; [reflexivity|].
  pose proof (apply_locs_aux _ _ _ _ _ EL) as (A1 & A2 & A3 & A4 & A5 & _).
  subst b2. cbn [set_st b_flot b_reward b_lost b_cb_ranges b_lost_ranges] in A1, A2, A3, A4, A5.
  pose proof (apply_locs_next _ _ _ _ _ EL) as NX. cbn [set_st b_next] in NX.
  destruct (rebase_ids _ _ _ _ ER) as (R1 & _ & R3).
  split; cbn [b_st b_flot b_next b_reward b_cb_ranges].
  - eapply TI_ext; [| | | | | |exact T3i]; try reflexivity. intros op u s0 off Hu Hp. destruct T3i as [_ _ _ TK3 _]. eapply TK3; eauto.
  - rewrite A1, Q2. intros f s0 Hf Ho. apply in_app_or in Hf. destruct Hf as [Hf|Hf].
    + apply K3. cbn [set_st b_st with_utxo s_entries]. eapply MK; eauto.
    + destruct (Forall2_In_r _ _ _ _ (rebase_offsets _ _ _ _ ER) Hf) as (g & G1 & _ & G3 & _). rewrite G3 in Ho.
      apply K3. cbn [set_st b_st with_utxo s_entries]. apply (FK g s0); auto. apply InF. apply in_or_app. auto.
  - eapply apply_locs_led; [|exact EL]. cbn [set_st b_st with_utxo s_utxo]. exact L2.
  - rewrite NX, A1, Q2, Q4, nnew_app. assert (nnew rest' = nnew rest) by (unfold nnew; rewrite R1; reflexivity). lia.
  - rewrite A2, Q3, MR, Hov. lia.
  - intros S. rewrite A4, (HCb S), A2, Q3, Hov. lia.
  - rewrite A1, Q2, A2, Q3. intros f Hf Hn Hu. apply in_app_or in Hf. destruct Hf as [Hf|Hf].
    + specialize (MP f Hf Hn Hu). lia.
    + destruct (Forall2_In_r _ _ _ _ (rebase_offsets _ _ _ _ ER) Hf) as (g & G1 & _ & G3 & G4).
      assert (Hgn : is_new g = true) by (unfold is_new in *; rewrite <- G3; exact Hn).
      assert (Hgu : f_unbound g = false) by (unfold f_unbound in *; rewrite <- G3; exact Hu).
      assert (Hg : f_offset g < sum_tv cfg ents) by (apply FO; auto; apply InF; apply in_or_app; auto).
      rewrite A2, Q3 in G4. rewrite Hov in *. lia.
Qed.

Lemma index_tx_total_cb : forall cfg h t L K fees b,
  TM cfg h L K fees b -> K <= I32_LIMIT -> tx_cb t -> t_id t <> 0 ->
  sum_values (t_outs t) <= subsidy h + fees ->
  exists b', index_tx cfg h true true t b = Ok b' /\ TI b' /\
    Led cfg (ledger_put (t_id t) 0 (t_outs t) L) (s_utxo (b_st b')) /\ b_next b' <= K.
Proof.
  intros cfg h t L K fees b [MT MK ML MC MR MB MP] HB HCB Hz HV.
  destruct MT as [TD TV TX TK TC].
  unfold index_tx. cbn [bind].
  assert (HSp : exists per_out in_ranges b1,
     (if c_sats cfg
      then do '(per_out, lft) <- split_sats (t_outs t) (b_cb_ranges b);
           Ok (per_out, Some (b_cb_ranges b),
               mkB (b_st b) (b_flot b) (b_reward b) (b_lost b) (b_blessed b) (b_cursed b) (b_unb b) (b_next b) (b_cb_ranges b) (b_lost_ranges b ++ lft))
      else Ok ([], None, b)) = Ok (per_out, in_ranges, b1) /\
     b_st b1 = b_st b /\ b_flot b1 = b_flot b /\ b_reward b1 = b_reward b /\ b_next b1 = b_next b /\
     b_blessed b1 = b_blessed b /\ b_cursed b1 = b_cursed b /\
     (c_sats cfg = true -> Forall2 (fun o m => ranges_size m = o_value o) (t_outs t) per_out) /\
     (forall rs, in_ranges = Some rs -> ranges_size rs = b_reward b)).
  { destruct (c_sats cfg) eqn:S.
    - destruct (split_sats_total (t_outs t) (b_cb_ranges b)) as ([po lft] & E); [rewrite (MB eq_refl), MR; lia|].
      rewrite E. cbn [bind]. do 3 eexists. split; [reflexivity|]. cbn. repeat split; auto.
      + intros _. eapply split_sats_sizes; eauto.
      + intros rs Hr. inv Hr. apply MB. reflexivity.
    - do 3 eexists. split; [reflexivity|]. repeat split; auto; try discriminate. }
  destruct HSp as (per_out & in_ranges & b1 & -> & Q1 & Q2 & Q3 & Q4 & Q5 & Q6 & HSz & HIr). cbn [bind].
  set (utxo2 := put_outputs cfg (t_id t) 0 (t_outs t) per_out (s_utxo (b_st b))).
  set (b2 := set_st b1 (with_utxo (b_st b) utxo2)).
  assert (HK2 : forall op u s0 off, tgP op utxo2 = Some u -> In (s0, off) (u_insc u) -> tgN s0 (s_entries (b_st b)) <> None).
  { intros op u s0 off Hu Hp. subst utxo2. apply put_outputs_tg in Hu. destruct Hu as [[_ Hu]|Hu]; [rewrite Hu in Hp; destruct Hp|]. eapply TK; eauto. }
  assert (L2 : Led cfg (ledger_put (t_id t) 0 (t_outs t) L) utxo2) by (apply put_outputs_led; auto).
  destruct (floating_of_total_cb cfg (with_utxo (b_st b) utxo2) h t [] HCB) as (tiv & EF).
  unfold index_inscriptions. fold b2. change (b_st b2) with (with_utxo (b_st b) utxo2). rewrite EF. cbn [bind app].
  rewrite (cb_is_coinbase t HCB).
  assert (Fl2 : b_flot b2 = b_flot b) by (subst b2; unfold set_st; cbn; exact Q2). rewrite Fl2.
  destruct (assign (t_id t) 0 0 (t_outs t) (sort_by f_offset (b_flot b))) as [[locs rest] ov] eqn:EA.
  pose proof (assign_split _ _ _ _ _ _ _ _ EA) as ESplit.
  assert (AS0 : Forall (fun f => 0 <= f_offset f) (sort_by f_offset (b_flot b))) by (apply Forall_forall; intros; lia).
  destruct (assign_spec (t_id t) (t_outs t) 0 0 _ locs rest ov (sort_by_sorted f_offset (b_flot b)) AS0 EA) as (Hov & Hrest & HLoc).
  rewrite N.add_0_l in Hov.
  assert (PM : Permutation (map loc_flot locs ++ rest) (b_flot b)) by (rewrite <- ESplit; apply sort_by_perm).
  assert (InF : forall f, In f (map loc_flot locs ++ rest) -> In f (b_flot b)) by (intros f Hf; eapply Permutation_in; eauto).
  assert (NN : nnew (b_flot b) = nnew (map loc_flot locs) + nnew rest) by (rewrite <- nnew_app; symmetry; apply nnew_perm; exact PM).
  assert (T0 : TI (set_flot b2 [])).
  { split; subst b2; unfold set_flot, set_st, with_utxo; cbn [b_st b_next b_blessed b_cursed s_entries s_id2seq s_utxo]; rewrite ?Q4, ?Q5, ?Q6; auto. }
  assert (HC : forall f, In f (b_flot b) -> calc_ok in_ranges f).
  { intros f Hf rs Hr Hn Hu. rewrite (HIr rs Hr). apply MP; auto. }
  destruct (apply_locs_total h in_ranges locs (set_flot b2 []) T0) as (b3 & EL & T3 & K3).
  { subst b2. unfold set_flot, set_st. cbn [b_next]. rewrite Q4. lia. }
  { intros f s0 Hf Ho. cbn [set_flot b_st]. subst b2. cbn [set_st b_st with_utxo s_entries]. eapply MK; [apply InF; apply in_or_app; left; exact Hf|exact Ho]. }
  { intros f Hf. apply HC. apply InF. apply in_or_app. auto. }
  rewrite EL. cbn [bind].
  pose proof (apply_locs_next _ _ _ _ _ EL) as NX3. cbn [set_flot b_next] in NX3.
  assert (NX2 : b_next b2 = b_next b) by (subst b2; unfold set_st; cbn; exact Q4).
  destruct (apply_lost_total h in_ranges ov rest b3 T3) as (b4 & ELo & T4 & K4).
  { rewrite NX3, NX2. lia. }
  { exact Hrest. }
  { intros f s0 Hf Ho. apply K3. cbn [set_flot b_st]. subst b2. cbn [set_st b_st with_utxo s_entries]. eapply MK; [apply InF; apply in_or_app; right; exact Hf|exact Ho]. }
  { intros f Hf. apply HC. apply InF. apply in_or_app. auto. }
  rewrite ELo. cbn [bind].
  pose proof (apply_locs_aux _ _ _ _ _ EL) as (_ & A2 & _).
  pose proof (apply_lost_aux _ _ _ _ _ _ ELo) as (_ & B2 & _).
  assert (RW : b_reward b4 = b_reward b).
  { rewrite B2, A2. subst b2. unfold set_flot, set_st. cbn. exact Q3. }
  unfold csub. rewrite RW, MR. destruct (N.leb_spec ov (subsidy h + fees)) as [_|Hbad]; [|lia]. cbn [bind].
  eexists. split; [reflexivity|]. cbn [b_st b_next]. split; [|split].
  - eapply TI_ext; [| | | | | |exact T4]; try reflexivity. intros op u s0 off Hu Hp. destruct T4 as [_ _ _ TK4 _]. eapply TK4; eauto.
  - eapply apply_lost_led; [|exact ELo]. eapply apply_locs_led; [|exact EL]. subst b2. cbn [set_flot set_st b_st with_utxo s_utxo]. exact L2.
  - rewrite (apply_lost_next _ _ _ _ _ _ ELo), NX3, NX2. lia.
Qed.

(* ---- transactions of a block, blocks, chains *)

Fixpoint txs_valid (cfg : config) (L : ledger) (l : list tx) (L' : ledger) (fees : N) : Prop :=
  match l with
  | [] => L' = L /\ fees = 0
  | t :: r => exists L1 f1 f2, tx_valid cfg L t L1 f1 /\ txs_valid cfg L1 r L' f2 /\ fees = f1 + f2
  end.

Lemma index_txs_total : forall cfg h l L L' K fees0 fees b,
  TM cfg h L K fees0 b -> txs_valid cfg L l L' fees -> K + count_envs l <= I32_LIMIT ->
  exists b', index_txs cfg h true l b = Ok b' /\ TM cfg h L' (K + count_envs l) (fees0 + fees) b'.
Proof.
  intros cfg h l. induction l as [|t r IH]; intros L L' K fees0 fees b HM HV HB; cbn [index_txs txs_valid count_envs fold_right] in *.
  - destruct HV as [-> ->]. exists b. split; auto. rewrite !N.add_0_r. exact HM.
  - fold (count_envs r) in *. destruct HV as (L1 & f1 & f2 & V1 & V2 & ->).
    destruct (index_tx_total_plain cfg h t L L1 K fees0 f1 b HM V1) as (b1 & E1 & M1); [lia|]. rewrite E1. cbn [bind].
    destruct (IH L1 L' _ _ f2 b1 M1 V2) as (b' & E' & M'); [lia|]. exists b'. split; auto.
    replace (K + (N.of_nat (length (t_envs t)) + count_envs r)) with (K + N.of_nat (length (t_envs t)) + count_envs r) by lia.
    replace (fees0 + (f1 + f2)) with (fees0 + f1 + f2) by lia. exact M'.
Qed.

(* the state between blocks *)
Definition b_of (st : state) : bst :=
  mkB st [] 0 0 (s_blessed st) (s_cursed st) 0 (next_seq_of (s_entries st)) [] [].

Record TS (cfg : config) (L : ledger) (K : N) (st : state) : Prop := {
  s_ti : TI (b_of st);
  s_led : Led cfg L (s_utxo st);
  s_cnt : next_seq_of (s_entries st) <= K
}.

(* a block: coinbase first (null inputs only, claiming at most subsidy + fees), then valid transactions;
   [h] below the first halving (Height::starting_sat is only modelled there) *)
Definition block_valid (cfg : config) (h : N) (L : ledger) (K : N) (blk : block) (L' : ledger) (K' : N) : Prop :=
  match blk with
  | [] => False
  | t0 :: r =>
    exists L1 fees, txs_valid cfg L r L1 fees /\ tx_cb t0 /\ t_id t0 <> 0 /\
      sum_values (t_outs t0) <= subsidy h + fees /\ L' = ledger_put (t_id t0) 0 (t_outs t0) L1 /\
      K' = K + count_envs r /\ K' <= I32_LIMIT /\ h < SUBSIDY_HALVING_INTERVAL
  end.

Lemma index_block_total : forall cfg h blk L L' K K' st,
  c_first cfg = 0 -> TS cfg L K st -> block_valid cfg h L K blk L' K' ->
  exists st', index_block cfg h blk st = Ok st' /\ TS cfg L' K' st'.
Proof.
  intros cfg h blk L L' K K' st HF0 [ST SL SC] HV. destruct blk as [|t0 r]; [destruct HV|].
  destruct HV as (L1 & fees & V1 & VCB & Vz & Vs & -> & -> & VK & Vh).
  unfold index_block. rewrite HF0. replace (0 <=? h) with true by (symmetry; apply N.leb_le; lia).
  assert (Hcb : exists cb, (if c_sats cfg then if 0 <? subsidy h then do s <- starting_sat h; Ok [(s, s + subsidy h)] else Ok [] else Ok []) = Ok cb /\
                (c_sats cfg = true -> ranges_size cb = subsidy h)).
  { destruct (c_sats cfg); [|eexists; split; [reflexivity|discriminate]].
    destruct (0 <? subsidy h) eqn:Q.
    - unfold starting_sat. destruct (N.ltb_spec h SUBSIDY_HALVING_INTERVAL); [|lia]. cbn [bind]. eexists. split; [reflexivity|]. intros _. cbn. lia.
    - eexists. split; [reflexivity|]. intros _. cbn. destruct (N.ltb_spec 0 (subsidy h)); [discriminate|lia]. }
  destruct Hcb as (cb & -> & Hcbs). cbn [bind tl].
  match goal with |- context [index_txs cfg h true r ?B] => set (b0 := B) end.
  assert (M0 : TM cfg h L K 0 b0).
  { subst b0. split; cbn [b_st b_flot b_next b_reward b_cb_ranges].
    - eapply TI_ext; [| | | | | |exact ST]; try reflexivity. intros op u s off Hu Hp. destruct ST as [_ _ _ TK _]. eapply TK; eauto.
    - intros f s [].
    - exact SL.
    - unfold nnew. cbn. lia.
    - lia.
    - exact Hcbs.
    - intros f []. }
  destruct (index_txs_total cfg h r L L1 K 0 fees b0 M0 V1) as (b1 & E1 & M1); [lia|]. rewrite E1. cbn [bind].
  rewrite N.add_0_l in M1.
  destruct (index_tx_total_cb cfg h t0 L1 (K + count_envs r) fees b1 M1 VK VCB Vz Vs) as (b2 & E2 & T2 & L2 & N2).
  rewrite E2. cbn [bind]. eexists. split; [reflexivity|].
  destruct T2 as [TD TV TX TK TC].
  assert (Hnx : next_seq_of (s_entries (b_st b2)) = b_next b2) by (apply next_seq_of_dom; exact TD).
  split; cbn [s_entries s_utxo].
  - unfold b_of. cbn [s_entries s_blessed s_cursed]. split; cbn [b_st b_next b_blessed b_cursed s_entries s_id2seq s_utxo]; rewrite ?Hnx; auto.
    intros op u s off Hu Hp. destruct (b_lost_ranges b2) as [|p l]; [eapply TK; eauto|].
    rewrite tgP_set in Hu. destruct (pair_eqb op null_op); [|eapply TK; eauto]. inv Hu. cbn [u_insc] in Hp.
    destruct (tgP null_op (s_utxo (b_st b2))) as [e0|] eqn:T; [eapply TK; eauto | cbn in Hp; contradiction].
  - destruct (b_lost_ranges b2) as [|p l]; [exact L2|]. intros op v Hq. destruct (L2 op v Hq) as (Z & u & A & B). split; auto.
    exists u. rewrite tgP_set. rewrite pair_eqb_false; auto. intro. subst. apply Z. reflexivity.
  - rewrite Hnx. exact N2.
Qed.

Fixpoint chain_valid (cfg : config) (h : N) (L : ledger) (K : N) (c : list block) : Prop :=
  match c with
  | [] => True
  | blk :: r => exists L' K', block_valid cfg h L K blk L' K' /\ chain_valid cfg (h + 1) L' K' r
  end.

Lemma index_chain_total : forall cfg c h L K st,
  c_first cfg = 0 -> TS cfg L K st -> chain_valid cfg h L K c -> exists st', index_chain cfg h c st = Ok st'.
Proof.
  intros cfg c. induction c as [|blk r IH]; intros h L K st HF0 HT HV; cbn [index_chain chain_valid] in *; [eauto|].
  destruct HV as (L' & K' & V1 & V2). destruct (index_block_total cfg h blk L L' K K' st HF0 HT V1) as (st1 & -> & T1). cbn [bind].
  eapply IH; eauto.
Qed.

Lemma TS_empty : forall cfg, TS cfg [] 0 empty_state.
Proof.
  intro cfg. split.
  - unfold b_of. split; cbn.
    + intro s. split; [intro H; exfalso; apply H; reflexivity | lia].
    + intros; discriminate.
    + intros; discriminate.
    + intros; discriminate.
    + lia.
  - intros op v H. discriminate.
  - cbn. lia.
Qed.

(* C16 for the inscription updater *)
Theorem inscription_updater_total : forall cfg c,
  c_first cfg = 0 -> chain_valid cfg 0 [] 0 c -> exists st, index_chain cfg 0 c empty_state = Ok st.
Proof. intros cfg c HF0 HV. eapply index_chain_total; eauto. apply TS_empty. Qed.

(* Non-vacuity: genesis, a funding block, and a block whose second transaction spends the funding coinbase,
   reveals two inscriptions and pays a fee that the coinbase claims. *)
Definition tot_env (off : N) : envelope := mkEnv 0 off false false false false false false None false [].
Definition tot_chain : list block :=
  [ [mkTx 1 [null_op] [mkOut 5000000000 false] []];
    [mkTx 2 [null_op] [mkOut 5000000000 false] []];
    [mkTx 3 [null_op] [mkOut 5000001000 false] [];
     mkTx 4 [(2, 0)] [mkOut 1000 false; mkOut 4999998000 false] [tot_env 0; tot_env 1]] ].

Ltac cb_block :=
  cbn [block_valid]; eexists; eexists;
  split; [cbn [txs_valid]; split; reflexivity|];
  split; [split; [discriminate|reflexivity]|];
  split; [discriminate|];
  split; [vm_compute; discriminate|];
  split; [reflexivity|]; split; [reflexivity|]; split; [vm_compute; discriminate|vm_compute; reflexivity].

Example total_nonvacuous :
  chain_valid (cfg_of 0 true) 0 [] 0 tot_chain /\
  exists st, index_chain (cfg_of 0 true) 0 tot_chain empty_state = Ok st /\ next_seq_of (s_entries st) = 2.
Proof.
  split.
  - unfold tot_chain. cbn [chain_valid].
    eexists; eexists; split; [cb_block|].
    eexists; eexists; split; [cb_block|].
    eexists; eexists; split; [|exact I].
    cbn [block_valid]; eexists; eexists.
    split.
    { cbn [txs_valid]. eexists; eexists; eexists. split; [|split; [split; reflexivity|reflexivity]].
      unfold tx_valid. split; [discriminate|]. split; [reflexivity|]. split.
      - intros i v Hi Hr. destruct i as [|[|[|i]]]; cbn in Hi; inv Hi; [reflexivity|discriminate Hr].
      - eexists; eexists. split; [vm_compute; reflexivity|]. split; [vm_compute; discriminate|]. split; reflexivity. }
    split; [split; [discriminate|reflexivity]|].
    split; [discriminate|].
    split; [vm_compute; discriminate|].
    split; [reflexivity|]. split; [reflexivity|]. split; [vm_compute; discriminate|vm_compute; reflexivity].
  - eexists. split; [vm_compute; reflexivity|]. reflexivity.
Qed.
