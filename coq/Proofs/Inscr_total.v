(* C16 for the inscription updater: on every valid chain the model of Index/Inscr.v returns Ok. *)
From OrdV Require Import Base.Prelude Generated Index.Inscr Proofs.Inscr_tables Proofs.Inscr_proofs
  Proofs.Inscr_c07 Proofs.Inscr_c06 Proofs.Inscr_c04 Proofs.Inscr_c03 Proofs.Inscr_sats Proofs.Inscr_c04off
  Proofs.Inscr_satinv Proofs.Inscr_idh.
From Coq Require Import Permutation Sorting.Sorted ZifyBool ZifyN.

(* ---- the table facts that make every unwrap succeed *)

Record TI (b : bst) : Prop := {
  t_dom : forall s e, tgN s (s_entries (b_st b)) = Some e -> s < b_next b;
  t_vals : forall i s, tgP i (s_id2seq (b_st b)) = Some s -> tgN s (s_entries (b_st b)) <> None;
  t_ididx : forall s e, tgN s (s_entries (b_st b)) = Some e -> tgP (i_id e) (s_id2seq (b_st b)) <> None;
  t_key : forall op u s off, tgP op (s_utxo (b_st b)) = Some u -> In (s, off) (u_insc u) ->
          tgN s (s_entries (b_st b)) <> None;
  t_cnt : b_blessed b <= b_next b /\ b_cursed b <= b_next b
}.

Definition KeyF (E : list (N * ientry)) (l : list flotsam) : Prop :=
  forall f s, In f l -> f_origin f = OOld s -> tgN s E <> None.

Lemma link_parents_total : forall seq ps st acc,
  (forall i s, tgP i (s_id2seq st) = Some s -> tgN s (s_entries st) <> None) ->
  exists r, link_parents seq ps st acc = Ok r.
Proof.
  intros seq ps. induction ps as [|p r IH]; intros st acc HV; cbn [link_parents]; [eauto|].
  destruct (tgP p (s_id2seq st)) as [pseq|] eqn:E1; [|apply IH; auto].
  destruct (tgN pseq (s_entries st)) as [pe|] eqn:E2; [|exfalso; eapply HV; eauto].
  destruct (i_hidden pe); apply IH; cbn [s_id2seq s_entries]; auto.
Qed.

Lemma calc_sat_in_total : forall rs off g, off <= g -> g < off + ranges_size rs -> exists n, calc_sat_in rs off g = Ok n.
Proof.
  intros rs. induction rs as [|[s e] r IH]; intros off g H1 H2; cbn [calc_sat_in ranges_size fold_right fst snd] in *; [lia|].
  fold (ranges_size r) in H2. destruct (N.ltb_spec g (off + (e - s))); [eauto|]. apply IH; lia.
Qed.

Definition f_unbound (f : flotsam) : bool :=
  match f_origin f with ONew _ _ _ _ _ ub _ => ub | OOld _ => false end.

(* progress of update_inscription_location *)
Lemma update_location_total : forall h rg f sp o b,
  TI b -> b_next b < I32_LIMIT ->
  (forall s, f_origin f = OOld s -> tgN s (s_entries (b_st b)) <> None) ->
  (forall rs, rg = Some rs -> is_new f = true -> f_unbound f = false -> f_offset f < ranges_size rs) ->
  exists b', update_location h rg f sp o b = Ok b'.
Proof.
  intros h rg f sp o b [TD TV TX TK [C1 C2]] HL HO HR. unfold update_location.
  destruct (f_origin f) as [c fee hid ps re ub vi|seq] eqn:Ho.
  - assert (Hnum : exists r, (if c then if b_cursed b <? I32_LIMIT then Ok ((- Z.of_N (b_cursed b) - 1)%Z, b_blessed b, b_cursed b + 1) else Panic 6
                             else if b_blessed b <? I32_LIMIT then Ok (Z.of_N (b_blessed b), b_blessed b + 1, b_cursed b) else Panic 6) = Ok r).
    { destruct c; [destruct (N.ltb_spec (b_cursed b) I32_LIMIT) | destruct (N.ltb_spec (b_blessed b) I32_LIMIT)]; eauto; lia. }
    destruct Hnum as ([[number bl] cu] & ->). cbn [bind].
    assert (Hsat : exists sat, (if ub then Ok None else calc_sat rg (f_offset f)) = Ok sat).
    { destruct ub; [eauto|]. destruct rg as [rs|]; cbn; [|eauto].
      destruct (calc_sat_in_total rs 0 (f_offset f)) as (n & ->); [lia| |cbn; eauto].
      rewrite N.add_0_l. apply HR; auto; unfold is_new, f_unbound; rewrite Ho; reflexivity. }
    destruct Hsat as (sat & ->). cbn [bind].
    match goal with |- context [link_parents ?a ?b ?c ?d] => destruct (link_parents_total a b c d) as ([st1 pseqs] & ->) end.
    { cbn [s_id2seq s_entries]. exact TV. }
    cbn [bind]. destruct ub; eauto.
  - destruct o.
    + destruct (tgN seq (s_entries (b_st b))) eqn:Q; [cbn [bind]; eauto | exfalso; eapply HO; eauto].
    + cbn [bind]. eauto.
Qed.

(* TI is kept by every step *)
Lemma step_ti : forall h rg f sp o b b',
  TI b -> (forall s, f_origin f = OOld s -> tgN s (s_entries (b_st b)) <> None) ->
  update_location h rg f sp o b = Ok b' -> TI b'.
Proof.
  intros h rg f sp o b b' [TD TV TX TK [C1 C2]] HO H.
  assert (D' : forall s e, tgN s (s_entries (b_st b)) = Some e -> s < b_next b) by exact TD.
  destruct (update_utxo_shape _ _ _ _ _ _ _ H) as (op & s0 & off0 & U & Hc).
  destruct (f_origin f) as [c fee hid ps re ub vi|seq] eqn:Ho.
  - destruct (update_new_shape _ _ _ _ _ _ _ _ _ _ _ _ _ _ Ho H) as (e & [S1 S2 S3 S4 S5 S6 S7 S8 S9 S10 S11 S12]).
    assert (Hs0 : s0 = b_next b).
    { destruct Hc as [(sq & Q & _)|(_ & Q & _)]; [congruence|exact Q]. }
    assert (Hkeep : forall s, tgN s (s_entries (b_st b)) <> None -> tgN s (s_entries (b_st b')) <> None).
    { intros s Hs. rewrite S5, tgN_set. destruct (N.eqb_spec s (b_next b)); [discriminate|exact Hs]. }
    split.
    + intros s x. rewrite S5, S8, tgN_set. destruct (N.eqb_spec s (b_next b)); [lia|]. intro Hx. specialize (TD _ _ Hx). lia.
    + intros i s. rewrite S6, tgP_set. destruct (pair_eqb i (f_id f)).
      * intro Hx. inv Hx. rewrite S5, tgN_set, N.eqb_refl. discriminate.
      * intro Hx. apply Hkeep. eapply TV; eauto.
    + intros s x. rewrite S5, S6, tgN_set, tgP_set. destruct (N.eqb_spec s (b_next b)).
      * intro Hx. inv Hx. rewrite S1, pair_eqb_refl. discriminate.
      * intro Hx. destruct (pair_eqb (i_id x) (f_id f)); [discriminate|]. eapply TX; eauto.
    + rewrite U. intros op' u' s off Hu Hp. apply tg_push in Hu. destruct Hu as [[Hu _]|(-> & R & Hps)].
      * apply Hkeep. eapply TK; eauto.
      * destruct (Hps _ Hp) as [Hq|[Hq Hq2]].
        -- inv Hq. rewrite S5, tgN_set, N.eqb_refl. discriminate.
        -- unfold entry_at in *. destruct (tgP op (s_utxo (b_st b))) as [e0|] eqn:T; [|congruence]. apply Hkeep. eapply TK; eauto.
    + rewrite S8, S9, S10. destruct c; lia.
  - destruct (update_old_shape _ _ _ _ _ _ _ _ Ho H) as (O1 & O2 & O3 & O4 & O5 & O6 & O7 & O8).
    assert (Hs0 : s0 = seq).
    { destruct Hc as [(sq & Q & Q2 & _)|(Q & _)]; [congruence|unfold is_new in Q; rewrite Ho in Q; discriminate]. }
    assert (Hkeep : forall s, tgN s (s_entries (b_st b)) <> None -> tgN s (s_entries (b_st b')) <> None).
    { intros s Hs. destruct O8 as [O8|(e0 & He0 & O8)]; rewrite O8; auto. rewrite tgN_set. destruct (N.eqb_spec s seq); [discriminate|exact Hs]. }
    assert (Hback : forall s x, tgN s (s_entries (b_st b')) = Some x ->
              exists y, tgN s (s_entries (b_st b)) = Some y /\ i_id x = i_id y).
    { intros s x Hx. destruct O8 as [O8|(e0 & He0 & O8)]; rewrite O8 in Hx; eauto.
      rewrite tgN_set in Hx. destruct (N.eqb_spec s seq); eauto. inv Hx. eauto. }
    split.
    + rewrite O3. intros s x Hx. destruct (Hback _ _ Hx) as (y & Y & _). eauto.
    + rewrite O1. intros i s Hx. apply Hkeep. eapply TV; eauto.
    + rewrite O1. intros s x Hx. destruct (Hback _ _ Hx) as (y & Y & Q). rewrite Q. eapply TX; eauto.
    + rewrite U. intros op' u' s off Hu Hp. apply tg_push in Hu. destruct Hu as [[Hu _]|(-> & R & Hps)].
      * apply Hkeep. eapply TK; eauto.
      * destruct (Hps _ Hp) as [Hq|[Hq Hq2]].
        -- inv Hq. apply Hkeep. apply HO. reflexivity.
        -- unfold entry_at in *. destruct (tgP op (s_utxo (b_st b))) as [e0|] eqn:T; [|congruence]. apply Hkeep. eapply TK; eauto.
    + rewrite O3, O4, O5. auto.
Qed.
