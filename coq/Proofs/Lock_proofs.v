(* Lemmas for C23: a node-funded command that locks first never lets the node pick an
   inscribed or runic output, whatever the node's coin selection is. *)
From OrdV Require Import Base.Prelude Generated Wallet.Lock.
Require Import Lia.

(* ------------------------------------------------------------ membership *)

Lemma mem_In : forall u l, mem u l = true <-> In u l.
Proof.
  intros u l. unfold mem. rewrite existsb_exists. split.
  - intros [x [Hx He]]. apply N.eqb_eq in He. subst x. exact Hx.
  - intros H. exists u. split; [exact H|apply N.eqb_refl].
Qed.

Lemma mem_false : forall u l, mem u l = false <-> ~ In u l.
Proof.
  intros u l. rewrite <- mem_In. destruct (mem u l); split; intros H; congruence.
Qed.

Lemma non_cardinal_true : forall w u,
  non_cardinal w u = true <-> In u (inscribed w) \/ In u (runic_list w).
Proof.
  intros w u. unfold non_cardinal. rewrite orb_true_iff, !mem_In. reflexivity.
Qed.

(* ------------------------------------------------------------ lock_set *)

Lemma lock_set_exact : forall w u,
  In u (lock_set w) <->
  (In u (utxos w) /\ In u (inscribed w) \/ In u (runic_list w)) /\ ~ In u (locked w).
Proof.
  intros w u. unfold lock_set.
  rewrite filter_In, in_app_iff, filter_In, negb_true_iff, mem_In, mem_false.
  reflexivity.
Qed.

Lemma spendable_In : forall nl w u,
  In u (spendable nl w) <-> In u (utxos w) /\ ~ In u nl.
Proof.
  intros nl w u. unfold spendable. rewrite filter_In, negb_true_iff, mem_false. reflexivity.
Qed.

Lemma fund_In : forall f explicit nl w u,
  In u (fund f explicit nl w) -> In u (utxos w) /\ ~ In u nl.
Proof.
  intros f explicit nl w u H. unfold fund in H. apply filter_In in H.
  destruct H as [_ H]. apply mem_In in H. apply spendable_In. exact H.
Qed.

(* ------------------------------------------------------------ the invariant *)

(* every inscribed or runic wallet output is locked in the node *)
Definition covered (w : wallet) (nl : list N) : Prop :=
  forall u, In u (utxos w) -> non_cardinal w u = true -> In u nl.

Lemma covered_after_lock : forall w nl,
  incl (locked w) nl -> covered w (nl ++ lock_set w).
Proof.
  intros w nl Hincl u Hu Hnc. apply in_app_iff.
  destruct (mem u (locked w)) eqn:Hl.
  - left. apply Hincl. apply mem_In. exact Hl.
  - right. apply lock_set_exact. apply mem_false in Hl. split; [|exact Hl].
    apply non_cardinal_true in Hnc. destruct Hnc as [Hi|Hr]; [left; split; assumption|right; exact Hr].
Qed.

Lemma covered_app : forall w nl x, covered w nl -> covered w (nl ++ x).
Proof. intros w nl x H u Hu Hnc. apply in_app_iff. left. exact (H u Hu Hnc). Qed.

Lemma fund_avoids : forall f explicit w nl u,
  covered w nl -> In u (fund f explicit nl w) -> non_cardinal w u = false.
Proof.
  intros f explicit w nl u Hcov Hin. apply fund_In in Hin. destruct Hin as [Hu Hnl].
  destruct (non_cardinal w u) eqn:Hnc; [|reflexivity].
  exfalso. apply Hnl. exact (Hcov u Hu Hnc).
Qed.

Lemma run_actions_avoid : forall f explicit w acts seen nl,
  incl (locked w) nl ->
  (seen = true -> covered w nl) ->
  lock_precedes_fund_aux seen acts = true ->
  forall added, In added (run_actions f explicit w acts nl) ->
  forall u, In u added -> non_cardinal w u = false.
Proof.
  intros f explicit w acts. induction acts as [|a r IH]; intros seen nl Hincl Hcov Hlpf added Hadd u Hu.
  - destruct Hadd.
  - destruct a; cbn [run_actions lock_precedes_fund_aux] in Hadd, Hlpf.
    + apply (IH true (nl ++ lock_set w)) with (added := added); try assumption.
      * apply incl_appl. exact Hincl.
      * intros _. apply covered_after_lock. exact Hincl.
    + apply andb_true_iff in Hlpf. destruct Hlpf as [Hseen Hlpf].
      destruct Hadd as [Hadd|Hadd].
      * subst added. exact (fund_avoids f explicit w nl u (Hcov Hseen) Hu).
      * exact (IH seen nl Hincl Hcov Hlpf added Hadd u Hu).
Qed.

Theorem funding_avoids_non_cardinal : forall f explicit w acts,
  lock_precedes_fund acts = true ->
  forall added, In added (run_actions f explicit w acts (locked w)) ->
  forall u, In u added -> non_cardinal w u = false.
Proof.
  intros f explicit w acts Hlpf. unfold lock_precedes_fund in Hlpf.
  apply (run_actions_avoid f explicit w acts false (locked w)).
  - apply incl_refl.
  - discriminate.
  - exact Hlpf.
Qed.

(* ------------------------------------------------------------ lock_precedes_fund *)

Lemma lock_precedes_fund_aux_spec : forall acts seen,
  lock_precedes_fund_aux seen acts = true <->
  (forall i, nth_error acts i = Some Fund ->
     seen = true \/ exists j, (j < i)%nat /\ nth_error acts j = Some Lock).
Proof.
  induction acts as [|a r IH]; intros seen; cbn [lock_precedes_fund_aux].
  - split; [|reflexivity]. intros _ i H. destruct i; discriminate.
  - destruct a.
    + split.
      * intros _ i Hi. destruct i as [|i]; [discriminate|].
        right. exists 0%nat. split; [lia|reflexivity].
      * intros _. apply IH. intros i _. left. reflexivity.
    + rewrite andb_true_iff. split.
      * intros [Hs _] i _. left. exact Hs.
      * intros H. assert (Hs : seen = true).
        { destruct (H 0%nat eq_refl) as [Hs|[j [Hj _]]]; [exact Hs|lia]. }
        split; [exact Hs|]. apply IH. intros i _. left. exact Hs.
Qed.

Lemma lock_precedes_fund_spec : forall acts,
  lock_precedes_fund acts = true <->
  (forall i, nth_error acts i = Some Fund ->
     exists j, (j < i)%nat /\ nth_error acts j = Some Lock).
Proof.
  intros acts. unfold lock_precedes_fund. rewrite lock_precedes_fund_aux_spec. split.
  - intros H i Hi. destruct (H i Hi) as [Hs|Hj]; [discriminate|exact Hj].
  - intros H i Hi. right. exact (H i Hi).
Qed.

(* ------------------------------------------------------------ the generated table *)

Lemma generated_commands_lock_first :
  forallb (fun c => lock_precedes_fund (decode_actions c)) WALLET_FUND_COMMANDS = true /\
  WALLET_FUND_COMMAND_COUNT = N.of_nat (length WALLET_FUND_COMMANDS) /\
  WALLET_FUND_COMMANDS <> [].
Proof.
  split; [vm_compute; reflexivity|]. split; [vm_compute; reflexivity|].
  unfold WALLET_FUND_COMMANDS. discriminate.
Qed.

Theorem every_generated_command_safe : forall c, In c WALLET_FUND_COMMANDS ->
  forall f explicit w added,
  In added (run_actions f explicit w (decode_actions c) (locked w)) ->
  forall u, In u added -> non_cardinal w u = false.
Proof.
  intros c Hc f explicit w. apply funding_avoids_non_cardinal.
  destruct generated_commands_lock_first as [Hall _].
  exact (proj1 (forallb_forall _ _) Hall c Hc).
Qed.

(* ------------------------------------------------------------ the lock is necessary *)

(* a node that adds everything it may spend *)
Definition greedy (explicit sp : list N) : list N := sp.

Lemma unlocked_fund_can_spend_inscribed :
  exists f w acts, lock_precedes_fund acts = false /\
    exists added u, In added (run_actions f [] w acts (locked w)) /\ In u added /\
                    non_cardinal w u = true.
Proof.
  exists greedy,
         {| utxos := [0; 1; 2]; inscribed := [1]; runic := Some [2]; locked := [] |},
         [Fund; Lock].
  split; [vm_compute; reflexivity|].
  exists [0; 1; 2], 1. vm_compute. split; [left; reflexivity|]. split; [right; left; reflexivity|reflexivity].
Qed.
