(* C03: where inscriptions go.  Value level: an inscription is a label on an offset of the concatenated
   input values; outputs take consecutive value intervals (first in, first out). *)
From OrdV Require Import Base.Prelude Generated Index.Inscr Proofs.Inscr_tables Proofs.Inscr_proofs Proofs.Inscr_c06 Proofs.Inscr_c04.
From Coq Require Import Permutation Sorting.Sorted ZifyBool ZifyN.

(* ---- sort_by sorts *)

Definition le_key {A} (key : A -> N) (a b : A) : Prop := key a <= key b.

Lemma ins_by_sorted : forall {A} (key : A -> N) x l,
  StronglySorted (le_key key) l -> StronglySorted (le_key key) (ins_by key x l).
Proof.
  intros A key x l H. induction H as [|y r Hs IH Hf]; cbn [ins_by].
  - constructor; constructor.
  - destruct (N.leb_spec (key x) (key y)).
    + constructor; [constructor; auto|]. constructor; [exact H|].
      eapply Forall_impl; [|exact Hf]. intros z Hz. unfold le_key in *. lia.
    + constructor; auto. assert (P : Permutation (ins_by key x r) (x :: r)) by apply ins_by_perm.
      apply Forall_forall. intros z Hz. eapply Permutation_in in Hz; [|exact P]. destruct Hz as [<-|Hz].
      * unfold le_key. lia.
      * rewrite Forall_forall in Hf. auto.
Qed.

Lemma sort_by_sorted : forall {A} (key : A -> N) l, StronglySorted (le_key key) (sort_by key l).
Proof.
  intros A key l. induction l as [|x r IH]; cbn [sort_by fold_right]; [constructor|]. apply ins_by_sorted. exact IH.
Qed.

(* ---- the assignment of sorted flotsam to outputs *)

Lemma span_lt_spec : forall e l a b,
  StronglySorted (le_key f_offset) l -> span_lt e l = (a, b) ->
  Forall (fun f => f_offset f < e) a /\ Forall (fun f => e <= f_offset f) b /\ StronglySorted (le_key f_offset) b.
Proof.
  intros e l. induction l as [|f r IH]; intros a b HS H; cbn [span_lt] in H.
  - inv H. repeat split; constructor.
  - inv HS. destruct (N.ltb_spec (f_offset f) e).
    + destruct (span_lt e r) as [a' b'] eqn:E. inv H. destruct (IH _ _ H2 eq_refl) as (A & B & C).
      repeat split; auto.
    + inv H. repeat split; [constructor| |constructor; auto].
      constructor; auto. eapply Forall_impl; [|exact H3]. intros z Hz. unfold le_key in Hz. lia.
Qed.

Definition out_start (base : N) (outs : list txout) (k : nat) : N := base + sum_values (firstn k outs).

(* the new location of a flotsam: output k of the transaction, whose value interval contains its offset *)
Definition located (txid vout base : N) (outs : list txout) (loc : outpoint * N * flotsam * bool) : Prop :=
  exists k o, nth_error outs k = Some o /\
    fst (fst (fst loc)) = (txid, vout + N.of_nat k) /\
    out_start base outs k <= f_offset (loc_flot loc) < out_start base outs k + o_value o /\
    snd (fst (fst loc)) = f_offset (loc_flot loc) - out_start base outs k /\
    snd loc = o_opret o.

Lemma assign_spec : forall txid outs vout base fl locs rest ov,
  StronglySorted (le_key f_offset) fl -> Forall (fun f => base <= f_offset f) fl ->
  assign txid vout base outs fl = (locs, rest, ov) ->
  ov = base + sum_values outs /\ Forall (fun f => ov <= f_offset f) rest /\
  Forall (located txid vout base outs) locs.
Proof.
  intros txid outs. induction outs as [|o r IH]; intros vout base fl locs rest ov HS HB H; cbn [assign] in H.
  - inv H. cbn. rewrite N.add_0_r. repeat split; auto.
  - destruct (span_lt (base + o_value o) fl) as [a b] eqn:E.
    destruct (assign txid (vout + 1) (base + o_value o) r b) as [[locs' rest'] ov'] eqn:E2. inv H.
    destruct (span_lt_spec _ _ _ _ HS E) as (A & B & C).
    destruct (IH _ _ _ _ _ _ C B E2) as (I1 & I2 & I3).
    split; [|split]; auto.
    + cbn [sum_values fold_right]. fold (sum_values r). lia.
    + apply Forall_app. split.
      * apply Forall_forall. intros loc Hloc. apply in_map_iff in Hloc. destruct Hloc as (f & <- & Hf).
        exists 0%nat, o. unfold out_start, loc_flot. cbn [nth_error firstn sum_values fold_right fst snd].
        assert (Ha : f_offset f < base + o_value o) by (rewrite Forall_forall in A; auto).
        assert (Hb : base <= f_offset f).
        { apply span_lt_app in E. rewrite Forall_forall in HB. apply HB. rewrite E. apply in_or_app. auto. }
        repeat split; auto; try lia. f_equal. lia.
      * eapply Forall_impl; [|exact I3]. intros loc (k & o' & K1 & K2 & K3 & K4 & K5).
        exists (S k), o'. unfold out_start in *. cbn [nth_error firstn sum_values fold_right]. fold (sum_values (firstn k r)).
        repeat split; auto; try lia; try (rewrite K2; f_equal; lia); try (rewrite K4; f_equal; lia).
Qed.

(* ---- offsets of the floating inscriptions *)

Lemma olds_offsets : forall ents base l acc io fl io',
  olds ents base l acc io = Ok (fl, io') ->
  forall f, In f fl -> In f acc \/ exists seq off, In (seq, off) l /\ f_origin f = OOld seq /\ f_offset f = base + off.
Proof.
  intros ents base l. induction l as [|[seq off] r IH]; intros acc io fl io' H f Hf; cbn [olds] in H.
  - inv H. auto.
  - destruct (tgN seq ents) as [e|]; [|discriminate]. destruct (IH _ _ _ _ H f Hf) as [Hin|(s & o & A & B & C)].
    + apply in_app_or in Hin. destruct Hin as [Hin|[Hin|[]]]; auto. subst f. right. exists seq, off. cbn. auto.
    + right. exists s, o. cbn. auto.
Qed.

(* a new inscription sits on the first offset of its input, or where its pointer says if that is inside
   the outputs *)
Lemma news_offsets : forall st txid jubilant tov offset iv l a a',
  news st txid jubilant tov offset iv l a = Ok a' ->
  a_tiv a' = a_tiv a /\
  forall f, In f (a_float a') -> In f (a_float a) \/
    (is_new f = true /\ (f_offset f = offset \/ f_offset f < tov) /\
     exists v, In v l /\ (match v_ptr v with Some p => f_offset f = if p <? tov then p else offset | None => f_offset f = offset end) /\
               (match f_origin f with ONew _ _ _ _ _ ub _ => ub = ((iv =? 0) || v_uneven v) | OOld _ => False end)).
Proof.
  intros st txid jubilant tov offset iv l. induction l as [|v r IH]; intros a a' H; cbn [news] in H.
  - inv H. auto.
  - dbind H. rename a0 into c. apply IH in H. destruct H as [T H]. cbn [a_tiv a_float] in *. split; auto.
    intros f Hf. destruct (H f Hf) as [Hin|(A & B & v' & V1 & V2 & V3)].
    + apply in_app_or in Hin. destruct Hin as [Hin|[Hin|[]]]; auto. subst f. right. cbn [f_offset f_origin is_new].
      split; [reflexivity|]. split.
      * destruct (v_ptr v) as [p|]; auto. destruct (N.ltb_spec p tov); auto.
      * exists v. split; [left; reflexivity|]. split.
        -- destruct (v_ptr v); reflexivity.
        -- unfold curse_of in E. destruct (v_uneven v) eqn:U.
           ++ rewrite !orb_true_r. reflexivity.
           ++ assert (Hc : is_uneven_curse c = false).
              { destruct c as [[]|]; try reflexivity.
                exfalso. cbv iota in E. repeat match type of E with
                  | (if ?x then _ else _) = _ => destruct x; cbv iota in E; try discriminate
                  | match ?x with _ => _ end = _ => destruct x; cbv iota in E; try discriminate
                  end. }
              rewrite Hc, !orb_false_r. reflexivity.
    + right. split; auto. split; auto. exists v'. split; [right; auto|]. auto.
Qed.

(* ---- fee flotsam *)

Lemma rebase_offsets : forall reward ov l l', rebase reward ov l = Ok l' ->
  Forall2 (fun f f' => f_id f' = f_id f /\ f_origin f' = f_origin f /\ f_offset f' + ov = reward + f_offset f) l l'.
Proof.
  intros reward ov l. induction l as [|f r IH]; intros l' H; cbn [rebase] in H.
  - inv H. constructor.
  - dbind H. dbind H. inv H. constructor; [|apply IH; reflexivity].
    cbn. unfold csub in E. destruct (ov <=? reward + f_offset f) eqn:Q; inv E. repeat split; lia.
Qed.

(* ---- charms of old inscriptions *)

Lemma old_burned : forall h rg f sp o b b' seq,
  f_origin f = OOld seq -> update_location h rg f sp o b = Ok b' -> o = true ->
  exists e, tgN seq (s_entries (b_st b')) = Some e /\ has CHARM_BURNED (i_charms e) = true.
Proof.
  intros h rg f sp o b b' seq Ho H Ht. subst o.
  destruct (update_old_shape _ _ _ _ _ _ _ _ Ho H) as (_ & _ & _ & _ & _ & _ & _ & O8).
  unfold update_location in H. rewrite Ho in H. dbind H.
  destruct (tgN seq (s_entries (b_st b))) as [e|] eqn:E1; [|discriminate]. inv E. inv H.
  cbn [b_st set_st s_entries]. rewrite tgN_set, N.eqb_refl. eexists. split; [reflexivity|].
  cbn [i_charms]. unfold has, flag. rewrite N.lor_spec, N.shiftl_1_l, N.pow2_bits_true. apply orb_true_r.
Qed.

(* ---- where a new inscription is stored *)

Lemma new_location : forall h rg f sp o b b' c fee hid ps re ub vi,
  f_origin f = ONew c fee hid ps re ub vi ->
  update_location h rg f sp o b = Ok b' ->
  s_utxo (b_st b') =
    (if ub then push_insc unbound_op (b_next b) (b_unb b) (s_utxo (b_st b))
     else push_insc (fst sp) (b_next b) (snd sp) (s_utxo (b_st b))) /\
  b_unb b' = (if ub then b_unb b + 1 else b_unb b) /\
  exists e, tgN (b_next b) (s_entries (b_st b')) = Some e /\ (ub = true -> i_sat e = None) /\
            (rg = None -> i_sat e = None).
Proof.
  intros h rg f sp o b b' c fee hid ps re ub vi Ho H.
  unfold update_location in H. rewrite Ho in H.
  dbind H. destruct a as [[number bl] cu]. dbind H. rename a into sat. dbind H. destruct a as [st1 pseqs].
  apply link_parents_core in E1. destruct E1 as (_ & _ & _ & L4 & _). cbn [s_utxo] in L4.
  assert (Hs : (ub = true -> sat = None) /\ (rg = None -> sat = None)).
  { destruct ub; [inv E0; auto|]. split; [discriminate|]. intro. subst rg. cbn in E0. inv E0. reflexivity. }
  destruct ub; inv H; cbn [b_st s_utxo s_entries b_unb fst snd]; rewrite L4, tgN_set, N.eqb_refl;
    (split; [reflexivity|]); (split; [reflexivity|]); eexists; (split; [reflexivity|]); cbn [i_sat]; exact Hs.
Qed.

Lemma apply_lost_head : forall h rg ov f r b b',
  apply_lost h rg ov (f :: r) b = Ok b' ->
  exists off b1, off + ov = b_lost b + f_offset f /\
    update_location h rg f (null_op, off) false b = Ok b1 /\ apply_lost h rg ov r b1 = Ok b'.
Proof.
  intros h rg ov f r b b' H. cbn [apply_lost] in H. dbind H. dbind H.
  exists a, a0. repeat split; auto. unfold csub in E. destruct (ov <=? b_lost b + f_offset f) eqn:Q; inv E. lia.
Qed.
