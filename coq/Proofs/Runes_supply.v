(* C08: per-transaction conservation and the chain-level supply invariant. *)
From OrdV Require Import Base.Prelude Generated Index.Runes Proofs.Runes_proofs Proofs.Runes_alloc.
Require Import ZifyBool ZifyN.

(* supply of a rune according to its entry: premine + mints * amount (0 without entry) *)
Definition supply (r : id) (es : etable) : N :=
  match alookup id_eqb r es with Some e => e_premine e + e_mints e * amount_of e | None => 0 end.
Definition eburned (r : id) (es : etable) : N :=
  match alookup id_eqb r es with Some e => e_burned e | None => 0 end.

Definition has_entry (r : id) (es : etable) : Prop := alookup id_eqb r es <> None.

Lemma has_entry_aupd r r0 e es : has_entry r (aupd id_eqb r0 e es) <-> has_entry r es \/ r = r0.
Proof.
  unfold has_entry. rewrite (alookup_aupd id_eqb id_eqb_eq). destruct (id_eqb r r0) eqn:E.
  - apply id_eqb_eq in E. split; [auto|discriminate].
  - apply id_eqb_neq in E. split; [auto|]. intros [H|H]; [exact H|contradiction].
Qed.

(* ---------- mint ---------- *)
Lemma mint_supply height es r0 es' am r :
  mint height es r0 = Ok (es', am) ->
  supply r es' = supply r es + (if id_eqb r r0 then odef am else 0) /\
  eburned r es' = eburned r es /\ (has_entry r es' <-> has_entry r es).
Proof.
  intros Q. apply mint_spec in Q. destruct (alookup id_eqb r0 es) as [e|] eqn:El.
  - destruct (mintable e height) as [err|a] eqn:Em.
    + destruct Q as [-> ->]. cbn. destruct (id_eqb r r0); split; try lia; split; tauto.
    + destruct Q as [-> ->]. unfold supply, eburned. cbn [odef].
      apply mintable_iff in Em. destruct Em as [t [Ht [_ [_ [_ ->]]]]].
      split; [|split].
      * rewrite (alookup_aupd id_eqb id_eqb_eq). destruct (id_eqb r r0) eqn:E.
        -- apply id_eqb_eq in E; subst r0. rewrite El. unfold amount_of, set_mints; cbn. rewrite Ht. lia.
        -- lia.
      * rewrite (alookup_aupd id_eqb id_eqb_eq). destruct (id_eqb r r0) eqn:E; [|reflexivity].
        apply id_eqb_eq in E; subst r0. rewrite El. reflexivity.
      * rewrite has_entry_aupd. split; [|auto]. intros [H|H]; [exact H|]. subst r0. unfold has_entry. rewrite El. discriminate.
  - destruct Q as [-> ->]. cbn. destruct (id_eqb r r0); split; try lia; split; tauto.
Qed.

Lemma mint_phase_conserve height st un art st' un' r :
  mint_phase height st un art = Ok (st', un') ->
  msum r un' + supply r (s_entries st) = msum r un + supply r (s_entries st') /\
  eburned r (s_entries st') = eburned r (s_entries st) /\
  (has_entry r (s_entries st') <-> has_entry r (s_entries st)).
Proof.
  unfold mint_phase. destruct (art_mint art) as [r0|]; [|intros Q; ok_inj; split; [lia|split; tauto]].
  intros Q. bind_inv Q as [es am] Hm. apply (mint_supply _ _ _ _ _ r) in Hm. destruct Hm as [E1 [E2 E3]].
  destruct am as [a|].
  - bind_inv Q as un3 Hadd. ok_inj. cbn [set_entries s_entries].
    rewrite (add_to_msum _ _ _ _ r Hadd). cbn [odef] in E1. split; [lia|split; assumption].
  - ok_inj. cbn [set_entries s_entries]. cbn [odef] in E1. split; [destruct (id_eqb r r0); lia|split; assumption].
Qed.

(* ---------- the artifact phase ---------- *)
Lemma art_phase_conserve height time minimum txi st tx un al st' un' al' r :
  art_phase height time minimum txi st tx un al = Ok (st', un', al') ->
  length al = length (tx_outs tx) ->
  ~ has_entry (height, txi) (s_entries st) ->
  msum r un' + asum r al' + supply r (s_entries st) = msum r un + asum r al + supply r (s_entries st') /\
  length al' = length al /\ s_balances st' = s_balances st /\
  eburned r (s_entries st') = eburned r (s_entries st) /\
  (has_entry r (s_entries st') -> has_entry r (s_entries st) \/ r = (height, txi)) /\
  (has_entry r (s_entries st) -> has_entry r (s_entries st')).
Proof.
  unfold art_phase. destruct (tx_art tx) as [art|]; [|intros Q; ok_inj; intros; repeat split; auto].
  intros Q L Hfresh.
  bind_inv Q as [st1 un1] Hmint. bind_inv Q as [st2 et] Het. bind_inv Q as [un2 al2] Hed.
  bind_inv Q as st3 Hcr. ok_inj.
  pose proof (mint_phase_conserve _ _ _ _ _ _ r Hmint) as [M1 [M2 M3]].
  pose proof (mint_phase_frame _ _ _ _ _ _ Hmint) as [F1 _].
  pose proof (etched_frame _ _ _ _ _ _ _ _ Het) as [E1 [E2 _]].
  assert (Hfresh1 : ~ has_entry (height, txi) (s_entries st1)).
  { intros H. apply Hfresh. pose proof (mint_phase_conserve _ _ _ _ _ _ (height, txi) Hmint) as [_ [_ M]]. apply M. exact H. }
  (* edicts *)
  assert (Hed' : msum r un' + asum r al' =
                 msum r un1 + asum r al +
                 (match art, et with
                  | Runestone _ etching _ _, Some (r0, _) => if id_eqb r r0 then premine_of etching else 0
                  | _, _ => 0 end) /\ length al' = length al).
  { unfold edict_phase in Hed. destruct art as [eds etching m p|c m]; [|ok_inj; split; [lia|reflexivity]].
    bind_inv Hed as un3 Hpre.
    apply (apply_edicts_conserve _ _ r) in Hed; [|exact L]. destruct Hed as [C1 C2].
    destruct et as [[r0 rune]|].
    - rewrite (add_to_msum _ _ _ _ r Hpre) in C1. split; [lia|exact C2].
    - ok_inj. split; [lia|exact C2]. }
  destruct Hed' as [C1 C2].
  (* create *)
  unfold create_phase in Hcr. destruct et as [[r0 rune]|].
  - assert (r0 = (height, txi)) as -> by (eapply etched_id; exact Het).
    unfold create_rune_entry in Hcr. destruct (_ <=? _); [|discriminate]. ok_inj. cbn [s_entries s_balances].
    rewrite E1.
    assert (Hp : e_premine (new_entry art (tx_id tx) (height, txi) rune (s_runes st2) time) =
                 match art with Runestone _ etching _ _ => premine_of etching | _ => 0 end /\
                 e_mints (new_entry art (tx_id tx) (height, txi) rune (s_runes st2) time) = 0 /\
                 e_burned (new_entry art (tx_id tx) (height, txi) rune (s_runes st2) time) = 0).
    { destruct art as [eds [etc|] m p|c m]; cbn; auto. }
    destruct Hp as [P1 [P2 P3]].
    split; [|split; [exact C2|split; [rewrite E2; exact F1|split; [|split]]]].
    + unfold supply at 2. rewrite (alookup_aupd id_eqb id_eqb_eq).
      destruct (id_eqb r (height, txi)) eqn:E.
      * apply id_eqb_eq in E; subst r. rewrite P1, P2.
        assert (S0 : supply (height, txi) (s_entries st1) = 0).
        { unfold supply. destruct (alookup id_eqb (height, txi) (s_entries st1)) eqn:X; [|reflexivity].
          exfalso. apply Hfresh1. unfold has_entry. rewrite X. discriminate. }
        destruct art as [eds etching m p|c m]; try rewrite id_eqb_refl in C1; fold (supply (height, txi) (s_entries st1)); lia.
      * fold (supply r (s_entries st1)). destruct art as [eds etching m p|c m]; try rewrite E in C1; lia.
    + unfold eburned at 1. rewrite (alookup_aupd id_eqb id_eqb_eq).
      destruct (id_eqb r (height, txi)) eqn:E.
      * apply id_eqb_eq in E; subst r. rewrite P3. rewrite <- M2. unfold eburned.
        destruct (alookup id_eqb (height, txi) (s_entries st1)) eqn:X; [|reflexivity].
        exfalso. apply Hfresh1. unfold has_entry. rewrite X. discriminate.
      * fold (eburned r (s_entries st1)). exact M2.
    + rewrite has_entry_aupd. intros [H|H]; [left; apply M3; exact H|right; exact H].
    + intros H. rewrite has_entry_aupd. left. apply M3. exact H.
  - ok_inj. rewrite E1, E2.
    split; [destruct art; lia|]. split; [exact C2|]. split; [exact F1|]. split; [exact M2|].
    split; [intros H; left; apply M3; exact H|intros H; apply M3; exact H].
Qed.

(* ---------- lookups in the balance table ---------- *)
Lemma alookup_aremove_none {V} (k k' : outpoint) : forall (l : list (outpoint * V)),
  alookup op_eqb k' l = None -> alookup op_eqb k' (aremove op_eqb k l) = None.
Proof.
  induction l as [|[k1 v1] l IH]; cbn [alookup aremove]; [auto|].
  destruct (op_eqb k' k1) eqn:E1; [discriminate|]. intros H.
  destruct (op_eqb k k1); [exact H|]. cbn [alookup]. rewrite E1. auto.
Qed.

Lemma unallocated_none ins k : forall bt un bt' un',
  unallocated ins bt un = Ok (bt', un') -> alookup op_eqb k bt = None -> alookup op_eqb k bt' = None.
Proof.
  induction ins as [|i ins IH]; intros bt un bt' un' Q H; cbn [unallocated] in Q; [ok_inj; exact H|].
  destruct (alookup op_eqb (in_txid i, in_vout i) bt) as [l|].
  - bind_inv Q as un1 H1. eapply IH; [exact Q|]. apply alookup_aremove_none. exact H.
  - eapply IH; eassumption.
Qed.

Lemma store_outputs_keys txid k : forall outs al vout bt burned bt' burned',
  store_outputs txid outs al vout bt burned = Ok (bt', burned') ->
  alookup op_eqb k bt' <> None -> alookup op_eqb k bt <> None \/ fst k = txid.
Proof.
  induction outs as [|opret outs IH]; intros al vout bt burned bt' burned' Q H;
    destruct al as [|m al]; cbn [store_outputs] in Q; try (ok_inj; left; exact H).
  destruct m as [|kv m]; [eapply IH; eassumption|].
  destruct opret.
  - bind_inv Q as b1 Hp. eapply IH; eassumption.
  - eapply IH in Q; [|exact H]. destruct Q as [Q|Q]; [|right; exact Q].
    rewrite (alookup_aupd op_eqb op_eqb_eq) in Q. destruct (op_eqb k (txid, vout)) eqn:E; [|left; exact Q].
    apply op_eqb_eq in E. subst k. right. reflexivity.
Qed.

(* ---------- C08: one transaction conserves every rune ---------- *)
Lemma index_runes_conserves height time minimum txi u tx u' r :
  index_runes height time minimum txi u tx = Ok u' ->
  ~ has_entry (height, txi) (s_entries (u_st u)) ->
  (forall v, alookup op_eqb (tx_id tx, v) (s_balances (u_st u)) = None) ->
  tsum r (s_balances (u_st u')) + msum r (u_burned u') + supply r (s_entries (u_st u)) =
  tsum r (s_balances (u_st u)) + msum r (u_burned u) + supply r (s_entries (u_st u')) /\
  eburned r (s_entries (u_st u')) = eburned r (s_entries (u_st u)) /\
  (has_entry r (s_entries (u_st u')) -> has_entry r (s_entries (u_st u)) \/ r = (height, txi)) /\
  (has_entry r (s_entries (u_st u)) -> has_entry r (s_entries (u_st u'))) /\
  (forall k, alookup op_eqb k (s_balances (u_st u')) <> None ->
             alookup op_eqb k (s_balances (u_st u)) <> None \/ fst k = tx_id tx).
Proof.
  unfold index_runes. intros Q Hfresh Htx.
  bind_inv Q as [bt un] Hun. bind_inv Q as [[st1 un1] al1] Hart. bind_inv Q as [al2 burned] Hdef.
  bind_inv Q as [bt2 burned2] Hst. bind_inv Q as ub Hp. ok_inj. cbn [u_st u_burned s_balances s_entries set_balances].
  pose proof (unallocated_msum r _ _ _ _ _ Hun) as U1. cbn [msum] in U1.
  apply (art_phase_conserve _ _ _ _ _ _ _ _ _ _ _ r) in Hart; [|apply repeat_length|exact Hfresh].
  destruct Hart as [A1 [A2 [A3 [A4 [A5 A6]]]]]. cbn [set_balances s_entries s_balances] in *.
  rewrite asum_repeat, repeat_length in *.
  apply (default_phase_conserve _ _ _ _ _ _ r) in Hdef; [|exact A2]. destruct Hdef as [D1 D2].
  pose proof Hst as Hkeys.
  apply (store_outputs_conserve r) in Hst; [|lia|].
  2:{ intros v _. rewrite A3. eapply unallocated_none; [exact Hun|apply Htx]. }
  pose proof (pour_msum r _ _ _ _ Hp) as P1.
  destruct st1 as [es1 bal1 r2i1 t2r1 rn1 rs1]; cbn [s_entries s_balances set_balances] in *. subst.
  split; [lia|]. split; [exact A4|]. split; [exact A5|]. split; [exact A6|].
  intros k Hk. eapply store_outputs_keys in Hkeys; [|exact Hk]. destruct Hkeys as [Hk'|Hk']; [|right; exact Hk'].
  left. intros Hn. apply Hk'. eapply unallocated_none; eassumption.
Qed.

(* ================================================================== chain level *)
Definition Conserved (st : state) : Prop :=
  forall r, tsum r (s_balances st) + eburned r (s_entries st) = supply r (s_entries st).
Definition ConsU (u : upd) : Prop :=
  forall r, tsum r (s_balances (u_st u)) + msum r (u_burned u) + eburned r (s_entries (u_st u)) =
            supply r (s_entries (u_st u)).
(* transaction ids still to come are not keys of the balance table *)
Definition fresh_txids (rem : list N) (bt : btable) : Prop :=
  forall t v, In t rem -> alookup op_eqb (t, v) bt = None.
(* every entry was created at an earlier position of the chain *)
Definition ids_before (height txi : N) (es : etable) : Prop :=
  forall r, has_entry r es -> fst r < height \/ (fst r = height /\ snd r < txi).

Definition txids (bs : list block) : list N := flat_map (fun b => map tx_id (b_txs b)) bs.

Lemma index_txs_inv height time minimum later txs : forall txi u u',
  index_txs height time minimum txi u txs = Ok u' ->
  NoDup (map tx_id txs ++ later) ->
  fresh_txids (map tx_id txs ++ later) (s_balances (u_st u)) ->
  ids_before height txi (s_entries (u_st u)) -> ConsU u ->
  ConsU u' /\ fresh_txids later (s_balances (u_st u')) /\
  exists txi', ids_before height txi' (s_entries (u_st u')).
Proof.
  induction txs as [|tx txs IH]; intros txi u u' Q Hnd Hfr Hid Hc; cbn [index_txs] in Q.
  - ok_inj. split; [exact Hc|]. split; [exact Hfr|]. exists txi. exact Hid.
  - bind_inv Q as u1 H1. cbn [map app] in Hnd, Hfr.
    assert (Hfresh : ~ has_entry (height, txi) (s_entries (u_st u))).
    { intros H. apply Hid in H. cbn in H. lia. }
    assert (Htx : forall v, alookup op_eqb (tx_id tx, v) (s_balances (u_st u)) = None).
    { intros v. apply Hfr. left. reflexivity. }
    apply (IH (txi + 1) u1 u' Q).
    + inversion Hnd; assumption.
    + intros t v Ht.
      destruct (alookup op_eqb (t, v) (s_balances (u_st u1))) eqn:X; [|reflexivity]. exfalso.
      pose proof (index_runes_conserves _ _ _ _ _ _ _ (0, 0) H1 Hfresh Htx) as [_ [_ [_ [_ K]]]].
      destruct (K (t, v)) as [K1|K1]; [rewrite X; discriminate| |].
      * apply K1. apply Hfr. right. exact Ht.
      * cbn in K1. subst t. inversion Hnd. contradiction.
    + intros r Hr.
      pose proof (index_runes_conserves _ _ _ _ _ _ _ r H1 Hfresh Htx) as [_ [_ [K _]]].
      destruct (K Hr) as [K1|K1].
      * apply Hid in K1. lia.
      * subst r. cbn. lia.
    + intros r. pose proof (index_runes_conserves _ _ _ _ _ _ _ r H1 Hfresh Htx) as [K1 [K2 _]].
      specialize (Hc r). lia.
Qed.

Lemma update_burned_spec bl : forall es es' r,
  update_burned bl es = Ok es' ->
  eburned r es' = eburned r es + msum r bl /\ supply r es' = supply r es /\
  (has_entry r es' <-> has_entry r es).
Proof.
  induction bl as [|[r0 b] bl IH]; intros es es' r Q; cbn [update_burned] in Q.
  - ok_inj. cbn [msum]. split; [lia|]. split; tauto.
  - destruct (alookup id_eqb r0 es) as [e|] eqn:El; [|discriminate].
    destruct (_ <=? _); [|discriminate].
    apply (IH _ _ r) in Q. destruct Q as [Q1 [Q2 Q3]]. cbn [msum].
    unfold eburned, supply in *. rewrite has_entry_aupd in Q3.
    rewrite (alookup_aupd id_eqb id_eqb_eq) in Q1, Q2.
    destruct (id_eqb r r0) eqn:E.
    + apply id_eqb_eq in E; subst r0. rewrite El. cbn [set_burned e_burned e_premine e_mints] in *.
      unfold amount_of in *. cbn [set_burned e_terms] in *. split; [lia|]. split; [exact Q2|].
      split; [intros H; unfold has_entry; rewrite El; discriminate|intros H; apply Q3; right; reflexivity].
    + split; [lia|]. split; [exact Q2|]. apply id_eqb_neq in E.
      split; [intros H; apply Q3 in H; destruct H as [H|H]; [exact H|contradiction]|intros H; apply Q3; left; exact H].
Qed.

Lemma index_block_inv first height st b st' later :
  index_block first height st b = Ok st' ->
  NoDup (map tx_id (b_txs b) ++ later) ->
  fresh_txids (map tx_id (b_txs b) ++ later) (s_balances st) ->
  (forall r, has_entry r (s_entries st) -> fst r < height) -> Conserved st ->
  Conserved st' /\ fresh_txids later (s_balances st') /\
  (forall r, has_entry r (s_entries st') -> fst r < height + 1).
Proof.
  unfold index_block. intros Q Hnd Hfr Hid Hc. destruct (height <? first).
  - ok_inj. split; [exact Hc|]. split.
    + intros t v Ht. apply Hfr. apply in_or_app. right. exact Ht.
    + intros r Hr. apply Hid in Hr. lia.
  - bind_inv Q as u1 Htx. bind_inv Q as es1 Hup. ok_inj.
    apply (index_txs_inv _ _ _ later) in Htx; [|exact Hnd|exact Hfr| |].
    + destruct Htx as [C [F [txi' I]]]. cbn [s_balances s_entries set_entries].
      split; [|split].
      * intros r. pose proof (update_burned_spec _ _ _ r Hup) as [U1 [U2 _]]. specialize (C r). cbn [s_balances s_entries set_entries]. lia.
      * exact F.
      * intros r Hr. pose proof (update_burned_spec _ _ _ r Hup) as [_ [_ U3]]. apply U3 in Hr.
        apply I in Hr. lia.
    + intros r Hr. left. apply Hid. exact Hr.
    + intros r. cbn [u_st u_burned msum]. specialize (Hc r). unfold Conserved in Hc. lia.
Qed.

Lemma NoDup_app_r {A} (l l' : list A) : NoDup (l ++ l') -> NoDup l'.
Proof. induction l as [|a l IH]; cbn; [auto|]. intros H. inversion H. auto. Qed.

(* C08: every state after every block conserves every rune *)
Lemma chain_conserved first bs : forall height st sts,
  index_chain first height st bs = Ok sts ->
  NoDup (txids bs) -> fresh_txids (txids bs) (s_balances st) ->
  (forall r, has_entry r (s_entries st) -> fst r < height) -> Conserved st ->
  Forall Conserved sts.
Proof.
  induction bs as [|b bs IH]; intros height st sts Q Hnd Hfr Hid Hc; cbn [index_chain] in Q; [ok_inj; constructor|].
  bind_inv Q as st1 Hblk. bind_inv Q as rest Hrest. ok_inj. cbn [txids flat_map] in Hnd, Hfr.
  apply (index_block_inv _ _ _ _ _ (txids bs)) in Hblk; [|exact Hnd|exact Hfr|exact Hid|exact Hc].
  destruct Hblk as [C [F I]]. constructor; [exact C|].
  eapply IH; [exact Hrest| |exact F|exact I|exact C].
  apply NoDup_app_r in Hnd. exact Hnd.
Qed.

Lemma chain_conserved_from_empty first height bs sts :
  index_chain first height empty_state bs = Ok sts -> NoDup (txids bs) -> Forall Conserved sts.
Proof.
  intros Q Hnd. eapply chain_conserved; [exact Q|exact Hnd| | |].
  - intros t v _. reflexivity.
  - intros r H. exfalso. apply H. reflexivity.
  - intros r. reflexivity.
Qed.
