(* C09: characterisation of the allocation rules (edicts, splits, default output, cenotaphs,
   OP_RETURN burns) of the single-transaction function. *)
From OrdV Require Import Base.Prelude Generated Index.Runes Proofs.Runes_proofs Proofs.Runes_alloc
  Proofs.Runes_supply.
Require Import ZifyBool ZifyN.

(* amount of rune r allocated so far to output number n *)
Definition cell (r : id) (n : nat) (al : alloc) : N := getd r (nth n al []).

Lemma cell_set_nth r n m k al : (n < length al)%nat ->
  cell r k (set_nth n m al) = if Nat.eqb k n then getd r m else cell r k al.
Proof. intros H. unfold cell. rewrite nth_set_nth by exact H. destruct (Nat.eqb k n); reflexivity. Qed.

(* ---------- allocate: moves exactly [amt] of rune r from unallocated to output o ---------- *)
Lemma allocate_spec r un al amt o un' al' :
  allocate r un al amt o = Ok (un', al') -> (N.to_nat o < length al)%nat ->
  amt <= getd r un /\ getd r un' = getd r un - amt /\
  cell r (N.to_nat o) al' = cell r (N.to_nat o) al + amt /\
  length al' = length al /\
  (forall r', r' <> r -> getd r' un' = getd r' un) /\
  (forall r' k, (r' <> r \/ k <> N.to_nat o) -> cell r' k al' = cell r' k al).
Proof.
  unfold allocate. destruct (N.ltb_spec 0 amt) as [Hp|Hz].
  - intros Q Ho. bind_inv Q as b Hsub. bind_inv Q as m Hadd. ok_inj.
    apply lot_sub_ok in Hsub. destruct Hsub as [-> Hle].
    split; [exact Hle|]. split; [rewrite getd_aupd, id_eqb_refl; reflexivity|].
    split; [rewrite cell_set_nth by exact Ho; rewrite Nat.eqb_refl, (getd_add_to _ _ _ _ r Hadd), id_eqb_refl; reflexivity|].
    split; [apply length_set_nth|]. split.
    + intros r' Hne. rewrite getd_aupd. apply id_eqb_neq in Hne. rewrite Hne. reflexivity.
    + intros r' k Hd. rewrite cell_set_nth by exact Ho. destruct (Nat.eqb_spec k (N.to_nat o)) as [->|Hk]; [|reflexivity].
      destruct Hd as [Hd|Hd]; [|contradiction]. rewrite (getd_add_to _ _ _ _ r' Hadd).
      apply id_eqb_neq in Hd. rewrite Hd. reflexivity.
  - intros Q _. ok_inj. assert (amt = 0) as -> by lia.
    split; [lia|]. split; [lia|]. split; [lia|]. split; [reflexivity|]. split; auto.
Qed.

(* ---------- one edict ---------- *)
Definition resolve (etched_id : option id) (e : edict) : option id :=
  if id_eqb (ed_id e) (0, 0) then etched_id else Some (ed_id e).

(* id 0:0 with no rune etched in this transaction, or a rune with no unallocated balance: skipped *)
Lemma edict_skipped outs etched_id un al e :
  ed_output e <= N.of_nat (length outs) ->
  (resolve etched_id e = None \/ exists r, resolve etched_id e = Some r /\ alookup id_eqb r un = None) ->
  apply_edict outs etched_id un al e = Ok (un, al).
Proof.
  intros Hle H. unfold apply_edict. fold (resolve etched_id e).
  destruct (N.ltb_spec (N.of_nat (length outs)) (ed_output e)); [lia|].
  destruct H as [->|[r [-> ->]]]; reflexivity.
Qed.

(* id 0:0 means the rune etched in this transaction *)
Lemma edict_id_zero outs r un al a o :
  apply_edict outs (Some r) un al (mkEdict (0, 0) a o) = apply_edict outs (Some r) un al (mkEdict r a o).
Proof.
  unfold apply_edict. cbn [ed_id ed_amount ed_output]. rewrite id_eqb_refl.
  destruct (id_eqb r (0, 0)); reflexivity.
Qed.

(* an edict to one output: amount 0 = all remaining, else capped by the remaining balance *)
Lemma edict_single outs etched_id un al e r b :
  ed_output e < N.of_nat (length outs) -> resolve etched_id e = Some r -> alookup id_eqb r un = Some b ->
  apply_edict outs etched_id un al e =
  allocate r un al (if ed_amount e =? 0 then b else N.min (ed_amount e) b) (ed_output e).
Proof.
  intros Hlt Hr Hb. unfold apply_edict. fold (resolve etched_id e). rewrite Hr, Hb.
  destruct (N.ltb_spec (N.of_nat (length outs)) (ed_output e)); [lia|].
  destruct (N.eqb_spec (ed_output e) (N.of_nat (length outs))); [lia|]. reflexivity.
Qed.

(* an edict with output = number of outputs *)
Lemma edict_split outs etched_id un al e r b :
  ed_output e = N.of_nat (length outs) -> resolve etched_id e = Some r -> alookup id_eqb r un = Some b ->
  apply_edict outs etched_id un al e =
  match destinations outs 0 with
  | [] => Ok (un, al)
  | _ :: _ =>
    let m := N.of_nat (length (destinations outs 0)) in
    if ed_amount e =? 0 then split_even r un al (b / m) (b mod m) 0 (destinations outs 0)
    else split_fixed r un al (ed_amount e) (destinations outs 0)
  end.
Proof.
  intros Heq Hr Hb. unfold apply_edict. fold (resolve etched_id e). rewrite Hr, Hb, Heq.
  rewrite N.ltb_irrefl, N.eqb_refl. reflexivity.
Qed.

(* destinations: exactly the non-OP_RETURN output numbers, increasing *)
Lemma destinations_spec outs : forall i o,
  In o (destinations outs i) <-> (i <= o /\ nth_error outs (N.to_nat (o - i)) = Some false).
Proof.
  induction outs as [|b outs IH]; intros i o; cbn [destinations].
  - split; [contradiction|]. intros [_ H]. destruct (N.to_nat (o - i)); discriminate.
  - assert (Hstep : i + 1 <= o -> N.to_nat (o - i) = S (N.to_nat (o - (i + 1)))) by lia.
    destruct b.
    + rewrite IH. split.
      * intros [H1 H2]. split; [lia|]. rewrite Hstep by exact H1. exact H2.
      * intros [H1 H2]. destruct (N.eq_dec o i) as [->|Hne].
        -- replace (N.to_nat (i - i)) with O in H2 by lia. discriminate.
        -- split; [lia|]. rewrite Hstep in H2 by lia. exact H2.
    + cbn [In]. rewrite IH. split.
      * intros [<-|[H1 H2]]; [split; [lia|]; replace (N.to_nat (i - i)) with O by lia; reflexivity|].
        split; [lia|]. rewrite Hstep by exact H1. exact H2.
      * intros [H1 H2]. destruct (N.eq_dec o i) as [->|Hne]; [left; reflexivity|right].
        split; [lia|]. rewrite Hstep in H2 by lia. exact H2.
Qed.

Lemma destinations_lt outs : forall i, Forall (fun o => i <= o) (destinations outs i) /\ NoDup (destinations outs i).
Proof.
  induction outs as [|b outs IH]; intros i; cbn [destinations]; [split; constructor|].
  destruct (IH (i + 1)) as [F N]. destruct b.
  - split; [eapply Forall_impl; [|exact F]; cbn; intros; lia|exact N].
  - split; [constructor; [lia|eapply Forall_impl; [|exact F]; cbn; intros; lia]|].
    constructor; [|exact N]. intros Hin. rewrite Forall_forall in F. apply F in Hin. lia.
Qed.

(* ---------- amount 0, output = n: even split, remainder to the first outputs ---------- *)
Definition share (q rem j : N) : N := q + (if j <? rem then 1 else 0).
Fixpoint shares (q rem i : N) (n : nat) : N :=
  match n with O => 0 | S n' => share q rem i + shares q rem (i + 1) n' end.

Lemma split_even_spec r q rem ds : forall i un al un' al',
  split_even r un al q rem i ds = Ok (un', al') -> NoDup ds -> in_range (length al) ds ->
  getd r un' + shares q rem i (length ds) = getd r un /\
  (forall k d, nth_error ds k = Some d ->
     cell r (N.to_nat d) al' = cell r (N.to_nat d) al + share q rem (i + N.of_nat k)) /\
  (forall n, ~ In n (map N.to_nat ds) -> cell r n al' = cell r n al) /\
  (forall r', r' <> r -> getd r' un' = getd r' un /\ forall n, cell r' n al' = cell r' n al) /\
  length al' = length al.
Proof.
  induction ds as [|d ds IH]; intros i un al un' al' Q Hnd Hr; cbn [split_even] in Q.
  - ok_inj. cbn [length shares]. split; [lia|]. split; [intros [|k] d0 H; discriminate|]. repeat split; auto.
  - bind_inv Q as a Ha. bind_inv Q as [un1 al1] H1.
    assert (Ea : a = share q rem i).
    { unfold share. destruct (i <? rem); [apply lot_add_ok in Ha; destruct Ha as [-> _]; reflexivity|ok_inj; lia]. }
    subst a.
    apply allocate_spec in H1; [|apply Hr; left; reflexivity].
    destruct H1 as [A1 [A2 [A3 [A4 [A5 A6]]]]].
    inversion Hnd as [|? ? Hnotin Hnd']; subst.
    apply IH in Q; [|exact Hnd'|intros x Hx; rewrite A4; apply Hr; right; exact Hx].
    destruct Q as [B1 [B2 [B3 [B4 B5]]]]. cbn [length shares].
    split; [lia|]. split; [|split; [|split]].
    + intros [|k] d0 Hk; cbn [nth_error] in Hk.
      * injection Hk as <-. rewrite B3.
        -- rewrite A3. f_equal. f_equal. lia.
        -- intros Hin. apply in_map_iff in Hin. destruct Hin as [x [Hx1 Hx2]].
           assert (x = d) by lia. subst x. contradiction.
      * rewrite (B2 k d0 Hk). rewrite A6.
        -- f_equal. f_equal. lia.
        -- right. intros E. apply nth_error_In in Hk. assert (d0 = d) by lia. subst d0. contradiction.
    + intros n Hn. cbn [map In] in Hn. rewrite B3 by tauto. apply A6. right. intros E. apply Hn. left. lia.
    + intros r' Hne. destruct (B4 r' Hne) as [C1 C2]. split; [rewrite C1; apply A5; exact Hne|].
      intros n. rewrite C2. apply A6. left. exact Hne.
    + lia.
Qed.

Lemma shares_total q rem : forall n i, shares q rem i n = q * N.of_nat n + (N.min rem (i + N.of_nat n) - N.min rem i).
Proof.
  induction n as [|n IH]; intros i; cbn [shares]; [lia|].
  rewrite IH. unfold share. destruct (N.ltb_spec i rem); lia.
Qed.

(* whole statement for amount 0: k-th eligible output gets floor(b/m) + [k < b mod m], nothing is left *)
Lemma split_even_all r un al b ds un' al' :
  let m := N.of_nat (length ds) in
  ds <> [] -> getd r un = b ->
  split_even r un al (b / m) (b mod m) 0 ds = Ok (un', al') -> NoDup ds -> in_range (length al) ds ->
  getd r un' = 0 /\
  (forall k d, nth_error ds k = Some d ->
     cell r (N.to_nat d) al' = cell r (N.to_nat d) al + b / m + (if N.of_nat k <? b mod m then 1 else 0)) /\
  (forall n, ~ In n (map N.to_nat ds) -> cell r n al' = cell r n al) /\
  (forall r', r' <> r -> getd r' un' = getd r' un /\ forall n, cell r' n al' = cell r' n al).
Proof.
  intros m Hne Hb Q Hnd Hr. apply split_even_spec in Q; [|exact Hnd|exact Hr].
  destruct Q as [B1 [B2 [B3 [B4 _]]]].
  assert (Hm : 0 < m) by (destruct ds; [contradiction|unfold m; cbn [length]; lia]).
  rewrite shares_total in B1. fold m in B1.
  assert (Hmod : b mod m < m) by (apply N.mod_lt; lia).
  pose proof (N.div_mod b m ltac:(lia)) as Hdm.
  split; [lia|]. split; [|split; assumption].
  intros k d Hk. rewrite (B2 k d Hk). unfold share. rewrite N.add_0_l. lia.
Qed.

(* ---------- amount a <> 0, output = n: min(a, remaining) to each eligible output in turn ---------- *)
Lemma sub_min_step a g k : g - N.min a g - a * k = g - a * (k + 1).
Proof. destruct (N.le_gt_cases a g); [rewrite N.min_l by lia|rewrite N.min_r by lia]; nia. Qed.

Lemma split_fixed_spec r a ds : forall un al un' al',
  split_fixed r un al a ds = Ok (un', al') -> NoDup ds -> in_range (length al) ds ->
  getd r un' = getd r un - a * N.of_nat (length ds) /\
  (forall k d, nth_error ds k = Some d ->
     cell r (N.to_nat d) al' = cell r (N.to_nat d) al + N.min a (getd r un - a * N.of_nat k)) /\
  (forall n, ~ In n (map N.to_nat ds) -> cell r n al' = cell r n al) /\
  (forall r', r' <> r -> getd r' un' = getd r' un /\ forall n, cell r' n al' = cell r' n al) /\
  length al' = length al.
Proof.
  induction ds as [|d ds IH]; intros un al un' al' Q Hnd Hr; cbn [split_fixed] in Q.
  - ok_inj. cbn [length]. split; [lia|]. split; [intros [|k] d0 H; discriminate|]. repeat split; auto.
  - bind_inv Q as [un1 al1] H1.
    apply allocate_spec in H1; [|apply Hr; left; reflexivity].
    destruct H1 as [A1 [A2 [A3 [A4 [A5 A6]]]]].
    inversion Hnd as [|? ? Hnotin Hnd']; subst.
    apply IH in Q; [|exact Hnd'|intros x Hx; rewrite A4; apply Hr; right; exact Hx].
    destruct Q as [B1 [B2 [B3 [B4 B5]]]]. cbn [length].
    split; [rewrite B1, A2, sub_min_step; f_equal; lia|]. split; [|split; [|split]].
    + intros [|k] d0 Hk; cbn [nth_error] in Hk.
      * injection Hk as <-. rewrite B3.
        -- rewrite A3. f_equal. f_equal. lia.
        -- intros Hin. apply in_map_iff in Hin. destruct Hin as [x [Hx1 Hx2]].
           assert (x = d) by lia. subst x. contradiction.
      * rewrite (B2 k d0 Hk). rewrite A6.
        -- f_equal. f_equal. rewrite A2, sub_min_step. f_equal. lia.
        -- right. intros E. apply nth_error_In in Hk. assert (d0 = d) by lia. subst d0. contradiction.
    + intros n Hn. cbn [map In] in Hn. rewrite B3 by tauto. apply A6. right. intros E. apply Hn. left. lia.
    + intros r' Hne. destruct (B4 r' Hne) as [C1 C2]. split; [rewrite C1; apply A5; exact Hne|].
      intros n. rewrite C2. apply A6. left. exact Hne.
    + lia.
Qed.

(* ---------- edicts are applied in list order ---------- *)
Lemma apply_edicts_app outs et es1 es2 un al :
  apply_edicts outs et un al (es1 ++ es2) =
  do '(un1, al1) <- apply_edicts outs et un al es1; apply_edicts outs et un1 al1 es2.
Proof.
  revert un al. induction es1 as [|e es1 IH]; intros un al; cbn [app apply_edicts bind]; [reflexivity|].
  destruct (apply_edict outs et un al e) as [[un1 al1]|x|t]; cbn [bind]; [apply IH|reflexivity|reflexivity].
Qed.

(* ---------- leftovers ---------- *)
Lemma pour_getd r nz m : forall acc acc', pour nz m acc = Ok acc' -> getd r acc' = getd r acc + msum r m.
Proof.
  induction m as [|[k v] m IH]; intros acc acc' Q; cbn [pour] in Q; [ok_inj; cbn; lia|].
  destruct (nz && (v =? 0)) eqn:Ez.
  - apply IH in Q. rewrite Q. cbn [msum].
    apply andb_true_iff in Ez. destruct Ez as [_ Ez]. apply N.eqb_eq in Ez. subst v.
    destruct (id_eqb r k); lia.
  - bind_inv Q as acc1 H1. apply IH in Q. rewrite Q, (getd_add_to _ _ _ _ r H1). cbn [msum].
    destruct (id_eqb r k) eqn:E; [apply id_eqb_eq in E; subst k|]; lia.
Qed.

(* the output that receives what is left: the pointer, else the first non-OP_RETURN output *)
Definition default_output (outs : list bool) (art : option artifact) : option N :=
  match art with
  | Some (Runestone _ _ _ (Some p)) => Some p
  | _ => first_non_opreturn outs 0
  end.

Lemma default_phase_spec outs art un al al' burned :
  (forall et m, art <> Some (Cenotaph et m)) ->
  default_phase outs art un al = Ok (al', burned) -> length al = length outs ->
  match default_output outs art with
  | Some v =>
    (N.to_nat v < length al)%nat /\ burned = [] /\
    forall r k, cell r k al' = cell r k al + (if Nat.eqb k (N.to_nat v) then msum r un else 0)
  | None => al' = al /\ forall r, getd r burned = msum r un
  end.
Proof.
  intros Hnc Q L. unfold default_phase in Q.
  assert (Hgen : forall vr vout,
    vr = Ok vout -> (forall v, vout = Some v -> (N.to_nat v < length al)%nat) ->
    (do vout <- vr;
     match vout with
     | Some v => do m <- pour true un (nth (N.to_nat v) al []); Ok (set_nth (N.to_nat v) m al, [])
     | None => do b <- pour true un []; Ok (al, b) end) = Ok (al', burned) ->
    match vout with
    | Some v => (N.to_nat v < length al)%nat /\ burned = [] /\
                forall r k, cell r k al' = cell r k al + (if Nat.eqb k (N.to_nat v) then msum r un else 0)
    | None => al' = al /\ forall r, getd r burned = msum r un
    end).
  { intros vr vout -> Hb Q'. cbn [bind] in Q'. destruct vout as [v|].
    - bind_inv Q' as m Hm. ok_inj. specialize (Hb v eq_refl). split; [exact Hb|]. split; [reflexivity|].
      intros r k. rewrite cell_set_nth by exact Hb. destruct (Nat.eqb_spec k (N.to_nat v)) as [->|Hk]; [|lia].
      rewrite (pour_getd r _ _ _ _ Hm). reflexivity.
    - bind_inv Q' as b Hm. ok_inj. split; [reflexivity|]. intros r. rewrite (pour_getd r _ _ _ _ Hm). reflexivity. }
  destruct art as [[eds et m [p|]|et m]|]; cbn [default_output].
  - destruct (N.ltb_spec p (N.of_nat (length outs))) as [Hp|Hp]; [|discriminate].
    eapply (Hgen (Ok (Some p)) (Some p)); [reflexivity| |exact Q]. intros v E. injection E as <-. lia.
  - eapply (Hgen _ (first_non_opreturn outs 0)); [reflexivity| |exact Q].
    intros v E. apply first_non_opreturn_bound in E. lia.
  - exfalso. eapply Hnc. reflexivity.
  - eapply (Hgen _ (first_non_opreturn outs 0)); [reflexivity| |exact Q].
    intros v E. apply first_non_opreturn_bound in E. lia.
Qed.

(* ---------- storing: OP_RETURN allocations are burned, the others become balances ---------- *)
Fixpoint asum_sel (sel : bool) (r : id) (outs : list bool) (al : alloc) : N :=
  match outs, al with
  | o :: outs', m :: al' => (if Bool.eqb o sel then msum r m else 0) + asum_sel sel r outs' al'
  | _, _ => 0
  end.

Lemma store_outputs_split r txid : forall outs al vout bt burned bt' burned',
  store_outputs txid outs al vout bt burned = Ok (bt', burned') ->
  (forall v, vout <= v -> alookup op_eqb (txid, v) bt = None) ->
  tsum r bt' = tsum r bt + asum_sel false r outs al /\
  msum r burned' = msum r burned + asum_sel true r outs al.
Proof.
  induction outs as [|opret outs IH]; intros al vout bt burned bt' burned' Q Hf;
    destruct al as [|m al]; cbn [store_outputs] in Q; cbn [asum_sel]; try (ok_inj; split; lia).
  assert (Hf' : forall bt1, (forall k, op_eqb k (txid, vout) = false -> alookup op_eqb k bt1 = alookup op_eqb k bt) ->
                forall v, vout + 1 <= v -> alookup op_eqb (txid, v) bt1 = None).
  { intros bt1 Hsame v Hv. rewrite Hsame; [apply Hf; lia|].
    destruct (op_eqb (txid, v) (txid, vout)) eqn:E; [|reflexivity].
    apply op_eqb_eq in E. injection E as E. lia. }
  destruct m as [|kv m].
  - apply IH in Q; [|apply Hf'; auto]. cbn [msum]. destruct Q. destruct opret; cbn [Bool.eqb]; split; lia.
  - destruct opret; cbn [Bool.eqb].
    + bind_inv Q as b1 Hp. apply IH in Q; [|apply Hf'; auto].
      rewrite (pour_msum r _ _ _ _ Hp) in Q. destruct Q. split; lia.
    + apply IH in Q.
      * rewrite tsum_aupd_fresh in Q by (apply Hf; lia). destruct Q. split; lia.
      * apply Hf'. intros k Hk. rewrite (alookup_aupd op_eqb op_eqb_eq). rewrite Hk. reflexivity.
Qed.

(* ---------- cenotaph: everything unallocated (inputs + mint, never a premine) is burned ---------- *)
Lemma cenotaph_burns_all height time minimum txi u tx et m u' :
  tx_art tx = Some (Cenotaph et m) ->
  index_runes height time minimum txi u tx = Ok u' ->
  exists bt un st1 un1,
    unallocated (tx_ins tx) (s_balances (u_st u)) [] = Ok (bt, un) /\
    mint_phase height (set_balances (u_st u) bt) un (Cenotaph et m) = Ok (st1, un1) /\
    s_balances (u_st u') = bt /\
    forall r, msum r (u_burned u') = msum r (u_burned u) + msum r un1.
Proof.
  intros Ha Q. unfold index_runes in Q. rewrite Ha in Q.
  bind_inv Q as [bt un] Hun. exists bt, un.
  bind_inv Q as [[st1 un1] al1] Hart. bind_inv Q as [al2 burned] Hdef.
  bind_inv Q as [bt2 burned2] Hst. bind_inv Q as ub Hp. ok_inj. cbn [u_st u_burned].
  unfold art_phase in Hart. rewrite Ha in Hart.
  bind_inv Hart as [st2 un2] Hmint. bind_inv Hart as [st3 et3] Het. bind_inv Hart as [un4 al4] Hed.
  bind_inv Hart as st5 Hcr. ok_inj.
  cbn [edict_phase] in Hed. ok_inj.
  exists st2, un1. split; [exact Hun|]. split; [exact Hmint|].
  pose proof (mint_phase_frame _ _ _ _ _ _ Hmint) as [F1 _].
  pose proof (etched_frame _ _ _ _ _ _ _ _ Het) as [_ [E2 _]].
  cbn [default_phase] in Hdef. bind_inv Hdef as b Hb. ok_inj.
  rewrite store_outputs_empty in Hst. ok_inj.
  split.
  - cbn [set_balances s_balances].
    unfold create_phase in Hcr. destruct et3 as [[r3 rune3]|]; [|ok_inj; rewrite E2; exact F1].
    unfold create_rune_entry in Hcr. destruct (_ <=? _); [|discriminate]. ok_inj. cbn. rewrite E2. exact F1.
  - intros r. rewrite (pour_msum r _ _ _ _ Hp), (pour_msum r _ _ _ _ Hb). cbn [msum]. lia.
Qed.

(* ---------- composed statements used by Properties/C09.v ---------- *)
Lemma getd_of_lookup r un b : alookup id_eqb r un = Some b -> getd r un = b.
Proof. unfold getd. intros ->. reflexivity. Qed.

Lemma edict_single_spec outs etched_id un al e r b un' al' :
  length al = length outs ->
  ed_output e < N.of_nat (length outs) -> resolve etched_id e = Some r -> alookup id_eqb r un = Some b ->
  apply_edict outs etched_id un al e = Ok (un', al') ->
  let amt := if ed_amount e =? 0 then b else N.min (ed_amount e) b in
  getd r un' = b - amt /\
  cell r (N.to_nat (ed_output e)) al' = cell r (N.to_nat (ed_output e)) al + amt /\
  (forall r', r' <> r -> getd r' un' = getd r' un) /\
  (forall r' k, (r' <> r \/ k <> N.to_nat (ed_output e)) -> cell r' k al' = cell r' k al).
Proof.
  intros L Hlt Hr Hb Q amt. rewrite (edict_single _ _ _ _ _ _ _ Hlt Hr Hb) in Q.
  apply allocate_spec in Q; [|lia]. destruct Q as [_ [A2 [A3 [_ [A5 A6]]]]].
  rewrite (getd_of_lookup _ _ _ Hb) in A2. auto.
Qed.

Lemma edict_split_even_spec outs etched_id un al e r b un' al' :
  length al = length outs ->
  ed_output e = N.of_nat (length outs) -> ed_amount e = 0 ->
  resolve etched_id e = Some r -> alookup id_eqb r un = Some b ->
  destinations outs 0 <> [] ->
  apply_edict outs etched_id un al e = Ok (un', al') ->
  let ds := destinations outs 0 in let m := N.of_nat (length ds) in
  getd r un' = 0 /\
  (forall k d, nth_error ds k = Some d ->
     cell r (N.to_nat d) al' = cell r (N.to_nat d) al + b / m + (if N.of_nat k <? b mod m then 1 else 0)) /\
  (forall n, ~ In n (map N.to_nat ds) -> cell r n al' = cell r n al) /\
  (forall r', r' <> r -> getd r' un' = getd r' un /\ forall n, cell r' n al' = cell r' n al).
Proof.
  intros L Ho Ha Hr Hb Hne Q. cbv zeta. rewrite (edict_split _ _ _ _ _ _ _ Ho Hr Hb) in Q.
  destruct (destinations outs 0) as [|d0 ds0] eqn:Ed; [contradiction|]. rewrite Ha in Q. cbn [N.eqb] in Q.
  change (0 =? 0) with true in Q. cbv iota in Q.
  eapply split_even_all; [discriminate|exact (getd_of_lookup _ _ _ Hb)|exact Q| |].
  - rewrite <- Ed. apply destinations_lt.
  - rewrite <- Ed, L. apply destinations_in_range.
Qed.

Lemma edict_split_fixed_spec outs etched_id un al e r b un' al' :
  length al = length outs ->
  ed_output e = N.of_nat (length outs) -> ed_amount e <> 0 ->
  resolve etched_id e = Some r -> alookup id_eqb r un = Some b ->
  apply_edict outs etched_id un al e = Ok (un', al') ->
  let ds := destinations outs 0 in let a := ed_amount e in
  getd r un' = b - a * N.of_nat (length ds) /\
  (forall k d, nth_error ds k = Some d ->
     cell r (N.to_nat d) al' = cell r (N.to_nat d) al + N.min a (b - a * N.of_nat k)) /\
  (forall n, ~ In n (map N.to_nat ds) -> cell r n al' = cell r n al) /\
  (forall r', r' <> r -> getd r' un' = getd r' un /\ forall n, cell r' n al' = cell r' n al).
Proof.
  intros L Ho Ha Hr Hb Q. cbv zeta. rewrite (edict_split _ _ _ _ _ _ _ Ho Hr Hb) in Q.
  pose proof (getd_of_lookup _ _ _ Hb) as G.
  destruct (destinations outs 0) as [|d0 ds0] eqn:Ed.
  - injection Q as <- <-. cbn [length]. rewrite N.mul_0_r, N.sub_0_r.
    split; [exact G|]. split; [intros [|k] d H; discriminate|]. split; auto.
  - apply N.eqb_neq in Ha. rewrite Ha in Q.
    apply split_fixed_spec in Q.
    + destruct Q as [B1 [B2 [B3 [B4 _]]]]. rewrite G in B1, B2. auto.
    + rewrite <- Ed. apply destinations_lt.
    + rewrite <- Ed, L. apply destinations_in_range.
Qed.
