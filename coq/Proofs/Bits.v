(* Bit-level lemmas relating shifts/masks to arithmetic. *)
From OrdV Require Import Base.Prelude.

Lemma lor_shiftl_add acc v k :
  acc < 2 ^ k -> N.lor acc (N.shiftl v k) = acc + v * 2 ^ k.
Proof.
  intros H.
  rewrite N.shiftl_mul_pow2.
  rewrite <- N.lxor_lor.
  - rewrite <- N.add_nocarry_lxor; [reflexivity|].
    apply N.bits_inj; intros i. rewrite N.land_spec, N.bits_0.
    destruct (N.ltb_spec i k) as [Hlt|Hge].
    + rewrite N.mul_pow2_bits_low by assumption. apply andb_false_r.
    + replace (N.testbit acc i) with false; [reflexivity|].
      symmetry. destruct (N.eq_dec acc 0) as [->|Hnz]; [apply N.bits_0|].
      apply N.bits_above_log2. apply N.log2_lt_pow2; [lia|].
      eapply N.lt_le_trans; [exact H|]. apply N.pow_le_mono_r; lia.
  - apply N.bits_inj; intros i. rewrite N.land_spec, N.bits_0.
    destruct (N.ltb_spec i k) as [Hlt|Hge].
    + rewrite N.mul_pow2_bits_low by assumption. apply andb_false_r.
    + replace (N.testbit acc i) with false; [reflexivity|].
      symmetry. destruct (N.eq_dec acc 0) as [->|Hnz]; [apply N.bits_0|].
      apply N.bits_above_log2. apply N.log2_lt_pow2; [lia|].
      eapply N.lt_le_trans; [exact H|]. apply N.pow_le_mono_r; lia.
Qed.

Lemma land_ones_mod n k : N.land n (N.ones k) = n mod 2 ^ k.
Proof. apply N.land_ones. Qed.

Lemma land_255 n : N.land n 255 = n mod 256.
Proof. change 255 with (N.ones 8). rewrite N.land_ones. reflexivity. Qed.

Lemma land_127 n : N.land n 127 = n mod 128.
Proof. change 127 with (N.ones 7). rewrite N.land_ones. reflexivity. Qed.

Lemma shiftr_7 n : N.shiftr n 7 = n / 128.
Proof. rewrite N.shiftr_div_pow2. reflexivity. Qed.

(* finite sweep over one byte, lifted *)
Lemma byte_sweep (P : N -> bool) :
  forallb P (map N.of_nat (seq 0 256)) = true -> forall x, x < 256 -> P x = true.
Proof.
  intros H x Hx. rewrite forallb_forall in H. apply H.
  apply in_map_iff. exists (N.to_nat x). split; [lia|].
  apply in_seq. lia.
Qed.

Lemma lor_128_low x : x < 256 -> N.lor x 128 = x mod 128 + 128.
Proof.
  intros Hx.
  apply N.eqb_eq.
  apply (byte_sweep (fun x => N.eqb (N.lor x 128) (x mod 128 + 128))); [vm_compute; reflexivity|exact Hx].
Qed.

Lemma land_128_spec x : x < 256 -> (N.land x 128 =? 0) = (x <? 128).
Proof.
  intros Hx.
  apply Bool.eqb_prop.
  apply (byte_sweep (fun x => Bool.eqb (N.land x 128 =? 0) (x <? 128))); [vm_compute; reflexivity|exact Hx].
Qed.
