(* C08, shape of the balance table: stored balances are positive; new balance keys are
   non-OP_RETURN outputs of the transaction being indexed. *)
From OrdV Require Import Base.Prelude Generated Index.Runes Proofs.Runes_proofs Proofs.Runes_alloc Proofs.Runes_supply.
Require Import ZifyBool ZifyN.

Section InAssoc.
  Context {K V : Type} (eqb : K -> K -> bool).
  Lemma In_aupd (k : K) (v : V) x : forall l, In x (aupd eqb k v l) -> x = (k, v) \/ In x l.
  Proof.
    induction l as [|[k1 v1] l IH]; cbn [aupd]; [intros [H|[]]; auto|].
    destruct (eqb k k1); cbn [In]; [intros [H|H]; auto|intros [H|H]; [auto|apply IH in H; tauto]].
  Qed.
  Lemma In_aremove (k : K) (x : K * V) : forall l, In x (aremove eqb k l) -> In x l.
  Proof.
    induction l as [|[k1 v1] l IH]; cbn [aremove]; [auto|].
    destruct (eqb k k1); cbn [In]; [auto|intros [H|H]; auto].
  Qed.
End InAssoc.

Definition mpos (m : bmap) : Prop := forall r v, In (r, v) m -> 0 < v.
Definition tpos (bt : btable) : Prop := forall k m, In (k, m) bt -> mpos m /\ m <> [].

Lemma mpos_nil : mpos [].
Proof. intros r v []. Qed.

Lemma mpos_aupd r v m : mpos m -> 0 < v -> mpos (aupd id_eqb r v m).
Proof. intros H Hv r' v' Hin. apply In_aupd in Hin. destruct Hin as [E|Hin]; [injection E as -> ->; exact Hv|eapply H; exact Hin]. Qed.

Lemma add_to_mpos r v m m' : add_to r v m = Ok m' -> mpos m -> 0 < v -> mpos m'.
Proof. intros Q H Hv. apply add_to_ok in Q. destruct Q as [-> _]. apply mpos_aupd; [exact H|lia]. Qed.

Lemma add_to_nonempty r v m m' : add_to r v m = Ok m' -> m' <> [].
Proof. intros Q. apply add_to_ok in Q. destruct Q as [-> _]. destruct m as [|[k x] m]; cbn; [discriminate|]. destruct (id_eqb r k); discriminate. Qed.

Lemma Forall_nth_default (P : bmap -> Prop) : P [] -> forall n al, Forall P al -> P (nth n al []).
Proof. intros H0. induction n; destruct al; cbn; intros H; try exact H0; inversion H; auto. Qed.

Lemma Forall_set_nth {A} (P : A -> Prop) x : forall n l, Forall P l -> P x -> Forall P (set_nth n x l).
Proof. induction n; destruct l; cbn; intros H Hx; try constructor; inversion H; auto. Qed.

Lemma allocate_pos r un al amt o un' al' :
  allocate r un al amt o = Ok (un', al') -> Forall mpos al -> Forall mpos al'.
Proof.
  unfold allocate. destruct (N.ltb_spec 0 amt); [|intros Q; ok_inj; auto].
  intros Q Hal. bind_inv Q as b Hsub. bind_inv Q as m Hadd. ok_inj.
  apply Forall_set_nth; [exact Hal|]. eapply add_to_mpos; [exact Hadd| |exact H].
  apply Forall_nth_default; [exact mpos_nil|exact Hal].
Qed.

Lemma split_even_pos r amount remainder dests : forall i un al un' al',
  split_even r un al amount remainder i dests = Ok (un', al') -> Forall mpos al -> Forall mpos al'.
Proof.
  induction dests as [|o ds IH]; intros i un al un' al' Q Hal; cbn [split_even] in Q; [ok_inj; auto|].
  bind_inv Q as a Ha. bind_inv Q as [un1 al1] H1. eapply IH; [exact Q|]. eapply allocate_pos; eassumption.
Qed.

Lemma split_fixed_pos r amount dests : forall un al un' al',
  split_fixed r un al amount dests = Ok (un', al') -> Forall mpos al -> Forall mpos al'.
Proof.
  induction dests as [|o ds IH]; intros un al un' al' Q Hal; cbn [split_fixed] in Q; [ok_inj; auto|].
  bind_inv Q as [un1 al1] H1. eapply IH; [exact Q|]. eapply allocate_pos; eassumption.
Qed.

Lemma apply_edict_pos outs etched_id un al e un' al' :
  apply_edict outs etched_id un al e = Ok (un', al') -> Forall mpos al -> Forall mpos al'.
Proof.
  unfold apply_edict. intros Q Hal.
  destruct (_ <? ed_output e); [discriminate|].
  destruct (if id_eqb (ed_id e) (0, 0) then etched_id else Some (ed_id e)) as [r|]; [|ok_inj; auto].
  destruct (alookup id_eqb r un) as [balance|]; [|ok_inj; auto].
  destruct (ed_output e =? _).
  - destruct (destinations outs 0) as [|d ds]; [ok_inj; auto|].
    destruct (ed_amount e =? 0); [eapply split_even_pos|eapply split_fixed_pos]; eassumption.
  - eapply allocate_pos; eassumption.
Qed.

Lemma apply_edicts_pos outs etched_id es : forall un al un' al',
  apply_edicts outs etched_id un al es = Ok (un', al') -> Forall mpos al -> Forall mpos al'.
Proof.
  induction es as [|e es IH]; intros un al un' al' Q Hal; cbn [apply_edicts] in Q; [ok_inj; auto|].
  bind_inv Q as [un1 al1] H1. eapply IH; [exact Q|]. eapply apply_edict_pos; eassumption.
Qed.

Lemma art_phase_pos height time minimum txi st tx un al st' un' al' :
  art_phase height time minimum txi st tx un al = Ok (st', un', al') -> Forall mpos al -> Forall mpos al'.
Proof.
  unfold art_phase. destruct (tx_art tx) as [art|]; [|intros Q; ok_inj; auto].
  intros Q Hal. bind_inv Q as [st1 un1] Hmint. bind_inv Q as [st2 et] Het. bind_inv Q as [un2 al2] Hed.
  bind_inv Q as st3 Hcr. ok_inj. unfold edict_phase in Hed. destruct art as [eds etching m p|c m]; [|ok_inj; auto].
  bind_inv Hed as un3 Hpre. eapply apply_edicts_pos; eassumption.
Qed.

Lemma pour_true_pos m : forall acc acc', pour true m acc = Ok acc' -> mpos acc -> mpos acc'.
Proof.
  induction m as [|[k v] m IH]; intros acc acc' Q H; cbn [pour] in Q; [ok_inj; auto|].
  cbn [andb] in Q. destruct (N.eqb_spec v 0) as [E|E]; [eapply IH; eassumption|].
  bind_inv Q as acc1 H1. eapply IH; [exact Q|]. eapply add_to_mpos; [exact H1|exact H|lia].
Qed.

Lemma default_phase_pos outs art un al al' burned :
  default_phase outs art un al = Ok (al', burned) -> Forall mpos al -> Forall mpos al'.
Proof.
  intros Q Hal. unfold default_phase in Q.
  assert (Hgen : forall (vr : Res (option N)),
    (do vout <- vr;
     match vout with
     | Some v => do m <- pour true un (nth (N.to_nat v) al []); Ok (set_nth (N.to_nat v) m al, [])
     | None => do b <- pour true un []; Ok (al, b) end) = Ok (al', burned) -> Forall mpos al').
  { intros vr Q'. bind_inv Q' as vout Hv. destruct vout as [v|].
    - bind_inv Q' as m Hm. ok_inj. apply Forall_set_nth; [exact Hal|].
      eapply pour_true_pos; [exact Hm|]. apply Forall_nth_default; [exact mpos_nil|exact Hal].
    - bind_inv Q' as b Hm. ok_inj. exact Hal. }
  destruct art as [[eds et m p|et m]|].
  - eapply Hgen; exact Q.
  - bind_inv Q as b Hm. ok_inj. exact Hal.
  - eapply Hgen; exact Q.
Qed.

Lemma unallocated_tpos ins : forall bt un bt' un',
  unallocated ins bt un = Ok (bt', un') -> tpos bt -> tpos bt'.
Proof.
  induction ins as [|i ins IH]; intros bt un bt' un' Q H; cbn [unallocated] in Q; [ok_inj; exact H|].
  destruct (alookup op_eqb (in_txid i, in_vout i) bt) as [l|].
  - bind_inv Q as un1 H1. eapply IH; [exact Q|]. intros k m Hin. apply In_aremove in Hin. eapply H; exact Hin.
  - eapply IH; eassumption.
Qed.

(* new keys are (txid, vout) of non-OP_RETURN outputs; stored maps are positive and non-empty *)
Lemma store_outputs_shape txid : forall outs al vout bt burned bt' burned',
  store_outputs txid outs al vout bt burned = Ok (bt', burned') ->
  Forall mpos al -> tpos bt ->
  tpos bt' /\
  forall k, alookup op_eqb k bt' <> None ->
    alookup op_eqb k bt <> None \/
    (fst k = txid /\ vout <= snd k /\ nth (N.to_nat (snd k - vout)) outs true = false).
Proof.
  induction outs as [|opret outs IH]; intros al vout bt burned bt' burned' Q Hal Hbt;
    destruct al as [|m al]; cbn [store_outputs] in Q; try (ok_inj; split; [exact Hbt|intros k Hk; left; exact Hk]).
  assert (Hal' : Forall mpos al) by (inversion Hal; assumption).
  assert (Hm : mpos m) by (inversion Hal; assumption).
  assert (Hshift : forall (bt0 : btable) k,
     (alookup op_eqb k bt0 <> None \/ (fst k = txid /\ vout + 1 <= snd k /\ nth (N.to_nat (snd k - (vout + 1))) outs true = false)) ->
     (alookup op_eqb k bt0 <> None \/ (fst k = txid /\ vout <= snd k /\ nth (N.to_nat (snd k - vout)) (opret :: outs) true = false))).
  { intros bt0 k [H|[H1 [H2 H3]]]; [left; exact H|right]. split; [exact H1|]. split; [lia|].
    replace (N.to_nat (snd k - vout)) with (S (N.to_nat (snd k - (vout + 1)))) by lia. exact H3. }
  destruct m as [|kv m].
  - apply IH in Q; [|exact Hal'|exact Hbt]. destruct Q as [T K]. split; [exact T|]. intros k Hk. apply Hshift. apply K. exact Hk.
  - destruct opret.
    + bind_inv Q as b1 Hp. apply IH in Q; [|exact Hal'|exact Hbt]. destruct Q as [T K]. split; [exact T|].
      intros k Hk. apply Hshift. apply K. exact Hk.
    + apply IH in Q; [|exact Hal'|].
      * destruct Q as [T K]. split; [exact T|]. intros k Hk. apply K in Hk.
        destruct Hk as [Hk|Hk]; [|apply (Hshift bt); right; exact Hk].
        rewrite (alookup_aupd op_eqb op_eqb_eq) in Hk. destruct (op_eqb k (txid, vout)) eqn:E; [|left; exact Hk].
        apply op_eqb_eq in E. subst k. right. cbn [fst snd]. split; [reflexivity|]. split; [lia|].
        replace (N.to_nat (vout - vout)) with O by lia. reflexivity.
      * intros k m0 Hin. apply In_aupd in Hin. destruct Hin as [E|Hin]; [|eapply Hbt; exact Hin].
        injection E as _ ->. split; [exact Hm|discriminate].
Qed.

Lemma index_runes_shape height time minimum txi u tx u' :
  index_runes height time minimum txi u tx = Ok u' -> tpos (s_balances (u_st u)) ->
  tpos (s_balances (u_st u')) /\
  forall k, alookup op_eqb k (s_balances (u_st u')) <> None ->
    alookup op_eqb k (s_balances (u_st u)) <> None \/
    (fst k = tx_id tx /\ nth (N.to_nat (snd k)) (tx_outs tx) true = false).
Proof.
  unfold index_runes. intros Q Hbt.
  bind_inv Q as [bt un] Hun. bind_inv Q as [[st1 un1] al1] Hart. bind_inv Q as [al2 burned] Hdef.
  bind_inv Q as [bt2 burned2] Hst. bind_inv Q as ub Hp. ok_inj. cbn [u_st s_balances set_balances].
  pose proof (unallocated_tpos _ _ _ _ _ Hun Hbt) as T1.
  assert (B1 : s_balances st1 = bt).
  { unfold art_phase in Hart. destruct (tx_art tx) as [art|]; [|ok_inj; reflexivity].
    bind_inv Hart as [st2 un2] Hmint. bind_inv Hart as [st3 et] Het. bind_inv Hart as [un3 al3] Hed.
    bind_inv Hart as st4 Hcr. ok_inj.
    pose proof (mint_phase_frame _ _ _ _ _ _ Hmint) as [F1 _].
    pose proof (etched_frame _ _ _ _ _ _ _ _ Het) as [_ [E2 _]].
    unfold create_phase in Hcr. destruct et as [[r0 rune]|]; [|ok_inj; rewrite E2; exact F1].
    unfold create_rune_entry in Hcr. destruct (_ <=? _); [|discriminate]. ok_inj. cbn. rewrite E2. exact F1. }
  apply art_phase_pos in Hart; [|clear; induction (length (tx_outs tx)); cbn; constructor; [exact mpos_nil|assumption]].
  apply default_phase_pos in Hdef; [|exact Hart].
  apply store_outputs_shape in Hst; [|exact Hdef|rewrite B1; exact T1].
  destruct Hst as [T K]. split; [exact T|]. intros k Hk. apply K in Hk. rewrite B1 in Hk.
  destruct Hk as [Hk|[K1 [_ K3]]].
  - left. intros Hn. apply Hk. eapply unallocated_none; eassumption.
  - right. split; [exact K1|]. rewrite N.sub_0_r in K3. exact K3.
Qed.

(* per-entry style induction for the shape of the table *)
Lemma index_txs_tpos height time minimum txs : forall txi u u',
  index_txs height time minimum txi u txs = Ok u' -> tpos (s_balances (u_st u)) -> tpos (s_balances (u_st u')).
Proof.
  induction txs as [|tx txs IH]; intros txi u u' Q H; cbn [index_txs] in Q; [ok_inj; exact H|].
  bind_inv Q as u1 H1. eapply IH; [exact Q|]. eapply index_runes_shape; eassumption.
Qed.

Lemma index_block_tpos first height st b st' :
  index_block first height st b = Ok st' -> tpos (s_balances st) -> tpos (s_balances st').
Proof.
  unfold index_block. destruct (height <? first); intros Q H; [ok_inj; exact H|].
  bind_inv Q as u1 Htx. bind_inv Q as es1 Hup. ok_inj. cbn. eapply index_txs_tpos; [exact Htx|exact H].
Qed.

Lemma index_chain_tpos first bs : forall height st sts,
  index_chain first height st bs = Ok sts -> tpos (s_balances st) -> Forall (fun s => tpos (s_balances s)) sts.
Proof.
  induction bs as [|b bs IH]; intros height st sts Q H; cbn [index_chain] in Q; [ok_inj; constructor|].
  bind_inv Q as st1 Hblk. bind_inv Q as rest Hrest. ok_inj.
  pose proof (index_block_tpos _ _ _ _ _ Hblk H) as H1. constructor; [exact H1|]. eapply IH; eassumption.
Qed.

(* ---------- no output holds an unknown rune ---------- *)
Lemma msum_ge_In r v : forall m, In (r, v) m -> v <= msum r m.
Proof.
  induction m as [|[k x] m IH]; cbn [In msum]; [contradiction|].
  intros [E|H]; [injection E as -> ->; rewrite id_eqb_refl; lia|apply IH in H; lia].
Qed.
Lemma tsum_ge_In r k m : forall bt, In (k, m) bt -> msum r m <= tsum r bt.
Proof.
  induction bt as [|[k1 m1] bt IH]; cbn [In tsum fold_right snd]; [contradiction|].
  fold (tsum r bt). intros [E|H]; [injection E as -> ->; lia|apply IH in H; lia].
Qed.

Lemma conserved_known st k m r v :
  Conserved st -> tpos (s_balances st) -> In (k, m) (s_balances st) -> In (r, v) m ->
  has_entry r (s_entries st).
Proof.
  intros Hc Hp Hk Hr. unfold has_entry. intros Hn.
  specialize (Hc r). unfold supply, eburned in Hc. rewrite Hn in Hc.
  pose proof (tsum_ge_In r _ _ _ Hk). pose proof (msum_ge_In _ _ _ Hr).
  destruct (Hp _ _ Hk) as [P _]. specialize (P _ _ Hr). lia.
Qed.

(* ---------- chain level: every balance key is a non-OP_RETURN output of an indexed transaction ---------- *)
Definition key_ok (txs : list txm) (k : outpoint) : Prop :=
  exists tx, In tx txs /\ tx_id tx = fst k /\ nth (N.to_nat (snd k)) (tx_outs tx) true = false.

Lemma key_ok_mono txs txs' k : (forall x, In x txs -> In x txs') -> key_ok txs k -> key_ok txs' k.
Proof. intros H [tx [H1 H2]]. exists tx. split; [apply H; exact H1|exact H2]. Qed.

Lemma index_txs_keys height time minimum txs : forall txi u u',
  index_txs height time minimum txi u txs = Ok u' -> tpos (s_balances (u_st u)) ->
  forall k, alookup op_eqb k (s_balances (u_st u')) <> None ->
    alookup op_eqb k (s_balances (u_st u)) <> None \/ key_ok txs k.
Proof.
  induction txs as [|tx txs IH]; intros txi u u' Q Hp k Hk; cbn [index_txs] in Q; [ok_inj; left; exact Hk|].
  bind_inv Q as u1 H1. pose proof (index_runes_shape _ _ _ _ _ _ _ H1 Hp) as [Hp1 K1].
  destruct (IH _ _ _ Q Hp1 k Hk) as [H|H].
  - destruct (K1 k H) as [H'|[H2 H3]]; [left; exact H'|right]. exists tx. split; [left; reflexivity|]. split; [symmetry; exact H2|exact H3].
  - right. eapply key_ok_mono; [|exact H]. intros x Hx. right. exact Hx.
Qed.

Lemma index_block_keys first height st b st' :
  index_block first height st b = Ok st' -> tpos (s_balances st) ->
  forall k, alookup op_eqb k (s_balances st') <> None ->
    alookup op_eqb k (s_balances st) <> None \/ key_ok (b_txs b) k.
Proof.
  unfold index_block. destruct (height <? first); intros Q Hp k Hk; [ok_inj; left; exact Hk|].
  bind_inv Q as u1 Htx. bind_inv Q as es1 Hup. ok_inj. cbn [set_entries s_balances] in Hk.
  eapply index_txs_keys in Htx; [|exact Hp|exact Hk]. exact Htx.
Qed.

Fixpoint keys_ok_chain (seen : list txm) (bs : list block) (sts : list state) : Prop :=
  match bs, sts with
  | b :: bs', st :: sts' =>
    (forall k, alookup op_eqb k (s_balances st) <> None -> key_ok (seen ++ b_txs b) k) /\
    keys_ok_chain (seen ++ b_txs b) bs' sts'
  | _, _ => True
  end.

Lemma index_chain_keys first bs : forall height st sts seen,
  index_chain first height st bs = Ok sts -> tpos (s_balances st) ->
  (forall k, alookup op_eqb k (s_balances st) <> None -> key_ok seen k) ->
  keys_ok_chain seen bs sts.
Proof.
  induction bs as [|b bs IH]; intros height st sts seen Q Hp Hk; cbn [index_chain] in Q; [ok_inj; exact I|].
  bind_inv Q as st1 Hblk. bind_inv Q as rest Hrest. ok_inj. cbn [keys_ok_chain].
  assert (K : forall k, alookup op_eqb k (s_balances st1) <> None -> key_ok (seen ++ b_txs b) k).
  { intros k H. destruct (index_block_keys _ _ _ _ _ Hblk Hp k H) as [H'|H'].
    - eapply key_ok_mono; [|apply Hk; exact H']. intros x Hx. apply in_or_app. left. exact Hx.
    - eapply key_ok_mono; [|exact H']. intros x Hx. apply in_or_app. right. exact Hx. }
  split; [exact K|]. eapply IH; [exact Hrest|eapply index_block_tpos; eassumption|exact K].
Qed.
