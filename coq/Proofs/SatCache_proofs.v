(* The cache/table split is unobservable unless a spent input is shadowed (C01_except), and
   observable when it is (C01_known_refuted). *)
From OrdV Require Import Base.Prelude Generated Index.SatIndex Index.SatCache
  Proofs.SatIndex_proofs Proofs.SatIndex_partition.

Definition sim2 (c : cstate) (m : umap) : Prop :=
  nodupkeys (c_cache c) /\ forall o, aget op_eqb o m = view c o.

(* ------------------------------------------------------------------ the flag is monotone *)

Lemma mono_take : forall inps c rs c', take_inputs2 inps c = Ok (rs, c') -> c_shadow c = true -> c_shadow c' = true.
Proof.
  induction inps as [|i inps IH]; intros c rs c' H T; cbn [take_inputs2] in H.
  - inversion H; subst. exact T.
  - destruct (aget op_eqb i (c_cache c)).
    + apply bind_ok in H. destruct H as [[rest c1] [H1 H]]. inversion H; subst.
      apply (IH _ _ _ H1). cbn [c_shadow]. destruct (aget op_eqb i (c_table c)); [reflexivity|exact T].
    + destruct (aget op_eqb i (c_table c)); [|discriminate].
      apply bind_ok in H. destruct H as [[rest c1] [H1 H]]. inversion H; subst. apply (IH _ _ _ H1). exact T.
Qed.

Lemma mono_tx : forall t c c' lft w, index_tx2 t c = Ok (c', lft, w) -> c_shadow c = true -> c_shadow c' = true.
Proof.
  intros t c c' lft w0 H T. unfold index_tx2 in H.
  apply bind_ok in H. destruct H as [[irs c1] [H1 H]].
  apply bind_ok in H. destruct H as [[[ents l] w] [H2 H]]. inversion H; subst. cbn [c_shadow].
  exact (mono_take _ _ _ _ H1 T).
Qed.

Lemma mono_txs : forall ts c cbin w c' cbin' w', index_txs2 ts c cbin w = Ok (c', cbin', w') -> c_shadow c = true -> c_shadow c' = true.
Proof.
  induction ts as [|t ts IH]; intros c cbin w c' cbin' w' H T; cbn [index_txs2] in H.
  - inversion H; subst. exact T.
  - apply bind_ok in H. destruct H as [[[c1 lft] w1] [H1 H]]. apply (IH _ _ _ _ _ _ H). exact (mono_tx _ _ _ _ _ H1 T).
Qed.

Lemma flush2_shadow : forall c, c_shadow (flush2 c) = c_shadow c.
Proof. reflexivity. Qed.

Lemma mono_block : forall cm s b s', index_block2 cm s b = Ok s' -> c_shadow (s_c s) = true -> c_shadow (s_c s') = true.
Proof.
  intros cm s b s' H T. unfold index_block2 in H. destruct b as [|cb rest].
  - inversion H; subst. cbn [s_c]. destruct cm; [rewrite flush2_shadow|]; exact T.
  - apply bind_ok in H. destruct H as [[[c1 cbin] w1] [H1 H]].
    apply bind_ok in H. destruct H as [[[ents lostr] w] [H2 H]].
    destruct (lost_writes lostr (s_lost_sats s)) as [w3 ls]. inversion H; subst. cbn [s_c].
    pose proof (mono_txs _ _ _ _ _ _ _ H1 T) as T1. destruct cm; [rewrite flush2_shadow|]; exact T1.
Qed.

Lemma mono_run : forall c sched s s', run2_from sched s c = Ok s' -> c_shadow (s_c s) = true -> c_shadow (s_c s') = true.
Proof.
  induction c as [|b c IH]; intros sched s s' H T; cbn [run2_from] in H.
  - inversion H; subst. exact T.
  - destruct sched as [|x y]; apply bind_ok in H; destruct H as [s1 [H1 H]];
      apply (IH _ _ _ H); exact (mono_block _ _ _ _ H1 T).
Qed.

Lemma not_true_false : forall b, (b = true -> False) -> b = false.
Proof. intros [|] H; [exfalso; auto|reflexivity]. Qed.

(* ------------------------------------------------------------------ simulation *)

Lemma take_inputs2_sim : forall inps c m rs c',
  sim2 c m -> take_inputs2 inps c = Ok (rs, c') -> c_shadow c' = false ->
  exists m', take_inputs inps m = Ok (rs, m') /\ sim2 c' m' /\ c_shadow c = false.
Proof.
  induction inps as [|i inps IH]; intros c m rs c' [ND S] H F; cbn [take_inputs2] in H; cbn [take_inputs].
  - inversion H; subst. exists m. repeat split; assumption.
  - destruct (aget op_eqb i (c_cache c)) as [r0|] eqn:C.
    + apply bind_ok in H. destruct H as [[rest c1] [H1 H]]. inversion H; subst; clear H.
      assert (T : aget op_eqb i (c_table c) = None).
      { destruct (aget op_eqb i (c_table c)) eqn:T; [|reflexivity]. exfalso.
        rewrite (mono_take _ _ _ _ H1) in F; [discriminate|]. cbn [c_shadow]. reflexivity. }
      rewrite T in H1.
      assert (G : aget op_eqb i m = Some r0) by (rewrite S; unfold view; rewrite C; reflexivity).
      rewrite G.
      assert (S1 : sim2 (mkC (adel op_eqb i (c_cache c)) (c_table c) (c_shadow c)) (adel op_eqb i m)).
      { split; [apply adel_nodup; exact ND|]. intros o. unfold view. cbn [c_cache c_table].
        destruct (op_eqb_spec o i) as [E|E].
        - subst. rewrite !aget_adel_same. symmetry. exact T.
        - rewrite !aget_adel_other by exact E. apply S. }
      destruct (IH _ _ _ _ S1 H1 F) as [m' [A [B D]]]. rewrite A. cbn [bind].
      exists m'. repeat split; try apply B; exact D.
    + destruct (aget op_eqb i (c_table c)) as [r0|] eqn:T; [|discriminate].
      apply bind_ok in H. destruct H as [[rest c1] [H1 H]]. inversion H; subst; clear H.
      assert (G : aget op_eqb i m = Some r0) by (rewrite S; unfold view; rewrite C; exact T).
      rewrite G.
      assert (S1 : sim2 (mkC (c_cache c) (adel op_eqb i (c_table c)) (c_shadow c)) (adel op_eqb i m)).
      { split; [exact ND|]. intros o. unfold view. cbn [c_cache c_table].
        destruct (op_eqb_spec o i) as [E|E].
        - subst. rewrite C, !aget_adel_same. reflexivity.
        - rewrite !aget_adel_other by exact E. apply S. }
      destruct (IH _ _ _ _ S1 H1 F) as [m' [A [B D]]]. rewrite A. cbn [bind].
      exists m'. repeat split; try apply B; exact D.
Qed.

Lemma put_outputs_fst_indep : forall ents t v m d d',
  fst (put_outputs t v ents m d) = fst (put_outputs t v ents m d').
Proof.
  induction ents as [|e ents IH]; intros t v m d d'; cbn [put_outputs]; [reflexivity|]. apply IH.
Qed.

Lemma put_outputs_nodup : forall ents t v (m : umap) d, nodupkeys m -> nodupkeys (fst (put_outputs t v ents m d)).
Proof.
  induction ents as [|e ents IH]; intros t v m d ND; cbn [put_outputs]; [exact ND|].
  apply IH. apply aset_nodup. exact ND.
Qed.

Lemma put_outputs_sim : forall ents t v c m d d' sh,
  sim2 c m ->
  sim2 (mkC (fst (put_outputs t v ents (c_cache c) d)) (c_table c) sh) (fst (put_outputs t v ents m d')).
Proof.
  induction ents as [|e ents IH]; intros t v c m d d' sh [ND S]; cbn [put_outputs].
  - split; [exact ND|]. intros o. unfold view. cbn [c_cache c_table]. apply S.
  - apply (IH t (v + 1) (mkC (aset op_eqb (t, v) e (c_cache c)) (c_table c) sh)).
    split; [cbn [c_cache]; apply aset_nodup; exact ND|].
    intros o. unfold view. cbn [c_cache c_table].
    destruct (op_eqb_spec o (t, v)) as [E|E].
    + subst. rewrite !aget_aset_same. reflexivity.
    + rewrite !aget_aset_other by exact E. apply S.
Qed.

Lemma index_tx2_sim : forall t c m c' lft w,
  sim2 c m -> index_tx2 t c = Ok (c', lft, w) -> c_shadow c' = false ->
  exists m' d, index_tx t m = Ok (m', lft, w, d) /\ sim2 c' m' /\ c_shadow c = false.
Proof.
  intros t c m c' lft w0 S H F. unfold index_tx2 in H. unfold index_tx.
  apply bind_ok in H. destruct H as [[irs c1] [H1 H]].
  apply bind_ok in H. destruct H as [[[ents l] w] [H2 H]]. inversion H; subst; clear H.
  cbn [c_shadow] in F.
  destruct (take_inputs2_sim _ _ _ _ _ S H1 F) as [m0 [A [B D]]].
  rewrite A. cbn [bind]. rewrite H2. cbn [bind].
  destruct (put_outputs (txid t) 0 ents m0 []) as [m2 d2] eqn:P.
  exists m2, d2. split; [reflexivity|]. split; [|exact D].
  pose proof (put_outputs_sim ents (txid t) 0 c1 m0 [] [] (c_shadow c1) B) as Q. rewrite P in Q. exact Q.
Qed.

Lemma index_txs2_sim : forall ts c m cbin c' cbin' w w' d,
  sim2 c m -> index_txs2 ts c cbin w = Ok (c', cbin', w') -> c_shadow c' = false ->
  exists m' d', index_txs ts m cbin w d = Ok (m', cbin', w', d') /\ sim2 c' m' /\ c_shadow c = false.
Proof.
  induction ts as [|t ts IH]; intros c m cbin c' cbin' w w' d S H F; cbn [index_txs2] in H; cbn [index_txs].
  - inversion H; subst. exists m, d. split; [reflexivity|]. split; [exact S|exact F].
  - apply bind_ok in H. destruct H as [[[c1 lft] w1] [H1 H]].
    assert (F1 : c_shadow c1 = false) by (apply not_true_false; intros T; rewrite (mono_txs _ _ _ _ _ _ _ H T) in F; discriminate).
    destruct (index_tx2_sim _ _ _ _ _ _ S H1 F1) as [m1 [d1 [A [B D]]]].
    rewrite A. cbn [bind].
    destruct (IH _ _ _ _ _ _ _ (d ++ d1) B H F) as [m' [d' [A2 [B2 _]]]].
    exists m', d'. split; [exact A2|]. split; [exact B2|exact D].
Qed.

Lemma fold_aset_get : forall (c : umap) tb o,
  nodupkeys c ->
  aget op_eqb o (fold_left (fun tb kv => aset op_eqb (fst kv) (snd kv) tb) c tb) =
  match aget op_eqb o c with Some e => Some e | None => aget op_eqb o tb end.
Proof.
  induction c as [|[k v] c IH]; intros tb o ND; cbn [fold_left fst snd]; [reflexivity|].
  inversion ND as [|x l N1 N2]; subst. rewrite IH by exact N2. cbn [aget].
  destruct (op_eqb_spec o k) as [E|E].
  - subst. destruct (aget op_eqb k c) eqn:G.
    + exfalso. apply N1. eapply aget_in_keys. exact G.
    + apply aget_aset_same.
  - destruct (aget op_eqb o c); [reflexivity|]. apply aget_aset_other. exact E.
Qed.

Lemma flush2_sim : forall c m, sim2 c m -> sim2 (flush2 c) m.
Proof.
  intros c m [ND S]. split; [constructor|]. intros o. unfold view, flush2. cbn [c_cache c_table aget].
  rewrite fold_aset_get by exact ND. apply S.
Qed.

Definition same_rest (s : state2) (st : state) : Prop :=
  s_lost s = lost st /\ s_lost_sats s = lost_sats st /\ s_s2sp s = s2sp st /\ s_height s = height st.

Lemma index_block2_sim : forall cm s st b s',
  sim2 (s_c s) (utxo st) -> same_rest s st ->
  index_block2 cm s b = Ok s' -> c_shadow (s_c s') = false ->
  exists st', index_block st b = Ok st' /\ sim2 (s_c s') (utxo st') /\ same_rest s' st' /\ c_shadow (s_c s) = false.
Proof.
  intros cm s st b s' S [EL [ELS [ES EH]]] H F. unfold index_block2 in H. unfold index_block. rewrite <- EH.
  destruct b as [|cb rest].
  - inversion H; subst; clear H. eexists. split; [reflexivity|]. unfold same_rest.
    cbn [utxo lost lost_sats s2sp height s_c s_lost s_lost_sats s_s2sp s_height] in *.
    destruct cm.
    + rewrite flush2_shadow in F. split; [apply flush2_sim; exact S|]. split; [|exact F].
      repeat split; try assumption; try (rewrite EH; reflexivity).
    + split; [exact S|]. split; [|exact F]. repeat split; try assumption; try (rewrite EH; reflexivity).
  - apply bind_ok in H. destruct H as [[[c1 cbin] w1] [H1 H]].
    apply bind_ok in H. destruct H as [[[ents lostr] w2] [H2 H]].
    rewrite ELS in H. destruct (lost_writes lostr (lost_sats st)) as [w3 ls] eqn:LW.
    inversion H; subst; clear H. cbn [s_c s_lost s_lost_sats s_s2sp s_height] in *.
    set (c2 := mkC (fst (put_outputs (txid cb) 0 ents (c_cache c1) [])) (c_table c1) (c_shadow c1)) in *.
    assert (F2 : c_shadow c1 = false) by (destruct cm; [rewrite flush2_shadow in F|]; exact F).
    destruct (index_txs2_sim _ _ _ _ _ _ _ _ [] S H1 F2) as [m1 [d1 [A [B D]]]].
    rewrite A. cbn [bind]. rewrite H2. cbn [bind].
    destruct (put_outputs (txid cb) 0 ents m1 []) as [m2 d2] eqn:P. rewrite LW.
    eexists. split; [reflexivity|]. unfold same_rest. cbn [utxo lost lost_sats s2sp height].
    pose proof (put_outputs_sim ents (txid cb) 0 c1 m1 [] [] (c_shadow c1) B) as Q. rewrite P in Q. cbn [fst] in Q.
    fold c2 in Q. rewrite EL, ES.
    destruct cm.
    + split; [apply flush2_sim; exact Q|]. split; [|exact D]. repeat split; try (rewrite EH; reflexivity).
    + split; [exact Q|]. split; [|exact D]. repeat split; try (rewrite EH; reflexivity).
Qed.

Lemma run2_from_sim : forall c sched s st s',
  sim2 (s_c s) (utxo st) -> same_rest s st ->
  run2_from sched s c = Ok s' -> c_shadow (s_c s') = false ->
  exists st', run_from st c = Ok st' /\ sim2 (s_c s') (utxo st') /\ same_rest s' st'.
Proof.
  induction c as [|b c IH]; intros sched s st s' S E H F; cbn [run2_from] in H; cbn [run_from].
  - inversion H; subst. exists st. split; [reflexivity|]. split; assumption.
  - destruct sched as [|x y]; apply bind_ok in H; destruct H as [s1 [H1 H]].
    + assert (F1 : c_shadow (s_c s1) = false) by (apply not_true_false; intros T; rewrite (mono_run _ _ _ _ H T) in F; discriminate).
      destruct (index_block2_sim _ _ _ _ _ S E H1 F1) as [st1 [A [B [C _]]]].
      rewrite A. cbn [bind]. exact (IH _ _ _ _ B C H F).
    + assert (F1 : c_shadow (s_c s1) = false) by (apply not_true_false; intros T; rewrite (mono_run _ _ _ _ H T) in F; discriminate).
      destruct (index_block2_sim _ _ _ _ _ S E H1 F1) as [st1 [A [B [C _]]]].
      rewrite A. cbn [bind]. exact (IH _ _ _ _ B C H F).
Qed.

(* whatever the commit schedule: if no spent input was shadowed, the cache/table index holds, for
   every outpoint, exactly what the one-map model holds, the same lost ranges, LostSats statistic
   and SAT_TO_SATPOINT *)
Theorem cache_split_unobservable : forall sched c s2,
  run2 sched c = Ok s2 -> c_shadow (s_c s2) = false ->
  exists st, run c = Ok st /\ (forall o, view (s_c s2) o = aget op_eqb o (utxo st)) /\
             s_lost s2 = lost st /\ s_lost_sats s2 = lost_sats st /\ s_s2sp s2 = s2sp st /\ s_height s2 = height st.
Proof.
  intros sched c s2 H F.
  destruct (run2_from_sim c sched init2 init s2) as [st [A [[_ B] [C [D [E G]]]]]]; try assumption.
  - split; [constructor|]. intros o. reflexivity.
  - repeat split.
  - exists st. split; [exact A|]. split; [intros o; symmetry; apply B|]. repeat split; assumption.
Qed.
