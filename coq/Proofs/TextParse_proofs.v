(* Totality and soundness of SpacedRune, InscriptionId, SatPoint, explorer-query and Outgoing
   parsers (C31). *)
From OrdV Require Import Base.Prelude Generated Ord.Decimal Ord.Rune Ord.SatParse Ord.TextParse
  Proofs.Rune_proofs Proofs.Spaced_proofs Proofs.Decimal_proofs Proofs.DecimalParse_proofs
  Proofs.SatParse_proofs.
Require Import ZifyBool ZifyN.
Ltac Zify.zify_post_hook ::= Z.div_mod_to_equations.

(* ------------------------------------------------------------ SpacedRune soundness *)
Definition is_spacer (c : N) : bool := (c =? DOT) || (c =? BULLET).
Definition letters (s : list N) : list N := filter is_upper s.

(* the spacer bitmask written in a string: a spacer seen after [len] letters sets bit len-1 *)
Fixpoint spec_bits (s : list N) (len : N) : N :=
  match s with
  | [] => 0
  | c :: r => if is_upper c then spec_bits r (len + 1) else N.lor (2 ^ (len - 1)) (spec_bits r len)
  end.

Lemma sp_loop_sound : forall s rune len sp r l sp',
  sp_loop s rune len sp = Ok (r, l, sp') ->
  r = rev rune ++ letters s /\ l = len + N.of_nat (length (letters s)) /\
  sp' = N.lor sp (spec_bits s len) /\
  forallb (fun c => is_upper c || is_spacer c) s = true.
Proof.
  induction s as [|c t IH]; intros rune len sp r l sp' H.
  - cbn in H. injection H as <- <- <-. cbn. rewrite app_nil_r, N.lor_0_r. repeat split; lia.
  - cbn [sp_loop] in H. unfold letters. cbn [filter spec_bits forallb]. fold (letters t).
    destruct (is_upper c) eqn:U.
    + destruct (IH _ _ _ _ _ _ H) as (A & B & C & D). cbn [orb andb length].
      repeat split; try assumption.
      * rewrite A. cbn [rev]. rewrite <- app_assoc. reflexivity.
      * lia.
    + fold (is_spacer c) in H. destruct (is_spacer c) eqn:S; [|discriminate].
      destruct (len =? 0); [discriminate|]. destruct (32 <=? len - 1); [discriminate|].
      destruct (N.testbit sp (len - 1)); [discriminate|].
      destruct (IH _ _ _ _ _ _ H) as (A & B & C & D). cbn [orb andb].
      repeat split; try assumption. rewrite C, N.lor_assoc. reflexivity.
Qed.

(* an accepted spaced rune: only letters and spacers; the letters are the name of the rune;
   the spacers are exactly the written ones and all lie below the last letter *)
Definition spaced_denotes (s : list N) (n sp : N) : Prop :=
  forallb (fun c => is_upper c || is_spacer c) s = true /\
  show n = letters s /\ sp = spec_bits s 0 /\
  N.size sp < N.of_nat (length (letters s)).

Lemma spaced_parse_sound s n sp : spaced_parse s = Ok (n, sp) -> spaced_denotes s n sp /\ n < P128.
Proof.
  unfold spaced_parse. destruct (sp_loop s [] 0 0) as [[[r l] sp']| |] eqn:E; cbn [bind]; try discriminate.
  destruct (sp_loop_sound _ _ _ _ _ _ _ E) as (A & B & C & D). cbn [rev app] in A. rewrite N.lor_0_l in C.
  destruct (N.leb_spec l (N.size sp')) as [|HL]; [discriminate|].
  destruct (parse r) as [m| |] eqn:P; cbn [bind]; try discriminate.
  intro Heq. injection Heq as <- <-. destruct (show_parse _ _ P) as [Hm Hs].
  split; [|exact Hm]. subst. repeat split; try assumption; try lia.
Qed.

(* ------------------------------------------------------------ list helpers *)
Lemma nth_error_skipn {A} : forall n (s : list A) x, nth_error s n = Some x ->
  skipn n s = x :: skipn (S n) s.
Proof.
  induction n as [|n IH]; intros [|a s] x H; try discriminate.
  - injection H as <-. reflexivity.
  - cbn [nth_error] in H. cbn [skipn]. rewrite (IH _ _ H). reflexivity.
Qed.

Lemma nth_error_some_of_length {A} (s : list A) n : (n < length s)%nat -> exists x, nth_error s n = Some x.
Proof.
  intro H. destruct (nth_error s n) eqn:E; [eauto|]. apply nth_error_None in E. lia.
Qed.

(* ------------------------------------------------------------ hashes *)
Definition hash_denotes (h : list N) (v : N) : Prop :=
  length h = 64%nat /\ forallb is_hex h = true /\ v = hex_val h.

Lemma hash_from_str_ok h v : hash_from_str h = Ok v -> hash_denotes h v.
Proof.
  unfold hash_from_str, hash_denotes. destruct (Nat.eqb_spec (length h) 64); cbn [andb]; [|discriminate].
  destruct (forallb is_hex h); [|discriminate]. intro Heq. injection Heq as <-. auto.
Qed.

Lemma hash_from_str_total h t : hash_from_str h <> Panic t.
Proof. unfold hash_from_str. destruct (_ && _); discriminate. Qed.

(* ------------------------------------------------------------ InscriptionId *)
Definition inscription_id_denotes (s : list N) (txid index : N) : Prop :=
  exists h v, s = h ++ C_I :: v /\ hash_denotes h txid /\ uint_lit v index /\ index < P32.

Lemma inscription_id_sound s t i : inscription_id_from_str s = Ok (t, i) -> inscription_id_denotes s t i.
Proof.
  unfold inscription_id_from_str. destruct (negb _); [discriminate|].
  destruct (Nat.ltb_spec (length s) 66); [discriminate|].
  destruct (nth_error s 64) as [sep|] eqn:NE; [|discriminate].
  destruct (N.eqb_spec sep C_I) as [->|]; cbn [negb]; [|discriminate].
  destruct (hash_from_str (firstn 64 s)) as [t'| |] eqn:HH; try discriminate.
  destruct (parse_uint P32 (skipn 65 s)) as [i'| |] eqn:PI; try discriminate.
  intro Heq. injection Heq as <- <-.
  exists (firstn 64 s), (skipn 65 s). split.
  - rewrite <- (nth_error_skipn _ _ _ NE). symmetry. apply firstn_skipn.
  - split; [exact (hash_from_str_ok _ _ HH)|exact (parse_uint_ok _ _ _ PI)].
Qed.

Lemma inscription_id_total s t : inscription_id_from_str s <> Panic t.
Proof.
  unfold inscription_id_from_str. destruct (negb _); [discriminate|].
  destruct (Nat.ltb_spec (length s) 66); [discriminate|].
  destruct (nth_error_some_of_length s 64 ltac:(lia)) as [x ->].
  destruct (negb _); [discriminate|].
  destruct (hash_from_str (firstn 64 s)) eqn:HH; try discriminate.
  - destruct (parse_uint P32 (skipn 65 s)) eqn:PI; try discriminate.
    exfalso. exact (parse_uint_total _ _ _ PI).
  - exfalso. exact (hash_from_str_total _ _ HH).
Qed.

(* ------------------------------------------------------------ OutPoint / SatPoint *)
Lemma rsplit_once_some c s a b : rsplit_once c s = Some (a, b) -> s = a ++ c :: b /\ ~ In c b.
Proof.
  unfold rsplit_once. destruct (split_once c (rev s)) as [[b' a']|] eqn:E; [|discriminate].
  intro Heq. injection Heq as <- <-. destruct (split_once_some _ _ _ _ E) as [R Hn]. split.
  - rewrite <- (rev_involutive s), R, rev_app_distr. cbn [rev]. rewrite <- app_assoc. reflexivity.
  - intro I. apply Hn. apply in_rev. exact I.
Qed.

(* canonical vout: decimal digits without sign, no leading zero unless it is "0" *)
Definition outpoint_denotes (s : list N) (txid vout : N) : Prop :=
  exists h v, s = h ++ C_COLON :: v /\ hash_denotes h txid /\
    v <> [] /\ forallb is_digit v = true /\ vout = dec_val v /\ vout < P32.

Lemma outpoint_sound s t v : outpoint_from_str s = Ok (t, v) -> outpoint_denotes s t v.
Proof.
  unfold outpoint_from_str. destruct (negb _); [discriminate|].
  destruct (_ <? _)%nat; [discriminate|].
  destruct (split_once C_COLON s) as [[hs vs]|] eqn:SP; [|discriminate].
  destruct (split_once_some _ _ _ _ SP) as [-> _].
  destruct (existsb _ vs); [discriminate|].
  destruct (is_nil hs || is_nil vs); [discriminate|].
  destruct (hash_from_str hs) as [t'| |] eqn:HH; try discriminate.
  set (nc := match vs with c :: _ :: _ => (c =? C_ZERO) || (c =? C_PLUS) | _ => false end).
  destruct nc eqn:NC; [discriminate|].
  destruct (parse_uint P32 vs) as [v'| |] eqn:PV; try discriminate.
  intro Heq. injection Heq as <- <-.
  destruct (parse_uint_ok _ _ _ PV) as [(ds & [E|E] & Dne & Dd & Dv) B].
  - exists hs, vs. subst ds. split; [reflexivity|]. split; [exact (hash_from_str_ok _ _ HH)|].
    repeat split; assumption.
  - (* a leading '+' is excluded: alone it does not parse, followed by anything it is non-canonical *)
    exfalso. subst vs. destruct ds as [|d ds]; [congruence|]. unfold nc in NC. cbn in NC. discriminate.
Qed.

Definition satpoint_denotes (s : list N) (txid vout offset : N) : Prop :=
  exists o off, s = o ++ C_COLON :: off /\ outpoint_denotes o txid vout /\
    uint_lit off offset /\ offset < P64.

Lemma satpoint_sound s t v o : satpoint_from_str s = Ok (t, v, o) -> satpoint_denotes s t v o.
Proof.
  unfold satpoint_from_str. destruct (rsplit_once C_COLON s) as [[op off]|] eqn:SP; [|discriminate].
  destruct (rsplit_once_some _ _ _ _ SP) as [-> _].
  destruct (outpoint_from_str op) as [[t' v']| |] eqn:OP; try discriminate.
  destruct (parse_uint P64 off) as [o'| |] eqn:PO; try discriminate.
  intro Heq. injection Heq as <- <- <-. exists op, off.
  split; [reflexivity|]. split; [exact (outpoint_sound _ _ _ OP)|exact (parse_uint_ok _ _ _ PO)].
Qed.

Lemma outpoint_total s t : outpoint_from_str s <> Panic t.
Proof.
  unfold outpoint_from_str. destruct (negb _); [discriminate|]. destruct (_ <? _)%nat; [discriminate|].
  destruct (split_once C_COLON s) as [[hs vs]|]; [|discriminate].
  destruct (existsb _ vs); [discriminate|]. destruct (_ || _); [discriminate|].
  destruct (hash_from_str hs) eqn:HH; try discriminate.
  - destruct (match vs with c :: _ :: _ => _ | _ => false end); [discriminate|].
    destruct (parse_uint P32 vs) eqn:PV; try discriminate. exfalso. exact (parse_uint_total _ _ _ PV).
  - exfalso. exact (hash_from_str_total _ _ HH).
Qed.

Lemma satpoint_total s t : satpoint_from_str s <> Panic t.
Proof.
  unfold satpoint_from_str. destruct (rsplit_once C_COLON s) as [[op off]|]; [|discriminate].
  destruct (outpoint_from_str op) as [[t' v']| |] eqn:OP; try discriminate.
  - destruct (parse_uint P64 off) eqn:PO; try discriminate. exfalso. exact (parse_uint_total _ _ _ PO).
  - exfalso. exact (outpoint_total _ _ OP).
Qed.

(* ------------------------------------------------------------ explorer queries *)
Lemma parse_i32_total s t : parse_i32 s <> Panic t.
Proof.
  unfold parse_i32. destruct s as [|c r]; [discriminate|]. destruct (c =? C_MINUS).
  - destruct r; [discriminate|]. destruct (forallb _ _); [|discriminate]. destruct (_ <=? _); discriminate.
  - destruct (parse_uint 2147483648 (c :: r)) eqn:P; try discriminate. exfalso. exact (parse_uint_total _ _ _ P).
Qed.

(* an i32 literal: optional sign, digits; the value is the signed number written *)
Definition int_lit (s : list N) (z : Z) : Prop :=
  (exists ds, s = C_MINUS :: ds /\ ds <> [] /\ forallb is_digit ds = true /\ z = (- Z.of_N (dec_val ds))%Z) \/
  (exists v, uint_lit s v /\ z = Z.of_N v).

Lemma parse_i32_sound s z : parse_i32 s = Ok z -> int_lit s z /\ (-2147483648 <= z <= 2147483647)%Z.
Proof.
  unfold parse_i32. destruct s as [|c r]; [discriminate|]. destruct (N.eqb_spec c C_MINUS) as [->|NE].
  - destruct r as [|d r]; [discriminate|]. destruct (forallb is_digit (d :: r)) eqn:D; [|discriminate].
    destruct (N.leb_spec (dec_val (d :: r)) 2147483648); [|discriminate].
    intro Heq. injection Heq as <-. split; [|lia]. left. exists (d :: r). repeat split; auto. discriminate.
  - destruct (parse_uint 2147483648 (c :: r)) as [v| |] eqn:P; try discriminate.
    intro Heq. injection Heq as <-. destruct (parse_uint_ok _ _ _ P) as [L B].
    split; [right; exists v; auto|lia].
Qed.

Definition qblock_denotes (s : list N) (q : qblock) : Prop :=
  match q with
  | BHeight h => uint_lit s h /\ h < P32 /\ length s <> 64%nat
  | BHash h => hash_denotes s h
  end.

Lemma query_block_sound s q : query_block s = Ok q -> qblock_denotes s q.
Proof.
  unfold query_block. destruct (negb _); [discriminate|].
  destruct (Nat.eqb_spec (length s) 64).
  - destruct (hash_from_str s) eqn:HH; try discriminate. intro Heq. injection Heq as <-.
    exact (hash_from_str_ok _ _ HH).
  - destruct (parse_uint P32 s) eqn:P; try discriminate. intro Heq. injection Heq as <-.
    destruct (parse_uint_ok _ _ _ P). cbn. auto.
Qed.

Lemma query_block_total s t : query_block s <> Panic t.
Proof.
  unfold query_block. destruct (negb _); [discriminate|]. destruct (_ =? _)%nat.
  - destruct (hash_from_str s) eqn:HH; try discriminate. exfalso. exact (hash_from_str_total _ _ HH).
  - destruct (parse_uint P32 s) eqn:P; try discriminate. exfalso. exact (parse_uint_total _ _ _ P).
Qed.

Definition qinscription_denotes (s : list N) (q : qinscription) : Prop :=
  match q with
  | QId t i => inscription_id_denotes s t i
  | QNumber z => int_lit s z /\ (-2147483648 <= z <= 2147483647)%Z
  | QSat n => name_denotes s n /\ n <= LAST
  end.

Lemma query_inscription_sound fc s q : query_inscription fc s = Ok q -> qinscription_denotes s q.
Proof.
  unfold query_inscription. destruct (re_inscription_id s).
  - destruct (inscription_id_from_str s) as [[t i]| |] eqn:E; try discriminate.
    intro Heq. injection Heq as <-. exact (inscription_id_sound _ _ _ E).
  - destruct (re_number_63 s).
    + destruct (parse_i32 s) eqn:E; try discriminate. intro Heq. injection Heq as <-. exact (parse_i32_sound _ _ E).
    + destruct (re_sat_name s) eqn:R; [|discriminate].
      destruct (sat_from_str fc s) eqn:E; try discriminate. intro Heq. injection Heq as <-.
      destruct (sat_from_str_sound _ _ _ E) as [D B]. unfold sat_denotes in D.
      unfold re_sat_name in R. apply andb_prop in R. destruct R as [R1 R2]. apply andb_prop in R1. destruct R1 as [R0 _].
      assert (X : existsb is_lower s = true).
      { destruct s as [|c r]; [cbn in R0; discriminate|]. cbn [forallb] in R2. apply andb_prop in R2.
        cbn [existsb]. destruct R2 as [-> _]. reflexivity. }
      rewrite X in D. cbn. auto.
Qed.

Lemma query_inscription_total fc s t : query_inscription fc s <> Panic t.
Proof.
  unfold query_inscription. destruct (re_inscription_id s).
  - destruct (inscription_id_from_str s) as [[? ?]| |] eqn:E; try discriminate. exfalso. exact (inscription_id_total _ _ E).
  - destruct (re_number_63 s).
    + destruct (parse_i32 s) eqn:E; try discriminate. exfalso. exact (parse_i32_total _ _ E).
    + destruct (re_sat_name s); [|discriminate].
      destruct (sat_from_str fc s) eqn:E; try discriminate. exfalso. exact (sat_from_str_total _ _ _ E).
Qed.

Definition qrune_denotes (s : list N) (q : qrune) : Prop :=
  match q with
  | RSpaced n sp => spaced_denotes s n sp /\ n < P128
  | RId b t => rune_id_denotes s b t /\ b < P64 /\ t < P32
  | RNumber n => uint_lit s n /\ n < P64
  end.

Lemma query_rune_sound s q : query_rune s = Ok q -> qrune_denotes s q.
Proof.
  unfold query_rune. destruct (existsb _ s).
  - destruct (rune_id_from_str s) as [[b t]| |] eqn:E; try discriminate. intro Heq. injection Heq as <-.
    exact (rune_id_sound _ _ _ E).
  - destruct (re_number s).
    + destruct (parse_uint P64 s) eqn:E; try discriminate. intro Heq. injection Heq as <-. exact (parse_uint_ok _ _ _ E).
    + destruct (spaced_parse s) as [[n sp]| |] eqn:E; try discriminate. intro Heq. injection Heq as <-.
      exact (spaced_parse_sound _ _ _ E).
Qed.

Lemma query_rune_total s t : query_rune s <> Panic t.
Proof.
  unfold query_rune. destruct (existsb _ s).
  - destruct (rune_id_from_str s) as [[? ?]| |] eqn:E; try discriminate. exfalso. exact (rune_id_total _ _ E).
  - destruct (re_number s).
    + destruct (parse_uint P64 s) eqn:E; try discriminate. exfalso. exact (parse_uint_total _ _ _ E).
    + destruct (spaced_parse s) as [[? ?]| |] eqn:E; try discriminate. exfalso. exact (spaced_parse_total _ _ E).
Qed.

(* ------------------------------------------------------------ Outgoing *)
Lemma drop_ws_suffix s : exists w, s = w ++ drop_ws s /\ forallb is_ws w = true.
Proof.
  induction s as [|c r IH]; [exists []; auto|]. cbn [drop_ws]. destruct (is_ws c) eqn:W.
  - destruct IH as (w & E & F). exists (c :: w). cbn [app forallb]. rewrite W, F, <- E. auto.
  - exists []. auto.
Qed.

Lemma drop_trailing_ws_prefix s : exists w, s = drop_trailing_ws s ++ w /\ forallb is_ws w = true.
Proof.
  unfold drop_trailing_ws. destruct (drop_ws_suffix (rev s)) as (w & E & F).
  exists (rev w). split.
  - rewrite <- (rev_involutive s) at 1. rewrite E at 1. apply rev_app_distr.
  - rewrite forallb_forall in *. intros x I. apply F. apply in_rev. exact I.
Qed.

Definition outgoing_denotes (s : list N) (o : outgoing) : Prop :=
  match o with
  | OSat n => name_denotes s n /\ n <= LAST
  | OSatPoint t v off => satpoint_denotes s t v off
  | OInscriptionId t i => inscription_id_denotes s t i
  | OAmount => re_amount s = true          (* handed to bitcoin::Amount::from_str, not modelled *)
  | ORune v sc n sp =>
    exists num w1 w2 name, s = num ++ w1 ++ C_COLON :: w2 ++ name /\
      forallb is_ws w1 = true /\ forallb is_ws w2 = true /\
      dec_denotes num v sc /\ v < P128 /\ spaced_denotes name n sp /\ n < P128
  end.

Lemma outgoing_sound s o : outgoing_from_str s = Ok o -> outgoing_denotes s o.
Proof.
  unfold outgoing_from_str. destruct (re_sat_name s) eqn:R.
  - destruct (sat_from_str FErr s) eqn:E; try discriminate. intro Heq. injection Heq as <-.
    destruct (sat_from_str_sound _ _ _ E) as [D B]. unfold sat_denotes in D.
    unfold re_sat_name in R. apply andb_prop in R. destruct R as [R1 R2]. apply andb_prop in R1. destruct R1 as [R0 _].
    assert (X : existsb is_lower s = true).
    { destruct s as [|c r]; [cbn in R0; discriminate|]. cbn [forallb] in R2. apply andb_prop in R2.
      cbn [existsb]. destruct R2 as [-> _]. reflexivity. }
    rewrite X in D. cbn. auto.
  - destruct (re_satpoint s).
    + destruct (satpoint_from_str s) as [[[t v] off]| |] eqn:E; try discriminate. intro Heq. injection Heq as <-.
      exact (satpoint_sound _ _ _ _ E).
    + destruct (re_inscription_id s).
      * destruct (inscription_id_from_str s) as [[t i]| |] eqn:E; try discriminate. intro Heq. injection Heq as <-.
        exact (inscription_id_sound _ _ _ E).
      * destruct (re_amount s) eqn:A; [intro Heq; injection Heq as <-; exact A|].
        destruct (re_rune s) as [[num name]|] eqn:RR; [|discriminate].
        destruct (dec_from_str num) as [[v sc]| |] eqn:DE; try discriminate.
        destruct (spaced_parse name) as [[n sp]| |] eqn:SE; try discriminate.
        intro Heq. injection Heq as <-.
        unfold re_rune in RR. destruct (split_once C_COLON s) as [[l r]|] eqn:SP; [|discriminate].
        destruct (_ && _); [|discriminate]. injection RR as <- <-.
        destruct (split_once_some _ _ _ _ SP) as [-> _].
        destruct (drop_trailing_ws_prefix l) as (w1 & E1 & F1).
        destruct (drop_ws_suffix r) as (w2 & E2 & F2).
        destruct (dec_from_str_sound _ _ _ DE) as (D1 & _ & D2 & _).
        destruct (spaced_parse_sound _ _ _ SE) as [S1 S2].
        exists (drop_trailing_ws l), w1, w2, (drop_ws r).
        split; [rewrite E1 at 1; rewrite <- app_assoc; f_equal; f_equal; f_equal; exact E2|].
        split; [exact F1|]. split; [exact F2|]. split; [exact D1|]. split; [exact D2|].
        split; [exact S1|exact S2].
Qed.

Lemma outgoing_total s t : outgoing_from_str s <> Panic t.
Proof.
  unfold outgoing_from_str. destruct (re_sat_name s).
  - destruct (sat_from_str FErr s) eqn:E; try discriminate. exfalso. exact (sat_from_str_total _ _ _ E).
  - destruct (re_satpoint s).
    + destruct (satpoint_from_str s) as [[[? ?] ?]| |] eqn:E; try discriminate. exfalso. exact (satpoint_total _ _ E).
    + destruct (re_inscription_id s).
      * destruct (inscription_id_from_str s) as [[? ?]| |] eqn:E; try discriminate. exfalso. exact (inscription_id_total _ _ E).
      * destruct (re_amount s); [discriminate|]. destruct (re_rune s) as [[num name]|]; [|discriminate].
        destruct (dec_from_str num) as [[? ?]| |] eqn:DE; try discriminate.
        -- destruct (spaced_parse name) as [[? ?]| |] eqn:SE; try discriminate. exfalso. exact (spaced_parse_total _ _ SE).
        -- exfalso. exact (dec_from_str_total _ _ DE).
Qed.
