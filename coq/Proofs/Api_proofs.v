(* Lemmas about the listing / pagination algebra of Server/Api.v. *)
From Coq Require Import ZifyBool ZifyN.
From OrdV Require Import Base.Prelude Generated Server.Content Server.Api.

Ltac Zify.zify_post_hook ::= Z.div_mod_to_equations.

(* ------------------------------------------------------------------ skipN / firstN *)

Lemma skipN_skipn : forall A (l : list A) n, skipN n l = skipn (N.to_nat n) l.
Proof.
  induction l as [|x l IH]; intro n; cbn [skipN].
  - destruct (N.to_nat n); reflexivity.
  - destruct (N.eqb_spec n 0) as [->|Hn]; [reflexivity|].
    rewrite IH. replace (N.to_nat n) with (S (N.to_nat (n - 1))) by lia. reflexivity.
Qed.

Lemma firstN_firstn : forall A (l : list A) n, firstN n l = firstn (N.to_nat n) l.
Proof.
  induction l as [|x l IH]; intro n; cbn [firstN].
  - destruct (N.to_nat n); reflexivity.
  - destruct (N.eqb_spec n 0) as [->|Hn]; [reflexivity|].
    rewrite IH. replace (N.to_nat n) with (S (N.to_nat (n - 1))) by lia. reflexivity.
Qed.

Lemma len_length : forall A (l : list A), len l = N.of_nat (length l).
Proof. reflexivity. Qed.

Lemma nth_error_skipn' : forall A (l : list A) n j, nth_error (skipn n l) j = nth_error l (n + j).
Proof.
  induction l as [|x l IH]; intros n j.
  - rewrite skipn_nil. destruct j, n; reflexivity.
  - destruct n; [reflexivity|]. cbn [skipn plus nth_error]. apply IH.
Qed.

Lemma nth_error_firstn' : forall A (l : list A) n j,
  nth_error (firstn n l) j = if (j <? n)%nat then nth_error l j else None.
Proof.
  induction l as [|x l IH]; intros n j.
  - rewrite firstn_nil. destruct j; destruct (_ <? _)%nat; reflexivity.
  - destruct n; [destruct j; reflexivity|]. destruct j; [reflexivity|].
    cbn [firstn nth_error]. rewrite IH. reflexivity.
Qed.

Lemma firstn_plus : forall A (l : list A) a c, firstn (a + c) l = firstn a l ++ firstn c (skipn a l).
Proof.
  induction l as [|x l IH]; intros a c.
  - rewrite !firstn_nil, skipn_nil, firstn_nil. reflexivity.
  - destruct a; [reflexivity|]. cbn [plus firstn skipn app]. rewrite IH. reflexivity.
Qed.

(* ------------------------------------------------------------------ pages *)

Definition page_items {A} (l : list A) (size i : N) : list A := fst (page l size i).
Definition page_more {A} (l : list A) (size i : N) : bool := snd (page l size i).

Lemma page_items_eq : forall A (l : list A) size i,
  page_items l size i = firstn (N.to_nat size) (skipn (N.to_nat (i * size)) l).
Proof. intros. unfold page_items, page. cbn [fst]. rewrite firstN_firstn, skipN_skipn. reflexivity. Qed.

(* position j of page i is position i*size + j of the list *)
Lemma page_nth : forall A (l : list A) size i j,
  nth_error (page_items l size i) j =
  if (N.of_nat j <? size) then nth_error l (N.to_nat (i * size) + j) else None.
Proof.
  intros. rewrite page_items_eq, nth_error_firstn', nth_error_skipn'.
  destruct (Nat.ltb_spec j (N.to_nat size)); destruct (N.ltb_spec (N.of_nat j) size); try lia; reflexivity.
Qed.

Lemma page_length : forall A (l : list A) size i,
  length (page_items l size i) = Nat.min (N.to_nat size) (length l - N.to_nat (i * size)).
Proof. intros. rewrite page_items_eq, firstn_length, skipn_length. reflexivity. Qed.

(* [more] exactly when a later page is non-empty *)
Lemma page_more_spec : forall A (l : list A) size i,
  page_more l size i = true <-> (i + 1) * size < len l.
Proof.
  intros. unfold page_more, page. cbn [snd]. rewrite skipN_skipn. unfold len. rewrite skipn_length.
  rewrite N.ltb_lt. lia.
Qed.

Lemma page_more_next_nonempty : forall A (l : list A) size i, 0 < size ->
  (page_more l size i = true <-> page_items l size (i + 1) <> []).
Proof.
  intros A l size i Hs. rewrite page_more_spec. split.
  - intros H E. apply (f_equal (@length A)) in E. rewrite page_length in E. cbn in E. unfold len in H. lia.
  - intro H. destruct (N.ltb_spec ((i + 1) * size) (len l)) as [|Hge]; [assumption|]. exfalso. apply H.
    apply length_zero_iff_nil. rewrite page_length. unfold len in Hge. lia.
Qed.

(* concatenating pages 0 .. k-1 gives the first k*size elements; with enough pages, the list *)
Lemma pages_concat : forall A (l : list A) size k,
  concat (map (fun i => page_items l size (N.of_nat i)) (seq 0 k)) = firstn (k * N.to_nat size) l.
Proof.
  intros A l size k. induction k as [|k IH].
  - reflexivity.
  - rewrite seq_S, map_app, concat_app, IH. cbn [plus map concat]. rewrite app_nil_r.
    rewrite page_items_eq.
    replace (N.to_nat (N.of_nat k * size)) with (k * N.to_nat size)%nat by lia.
    replace (S k * N.to_nat size)%nat with (k * N.to_nat size + N.to_nat size)%nat by lia.
    symmetry. apply firstn_plus.
Qed.

Lemma pages_cover : forall A (l : list A) size k, (length l <= k * N.to_nat size)%nat ->
  concat (map (fun i => page_items l size (N.of_nat i)) (seq 0 k)) = l.
Proof. intros. rewrite pages_concat. apply firstn_all2. assumption. Qed.

(* no element of a duplicate-free list is on two pages *)
Lemma page_In_position : forall A (l : list A) size i x, In x (page_items l size i) ->
  exists p, nth_error l p = Some x /\ (N.to_nat (i * size) <= p < N.to_nat (i * size) + N.to_nat size)%nat.
Proof.
  intros A l size i x H. apply In_nth_error in H. destruct H as [j Hj]. rewrite page_nth in Hj.
  destruct (N.ltb_spec (N.of_nat j) size); [|discriminate].
  exists (N.to_nat (i * size) + j)%nat. split; [assumption|lia].
Qed.

Lemma pages_disjoint : forall A (l : list A) size i j x, NoDup l -> i <> j ->
  In x (page_items l size i) -> ~ In x (page_items l size j).
Proof.
  intros A l size i j x Hnd Hij Hi Hj.
  destruct (page_In_position _ _ _ _ _ Hi) as (p & Hp & Rp).
  destruct (page_In_position _ _ _ _ _ Hj) as (q & Hq & Rq).
  assert (p = q).
  { rewrite NoDup_nth_error in Hnd. apply Hnd; [|congruence]. apply nth_error_Some. congruence. }
  subst q. assert (size <> 0) by lia. nia.
Qed.

Lemma in_some_page : forall A (l : list A) size x, 0 < size ->
  (In x l <-> exists i, In x (page_items l size i)).
Proof.
  intros A l size x Hs. split.
  - intro H. apply In_nth_error in H. destruct H as [p Hp].
    exists (N.of_nat p / size). apply nth_error_In with (n := (p - N.to_nat (N.of_nat p / size * size))%nat).
    rewrite page_nth.
    assert (N.of_nat p / size * size <= N.of_nat p) by (rewrite N.mul_comm; apply N.mul_div_le; lia).
    assert (N.of_nat p < (N.of_nat p / size + 1) * size).
    { rewrite N.mul_comm. replace (N.of_nat p / size + 1) with (N.succ (N.of_nat p / size)) by lia.
      apply N.mul_succ_div_gt. lia. }
    destruct (N.ltb_spec (N.of_nat (p - N.to_nat (N.of_nat p / size * size))) size); [|lia].
    rewrite <- Hp. f_equal. lia.
  - intros [i H]. destruct (page_In_position _ _ _ _ _ H) as (p & Hp & _). eapply nth_error_In; eauto.
Qed.

(* ------------------------------------------------------------------ the implemented paging *)

Lemma skipn_all_nil : forall A (l : list A) n, (length l <= n)%nat -> skipn n l = [].
Proof. intros. apply skipn_all2. assumption. Qed.

Lemma page_impl_correct : forall A (l : list A) size i,
  len l <= U64_MAX -> size < U64_MAX -> page_impl l size i = page l size i.
Proof.
  intros A l size i Hl Hs. unfold page_impl, page, sat_mul64.
  assert (E : skipN (N.min (i * size) U64_MAX) l = skipN (i * size) l).
  { destruct (N.le_gt_cases (i * size) U64_MAX) as [Hle|Hgt].
    - rewrite N.min_l by assumption. reflexivity.
    - rewrite N.min_r by lia. rewrite !skipN_skipn. unfold len in Hl.
      rewrite !skipn_all_nil by lia. reflexivity. }
  rewrite E. set (rest := skipN (i * size) l).
  rewrite N.min_l by lia.
  rewrite !firstN_firstn. unfold len. rewrite firstn_length.
  destruct (N.ltb_spec size (N.of_nat (length rest))) as [Hm|Hm].
  - assert (F : size <? N.of_nat (Nat.min (N.to_nat (size + 1)) (length rest)) = true) by (apply N.ltb_lt; lia).
    rewrite F. f_equal. rewrite firstn_firstn. f_equal. lia.
  - assert (F : size <? N.of_nat (Nat.min (N.to_nat (size + 1)) (length rest)) = false) by (apply N.ltb_ge; lia).
    rewrite F. f_equal. rewrite !firstn_all2 by lia. reflexivity.
Qed.

(* the pinned commit panicked on large page numbers *)
Lemma page_pinned_panics : forall A (l : list A), page_pinned l 100 U64_MAX = Panic 1.
Proof. intros. unfold page_pinned. reflexivity. Qed.

Lemma page_pinned_ok : forall A (l : list A) size i, i * size <= U64_MAX ->
  page_pinned l size i = Ok (page_impl l size i).
Proof.
  intros. unfold page_pinned. destruct (N.ltb_spec U64_MAX (i * size)); [lia|reflexivity].
Qed.

(* ------------------------------------------------------------------ handlers use the pages *)

Lemma page_size_positive : 0 < PAGE /\ PAGE < U64_MAX /\ 0 < SERVER_PAGE_SIZE /\ SERVER_PAGE_SIZE < U64_MAX.
Proof. vm_compute. repeat split. Qed.

Definition small (t : tables) : Prop :=
  (forall s, len (children_of t s) <= U64_MAX) /\ (forall e, In e (t_entries t) -> len (e_parents e) <= U64_MAX) /\
  (forall s, len (on_sat t s) <= U64_MAX).

Lemma children_page_spec : forall t size s pg e, len (children_of t s) <= U64_MAX -> size < U64_MAX ->
  entry_of t s = Some e ->
  children_page true t size s pg = RPage (page_items (children_of t s) size pg) (page_more (children_of t s) size pg) pg.
Proof.
  intros t size s pg e Hl Hs He. unfold children_page, paginate, with_page. rewrite He.
  rewrite page_impl_correct by assumption. unfold page_items, page_more.
  destruct (page (children_of t s) size pg). reflexivity.
Qed.

Lemma entry_of_In : forall t s e, entry_of t s = Some e -> In e (t_entries t) /\ e_seq e = s.
Proof.
  intros t s e H. unfold entry_of in H. apply find_some in H. destruct H as [H1 H2].
  split; [assumption|]. apply N.eqb_eq. assumption.
Qed.

Lemma parents_page_spec : forall t s pg e, len (e_parents e) <= U64_MAX -> pg <= U32_MAX ->
  entry_of t s = Some e ->
  parents_page true t s pg = RPage (page_items (e_parents e) PAGE pg) (page_more (e_parents e) PAGE pg) pg.
Proof.
  intros t s pg e Hl Hp He. unfold parents_page, paginate, with_page. rewrite He.
  rewrite page_impl_correct by (try assumption; apply page_size_positive). unfold page_items, page_more.
  destruct (page (e_parents e) PAGE pg).
  destruct (N.ltb_spec U32_MAX pg); [lia|reflexivity].
Qed.

Lemma sat_page_spec : forall t sat pg, len (on_sat t sat) <= U64_MAX -> t_index_sats t = true ->
  sat_page t sat pg = RPage (page_items (on_sat t sat) PAGE pg) (page_more (on_sat t sat) PAGE pg) pg.
Proof.
  intros t sat pg Hl Hi. unfold sat_page. rewrite Hi. cbn [negb].
  rewrite page_impl_correct by (try assumption; apply page_size_positive). unfold page_items, page_more.
  destruct (page (on_sat t sat) PAGE pg). reflexivity.
Qed.

Lemma block_page_spec : forall t h pg, len (in_block t h) <= U64_MAX ->
  block_page t h pg = RPage (page_items (in_block t h) SERVER_PAGE_SIZE pg) (page_more (in_block t h) SERVER_PAGE_SIZE pg) pg.
Proof.
  intros t h pg Hl. unfold block_page.
  rewrite page_impl_correct by (try assumption; apply page_size_positive). unfold page_items, page_more.
  destruct (page (in_block t h) SERVER_PAGE_SIZE pg). reflexivity.
Qed.

(* no handler of the repaired code panics *)
Lemma fixed_never_panics : forall t size s pg,
  children_page true t size s pg <> RPanic /\ children_inscriptions true t s pg <> RPanic /\
  parents_page true t s pg <> RPanic /\ parent_inscriptions true t s pg <> RPanic.
Proof.
  intros. unfold children_page, children_inscriptions, parents_page, parent_inscriptions, paginate, with_page.
  repeat split; destruct (entry_of t s); try discriminate;
    match goal with |- context [page_impl ?l ?z ?p] => destruct (page_impl l z p) end;
    repeat match goal with |- context [match ?x with _ => _ end] => destruct x end; discriminate.
Qed.

Lemma pinned_children_page_panics : forall t s e, entry_of t s = Some e ->
  children_page false t PAGE s U64_MAX = RPanic.
Proof. intros t s e H. unfold children_page, paginate, with_page. rewrite H. reflexivity. Qed.

(* ------------------------------------------------------------------ listing by block *)

Lemma range_from_spec : forall n lo x, In x (range_from lo n) <-> lo <= x < lo + N.of_nat n.
Proof.
  induction n as [|n IH]; intros lo x; cbn [range_from In].
  - lia.
  - rewrite IH. lia.
Qed.

Lemma range_from_nth : forall n lo j, (j < n)%nat -> nth_error (range_from lo n) j = Some (lo + N.of_nat j).
Proof.
  induction n as [|n IH]; intros lo j H; [lia|]. destruct j; cbn [range_from nth_error].
  - f_equal. lia.
  - rewrite IH by lia. f_equal. lia.
Qed.

(* the block listing is the sequence-number interval between the two table entries, ascending *)
Lemma in_block_spec : forall t h newest, assoc_N h (t_heights t) = Some newest ->
  let oldest := match assoc_N (h - 1) (t_heights t) with Some x => x | None => 0 end in
  (forall x, In x (in_block t h) <-> oldest <= x < newest) /\
  (forall j, (j < N.to_nat (newest - oldest))%nat -> nth_error (in_block t h) j = Some (oldest + N.of_nat j)).
Proof.
  intros t h newest H oldest. unfold in_block. rewrite H. fold oldest. split.
  - intro x. rewrite range_from_spec. lia.
  - intros j Hj. apply range_from_nth. assumption.
Qed.

(* ------------------------------------------------------------------ children <-> parents *)

(* the table invariant (C07): SEQUENCE_NUMBER_TO_CHILDREN is the inverse of the parents lists *)
Definition parents_consistent (t : tables) : Prop :=
  forall p c, In c (children_of t p) <-> exists e, entry_of t c = Some e /\ In p (e_parents e).

Lemma children_parents_inverse : forall t p c, parents_consistent t ->
  ((exists i, In c (page_items (children_of t p) PAGE i)) <->
   (exists e, entry_of t c = Some e /\ exists j, In p (page_items (e_parents e) PAGE j))).
Proof.
  intros t p c H. pose proof page_size_positive as (Hp0 & _).
  split.
  - intro Hc. apply (proj2 (in_some_page _ _ PAGE c Hp0)) in Hc. apply H in Hc.
    destruct Hc as (e & He & Hp). exists e. split; [assumption|].
    apply (in_some_page _ _ PAGE p Hp0). assumption.
  - intros (e & He & Hp). apply (in_some_page _ _ PAGE c Hp0). apply H. exists e. split; [assumption|].
    apply (proj2 (in_some_page _ _ PAGE p Hp0)). assumption.
Qed.

(* ------------------------------------------------------------------ output view *)

Lemma insert_sorted_In : forall x l y, In y (insert_sorted x l) <-> y = x \/ In y l.
Proof.
  induction l as [|z l IH]; intro y; cbn [insert_sorted In].
  - intuition.
  - destruct (x <=? z); cbn [In]; [intuition|]. rewrite IH. intuition.
Qed.

Lemma sort_N_In : forall l y, In y (sort_N l) <-> In y l.
Proof.
  induction l as [|x l IH]; intro y; cbn [sort_N fold_right In]; [reflexivity|].
  fold (sort_N l). rewrite insert_sorted_In, IH. intuition.
Qed.

Inductive ascending : list N -> Prop :=
| asc_nil : ascending []
| asc_one : forall x, ascending [x]
| asc_cons : forall x y l, x <= y -> ascending (y :: l) -> ascending (x :: y :: l).

Lemma insert_sorted_ascending : forall x l, ascending l -> ascending (insert_sorted x l).
Proof.
  intros x l H. induction H as [|y|y z l Hyz Hl IH]; cbn [insert_sorted].
  - constructor.
  - destruct (N.leb_spec x y); constructor; try lia; constructor.
  - destruct (N.leb_spec x y).
    + constructor; [lia|]. constructor; assumption.
    + cbn [insert_sorted] in IH. destruct (N.leb_spec x z).
      * constructor; [lia|]. constructor; [lia|assumption].
      * constructor; assumption.
Qed.

Lemma sort_N_ascending : forall l, ascending (sort_N l).
Proof.
  induction l as [|x l IH]; cbn [sort_N fold_right]; [constructor|]. fold (sort_N l).
  apply insert_sorted_ascending. assumption.
Qed.

(* the table invariant (C04): a UTXO entry holds exactly the inscriptions whose satpoint is in that output *)
Definition outputs_consistent (t : tables) : Prop :=
  forall o x, op_of t o = Some x -> o_kind x = 0 ->
    forall s, In s (match o_utxo x with Some (_, ins) => map fst ins | None => [] end) <->
              exists e, entry_of t s = Some e /\ e_op e = o.

Lemma output_view_exact : forall t o x v, outputs_consistent t ->
  op_of t o = Some x -> o_kind x = 0 -> o_value x = Some v ->
  exists ins, output_json t o = ROutput (Some ins) v /\ ascending ins /\
    forall s, In s ins <-> exists e, entry_of t s = Some e /\ e_op e = o.
Proof.
  intros t o x v H Ho Hk Hv. unfold output_json. rewrite Ho, Hk, Hv. cbn [N.eqb negb].
  exists (inscriptions_on_output x). split; [reflexivity|]. unfold inscriptions_on_output.
  specialize (H o x Ho Hk). destruct (o_utxo x) as [[tv ins]|].
  - split; [apply sort_N_ascending|]. intro s. rewrite sort_N_In. apply H.
  - split; [constructor|]. exact H.
Qed.

(* ------------------------------------------------------------------ inscription view *)

Lemma inscription_view : forall t s e v, entry_of t s = Some e ->
  (op_kind t (e_op e) = 0 /\ output_value t (e_op e) = Some v \/
   (op_kind t (e_op e) = 1 \/ op_kind t (e_op e) = 2) /\ v = None) ->
  exists charms next prev,
    inscription_json t (Some s) =
      RInscription e charms (len (children_of t s)) (firstN 4 (children_of t s)) next (firstN 4 (e_parents e)) prev v /\
    charms = N.land (if op_kind t (e_op e) =? 2 then N.lor (e_charms e) LOST_FLAG else e_charms e) CHARM_MASK /\
    prev = (if s =? 0 then None else Some (s - 1)) /\
    next = match entry_of t (s + 1) with Some n => Some (e_seq n) | None => None end.
Proof.
  intros t s e v He Hv. unfold inscription_json. rewrite He.
  destruct Hv as [[Hk Ho]|[[Hk|Hk] ->]]; rewrite Hk; cbn [N.eqb orb]; try rewrite Ho;
    do 3 eexists; (split; [reflexivity|]); repeat split.
Qed.

(* ------------------------------------------------------------------ /outputs/<address>: classes of outputs *)

Lemma is_nil_spec : forall A (l : list A), is_nil l = true <-> l = [].
Proof. intros A l. destruct l; cbn; split; congruence. Qed.

(* every output is in at least one of the three classes; cardinal excludes the other two *)
Lemma classes_cover : forall t h o,
  orb (in_class t h TCardinal o) (orb (in_class t h TInscribed o) (in_class t h TRunic o)) = true.
Proof. intros. cbn [in_class]. destruct (holds_inscriptions t o), (holds_runes h o); reflexivity. Qed.

Lemma cardinal_exclusive : forall t h o, in_class t h TCardinal o = true ->
  in_class t h TInscribed o = false /\ in_class t h TRunic o = false.
Proof. intros t h o. cbn [in_class]. destruct (holds_inscriptions t o), (holds_runes h o); cbn; intuition congruence. Qed.

(* the classes are exactly the outputs with the respective holdings *)
Lemma holds_inscriptions_spec : forall t o,
  holds_inscriptions t o = true <-> exists x, op_of t o = Some x /\ inscriptions_on_output x <> [].
Proof.
  intros t o. unfold holds_inscriptions. destruct (op_of t o) as [x|].
  - rewrite negb_true_iff. split.
    + intro H. exists x. split; [reflexivity|]. intro E. apply is_nil_spec in E. congruence.
    + intros (y & Hy & Hn). inversion Hy; subst. destruct (is_nil (inscriptions_on_output y)) eqn:E; [|reflexivity].
      apply is_nil_spec in E. contradiction.
  - split; [discriminate|]. intros (y & Hy & _). discriminate.
Qed.

Lemma holds_runes_spec : forall h o, holds_runes h o = true <-> rune_balances h o <> [].
Proof.
  intros h o. unfold holds_runes. rewrite negb_true_iff. split.
  - intros H E. apply is_nil_spec in E. congruence.
  - intro H. destruct (is_nil (rune_balances h o)) eqn:E; [|reflexivity]. apply is_nil_spec in E. contradiction.
Qed.

Lemma class_list_spec : forall t h a ty o,
  In o (class_list t h a ty) <-> In o (address_ops h a) /\ in_class t h ty o = true.
Proof. intros. unfold class_list. apply filter_In. Qed.

Lemma class_list_any : forall t h a, class_list t h a TAny = address_ops h a.
Proof.
  intros. unfold class_list. induction (address_ops h a) as [|x l IH]; [reflexivity|]. cbn [filter in_class]. f_equal. exact IH.
Qed.

(* the listing reports, for each listed output, its inscriptions and its rune balances *)
Lemma output_views_spec : forall t h os vs, output_views t h os = Some vs ->
  map fst vs = os /\
  forall o ins v rs, In (o, (ins, (v, rs))) vs -> output_json t o = ROutput ins v /\ rs = runes_view h o.
Proof.
  intros t h os. induction os as [|o r IH]; intros vs H; cbn [output_views] in H.
  - inversion H. split; [reflexivity|]. intros ? ? ? ? [].
  - destruct (output_json t o) eqn:Eo; try discriminate.
    destruct (output_views t h r) as [ws|] eqn:Er; [|discriminate].
    inversion H; subst. destruct (IH ws eq_refl) as [Hm Hv]. split; [cbn; f_equal; exact Hm|].
    intros o' ins' v' rs' [E|Hin].
    + inversion E; subst. split; [exact Eo|reflexivity].
    + apply Hv. exact Hin.
Qed.

Lemma outputs_address_spec : forall t h a ty vs, h_index h = true ->
  outputs_address t h a (Some ty) = ROutputs vs ->
  map fst vs = class_list t h a ty /\
  forall o ins v rs, In (o, (ins, (v, rs))) vs -> output_json t o = ROutput ins v /\ rs = Some (rune_balances h o).
Proof.
  intros t h a ty vs Hi H. unfold outputs_address in H. rewrite Hi in H. cbn [negb] in H.
  destruct (output_views t h (class_list t h a ty)) as [ws|] eqn:E; [|discriminate].
  inversion H; subst. destruct (output_views_spec _ _ _ _ E) as [Hm Hv]. split; [exact Hm|].
  intros o ins v rs Hin. destruct (Hv _ _ _ _ Hin) as [H1 H2]. split; [exact H1|].
  rewrite H2. unfold runes_view. rewrite Hi. reflexivity.
Qed.
