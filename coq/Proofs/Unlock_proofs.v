(* Lemmas about the rune-name unlock schedule (C33). *)
From OrdV Require Import Base.Prelude Generated Ord.Rune.
Require Import ZifyBool ZifyN.
Ltac Zify.zify_post_hook ::= Z.div_mod_to_equations.

(* ------------------------------------------------------------ constants *)
Lemma I_val : UNLOCK_INTERVAL = 17500.
Proof. vm_compute. reflexivity. Qed.
Lemma H_val : HALVING = 210000.
Proof. vm_compute. reflexivity. Qed.
Lemma U_val : RUNE_UNLOCKED = 12.
Proof. vm_compute. reflexivity. Qed.

(* ------------------------------------------------------------ sorted tables *)
Fixpoint sortedb (l : list N) : bool :=
  match l with
  | a :: t => match t with b :: _ => (a <=? b) && sortedb t | [] => true end
  | [] => true
  end.

Lemma sortedb_head : forall l a, sortedb (a :: l) = true ->
  forall k, (k < length l)%nat -> a <= nth k l 0.
Proof.
  induction l as [|b t IH]; intros a H k Hk; [cbn in Hk; lia|].
  cbn [sortedb] in H. apply andb_prop in H. destruct H as [H1 H2].
  destruct k as [|k]; cbn [nth]; [lia|].
  cbn [length] in Hk. assert (b <= nth k t 0) by (apply IH; [exact H2|lia]). lia.
Qed.

Lemma sortedb_tail a l : sortedb (a :: l) = true -> sortedb l = true.
Proof. destruct l; cbn [sortedb]; [reflexivity|]. intro H. apply andb_prop in H. tauto. Qed.

Lemma sortedb_nth : forall l, sortedb l = true ->
  forall j k, (j <= k)%nat -> (k < length l)%nat -> nth j l 0 <= nth k l 0.
Proof.
  induction l as [|a t IH]; intros H j k Hjk Hk; [cbn in Hk; lia|].
  destruct j as [|j]; destruct k as [|k]; cbn [nth]; try lia.
  - apply sortedb_head; [exact H|cbn [length] in Hk; lia].
  - apply IH; [eapply sortedb_tail; exact H|lia|cbn [length] in Hk; lia].
Qed.

Lemma steps_sorted : sortedb RUNE_STEPS = true.
Proof. vm_compute. reflexivity. Qed.

Lemma steps_length : length RUNE_STEPS = 28%nat.
Proof. reflexivity. Qed.

Lemma step_mono j k : j <= k -> k < 28 -> step j <= step k.
Proof.
  intros A B. unfold step. apply sortedb_nth; [exact steps_sorted|lia|rewrite steps_length; lia].
Qed.

Lemma step_0 : step 0 = 0.
Proof. reflexivity. Qed.

(* ------------------------------------------------------------ the interpolation *)
(* minimum as a function of progress p < 12 * I *)
Definition gmin (p : N) : N :=
  let L := 12 - p / 17500 in
  step L - ((step L - step (L - 1)) * (p mod 17500) / 17500).

Lemma gmin_bounds p : p < 210000 ->
  step (12 - p / 17500 - 1) <= gmin p /\ gmin p <= step (12 - p / 17500).
Proof.
  intro H. unfold gmin. cbv zeta. set (L := 12 - p / 17500).
  assert (HL : 1 <= L <= 12) by (unfold L; lia).
  pose proof (step_mono (L - 1) L ltac:(lia) ltac:(lia)) as M.
  set (s := step L) in *. set (e := step (L - 1)) in *.
  assert ((s - e) * (p mod 17500) / 17500 <= s - e).
  { apply N.div_le_upper_bound; [lia|]. assert (p mod 17500 < 17500) by lia. nia. }
  lia.
Qed.

Lemma gmin_antitone p p' : p <= p' -> p' < 210000 -> gmin p' <= gmin p.
Proof.
  intros A B. destruct (N.eq_dec (p / 17500) (p' / 17500)) as [E|NE].
  - unfold gmin. cbv zeta. rewrite <- E. set (L := 12 - p / 17500).
    assert (HL : 1 <= L <= 12) by (unfold L; lia).
    pose proof (step_mono (L - 1) L ltac:(lia) ltac:(lia)) as M.
    set (s := step L) in *. set (e := step (L - 1)) in *.
    assert (R : p mod 17500 <= p' mod 17500) by lia.
    assert ((s - e) * (p mod 17500) / 17500 <= (s - e) * (p' mod 17500) / 17500).
    { apply N.div_le_mono; [lia|]. apply N.mul_le_mono_l. exact R. }
    lia.
  - assert (Q : p / 17500 < p' / 17500) by lia.
    destruct (gmin_bounds p ltac:(lia)) as [Lo _].
    destruct (gmin_bounds p' B) as [_ Hi].
    pose proof (step_mono (12 - p' / 17500) (12 - p / 17500 - 1) ltac:(lia) ltac:(lia)). lia.
Qed.

(* minimum_at_height in terms of the offset *)
Definition m_off (start o : N) : N :=
  if o <? start then step 12 else if start + 210000 <=? o then 0 else gmin (o - start).

Lemma min_as_off start h :
  minimum_at_height_start start h = m_off start (N.min (h + 1) U32_MAX).
Proof.
  unfold minimum_at_height_start, m_off, gmin. cbv zeta. rewrite I_val, H_val, U_val. reflexivity.
Qed.

Lemma m_off_le_step12 start o : m_off start o <= step 12.
Proof.
  unfold m_off. destruct (o <? start); [lia|]. destruct (N.leb_spec (start + 210000) o); [lia|].
  destruct (gmin_bounds (o - start) ltac:(lia)) as [_ Hi].
  pose proof (step_mono (12 - (o - start) / 17500) 12 ltac:(lia) ltac:(lia)). lia.
Qed.

Lemma m_off_antitone start o o' : o <= o' -> m_off start o' <= m_off start o.
Proof.
  intro A. unfold m_off at 2. destruct (N.ltb_spec o start) as [B|B]; [apply m_off_le_step12|].
  unfold m_off. destruct (N.ltb_spec o' start) as [C|C]; [lia|].
  destruct (N.leb_spec (start + 210000) o) as [D|D].
  - destruct (N.leb_spec (start + 210000) o'); lia.
  - destruct (N.leb_spec (start + 210000) o') as [E|E]; [lia|].
    apply gmin_antitone; lia.
Qed.

(* ------------------------------------------------------------ C33 statements on the model *)
Lemma min_monotone start h h' : h <= h' ->
  minimum_at_height_start start h' <= minimum_at_height_start start h.
Proof. intro A. rewrite !min_as_off. apply m_off_antitone. lia. Qed.

Lemma min_le_13_letters start h : minimum_at_height_start start h <= step 12.
Proof. rewrite min_as_off. apply m_off_le_step12. Qed.

Lemma min_zero_after start h : start + 210000 <= U32_MAX -> start + 210000 <= h + 1 ->
  minimum_at_height_start start h = 0.
Proof.
  intros A B. rewrite min_as_off. unfold m_off.
  destruct (N.ltb_spec (N.min (h + 1) U32_MAX) start); [lia|].
  destruct (N.leb_spec (start + 210000) (N.min (h + 1) U32_MAX)); [reflexivity|lia].
Qed.

Lemma min_before start h : h + 1 < start -> minimum_at_height_start start h = step 12.
Proof.
  intro A. rewrite min_as_off. unfold m_off.
  destruct (N.ltb_spec (N.min (h + 1) U32_MAX) start); [reflexivity|lia].
Qed.

(* position_lt returns the first index whose entry exceeds r *)
Lemma position_lt_spec : forall l r k i, position_lt r l k = Some i ->
  exists j, i = k + N.of_nat j /\ (j < length l)%nat /\ r < nth j l 0 /\
    forall j', (j' < j)%nat -> nth j' l 0 <= r.
Proof.
  induction l as [|s t IH]; intros r k i H; [discriminate|].
  cbn [position_lt] in H. destruct (N.ltb_spec r s) as [A|A].
  - injection H as <-. exists 0%nat. cbn [nth length]. repeat split; try lia.
  - destruct (IH _ _ _ H) as (j & -> & Hj & Hr & Hall). exists (S j). cbn [nth length].
    repeat split; try lia. intros [|j'] Hj'; [exact A|apply Hall; lia].
Qed.

Lemma position_lt_exists : forall l r k j, (j < length l)%nat -> r < nth j l 0 ->
  exists i, position_lt r l k = Some i.
Proof.
  induction l as [|s t IH]; intros r k j Hj Hr; [cbn in Hj; lia|].
  cbn [position_lt]. destruct (N.ltb_spec r s); [eexists; reflexivity|].
  destruct j as [|j]; [cbn [nth] in Hr; lia|]. cbn [nth length] in *. eapply IH; [|exact Hr]. lia.
Qed.

Lemma reserved_ge_step12 : step 12 <= RUNE_RESERVED.
Proof. vm_compute. discriminate. Qed.

(* unlock_height is the first height whose minimum is at or below the name *)
Lemma unlock_first start r : start + 210000 <= U32_MAX -> is_reserved r = false ->
  exists u, unlock_height_start start r = Ok (Some u) /\ u <= U32_MAX /\
    minimum_at_height_start start u <= r /\
    forall h, h < u -> r < minimum_at_height_start start h.
Proof.
  intros Hs Hres. unfold unlock_height_start. rewrite Hres, U_val.
  destruct (N.leb_spec (step 12) r) as [A|A].
  - exists 0. split; [reflexivity|]. split; [unfold U32_MAX; lia|]. split.
    + pose proof (min_le_13_letters start 0). lia.
    + intros h Hh. lia.
  - destruct (position_lt_exists RUNE_STEPS r 0 12 ltac:(rewrite steps_length; lia) A) as [i Hi].
    rewrite Hi. destruct (position_lt_spec _ _ _ _ Hi) as (j & -> & Hj & Hr & Hall).
    rewrite steps_length in Hj. rewrite N.add_0_l.
    (* j is between 1 and 12 *)
    assert (J12 : (j <= 12)%nat).
    { destruct (Nat.le_gt_cases j 12) as [|G]; [assumption|]. specialize (Hall 12%nat G).
      unfold step in A. change (N.to_nat 12) with 12%nat in A. lia. }
    assert (J1 : (1 <= j)%nat).
    { destruct j; [|lia]. cbn in Hr. lia. }
    set (i := N.of_nat j) in *.
    assert (Hi1 : 1 <= i <= 12) by (unfold i; lia).
    assert (Hsi : step i = nth j RUNE_STEPS 0) by (unfold step, i; rewrite Nat2N.id; reflexivity).
    assert (Hei : step (i - 1) <= r).
    { unfold step. replace (N.to_nat (i - 1)) with (j - 1)%nat by (unfold i; lia). apply Hall. lia. }
    rewrite <- Hsi in Hr.
    destruct (N.eqb_spec i 0) as [Z|_]; [lia|].
    set (s := step i) in *. set (e := step (i - 1)) in *.
    destruct (N.eqb_spec (s - e) 0) as [Z|_]; [lia|].
    rewrite I_val.
    set (P := s - r). set (D := s - e).
    assert (HP : 1 <= P <= D) by (unfold P, D; lia).
    set (q := (P * 17500 - 1) / D).
    assert (Hq : q * D <= P * 17500 - 1 < q * D + D).
    { unfold q. pose proof (N.div_mod (P * 17500 - 1) D ltac:(lia)) as DM.
      pose proof (N.mod_lt (P * 17500 - 1) D ltac:(lia)). rewrite N.mul_comm in DM. lia. }
    assert (Hq1 : q <= 17499).
    { assert (q * D < 17500 * D) by nia. apply N.mul_lt_mono_pos_r in H; lia. }
    destruct (N.ltb_spec U32_MAX q) as [Z|_]; [unfold U32_MAX in Z; lia|].
    set (u := start + (12 - i) * 17500 + q).
    assert (Hu : u <= U32_MAX) by (unfold u; lia).
    destruct (N.ltb_spec U32_MAX u) as [Z|_]; [lia|].
    exists u. split; [reflexivity|]. split; [exact Hu|].
    assert (Hlast : u = 0 \/ (1 <= u /\ r < minimum_at_height_start start (u - 1))).
    { destruct (N.eq_dec u 0) as [|NZ]; [left; assumption|right]. split; [lia|].
      rewrite min_as_off. replace (N.min (u - 1 + 1) U32_MAX) with u by lia.
      unfold m_off. destruct (N.ltb_spec u start) as [Z|_]; [unfold u in Z; lia|].
      destruct (N.leb_spec (start + 210000) u) as [Z|_]; [unfold u in Z; lia|].
      unfold gmin. cbv zeta.
      replace (u - start) with ((12 - i) * 17500 + q) by (unfold u; lia).
      replace (((12 - i) * 17500 + q) / 17500) with (12 - i) by lia.
      replace (((12 - i) * 17500 + q) mod 17500) with q by lia.
      replace (12 - (12 - i)) with i by lia. fold s e D.
      assert (D * q / 17500 < P).
      { apply N.div_lt_upper_bound; [lia|]. rewrite (N.mul_comm D q). lia. }
      unfold P in *. lia. }
    split.
    + rewrite min_as_off. replace (N.min (u + 1) U32_MAX) with (u + 1) by (unfold u in *; lia).
      unfold m_off. destruct (N.ltb_spec (u + 1) start) as [Z|_]; [unfold u in Z; lia|].
      destruct (N.leb_spec (start + 210000) (u + 1)) as [Z|NZ]; [lia|].
      unfold gmin. cbv zeta.
      replace (u + 1 - start) with ((12 - i) * 17500 + (q + 1)) by (unfold u; lia).
      destruct (N.eq_dec (q + 1) 17500) as [E|NE].
      * rewrite E. replace ((12 - i) * 17500 + 17500) with ((13 - i) * 17500) by lia.
        rewrite N.div_mul, N.mod_mul by lia.
        assert (2 <= i) by (unfold u in NZ; lia).
        replace (12 - (13 - i)) with (i - 1) by lia. fold e.
        rewrite N.mul_0_r, N.div_0_l, N.sub_0_r by lia. exact Hei.
      * replace (((12 - i) * 17500 + (q + 1)) / 17500) with (12 - i) by lia.
        replace (((12 - i) * 17500 + (q + 1)) mod 17500) with (q + 1) by lia.
        replace (12 - (12 - i)) with i by lia. fold s e D.
        assert (P <= D * (q + 1) / 17500).
        { apply N.div_le_lower_bound; [lia|]. rewrite (N.mul_comm D (q + 1)). lia. }
        unfold P in *. lia.
    + intros h Hh. destruct Hlast as [Z|[U1 U2]]; [lia|].
      pose proof (min_monotone start h (u - 1) ltac:(lia)). lia.
Qed.

Lemma unlock_reserved start r : is_reserved r = true -> unlock_height_start start r = Ok None.
Proof. intro H. unfold unlock_height_start. rewrite H. reflexivity. Qed.

(* every network's activation height satisfies the bound used above *)
Lemma first_rune_height_bound net : first_rune_height net + 210000 <= U32_MAX.
Proof.
  unfold first_rune_height. rewrite H_val.
  assert (nth (N.to_nat net) RUNE_FIRST_HEIGHT_MULT 0 <= 12).
  { generalize (N.to_nat net). intro k. do 5 (destruct k as [|k]; [vm_compute; discriminate|]).
    destruct k; vm_compute; discriminate. }
  unfold U32_MAX. lia.
Qed.
