(* Lemmas about the rune-name model (C32): modified base-26 bijection, commitment, reserved. *)
From OrdV Require Import Base.Prelude Generated Ord.Rune.
Require Import ZifyBool ZifyN.
Ltac Zify.zify_post_hook ::= Z.div_mod_to_equations.

(* ------------------------------------------------------------ bijective base-26 value *)
Definition digit (d : N) : Prop := d < 26.

(* value of a digit list, least significant first: sum (d_i + 1) * 26^i *)
Fixpoint bvalR (ds : list N) : N :=
  match ds with [] => 0 | d :: r => bvalR r * 26 + d + 1 end.

(* value of a digit list, most significant first (accumulator form) *)
Definition accv (v : N) (ds : list N) : N := fold_left (fun v d => v * 26 + d + 1) ds v.
Definition bval (ds : list N) : N := accv 0 ds.

Lemma accv_app v a b : accv v (a ++ b) = accv (accv v a) b.
Proof. unfold accv. apply fold_left_app. Qed.

Lemma bval_rev ds : bval (rev ds) = bvalR ds.
Proof.
  unfold bval. induction ds as [|d r IH]; [reflexivity|].
  cbn [rev bvalR]. rewrite accv_app, IH. reflexivity.
Qed.

Lemma accv_ge v ds : v <= accv v ds.
Proof.
  revert v. induction ds as [|d r IH]; intro v; [cbn; lia|].
  change (accv v (d :: r)) with (accv (v * 26 + d + 1) r).
  specialize (IH (v * 26 + d + 1)). lia.
Qed.

(* ------------------------------------------------------------ sym_loop <-> bvalR *)
Lemma sym_loop_val : forall f n, n < 2 ^ N.of_nat f ->
  bvalR (sym_loop f n) = n /\ Forall digit (sym_loop f n).
Proof.
  induction f as [|f IH]; intros n H.
  - cbn in H. assert (n = 0) by lia. subst. cbn. split; [reflexivity|constructor].
  - cbn [sym_loop]. destruct (N.eqb_spec n 0) as [->|Hn]; [cbn; split; [reflexivity|constructor]|].
    rewrite Nat2N.inj_succ, N.pow_succ_r' in H.
    assert (Hq : (n - 1) / 26 < 2 ^ N.of_nat f) by lia.
    destruct (IH _ Hq) as [Hv Hd]. cbn [bvalR]. rewrite Hv. split.
    + lia.
    + constructor; [unfold digit; lia|exact Hd].
Qed.

Lemma sym_loop_of_val : forall ds f, Forall digit ds -> bvalR ds < 2 ^ N.of_nat f ->
  sym_loop f (bvalR ds) = ds.
Proof.
  induction ds as [|d r IH]; intros f Hd H.
  - destruct f; reflexivity.
  - inversion Hd as [|? ? Hd1 Hd2]; subst. unfold digit in Hd1. cbn [bvalR] in *.
    destruct f as [|f]; [cbn in H; lia|].
    rewrite Nat2N.inj_succ, N.pow_succ_r' in H.
    cbn [sym_loop]. destruct (N.eqb_spec (bvalR r * 26 + d + 1) 0) as [E|_]; [lia|].
    replace ((bvalR r * 26 + d + 1 - 1) mod 26) with d by lia.
    replace ((bvalR r * 26 + d + 1 - 1) / 26) with (bvalR r) by lia.
    rewrite IH; [reflexivity|exact Hd2|lia].
Qed.

(* length of the name <-> thresholds S_k = 1 + 26 + ... + 26^(k-1) *)
Fixpoint thr (k : nat) : N := match k with O => 0 | S k' => 26 * thr k' + 1 end.

Lemma sym_loop_length : forall k f n, n < 2 ^ N.of_nat f ->
  ((k <= length (sym_loop f n))%nat <-> thr k <= n).
Proof.
  induction k as [|k IH]; intros f n H.
  - cbn [thr]. split; intro; lia.
  - cbn [thr]. destruct f as [|f].
    + cbn in H. assert (n = 0) by lia. subst. cbn. split; intro; lia.
    + cbn [sym_loop]. rewrite Nat2N.inj_succ, N.pow_succ_r' in H.
      destruct (N.eqb_spec n 0) as [->|Hn]; [cbn; split; intro; lia|].
      cbn [length]. assert (Hq : (n - 1) / 26 < 2 ^ N.of_nat f) by lia.
      specialize (IH f _ Hq). split; intro A.
      * assert (thr k <= (n - 1) / 26) by (apply IH; lia). lia.
      * assert (k <= length (sym_loop f ((n - 1) / 26)))%nat by (apply IH; lia). lia.
Qed.

(* ------------------------------------------------------------ letters *)
Lemma is_upper_letter d : digit d -> is_upper (letter d) = true.
Proof. unfold digit, is_upper, letter. intro. lia. Qed.

Lemma letter_sub d : letter d - 65 = d.
Proof. unfold letter. lia. Qed.

Lemma is_upper_inv c : is_upper c = true -> exists d, digit d /\ c = letter d.
Proof. unfold is_upper, letter, digit. intro H. exists (c - 65). lia. Qed.

Lemma letter_inj a b : letter a = letter b -> a = b.
Proof. unfold letter. lia. Qed.

Lemma map_letter_inj a b : map letter a = map letter b -> a = b.
Proof.
  revert b. induction a as [|x a IH]; intros [|y b] H; try discriminate; [reflexivity|].
  cbn in H. injection H as H1 H2. apply letter_inj in H1. f_equal; auto.
Qed.

(* ------------------------------------------------------------ parse on letter strings *)
Lemma parse_loop_letters : forall ds x, Forall digit ds -> x < P128 ->
  parse_loop false x (map letter ds) =
    if accv (x + 1) ds <=? P128 then Ok (accv (x + 1) ds - 1) else Err E_RANGE.
Proof.
  induction ds as [|d r IH]; intros x Hd Hx.
  - cbn [map parse_loop accv fold_left]. destruct (N.leb_spec (x + 1) P128); [f_equal; lia|lia].
  - inversion Hd as [|? ? Hd1 Hd2]; subst. cbn [map parse_loop].
    change (accv (x + 1) (d :: r)) with (accv ((x + 1) * 26 + d + 1) r).
    pose proof (accv_ge ((x + 1) * 26 + d + 1) r) as Hge. unfold digit in Hd1.
    unfold cadd128 at 1. destruct (N.ltb_spec (x + 1) P128) as [H1|H1]; cbn [bind].
    2:{ destruct (N.leb_spec (accv ((x + 1) * 26 + d + 1) r) P128); [lia|reflexivity]. }
    unfold cmul128. destruct (N.ltb_spec ((x + 1) * 26) P128) as [H2|H2]; cbn [bind].
    2:{ destruct (N.leb_spec (accv ((x + 1) * 26 + d + 1) r) P128); [lia|reflexivity]. }
    rewrite (is_upper_letter d Hd1), letter_sub.
    unfold cadd128. destruct (N.ltb_spec ((x + 1) * 26 + d) P128) as [H3|H3]; cbn [bind].
    2:{ destruct (N.leb_spec (accv ((x + 1) * 26 + d + 1) r) P128); [lia|reflexivity]. }
    rewrite (IH _ Hd2 H3). reflexivity.
Qed.

(* parse of a non-empty letter string: its bijective value minus one, or Range *)
Lemma parse_letters : forall d ds, Forall digit (d :: ds) ->
  parse (map letter (d :: ds)) =
    if bval (d :: ds) <=? P128 then Ok (bval (d :: ds) - 1) else Err E_RANGE.
Proof.
  intros d ds Hd. inversion Hd as [|? ? Hd1 Hd2]; subst. unfold digit in Hd1.
  unfold parse. cbn [map]. cbn [parse_loop bind].
  unfold cmul128. change (0 * 26) with 0. change (0 <? P128) with true. cbn [bind].
  rewrite (is_upper_letter d Hd1), letter_sub.
  unfold cadd128. destruct (N.ltb_spec (0 + d) P128) as [H|H]; [|unfold P128 in H; lia].
  cbn [bind]. rewrite parse_loop_letters by (auto; lia).
  unfold bval. change (accv 0 (d :: ds)) with (accv (0 * 26 + d + 1) ds).
  replace (0 * 26 + d + 1) with (0 + d + 1) by lia. reflexivity.
Qed.

(* ------------------------------------------------------------ show *)
Definition show_digits (n : N) : list N := rev (sym_loop 129 (n + 1)).

Lemma max_name_ok : MAX_NAME = map letter (show_digits U128_MAX).
Proof. vm_compute. reflexivity. Qed.

Lemma show_eq n : show n = map letter (show_digits n).
Proof.
  unfold show. destruct (N.eqb_spec n U128_MAX) as [->|_]; [apply max_name_ok|reflexivity].
Qed.

Lemma pow129 : 2 ^ N.of_nat 129 = 2 * P128.
Proof. vm_compute. reflexivity. Qed.

Lemma show_digits_spec n : n < P128 ->
  bval (show_digits n) = n + 1 /\ Forall digit (show_digits n) /\ show_digits n <> [].
Proof.
  intro H. unfold show_digits.
  assert (Hb : n + 1 < 2 ^ N.of_nat 129) by (rewrite pow129; lia).
  destruct (sym_loop_val 129 (n + 1) Hb) as [Hv Hd].
  rewrite bval_rev. split; [exact Hv|]. split.
  - apply Forall_rev. exact Hd.
  - intro E. apply (f_equal (@rev N)) in E. rewrite rev_involutive in E. cbn [rev] in E.
    rewrite E in Hv. cbn in Hv. lia.
Qed.

Lemma parse_show n : n < P128 -> parse (show n) = Ok n.
Proof.
  intro H. rewrite show_eq. destruct (show_digits_spec n H) as (Hv & Hd & Hne).
  destruct (show_digits n) as [|d ds] eqn:E; [congruence|].
  rewrite parse_letters by exact Hd. rewrite Hv.
  destruct (N.leb_spec (n + 1) P128); [f_equal; lia|lia].
Qed.

Lemma show_upper n : n < P128 -> Forall (fun c => is_upper c = true) (show n).
Proof.
  intro H. rewrite show_eq. destruct (show_digits_spec n H) as (_ & Hd & _).
  induction Hd; cbn [map]; constructor; auto using is_upper_letter.
Qed.

Lemma show_nonempty n : n < P128 -> show n <> [].
Proof.
  intro H. rewrite show_eq. destruct (show_digits_spec n H) as (_ & _ & Hne).
  destruct (show_digits n); [congruence|discriminate].
Qed.

Lemma show_inj a b : a < P128 -> b < P128 -> show a = show b -> a = b.
Proof.
  intros Ha Hb E. pose proof (parse_show a Ha) as Pa. rewrite E, (parse_show b Hb) in Pa. congruence.
Qed.

(* the other direction: every accepted non-empty name is the printed form of its value *)
Lemma parse_nil : parse [] = Err E_RANGE.
Proof. reflexivity. Qed.

Lemma parse_cons c r : parse (c :: r) = parse_loop true 0 (c :: r).
Proof. reflexivity. Qed.

Lemma show_parse s n : parse s = Ok n -> n < P128 /\ show n = s.
Proof.
  intros Hp.
  assert (Hne : s <> []) by (intro E; subst; discriminate).
  assert (Hp' : parse_loop true 0 s = Ok n) by (destruct s; [congruence|exact Hp]).
  (* all characters are upper-case letters, otherwise parse fails *)
  assert (Hup : forall s first x m, parse_loop first x s = Ok m -> Forall (fun c => is_upper c = true) s).
  { clear. induction s as [|c r IH]; intros first x m H; [constructor|].
    cbn [parse_loop] in H.
    destruct (if first then Ok x else cadd128 x 1) as [x1| |]; cbn [bind] in H; try discriminate.
    destruct (cmul128 x1 26) as [x2| |]; cbn [bind] in H; try discriminate.
    destruct (is_upper c) eqn:U; [|discriminate].
    destruct (cadd128 x2 (c - 65)) as [x3| |]; cbn [bind] in H; try discriminate.
    constructor; [exact U|eapply IH; exact H]. }
  specialize (Hup s true 0 n Hp'). clear Hp'.
  assert (Hds : exists ds, Forall digit ds /\ s = map letter ds).
  { clear Hp Hne. induction Hup as [|c r Hc _ IH]; [exists []; split; [constructor|reflexivity]|].
    destruct IH as (ds & Hd & ->). destruct (is_upper_inv c Hc) as (d & Hd1 & ->).
    exists (d :: ds). split; [constructor; auto|reflexivity]. }
  destruct Hds as (ds & Hd & ->).
  destruct ds as [|d ds]; [exfalso; apply Hne; reflexivity|].
  rewrite parse_letters in Hp by exact Hd.
  destruct (N.leb_spec (bval (d :: ds)) P128) as [Hle|]; [|discriminate].
  injection Hp as <-.
  assert (Hpos : 1 <= bval (d :: ds)).
  { unfold bval. change (accv 0 (d :: ds)) with (accv (0 * 26 + d + 1) ds).
    pose proof (accv_ge (0 * 26 + d + 1) ds). lia. }
  split; [lia|].
  rewrite show_eq. f_equal. unfold show_digits.
  replace (bval (d :: ds) - 1 + 1) with (bval (d :: ds)) by lia.
  rewrite <- (rev_involutive (d :: ds)) at 1. rewrite bval_rev.
  rewrite sym_loop_of_val.
  - apply rev_involutive.
  - apply Forall_rev. exact Hd.
  - rewrite <- bval_rev, rev_involutive, pow129. lia.
Qed.

(* names whose value exceeds u128::MAX are rejected with Range *)
Lemma parse_range d ds : Forall digit (d :: ds) -> P128 < bval (d :: ds) ->
  parse (map letter (d :: ds)) = Err E_RANGE.
Proof.
  intros Hd H. rewrite parse_letters by exact Hd.
  destruct (N.leb_spec (bval (d :: ds)) P128); [lia|reflexivity].
Qed.

(* parse is total: never Panic *)
Lemma parse_total s t : parse s <> Panic t.
Proof. destruct s; [discriminate|]. rewrite parse_cons. revert t. generalize (n :: s). intros l t. revert l. 
  assert (A : forall s first x t, parse_loop first x s <> Panic t).
  { induction s0 as [|c r IH]; intros first x t0; cbn [parse_loop]; [discriminate|].
    destruct first.
    - cbn [bind]. unfold cmul128. destruct (_ <? _); cbn [bind]; [|discriminate].
      destruct (is_upper c); [|discriminate]. unfold cadd128. destruct (_ <? _); cbn [bind]; [apply IH|discriminate].
    - unfold cadd128 at 1. destruct (_ <? _); cbn [bind]; [|discriminate].
      unfold cmul128. destruct (_ <? _); cbn [bind]; [|discriminate].
      destruct (is_upper c); [|discriminate]. unfold cadd128. destruct (_ <? _); cbn [bind]; [apply IH|discriminate]. }
  intro l. apply A.
Qed.

Lemma parse_loop_total : forall s first x t, parse_loop first x s <> Panic t.
Proof.
  induction s as [|c r IH]; intros first x t; cbn [parse_loop]; [discriminate|].
  destruct first.
  - cbn [bind]. unfold cmul128. destruct (_ <? _); cbn [bind]; [|discriminate].
    destruct (is_upper c); [|discriminate]. unfold cadd128. destruct (_ <? _); cbn [bind]; [apply IH|discriminate].
  - unfold cadd128 at 1. destruct (_ <? _); cbn [bind]; [|discriminate].
    unfold cmul128. destruct (_ <? _); cbn [bind]; [|discriminate].
    destruct (is_upper c); [|discriminate]. unfold cadd128. destruct (_ <? _); cbn [bind]; [apply IH|discriminate].
Qed.

(* ------------------------------------------------------------ name length, reserved *)
Lemma show_length n k : n < P128 -> ((k <= length (show n))%nat <-> thr k <= n + 1).
Proof.
  intro H. rewrite show_eq, map_length. unfold show_digits. rewrite rev_length.
  apply sym_loop_length. rewrite pow129. lia.
Qed.

Lemma thr_29 : P128 < thr 29.
Proof. vm_compute. reflexivity. Qed.

Lemma show_length_le_28 n : n < P128 -> (length (show n) <= 28)%nat.
Proof.
  intro H. destruct (Nat.le_gt_cases (length (show n)) 28) as [|G]; [assumption|].
  assert (A : (29 <= length (show n))%nat) by lia.
  apply (show_length n 29 H) in A. pose proof thr_29. lia.
Qed.

Lemma reserved_is_27_letters : RUNE_RESERVED + 1 = thr 27.
Proof. vm_compute. reflexivity. Qed.

Lemma reserved_name : show RUNE_RESERVED = repeat 65 27.
Proof. vm_compute. reflexivity. Qed.

Lemma is_reserved_iff n : n < P128 -> (is_reserved n = true <-> (27 <= length (show n))%nat).
Proof.
  intro H. rewrite (show_length n 27 H), <- reserved_is_27_letters. unfold is_reserved. lia.
Qed.

(* STEPS[i] is the first name with i+1 letters *)
Lemma steps_table : RUNE_STEPS = map (fun k => thr (S k) - 1) (seq 0 28).
Proof. vm_compute. reflexivity. Qed.

(* ------------------------------------------------------------ commitment *)
Fixpoint from_le (bs : list N) : N :=
  match bs with [] => 0 | b :: r => b + 256 * from_le r end.

Lemma from_le_app a b : from_le (a ++ b) = from_le a + 256 ^ N.of_nat (length a) * from_le b.
Proof.
  induction a as [|x a IH]; [cbn [app length from_le]; change (N.of_nat 0) with 0; rewrite N.pow_0_r; lia|].
  cbn [app length from_le]. rewrite IH, Nat2N.inj_succ, N.pow_succ_r'. lia.
Qed.

Lemma le_bytes_length k n : length (le_bytes k n) = k.
Proof. revert n. induction k; intro n; cbn [le_bytes length]; auto. Qed.

Lemma le_bytes_val : forall k n, from_le (le_bytes k n) = n mod 256 ^ N.of_nat k.
Proof.
  induction k as [|k IH]; intro n.
  - cbn. rewrite N.mod_1_r. reflexivity.
  - cbn [le_bytes from_le]. rewrite IH, Nat2N.inj_succ, N.pow_succ_r'.
    assert (0 < 256 ^ N.of_nat k) by (apply N.neq_0_lt_0, N.pow_nonzero; lia).
    rewrite (N.mul_comm 256), N.mod_mul_r by lia. lia.
Qed.

Lemma le_bytes_byte : forall k n, Forall (fun b => b < 256) (le_bytes k n).
Proof.
  induction k as [|k IH]; intro n; cbn [le_bytes]; constructor; [lia|apply IH].
Qed.

Lemma firstn_snoc_nth {A} (d : A) : forall e (l : list A), (e < length l)%nat ->
  firstn (S e) l = firstn e l ++ [nth e l d].
Proof.
  induction e as [|e IH]; intros [|x l] H; cbn [length] in H; try lia; [reflexivity|].
  cbn [firstn nth app]. f_equal. apply IH. lia.
Qed.

Lemma trim_end_le e bs : (trim_end e bs <= e)%nat.
Proof. induction e as [|e IH]; cbn [trim_end]; [lia|]. destruct (_ =? _); lia. Qed.

Lemma trim_end_val : forall e bs, (e <= length bs)%nat ->
  from_le (firstn (trim_end e bs) bs) = from_le (firstn e bs).
Proof.
  induction e as [|e IH]; intros bs H; [reflexivity|].
  cbn [trim_end]. destruct (N.eqb_spec (nth e bs 0) 0) as [Z|NZ]; [|reflexivity].
  rewrite IH by lia. rewrite (firstn_snoc_nth 0 e bs) by lia.
  rewrite from_le_app, Z. cbn [from_le]. lia.
Qed.

(* no trailing zero: the last kept byte is non-zero *)
Lemma trim_end_last : forall e bs, (trim_end e bs <> 0)%nat ->
  nth (trim_end e bs - 1) bs 0 <> 0.
Proof.
  induction e as [|e IH]; intros bs H; cbn [trim_end] in *; [lia|].
  destruct (N.eqb_spec (nth e bs 0) 0) as [Z|NZ]; [apply IH; exact H|].
  replace (S e - 1)%nat with e by lia. exact NZ.
Qed.

Definition no_trailing_zero (bs : list N) : Prop := bs = [] \/ last bs 0 <> 0.

Lemma commitment_spec n : n < P128 ->
  from_le (commitment n) = n /\ Forall (fun b => b < 256) (commitment n) /\
  (length (commitment n) <= 16)%nat /\ no_trailing_zero (commitment n).
Proof.
  intro H. unfold commitment.
  pose proof (le_bytes_length 16 n) as HL.
  pose proof (trim_end_le 16 (le_bytes 16 n)) as HT.
  split; [|split; [|split]].
  - rewrite trim_end_val by lia. rewrite <- HL at 1. rewrite firstn_all, le_bytes_val.
    change (256 ^ N.of_nat 16) with P128. apply N.mod_small. exact H.
  - apply Forall_forall. intros b Hb.
    pose proof (le_bytes_byte 16 n) as A. rewrite Forall_forall in A. apply A.
    rewrite <- (firstn_skipn (trim_end 16 (le_bytes 16 n)) (le_bytes 16 n)). apply in_or_app. left. exact Hb.
  - rewrite firstn_length. lia.
  - unfold no_trailing_zero.
    destruct (Nat.eq_dec (trim_end 16 (le_bytes 16 n)) 0) as [E|NE]; [left; rewrite E; reflexivity|right].
    pose proof (trim_end_last 16 (le_bytes 16 n) NE) as A.
    set (t := trim_end 16 (le_bytes 16 n)) in *.
    assert (Hf : firstn t (le_bytes 16 n) = firstn (t - 1) (le_bytes 16 n) ++ [nth (t - 1) (le_bytes 16 n) 0]).
    { replace t with (S (t - 1)) at 1 by lia. apply firstn_snoc_nth. lia. }
    rewrite Hf, last_last. exact A.
Qed.

(* uniqueness: a byte string without trailing zero is determined by its value *)
Lemma from_le_zero bs : Forall (fun b => b < 256) bs -> no_trailing_zero bs -> from_le bs = 0 -> bs = [].
Proof.
  induction bs as [|b r IH]; intros Hb Hn Hz; [reflexivity|].
  inversion Hb; subst. cbn [from_le] in Hz. assert (b = 0) by lia. assert (from_le r = 0) by lia.
  assert (r = []).
  { apply IH; auto. destruct Hn as [Hn|Hn]; [discriminate|].
    destruct r as [|c r']; [left; reflexivity|right]. exact Hn. }
  subst. destruct Hn as [Hn|Hn]; [discriminate|]. cbn in Hn. congruence.
Qed.

Lemma from_le_inj : forall a b, Forall (fun x => x < 256) a -> Forall (fun x => x < 256) b ->
  no_trailing_zero a -> no_trailing_zero b -> from_le a = from_le b -> a = b.
Proof.
  induction a as [|x a IH]; intros b Ha Hb Na Nb E.
  - symmetry. apply from_le_zero; auto.
  - destruct b as [|y b]; [apply from_le_zero; auto|].
    inversion Ha; inversion Hb; subst. cbn [from_le] in E.
    assert (x = y) by lia. assert (from_le a = from_le b) by lia. subst. f_equal.
    apply IH; auto.
    + destruct Na as [Na|Na]; [discriminate|]. destruct a; [left; reflexivity|right; exact Na].
    + destruct Nb as [Nb|Nb]; [discriminate|]. destruct b; [left; reflexivity|right; exact Nb].
Qed.
