(* Lemmas about the model of the transaction builder (coq/Wallet/Builder.v). *)
From OrdV Require Import Base.Prelude Generated Wallet.Builder.
Require Import ZifyBool ZifyN.
Ltac Zify.zify_post_hook ::= Z.div_mod_to_equations.

(* ------------------------------------------------------------ small facts *)
Lemma mem_In : forall x l, mem x l = true <-> In x l.
Proof.
  intros x l. unfold mem. rewrite existsb_exists. split.
  - intros [y [Hy He]]. apply N.eqb_eq in He. subst. exact Hy.
  - intros H. exists x. split; [exact H|apply N.eqb_refl].
Qed.

Lemma mem_false : forall x l, mem x l = false <-> ~ In x l.
Proof.
  intros x l. rewrite <- mem_In. destruct (mem x l); split; intros; congruence.
Qed.

Lemma remove_id_In : forall x u l, In x (remove_id u l) <-> In x l /\ x <> u.
Proof.
  intros x u l. unfold remove_id. rewrite filter_In. split.
  - intros [Hi Hn]. split; [exact Hi|]. intro; subst. rewrite N.eqb_refl in Hn. discriminate.
  - intros [Hi Hn]. split; [exact Hi|]. apply N.eqb_neq in Hn. rewrite Hn. reflexivity.
Qed.

Lemma remove_id_not_In : forall u l, ~ In u (remove_id u l).
Proof. intros u l H. apply remove_id_In in H. destruct H as [_ H]. apply H. reflexivity. Qed.

Definition cardinal (w : Wallet) (u : N) : Prop :=
  ~ In u (w_runic w) /\ ~ In u (w_locked w) /\ ~ In u (map fst (w_inscr w)).

Lemma noncardinal_false : forall w u, noncardinal w u = false <-> cardinal w u.
Proof.
  intros w u. unfold noncardinal, cardinal.
  rewrite !orb_false_iff, !mem_false. tauto.
Qed.

(* ------------------------------------------------------------ (a) select_cardinal_utxo *)
Definition good_choice (w : Wallet) (pool : list N) (b : option (N * N)) : Prop :=
  match b with
  | None => True
  | Some (u, v) => In u pool /\ cardinal w u /\ amount_of (w_amounts w) u = Some v
  end.

Lemma scan_good : forall w pool all target pu best r,
  (forall x, In x pool -> In x all) ->
  good_choice w all best ->
  scan w pool target pu best = Ok r ->
  good_choice w all r.
Proof.
  intros w pool. induction pool as [|u rest IH]; intros all target pu best r Hsub Hbest Hscan.
  - cbn [scan] in Hscan. inversion Hscan. subst. exact Hbest.
  - cbn [scan] in Hscan.
    destruct (noncardinal w u) eqn:Hnc.
    + eapply IH; [|exact Hbest|exact Hscan]. intros x Hx. apply Hsub. right. exact Hx.
    + destruct (amount_of (w_amounts w) u) as [cur|] eqn:Ham; [|discriminate].
      eapply IH; [| |exact Hscan].
      * intros x Hx. apply Hsub. right. exact Hx.
      * assert (Hu : good_choice w all (Some (u, cur))).
        { cbn. split; [apply Hsub; left; reflexivity|]. split; [apply noncardinal_false; exact Hnc|exact Ham]. }
        destruct best as [[bu bv]|]; cbn [snd];
          destruct (replaces pu target _ cur); assumption.
Qed.

Lemma select_cardinal_spec : forall w st target pu u v st',
  select_cardinal_utxo w st target pu = Ok (u, v, st') ->
  In u (s_utxos st) /\ cardinal w u /\ amount_of (w_amounts w) u = Some v /\
  s_utxos st' = remove_id u (s_utxos st) /\
  s_inputs st' = s_inputs st /\ s_outputs st' = s_outputs st /\ s_unused st' = s_unused st.
Proof.
  intros w st target pu u v st' H. unfold select_cardinal_utxo in H.
  destruct (scan w (s_utxos st) target pu None) as [b|e|t] eqn:Hs; cbn [bind] in H; try discriminate.
  pose proof (scan_good w (s_utxos st) (s_utxos st) target pu None b (fun x Hx => Hx) I Hs) as Hg.
  destruct b as [[bu bv]|]; [|unfold err in H; discriminate].
  inversion H. subst. cbn in Hg. destruct Hg as [Hin [Hc Ha]].
  cbn [s_utxos s_inputs s_outputs s_unused]. repeat split; try assumption; apply Hc.
Qed.

(* ------------------------------------------------------------ tactics for the Res monad *)
Ltac bind_ok H x Hx :=
  match type of H with
  | bind ?r _ = Ok _ => destruct r as [x| |] eqn:Hx; cbn [bind] in H; [|discriminate H|discriminate H]
  end.
Ltac if_ok H Hc :=
  match type of H with
  | (if ?c then _ else _) = Ok _ => destruct c eqn:Hc; try discriminate H
  end.

Lemma add_u64_ok : forall a b c, add_u64 a b = Ok c -> c = a + b.
Proof. intros a b c H. unfold add_u64 in H. destruct (a + b <=? U64_MAX); inversion H; reflexivity. Qed.
Lemma add_amt_ok : forall a b c, add_amt a b = Ok c -> c = a + b.
Proof. intros a b c H. unfold add_amt in H. destruct (a + b <=? U64_MAX); inversion H; reflexivity. Qed.
Lemma sub_amt_ok : forall a b c, sub_amt a b = Ok c -> b <= a /\ c = a - b.
Proof.
  intros a b c H. unfold sub_amt in H. destruct (N.leb_spec b a); inversion H. split; [assumption|reflexivity].
Qed.

(* ------------------------------------------------------------ invariant of the passes *)
(* inputs are distinct, have left the pool, and all but the outgoing one are cardinal *)
Definition Inv (w : Wallet) (st : St) : Prop :=
  NoDup (s_inputs st) /\
  (forall x, In x (s_inputs st) -> ~ In x (s_utxos st)) /\
  (forall x, In x (s_inputs st) -> x <> w_out_id w -> cardinal w x).

Lemma Inv_same : forall w st st',
  s_inputs st' = s_inputs st -> s_utxos st' = s_utxos st -> Inv w st -> Inv w st'.
Proof. intros w st st' Hi Hu H. unfold Inv in *. rewrite Hi, Hu. exact H. Qed.

Lemma Inv_select : forall w st target pu u v st' (front : bool) outs unused,
  Inv w st ->
  select_cardinal_utxo w st target pu = Ok (u, v, st') ->
  Inv w (mkSt (s_utxos st') (if front then u :: s_inputs st' else s_inputs st' ++ [u]) outs unused).
Proof.
  intros w st target pu u v st' front outs unused [Hnd [Hdis Hcard]] Hsel.
  apply select_cardinal_spec in Hsel.
  destruct Hsel as [Hin [Hc [_ [Hu [Hi _]]]]].
  assert (Hnew : ~ In u (s_inputs st)). { intro Hx. apply (Hdis u Hx). exact Hin. }
  unfold Inv. cbn [s_utxos s_inputs]. rewrite Hu, Hi.
  assert (Hperm : forall x, In x (if front then u :: s_inputs st else s_inputs st ++ [u]) <-> x = u \/ In x (s_inputs st)).
  { intros x. destruct front; cbn [In]; [intuition|]. rewrite in_app_iff. cbn [In]. intuition. }
  split; [|split].
  - destruct front; [constructor; assumption|].
    apply NoDup_rev in Hnd. rewrite <- (rev_involutive (s_inputs st ++ [u])). apply NoDup_rev.
    rewrite rev_app_distr. cbn [rev app]. constructor; [|exact Hnd].
    rewrite <- in_rev. exact Hnew.
  - intros x Hx. apply Hperm in Hx. rewrite remove_id_In. destruct Hx as [Hx|Hx].
    + subst. tauto.
    + intros [Hp _]. exact (Hdis x Hx Hp).
  - intros x Hx Hne. apply Hperm in Hx. destruct Hx as [Hx|Hx]; [subst; exact Hc|exact (Hcard x Hx Hne)].
Qed.

(* what select_outgoing's inscription check establishes *)
Definition others_precede (w : Wallet) (d : N) : Prop :=
  forall o off, In (o, off) (w_inscr w) -> o = w_out_id w -> off <> w_out_off w ->
    off + d <= w_out_off w.

Lemma check_inscriptions_ok : forall w l d,
  check_inscriptions w l d = Ok tt ->
  forall o off, In (o, off) l -> o = w_out_id w -> off <> w_out_off w -> off + d <= w_out_off w.
Proof.
  intros w l d. induction l as [|[o' off'] r IH]; intros H o off Hin Ho Hoff.
  - destruct Hin.
  - cbn [check_inscriptions] in H. destruct Hin as [Heq|Hin].
    + inversion Heq. subst o' off'. subst o.
      rewrite N.eqb_refl in H. cbn [andb] in H.
      destruct (w_out_off w =? off) eqn:He; [apply N.eqb_eq in He; congruence|].
      cbn [negb] in H.
      destruct (U64_MAX <? off + d); [discriminate|].
      destruct (N.ltb_spec (w_out_off w) (off + d)); [unfold err in H; discriminate|]. assumption.
    + eapply IH; [|exact Hin|exact Ho|exact Hoff].
      destruct ((w_out_id w =? o') && negb (w_out_off w =? off')); [|exact H].
      destruct (U64_MAX <? off' + d); [discriminate|].
      destruct (w_out_off w <? off' + d); [unfold err in H; discriminate|exact H].
Qed.

Lemma select_outgoing_ok : forall w st st',
  select_outgoing w st = Ok st' -> s_inputs st = [] ->
  Inv w st' /\ s_inputs st' = [w_out_id w] /\
  (exists c, hd_error (s_unused st) = Some c /\ others_precede w (dust c)) /\
  (exists amount, amount_of (w_amounts w) (w_out_id w) = Some amount /\ w_out_off w < amount).
Proof.
  intros w st st' H Hnil. unfold select_outgoing in H.
  destruct (s_unused st) as [|c un] eqn:Hun; [discriminate|].
  bind_ok H t Hchk. destruct t.
  destruct (amount_of (w_amounts w) (w_out_id w)) as [amount|] eqn:Ham; [|unfold err in H; discriminate].
  destruct (N.leb_spec amount (w_out_off w)) as [Hle|Hlt].
  { destruct (amount =? 0); unfold err in H; discriminate. }
  inversion H. subst st'. clear H. rewrite Hnil. cbn [app s_inputs s_utxos].
  split; [|split; [reflexivity|split]].
  - unfold Inv. cbn [s_inputs s_utxos]. split; [repeat constructor; intros []|split].
    + intros x [Hx|[]]. subst. apply remove_id_not_In.
    + intros x [Hx|[]] Hne. congruence.
  - exists c. split; [reflexivity|]. intros o off Hin. apply (check_inscriptions_ok _ _ _ Hchk).
    rewrite <- in_rev. exact Hin.
  - exists amount. split; [reflexivity|assumption].
Qed.

Lemma align_outgoing_ok : forall w st st',
  align_outgoing w st = Ok st' -> s_inputs st' = s_inputs st /\ s_utxos st' = s_utxos st.
Proof.
  intros w st st' H. unfold align_outgoing in H.
  destruct (s_outputs st) as [|[s v] [|? ?]]; try discriminate.
  if_ok H Hs. bind_ok H so Hso. if_ok H Hz; [inversion H; split; reflexivity|].
  destruct (s_unused st); [discriminate|]. bind_ok H outs Ho. inversion H. split; reflexivity.
Qed.

Lemma pad_loop_inv : forall w fuel d st st',
  Inv w st -> pad_loop w fuel d st = Ok st' -> Inv w st'.
Proof.
  intros w fuel. induction fuel as [|f IH]; intros d st st' Hinv H; cbn [pad_loop] in H;
    destruct (s_outputs st) as [|[sc v] rest]; try discriminate; if_ok H Hlt; try (inversion H; subst; exact Hinv).
  bind_ok H r Hsel. destruct r as [[u size] st1]. bind_ok H v' Hv.
  eapply IH; [|exact H].
  exact (Inv_select w st _ _ u size st1 true _ _ Hinv Hsel).
Qed.

Lemma pad_alignment_inv : forall w st st',
  Inv w st -> pad_alignment_output w st = Ok st' -> Inv w st'.
Proof.
  intros w st st' Hinv H. unfold pad_alignment_output in H.
  destruct (s_outputs st) as [|[sc v] rest]; [discriminate|].
  if_ok H Hs; [inversion H; subst; exact Hinv|].
  eapply pad_loop_inv; eassumption.
Qed.

Lemma add_loop_inv : forall fee w fuel mv st st',
  Inv w st -> add_loop fee w fuel mv st = Ok st' -> Inv w st'.
Proof.
  intros fee w fuel. induction fuel as [|f IH]; intros mv st st' Hinv H; cbn [add_loop] in H;
    destruct (last_output (s_outputs st)) as [[ls lv]|]; try discriminate;
    if_ok H Hov; if_ok H Hle; try (inversion H; subst; exact Hinv).
  if_ok H Hov2.
  bind_ok H r Hsel. destruct r as [[u val] st1].
  if_ok H Hb.
  bind_ok H outs Ho.
  pose proof (Inv_select w st _ _ u val st1 false outs (s_unused st1) Hinv Hsel) as Hinv'.
  cbv iota in Hinv'.
  eapply IH; [exact Hinv'|exact H].
Qed.

Lemma add_value_inv : forall fee w st st',
  Inv w st -> add_value fee w st = Ok st' -> Inv w st'.
Proof.
  intros fee w st st' Hinv H. unfold add_value in H.
  destruct (last_output (s_outputs st)) as [[ls lv]|]; [|discriminate].
  eapply add_loop_inv; eassumption.
Qed.

Lemma strip_value_ok : forall fee w st st',
  strip_value fee w st = Ok st' -> s_inputs st' = s_inputs st /\ s_utxos st' = s_utxos st.
Proof.
  intros fee w st st' H. unfold strip_value in H.
  bind_ok H so Hso. bind_ok H total Ht. if_ok H He. bind_ok H val Hv.
  if_ok H Hf; [inversion H; split; reflexivity|].
  destruct (max_and_target w) as [mx tg].
  if_ok H Hm; [inversion H; split; reflexivity|].
  if_ok H Hu. destruct (s_unused st); [discriminate|].
  bind_ok H thr Hthr. if_ok H Hle; [inversion H; split; reflexivity|].
  bind_ok H outs Ho. inversion H. split; reflexivity.
Qed.

Lemma deduct_fee_ok : forall fee w st st',
  deduct_fee fee w st = Ok st' -> s_inputs st' = s_inputs st /\ s_utxos st' = s_utxos st.
Proof.
  intros fee w st st' H. unfold deduct_fee in H.
  bind_ok H so Hso. bind_ok H total Ht.
  destruct (last_output (s_outputs st)) as [[ls lv]|]; [|discriminate].
  if_ok H H1. if_ok H H2. if_ok H H3. bind_ok H outs Ho. inversion H. split; reflexivity.
Qed.

(* the state handed to [build] *)
Lemma passes_ok : forall fee w st,
  passes fee w = Ok st ->
  Inv w st /\ others_precede w (dust (w_change1 w)) /\
  (exists amount, amount_of (w_amounts w) (w_out_id w) = Some amount /\ w_out_off w < amount).
Proof.
  intros fee w st H. unfold passes in H.
  bind_ok H t Hpre. bind_ok H s1 H1. bind_ok H s2 H2. bind_ok H s3 H3. bind_ok H s4 H4. bind_ok H s5 H5.
  apply select_outgoing_ok in H1; [|reflexivity].
  destruct H1 as [Hinv [_ [[c [Hc Hoth]] Ham]]]. cbn in Hc. inversion Hc. subst c.
  split; [|split; assumption].
  destruct (align_outgoing_ok _ _ _ H2) as [Ha Hb].
  pose proof (Inv_same w s1 s2 Ha Hb Hinv) as I2.
  pose proof (pad_alignment_inv w s2 s3 I2 H3) as I3.
  pose proof (add_value_inv fee w s3 s4 I3 H4) as I4.
  destruct (strip_value_ok _ _ _ _ H5) as [Hc1 Hc2].
  pose proof (Inv_same w s4 s5 Hc1 Hc2 I4) as I5.
  destruct (deduct_fee_ok _ _ _ _ H) as [Hd1 Hd2].
  exact (Inv_same w s5 st Hd1 Hd2 I5).
Qed.

(* ------------------------------------------------------------ (b) what the checks of [build] imply *)
From OrdV Require Import Wallet.BuilderSpec.

Lemma sum_map_app : forall A (f : A -> N) l1 l2, sum_map f (l1 ++ l2) = sum_map f l1 + sum_map f l2.
Proof. intros A f l1 l2. induction l1 as [|x r IH]; cbn [sum_map app]; [reflexivity|rewrite IH; lia]. Qed.

Lemma b_sat_offset_ok : forall w inputs acc so,
  b_sat_offset w inputs acc = Ok (Some so) ->
  exists before after, inputs = before ++ w_out_id w :: after /\
    (forall i, In i before -> in_wallet w i) /\
    so = acc + total_in w before + w_out_off w.
Proof.
  intros w inputs. induction inputs as [|i r IH]; intros acc so H; cbn [b_sat_offset] in H; [discriminate|].
  destruct (i =? w_out_id w) eqn:He.
  - apply N.eqb_eq in He. subst i. bind_ok H a Ha. inversion H. subst a. apply add_u64_ok in Ha.
    exists [], r. split; [reflexivity|]. split; [intros ? []|]. unfold total_in. cbn [sum_map]. lia.
  - destruct (amount_of (w_amounts w) i) as [v|] eqn:Hv; [|discriminate].
    bind_ok H a Ha. apply add_u64_ok in Ha. subst a.
    destruct (IH _ _ H) as [before [after [Hr [Hw Hso]]]].
    exists (i :: before), after. split; [rewrite Hr; reflexivity|]. split.
    + intros x [Hx|Hx]; [subst; exists v; exact Hv|exact (Hw x Hx)].
    + unfold total_in in *. cbn [sum_map]. unfold value_of at 1. rewrite Hv. lia.
Qed.

Lemma count_cons : forall A (p : A -> bool) x l,
  count p (x :: l) = if p x then S (count p l) else count p l.
Proof. intros. unfold count. cbn [filter]. destruct (p x); reflexivity. Qed.

(* outputs after the recipient's: all checked to be change *)
Lemma b_outputs_norecipient : forall fee w vb outs offset so,
  b_outputs fee w vb outs offset so = Ok tt ->
  count (fun o => fst o =? w_recipient w) outs = 0%nat ->
  forall o, In o outs -> fst o <> w_recipient w /\ is_change w (fst o).
Proof.
  intros fee w vb outs. induction outs as [|[s v] r IH]; intros offset so H Hc o Hin; [destruct Hin|].
  rewrite count_cons in Hc. cbn [fst] in Hc. cbn [b_outputs] in H.
  destruct (s =? w_recipient w) eqn:Hs; [discriminate|].
  bind_ok H t Ht. bind_ok H o' Ho.
  destruct Hin as [Hin|Hin].
  - subst o. cbn [fst]. split; [apply N.eqb_neq; exact Hs|].
    destruct ((s =? w_change0 w) || (s =? w_change1 w)) eqn:Hch; [|discriminate].
    apply orb_true_iff in Hch. unfold is_change. rewrite <- !N.eqb_eq. exact Hch.
  - eapply IH; eassumption.
Qed.

Lemma b_outputs_ok : forall fee w vb outs offset so,
  b_outputs fee w vb outs offset so = Ok tt ->
  count (fun o => fst o =? w_recipient w) outs = 1%nat ->
  exists pre rv post, outs = pre ++ (w_recipient w, rv) :: post /\
    (forall o, In o (pre ++ post) -> fst o <> w_recipient w /\ is_change w (fst o)) /\
    offset + total_out pre = so /\
    b_check_recipient fee w vb rv = Ok tt.
Proof.
  intros fee w vb outs. induction outs as [|[s v] r IH]; intros offset so H Hc; [discriminate|].
  rewrite count_cons in Hc. cbn [fst] in Hc. cbn [b_outputs] in H.
  destruct (s =? w_recipient w) eqn:Hs.
  - apply N.eqb_eq in Hs. subst s. inversion Hc as [Hc'].
    bind_ok H t Ht. bind_ok H o' Ho. bind_ok Ht t2 Hchk. if_ok Ht Heq.
    apply N.eqb_eq in Heq. destruct t2.
    exists [], v, r. cbn [app]. split; [reflexivity|]. split; [|split].
    + intros o Hin. eapply b_outputs_norecipient; eassumption.
    + unfold total_out. cbn [sum_map]. lia.
    + exact Hchk.
  - bind_ok H t Ht. bind_ok H o' Ho. apply add_u64_ok in Ho. subst o'.
    destruct (IH _ _ H Hc) as [pre [rv [post [Hr [Hch [Hoff Hchk]]]]]].
    exists ((s, v) :: pre), rv, post. split; [rewrite Hr; reflexivity|]. split; [|split].
    + intros o [Hin|Hin].
      * subst o. cbn [fst]. split; [apply N.eqb_neq; exact Hs|].
        destruct ((s =? w_change0 w) || (s =? w_change1 w)) eqn:Hcc; [|discriminate].
        apply orb_true_iff in Hcc. unfold is_change. rewrite <- !N.eqb_eq. exact Hcc.
      * exact (Hch o Hin).
    + unfold total_out in *. cbn [sum_map snd]. lia.
    + exact Hchk.
Qed.

(* the recipient output is not empty: the sat is really inside it *)
Lemma b_find_output_pos : forall w pre rv post e so,
  (forall o, In o post -> fst o <> w_recipient w) ->
  e + total_out pre = so ->
  b_find_output w (pre ++ (w_recipient w, rv) :: post) e so = Ok true -> 0 < rv.
Proof.
  intros w pre. induction pre as [|[s v] r IH]; intros rv post e so Hpost He H.
  - cbn [app b_find_output] in H. bind_ok H e' He'. apply add_u64_ok in He'. subst e'.
    unfold total_out in He. cbn [sum_map] in He.
    destruct (N.ltb_spec so (e + rv)) as [Hlt|Hge]; [lia|].
    exfalso. clear He. revert H. generalize (e + rv). intros e1 H.
    assert (He1 : e1 <= so \/ True) by tauto. clear Hge He1.
    revert e1 H. induction post as [|[s2 v2] p2 IHp]; intros e1 H; cbn [b_find_output] in H; [discriminate|].
    bind_ok H e2 He2. destruct (so <? e2).
    + destruct (s2 =? w_recipient w) eqn:Hs2; [|discriminate].
      apply N.eqb_eq in Hs2. apply (Hpost (s2, v2)); [left; reflexivity|exact Hs2].
    + apply (IHp (fun o Ho => Hpost o (or_intror Ho)) e2 H).
  - cbn [app b_find_output] in H. bind_ok H e' He'. apply add_u64_ok in He'. subst e'.
    unfold total_out in He. cbn [sum_map snd] in He.
    destruct (N.ltb_spec so (e + v)) as [Hlt|Hge]; [lia|].
    eapply IH; [exact Hpost| |exact H]. unfold total_out. lia.
Qed.

Lemma b_add_inputs_ok : forall w inputs acc tin,
  b_add_inputs w inputs acc = Ok tin ->
  tin = acc + total_in w inputs /\ forall i, In i inputs -> in_wallet w i.
Proof.
  intros w inputs. induction inputs as [|i r IH]; intros acc tin H; cbn [b_add_inputs] in H.
  - inversion H. unfold total_in. cbn [sum_map]. split; [lia|intros ? []].
  - destruct (amount_of (w_amounts w) i) as [v|] eqn:Hv; [|discriminate].
    bind_ok H a Ha. apply add_amt_ok in Ha. subst a.
    destruct (IH _ _ H) as [Ht Hw]. split.
    + unfold total_in in *. cbn [sum_map]. unfold value_of at 1. rewrite Hv. lia.
    + intros x [Hx|Hx]; [subst; exists v; exact Hv|exact (Hw x Hx)].
Qed.

Lemma b_sub_outputs_ok : forall outs acc f,
  b_sub_outputs outs acc = Ok f -> acc = f + sum_map snd outs.
Proof.
  intros outs. induction outs as [|[s v] r IH]; intros acc f H; cbn [b_sub_outputs] in H.
  - inversion H. cbn [sum_map]. lia.
  - bind_ok H a Ha. apply sub_amt_ok in Ha. destruct Ha as [Hle Ha]. subst a.
    apply IH in H. cbn [sum_map snd]. lia.
Qed.

Lemma b_check_recipient_ok : forall fee w vb rv,
  b_check_recipient fee w vb rv = Ok tt -> target_clause fee w vb rv.
Proof.
  intros fee w vb rv H. unfold b_check_recipient in H. unfold target_clause, one_output_fee, change_dust.
  if_ok H Hs. unfold max_change_dust in H.
  destruct (w_target w) as [|p|t].
  - bind_ok H lim Hl. apply add_amt_ok in Hl. subst lim.
    destruct (N.leb_spec rv (TB_MAX_POSTAGE + (fee (vb + TB_ADDITIONAL_OUTPUT_VBYTES) - fee vb))); [assumption|discriminate].
  - bind_ok H lim0 Hl0. apply add_amt_ok in Hl0. subst lim0.
    bind_ok H lim Hl. apply add_amt_ok in Hl. subst lim.
    match type of H with (if ?c then _ else _) = _ => destruct c eqn:Hc; [|discriminate] end.
    apply N.leb_le in Hc. exact Hc.
  - destruct (N.ltb_spec rv t); [discriminate|]. split; [assumption|].
    bind_ok H lim Hl. apply add_amt_ok in Hl. subst lim.
    match type of H with (if ?c then _ else _) = _ => destruct c eqn:Hc; [|discriminate] end.
    apply N.leb_le in Hc. lia.
Qed.

Theorem build_ok_implies_spec : forall fee w tx,
  build_transaction fee w = Ok tx -> SendSpec fee w tx.
Proof.
  intros fee w [inputs outs] H. unfold build_transaction in H.
  bind_ok H st Hp. apply passes_ok in Hp.
  destruct Hp as [[Hnd [_ Hcard]] [Hoth [amount [Ham Hoff]]]].
  unfold build in H.
  if_ok H H1. if_ok H H2. bind_ok H so Hso.
  destruct so as [sat_offset|]; [|discriminate].
  bind_ok H found Hf. if_ok H H3. if_ok H H4. if_ok H H5.
  bind_ok H t Hout. destruct t. bind_ok H tin Htin. bind_ok H actual Hact.
  if_ok H H6. if_ok H H7. inversion H. subst inputs outs. clear H.
  apply negb_false_iff in H3, H4, H6, H7. subst found.
  apply Nat.eqb_eq in H4. apply N.eqb_eq in H6.
  apply b_sat_offset_ok in Hso. destruct Hso as [before [after [Hin [Hbw Hso]]]].
  destruct (b_outputs_ok _ _ _ _ _ _ Hout H4) as [pre [rv [post [Houts [Hch [Hpre Hchk]]]]]].
  apply b_add_inputs_ok in Htin. destruct Htin as [Htin Hwal].
  apply b_sub_outputs_ok in Hact.
  assert (Hvo : value_of w (w_out_id w) = amount). { unfold value_of. rewrite Ham. reflexivity. }
  cbn [SendSpec]. split; [exact Hnd|]. split; [exact Hwal|]. split.
  { intros i Hi Hne. apply Hcard; assumption. }
  exists before, after, pre, rv, post.
  split; [exact Hin|]. split; [rewrite Hvo; exact Hoff|]. split; [exact Houts|].
  split; [exact Hch|]. split; [lia|]. split.
  { rewrite Houts in Hf. eapply b_find_output_pos; [|exact Hpre|exact Hf].
    intros o Ho. apply Hch. apply in_or_app. right. exact Ho. }
  split.
  { intros id off Hinscr Hid Hne.
    assert (Hideq : id = w_out_id w).
    { destruct (N.eq_dec id (w_out_id w)) as [|Hn]; [assumption|exfalso].
      destruct (Hcard id Hid Hn) as [_ [_ Hni]]. apply Hni.
      apply in_map_iff. exists (id, off). split; [reflexivity|exact Hinscr]. }
    split; [exact Hideq|]. subst id.
    assert (Hoffne : off <> w_out_off w) by congruence.
    pose proof (Hoth _ _ Hinscr eq_refl Hoffne) as Hle.
    assert (off < w_out_off w); [|lia].
    assert (off <= w_out_off w) by lia. lia. }
  split.
  { intros o Ho. rewrite forallb_forall in H7. apply N.leb_le. exact (H7 o Ho). }
  split; [apply b_check_recipient_ok; exact Hchk|].
  unfold total_out. lia.
Qed.
