(* Lemmas for C22: sheets, exact allocation of uncapped edicts, send/burn/split outcomes. *)
From OrdV Require Import Base.Prelude Wallet.RuneTx.
Require Import Lia.

(* ------------------------------------------------------------ sheets *)

Definition keys (s : sheet) : list N := map fst s.
Definition uniq (s : sheet) : Prop := NoDup (keys s).

Lemma get_absent : forall s k, ~ In k (keys s) -> get s k = 0.
Proof.
  induction s as [|[k0 v0] r IH]; intros k H; cbn [get]; [reflexivity|].
  cbn in H. destruct (N.eqb_spec k0 k) as [->|Hne]; [exfalso; apply H; left; reflexivity|].
  apply IH. intros Hin. apply H. right. exact Hin.
Qed.

Lemma get_add : forall s k v k', get (add s k v) k' = get s k' + (if k =? k' then v else 0).
Proof.
  induction s as [|[k0 v0] r IH]; intros k v k'; cbn [add get].
  - destruct (N.eqb_spec k k'); lia.
  - destruct (N.eqb_spec k0 k) as [->|Hne]; cbn [get].
    + destruct (N.eqb_spec k k'); lia.
    + destruct (N.eqb_spec k0 k') as [->|Hne'].
      * destruct (N.eqb_spec k k'); [congruence|lia].
      * apply IH.
Qed.

Lemma get_sub : forall s k v k', get (sub s k v) k' = get s k' - (if k =? k' then v else 0).
Proof.
  induction s as [|[k0 v0] r IH]; intros k v k'; cbn [sub get].
  - destruct (N.eqb_spec k k'); lia.
  - destruct (N.eqb_spec k0 k) as [->|Hne]; cbn [get].
    + destruct (N.eqb_spec k k'); lia.
    + destruct (N.eqb_spec k0 k') as [->|Hne'].
      * destruct (N.eqb_spec k k'); [congruence|lia].
      * apply IH.
Qed.

Lemma keys_add_in : forall s k v k', In k' (keys (add s k v)) <-> In k' (keys s) \/ k' = k.
Proof.
  induction s as [|[k0 v0] r IH]; intros k v k'; cbn [add keys map fst In].
  - intuition.
  - destruct (N.eqb_spec k0 k) as [->|Hne]; cbn [keys map fst In].
    + intuition.
    + fold (keys (add r k v)). rewrite IH. fold (keys r). intuition.
Qed.

Lemma uniq_add : forall s k v, uniq s -> uniq (add s k v).
Proof.
  unfold uniq. induction s as [|[k0 v0] r IH]; intros k v H; cbn [add keys map fst].
  - constructor; [intros []|constructor].
  - cbn [keys map fst] in H. inversion H as [|? ? Hn Hr]; subst.
    destruct (N.eqb_spec k0 k) as [->|Hne]; cbn [keys map fst].
    + constructor; assumption.
    + constructor.
      * fold (keys (add r k v)). rewrite keys_add_in. intros [Hin|Heq]; [exact (Hn Hin)|congruence].
      * apply IH. exact Hr.
Qed.

Lemma keys_sub : forall s k v, keys (sub s k v) = keys s.
Proof.
  induction s as [|[k0 v0] r IH]; intros k v; cbn [sub keys map fst]; [reflexivity|].
  destruct (k0 =? k); cbn [keys map fst]; [reflexivity|]. f_equal. apply IH.
Qed.

Lemma uniq_sub : forall s k v, uniq s -> uniq (sub s k v).
Proof. intros. unfold uniq. rewrite keys_sub. assumption. Qed.

Lemma uniq_merge : forall b a, uniq a -> uniq (merge a b).
Proof.
  unfold merge. induction b as [|[k v] r IH]; intros a H; cbn [fold_left]; [exact H|].
  apply IH. apply uniq_add. exact H.
Qed.

Lemma get_merge : forall b a k, uniq b -> get (merge a b) k = get a k + get b k.
Proof.
  unfold merge. induction b as [|[k0 v0] r IH]; intros a k H; cbn [fold_left get fst snd]; [lia|].
  unfold uniq in H. cbn [keys map fst] in H. inversion H as [|? ? Hn Hr]; subst.
  rewrite (IH _ _ Hr), get_add.
  destruct (N.eqb_spec k0 k) as [->|Hne]; [|lia].
  rewrite (get_absent r k Hn). lia.
Qed.

Lemma uniq_nil : uniq [].
Proof. constructor. Qed.

(* ------------------------------------------------------------ credit / deliver *)

Lemma length_credit : forall al o id v, length (credit al o id v) = length al.
Proof.
  induction al as [|s r IH]; intros o id v; cbn [credit]; [reflexivity|].
  destruct o; cbn [length]; [reflexivity|]. f_equal. apply IH.
Qed.

Lemma get_credit : forall al o id v o' id', (o < length al)%nat ->
  get (nth o' (credit al o id v) []) id' =
  get (nth o' al []) id' + (if Nat.eqb o o' && (id =? id') then v else 0).
Proof.
  induction al as [|s r IH]; intros o id v o' id' Hlt; cbn [length] in Hlt; [lia|].
  cbn [credit]. destruct o as [|o].
  - destruct o' as [|o']; cbn [nth Nat.eqb andb].
    + rewrite get_add. reflexivity.
    + lia.
  - destruct o' as [|o']; cbn [nth Nat.eqb andb].
    + lia.
    + apply IH. lia.
Qed.

Lemma deliver_length : forall u al v, length (deliver u al v) = length al.
Proof.
  induction u as [|[k b] r IH]; intros al v; cbn [deliver]; [reflexivity|].
  rewrite IH. destruct (0 <? b); [apply length_credit|reflexivity].
Qed.

Lemma deliver_get : forall u al v o id, uniq u -> (v < length al)%nat ->
  get (nth o (deliver u al v) []) id =
  get (nth o al []) id + (if Nat.eqb v o then get u id else 0).
Proof.
  induction u as [|[k b] r IH]; intros al v o id Hu Hv; cbn [deliver get].
  - destruct (Nat.eqb v o); lia.
  - unfold uniq in Hu. cbn [keys map fst] in Hu. inversion Hu as [|? ? Hn Hr]; subst.
    rewrite IH; [|exact Hr|destruct (0 <? b); [rewrite length_credit|]; exact Hv].
    destruct (N.ltb_spec 0 b) as [Hb|Hb].
    + rewrite get_credit by exact Hv.
      destruct (Nat.eqb v o); cbn [andb].
      * destruct (N.eqb_spec k id) as [->|Hne]; [rewrite (get_absent r id Hn)|]; lia.
      * lia.
    + assert (b = 0) by lia. subst b.
      destruct (Nat.eqb v o); [|lia].
      destruct (N.eqb_spec k id) as [->|Hne]; [rewrite (get_absent r id Hn)|]; lia.
Qed.

(* ------------------------------------------------------------ uncapped edicts are exact *)

Definition sum_id (es : list edict) (id : N) : N :=
  fold_right (fun e acc => (if e_id e =? id then e_amount e else 0) + acc) 0 es.
Definition sum_io (es : list edict) (id : N) (o : nat) : N :=
  fold_right (fun e acc => (if (e_id e =? id) && Nat.eqb (e_output e) o then e_amount e else 0) + acc) 0 es.

(* an edict as the wallet writes them: a real rune id, a non-zero amount, a specific output *)
Definition plain (n : nat) (e : edict) : Prop :=
  e_id e <> 0 /\ 0 < e_amount e /\ (e_output e < n)%nat.

Lemma step_plain : forall opret u al e, plain (length opret) e -> e_amount e <= get u (e_id e) ->
  step opret (u, al) e = (sub u (e_id e) (e_amount e), credit al (e_output e) (e_id e) (e_amount e)).
Proof.
  intros opret u al e [Hid [Ham Ho]] Hle. unfold step.
  destruct (N.eqb_spec (e_id e) 0); [contradiction|].
  destruct (Nat.eqb_spec (e_output e) (length opret)); [lia|].
  destruct (N.eqb_spec (e_amount e) 0); [lia|].
  cbn [fst]. rewrite N.min_l by exact Hle. unfold allocate.
  destruct (N.ltb_spec 0 (e_amount e)); [reflexivity|lia].
Qed.

Lemma run_edicts_exact : forall opret es u al,
  Forall (plain (length opret)) es -> length al = length opret ->
  (forall id, sum_id es id <= get u id) ->
  let st := fold_left (step opret) es (u, al) in
  length (snd st) = length opret /\ keys (fst st) = keys u /\
  (forall id, get (fst st) id = get u id - sum_id es id) /\
  (forall o id, get (nth o (snd st) []) id = get (nth o al []) id + sum_io es id o).
Proof.
  intros opret. induction es as [|e es IH]; intros u al Hpl Hlen Hle; cbn [fold_left].
  - cbn [fst snd sum_id sum_io fold_right]. repeat split; auto; intros; lia.
  - inversion Hpl as [|? ? He Hes]; subst.
    assert (Hea : e_amount e <= get u (e_id e)).
    { specialize (Hle (e_id e)). cbn [sum_id fold_right] in Hle. rewrite N.eqb_refl in Hle. lia. }
    rewrite (step_plain opret u al e He Hea).
    destruct He as [Hid [Ham Ho]].
    specialize (IH (sub u (e_id e) (e_amount e)) (credit al (e_output e) (e_id e) (e_amount e)) Hes).
    assert (Hl1 : length (credit al (e_output e) (e_id e) (e_amount e)) = length opret)
      by (rewrite length_credit; exact Hlen).
    assert (Hle1 : forall id, sum_id es id <= get (sub u (e_id e) (e_amount e)) id).
    { intros id. rewrite get_sub. specialize (Hle id). cbn [sum_id fold_right] in Hle.
      fold (sum_id es id) in Hle. destruct (e_id e =? id); lia. }
    specialize (IH Hl1 Hle1). cbv zeta in IH. destruct IH as [I1 [I2 [I3 I4]]].
    cbv zeta. split; [exact I1|]. split; [rewrite I2; apply keys_sub|]. split.
    + intros id. rewrite I3, get_sub. cbn [sum_id fold_right]. fold (sum_id es id).
      specialize (Hle id). cbn [sum_id fold_right] in Hle. fold (sum_id es id) in Hle.
      destruct (e_id e =? id); lia.
    + intros o id. rewrite I4, get_credit by (rewrite Hlen; exact Ho).
      cbn [sum_io fold_right]. fold (sum_io es id o).
      rewrite (andb_comm (Nat.eqb (e_output e) o)). lia.
Qed.

(* ------------------------------------------------------------ the whole transaction *)

Lemma nth_repeat_nil : forall n o, nth o (repeat (@nil (N * N)) n) [] = [].
Proof. induction n; intros [|o]; cbn; auto. Qed.

Lemma non_opret_lt : forall opret k v, In v (non_opret k opret) -> (k <= v < k + length opret)%nat.
Proof.
  induction opret as [|b r IH]; intros k v H; cbn [non_opret] in H; [destruct H|].
  cbn [length]. destruct b.
  - apply IH in H. lia.
  - destruct H as [<-|H]; [lia|]. apply IH in H. lia.
Qed.

(* balances of every output after a transaction whose edicts are plain and uncapped *)
Theorem apply_tx_exact : forall unalloc es opret,
  uniq unalloc -> Forall (plain (length opret)) es ->
  (forall id, sum_id es id <= get unalloc id) ->
  let res := apply_tx unalloc es opret in
  forall o id,
    get (nth o (fst res) []) id =
    sum_io es id o +
    (match non_opret 0 opret with
     | v :: _ => if Nat.eqb v o then get unalloc id - sum_id es id else 0
     | [] => 0 end)
    /\ get (snd res) id =
       (match non_opret 0 opret with [] => get unalloc id - sum_id es id | _ => 0 end).
Proof.
  intros unalloc es opret Hu Hpl Hle res o id. unfold res, apply_tx.
  pose proof (run_edicts_exact opret es unalloc (repeat [] (length opret)) Hpl
                (repeat_length _ _) Hle) as H.
  cbv zeta in H. destruct H as [H1 [H2 [H3 H4]]].
  destruct (non_opret 0 opret) as [|v vs] eqn:Hno; cbn [fst snd].
  - rewrite H4, nth_repeat_nil, H3. cbn [get]. split; lia.
  - assert (Hv : (v < length opret)%nat).
    { pose proof (non_opret_lt opret 0 v) as Hx. rewrite Hno in Hx. specialize (Hx (or_introl eq_refl)). lia. }
    rewrite deliver_get.
    + rewrite H4, nth_repeat_nil, H3. cbn [get]. split; [lia|reflexivity].
    + exact (eq_ind_r (fun l => NoDup l) Hu H2).
    + exact (eq_ind_r (fun n => (v < n)%nat) Hv H1).
Qed.

(* ------------------------------------------------------------ inventory and selection *)

Definition dw : wout := {| w_inscribed := false; w_runes := [] |}.

Definition valid_inv (inv : list wout) : Prop := Forall (fun w => uniq (w_runes w)) inv.

(* what the listed wallet outputs hold of rune id *)
Definition sum_inputs (inv : list wout) (ins : list nat) (id : N) : N :=
  fold_right (fun o acc => get (w_runes (nth o inv dw)) id + acc) 0 ins.

Lemma sum_inputs_app : forall inv a b id,
  sum_inputs inv (a ++ b) id = sum_inputs inv a id + sum_inputs inv b id.
Proof.
  intros inv a b id. unfold sum_inputs. induction a as [|x a IH]; cbn [app fold_right]; [lia|].
  rewrite IH. lia.
Qed.

Lemma candidates_spec : forall inv k o s, In (o, s) (candidates k inv) ->
  (k <= o)%nat /\ s = w_runes (nth (o - k) inv dw) /\ w_inscribed (nth (o - k) inv dw) = false /\
  (o - k < length inv)%nat.
Proof.
  induction inv as [|w r IH]; intros k o s H; cbn [candidates] in H; [destruct H|].
  assert (Hrec : In (o, s) (candidates (S k) r) ->
    (k <= o)%nat /\ s = w_runes (nth (o - k) (w :: r) dw) /\ w_inscribed (nth (o - k) (w :: r) dw) = false /\
    (o - k < length (w :: r))%nat).
  { intros Hin. apply IH in Hin. destruct Hin as [Hk [Hs [Hi Hl]]].
    replace (o - k)%nat with (S (o - S k)) by lia. cbn [nth length]. repeat split; auto; lia. }
  destruct (w_runes w) as [|x xs] eqn:Hw; [auto|].
  destruct (w_inscribed w) eqn:Hi; [auto|].
  destruct H as [H|H]; [|auto].
  inversion H; subst. rewrite Nat.sub_diag. cbn [nth length]. repeat split; auto; lia.
Qed.

Definition cands_ok (inv : list wout) (cands : list (nat * sheet)) : Prop :=
  forall o s, In (o, s) cands -> s = w_runes (nth o inv dw) /\ uniq s.

Lemma candidates_ok : forall inv, valid_inv inv -> cands_ok inv (candidates 0 inv).
Proof.
  intros inv Hv o s Hin. apply candidates_spec in Hin. destruct Hin as [_ [Hs [_ Hl]]].
  rewrite Nat.sub_0_r in *. split; [exact Hs|]. subst s.
  unfold valid_inv in Hv. rewrite Forall_forall in Hv. apply Hv. apply nth_In. exact Hl.
Qed.

Lemma select_send_ok : forall inv cands r a inputs0 bal0 inputs bal,
  cands_ok inv cands -> uniq bal0 ->
  (forall id, get bal0 id = sum_inputs inv inputs0 id) ->
  select_send cands r a inputs0 bal0 = Ok (inputs, bal) ->
  uniq bal /\ (forall id, get bal id = sum_inputs inv inputs id).
Proof.
  intros inv. induction cands as [|[o s] rest IH]; intros r a inputs0 bal0 inputs bal Hc Hu Hs H;
    cbn [select_send] in H.
  - inversion H; subst. auto.
  - assert (Hrest : cands_ok inv rest) by (intros o' s' Hin; apply Hc; right; exact Hin).
    destruct (Hc o s (or_introl eq_refl)) as [Hso Hsu].
    assert (Hu' : uniq (merge bal0 s)) by (apply uniq_merge; exact Hu).
    assert (Hs' : forall id, get (merge bal0 s) id = sum_inputs inv (inputs0 ++ [o]) id).
    { intros id. rewrite get_merge by exact Hsu. rewrite sum_inputs_app, Hs.
      cbn [sum_inputs fold_right]. rewrite <- Hso. lia. }
    destruct (0 <? get s r).
    + destruct (overflow (merge bal0 s)); [discriminate|].
      destruct (a <=? get (merge bal0 s) r).
      * inversion H; subst. auto.
      * exact (IH r a _ _ inputs bal Hrest Hu' Hs' H).
    + exact (IH r a _ _ inputs bal Hrest Hu Hs H).
Qed.

(* a sheet with at most one key that holds something of r holds nothing else *)
Lemma single_key : forall (bal : sheet) r, (length bal <= 1)%nat -> 0 < get bal r ->
  forall id, id <> r -> get bal id = 0.
Proof.
  intros [|[k v] [|x xs]] r Hl Hg id Hne; cbn [get] in *; try lia; [|cbn [length] in Hl; lia].
  destruct (N.eqb_spec k r) as [->|]; [|lia].
  destruct (N.eqb_spec r id); [congruence|reflexivity].
Qed.

(* ------------------------------------------------------------ send / burn outcome *)

Ltac fin :=
  repeat match goal with
         | |- context [?a =? ?b] => destruct (N.eqb_spec a b)
         end;
  subst; cbn [andb negb]; rewrite ?andb_true_r, ?andb_false_r; try lia; try congruence.

Lemma burn_get_unfold : forall opret res id,
  burn_get opret res id =
  fold_right (fun o acc => (if nth o opret false then get (nth o (fst res) []) id else 0) + acc)
             0 (seq 0 (length opret)) + get (snd res) id.
Proof. reflexivity. Qed.

Theorem send_exact : forall inv r a is_send fc t,
  valid_inv inv -> r <> 0 ->
  build_send inv r a is_send fc = Ok t ->
  0 < a /\
  (forall id, get (t_spent t) id = sum_inputs inv (t_inputs t) id) /\
  (forall id, sum_outs t (t_dest t) id = if is_send && (id =? r) then a else 0) /\
  (forall id, burn_get (t_opret t) (outcome t) id = if negb is_send && (id =? r) then a else 0) /\
  (forall id, sum_outs t (t_change t) id + (if id =? r then a else 0) = get (t_spent t) id).
Proof.
  intros inv r a is_send fc t Hv Hr H. unfold build_send in H.
  destruct (N.eqb_spec a 0) as [|Ha]; [discriminate|].
  destruct (select_send (candidates 0 inv) r a [] []) as [[inputs bal]|e|p] eqn:Hsel;
    cbn [bind] in H; try discriminate.
  destruct (select_send_ok inv _ r a [] [] inputs bal (candidates_ok inv Hv) uniq_nil
              (fun id => eq_refl) Hsel) as [Hu Hsum].
  destruct (N.ltb_spec (get bal r) a) as [|Hge]; [discriminate|].
  split; [lia|].
  set (e2 := {| e_id := r; e_amount := a; e_output := 2 |}) in *.
  set (e0 := {| e_id := r; e_amount := a; e_output := 0 |}) in *.
  assert (Hsid : forall (e : edict) id, e_id e = r -> e_amount e = a ->
            sum_id [e] id <= get bal id).
  { intros e id He Hea. cbn [sum_id fold_right]. rewrite He, Hea. fin. }
  destruct ((a <? get bal r) || (1 <? N.of_nat (length bal))) eqn:Hnc.
  - (* with a rune change output *)
    destruct is_send; inversion H; subst t; clear H; cbn [t_spent t_inputs t_dest t_change t_opret t_edicts];
      (split; [exact Hsum|]).
    + (* send: [runestone; change; recipient] ++ bitcoin change *)
      assert (Hpl : Forall (plain (length ([true; false; false] ++ (if fc then [false] else [])))) [e2]).
      { constructor; [|constructor]. unfold plain, e2; cbn [e_id e_amount e_output].
        repeat split; [exact Hr|lia|destruct fc; cbn; lia]. }
      pose proof (apply_tx_exact bal [e2] _ Hu Hpl (fun id => Hsid e2 id eq_refl eq_refl)) as HA.
      cbv zeta in HA.
      unfold sum_outs, outcome, out_get; cbn [t_spent t_edicts t_opret].
      repeat split; intros id.
      * cbn [fold_right]. destruct (HA 2%nat id) as [H2 _].
        destruct fc; cbn [app nth non_opret Nat.eqb] in *; rewrite H2;
          cbn [sum_io sum_id fold_right e2 e_id e_amount e_output Nat.eqb andb]; fin.
      * rewrite burn_get_unfold. destruct (HA 0%nat id) as [H0 Hs0].
        destruct fc; cbn [app length seq fold_right nth non_opret Nat.eqb fst snd negb andb] in *;
          rewrite H0, Hs0; cbn [sum_io sum_id fold_right e2 e_id e_amount e_output Nat.eqb andb];
          rewrite ?andb_false_r; lia.
      * cbn [fold_right]. destruct (HA 1%nat id) as [H1 _]. destruct (HA 3%nat id) as [H3 _].
        specialize (Hsid e2 id eq_refl eq_refl).
        destruct fc; cbn [app nth non_opret Nat.eqb fold_right] in *; rewrite ?H1, ?H3;
          cbn [sum_io sum_id fold_right e2 e_id e_amount e_output Nat.eqb andb] in *;
          rewrite ?andb_false_r in *; fin.
    + (* burn: [runestone; change] ++ bitcoin change *)
      assert (Hpl : Forall (plain (length ([true; false] ++ (if fc then [false] else [])))) [e0]).
      { constructor; [|constructor]. unfold plain, e0; cbn [e_id e_amount e_output].
        repeat split; [exact Hr|lia|destruct fc; cbn; lia]. }
      pose proof (apply_tx_exact bal [e0] _ Hu Hpl (fun id => Hsid e0 id eq_refl eq_refl)) as HA.
      cbv zeta in HA.
      unfold sum_outs, outcome, out_get; cbn [t_spent t_edicts t_opret].
      repeat split; intros id.
      * rewrite burn_get_unfold. destruct (HA 0%nat id) as [H0 Hs0].
        destruct fc; cbn [app length seq fold_right nth non_opret Nat.eqb fst snd negb andb] in *;
          rewrite H0, Hs0; cbn [sum_io sum_id fold_right e0 e_id e_amount e_output Nat.eqb andb];
          rewrite ?andb_true_r; fin.
      * cbn [fold_right]. destruct (HA 1%nat id) as [H1 _]. destruct (HA 2%nat id) as [H2 _].
        specialize (Hsid e0 id eq_refl eq_refl).
        destruct fc; cbn [app nth non_opret Nat.eqb fold_right] in *; rewrite ?H1, ?H2;
          cbn [sum_io sum_id fold_right e0 e_id e_amount e_output Nat.eqb andb] in *;
          rewrite ?andb_false_r in *; fin.
  - (* exact: the inputs hold exactly a of r and nothing else *)
    apply orb_false_iff in Hnc. destruct Hnc as [Hlt Hlen].
    assert (Hex : get bal r = a) by (destruct (N.ltb_spec a (get bal r)); [discriminate|lia]).
    assert (Hl1 : (length bal <= 1)%nat) by (destruct (N.ltb_spec 1 (N.of_nat (length bal))); [discriminate|lia]).
    assert (Hoth : forall id, id <> r -> get bal id = 0) by (apply single_key; [exact Hl1|lia]).
    destruct is_send; inversion H; subst t; clear H; cbn [t_spent t_inputs t_dest t_change t_opret t_edicts];
      (split; [exact Hsum|]).
    + (* send without runestone: [recipient] ++ bitcoin change *)
      assert (Hpl : Forall (plain (length ([false] ++ (if fc then [false] else [])))) []) by constructor.
      pose proof (apply_tx_exact bal [] _ Hu Hpl (fun id => N.le_0_l _)) as HA. cbv zeta in HA.
      unfold sum_outs, outcome, out_get; cbn [t_spent t_edicts t_opret].
      repeat split; intros id.
      * cbn [fold_right]. destruct (HA 0%nat id) as [H0 _].
        destruct fc; cbn [app nth non_opret Nat.eqb] in *; rewrite H0; cbn [sum_io sum_id fold_right];
          cbn [andb]; (destruct (N.eqb_spec id r) as [->|Hne]; [|rewrite ?(Hoth id Hne)]; fin).
      * rewrite burn_get_unfold. destruct (HA 0%nat id) as [_ Hs0]. destruct (HA 1%nat id) as [_ Hs1].
        destruct fc; cbn [app length seq fold_right nth non_opret fst snd negb andb] in *; rewrite Hs0; lia.
      * destruct (HA 1%nat id) as [H1 _].
        destruct fc; cbn [app nth non_opret Nat.eqb fold_right] in *; rewrite ?H1;
          cbn [sum_io sum_id fold_right];
          (destruct (N.eqb_spec id r) as [->|Hne]; [|rewrite ?(Hoth id Hne)]; fin).
    + (* burn: [runestone] ++ bitcoin change *)
      assert (Hpl : Forall (plain (length ([true] ++ (if fc then [false] else [])))) [e0]).
      { constructor; [|constructor]. unfold plain, e0; cbn [e_id e_amount e_output].
        repeat split; [exact Hr|lia|destruct fc; cbn; lia]. }
      pose proof (apply_tx_exact bal [e0] _ Hu Hpl (fun id => Hsid e0 id eq_refl eq_refl)) as HA.
      cbv zeta in HA.
      unfold sum_outs, outcome, out_get; cbn [t_spent t_edicts t_opret].
      repeat split; intros id.
      * rewrite burn_get_unfold. destruct (HA 0%nat id) as [H0 Hs0].
        destruct fc; cbn [app length seq fold_right nth non_opret Nat.eqb fst snd negb andb] in *;
          rewrite H0, Hs0; cbn [sum_io sum_id fold_right e0 e_id e_amount e_output Nat.eqb andb];
          rewrite ?andb_true_r;
          (destruct (N.eqb_spec id r) as [->|Hne]; [|rewrite ?(Hoth id Hne)]; fin).
      * destruct (HA 1%nat id) as [H1 _].
        destruct fc; cbn [app nth non_opret Nat.eqb fold_right] in *; rewrite ?H1;
          cbn [sum_io sum_id fold_right e0 e_id e_amount e_output Nat.eqb andb];
          rewrite ?andb_false_r;
          (destruct (N.eqb_spec id r) as [->|Hne]; [|rewrite ?(Hoth id Hne)]; fin).
Qed.

Theorem send_zero_rejected : forall inv r is_send fc, build_send inv r 0 is_send fc = Err 2.
Proof. reflexivity. Qed.
