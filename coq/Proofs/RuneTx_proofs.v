(* Lemmas for C22: sheets, exact allocation of uncapped edicts, send/burn/split outcomes. *)
From OrdV Require Import Base.Prelude Wallet.RuneTx.
Require Import Lia.

(* ------------------------------------------------------------ sheets *)

Definition keys (s : sheet) : list N := map fst s.
Definition uniq (s : sheet) : Prop := NoDup (keys s).

Lemma get_absent : forall s k, ~ In k (keys s) -> get s k = 0.
Proof.
  induction s as [|[k0 v0] r IH]; intros k H; cbn [get]; [reflexivity|].
  cbn in H. destruct (N.eqb_spec k0 k) as [->|Hne]; [exfalso; apply H; left; reflexivity|].
  apply IH. intros Hin. apply H. right. exact Hin.
Qed.

Lemma get_add : forall s k v k', get (add s k v) k' = get s k' + (if k =? k' then v else 0).
Proof.
  induction s as [|[k0 v0] r IH]; intros k v k'; cbn [add get].
  - destruct (N.eqb_spec k k'); lia.
  - destruct (N.eqb_spec k0 k) as [->|Hne]; cbn [get].
    + destruct (N.eqb_spec k k'); lia.
    + destruct (N.eqb_spec k0 k') as [->|Hne'].
      * destruct (N.eqb_spec k k'); [congruence|lia].
      * apply IH.
Qed.

Lemma get_sub : forall s k v k', get (sub s k v) k' = get s k' - (if k =? k' then v else 0).
Proof.
  induction s as [|[k0 v0] r IH]; intros k v k'; cbn [sub get].
  - destruct (N.eqb_spec k k'); lia.
  - destruct (N.eqb_spec k0 k) as [->|Hne]; cbn [get].
    + destruct (N.eqb_spec k k'); lia.
    + destruct (N.eqb_spec k0 k') as [->|Hne'].
      * destruct (N.eqb_spec k k'); [congruence|lia].
      * apply IH.
Qed.

Lemma keys_add_in : forall s k v k', In k' (keys (add s k v)) <-> In k' (keys s) \/ k' = k.
Proof.
  induction s as [|[k0 v0] r IH]; intros k v k'; cbn [add keys map fst In].
  - intuition.
  - destruct (N.eqb_spec k0 k) as [->|Hne]; cbn [keys map fst In].
    + intuition.
    + fold (keys (add r k v)). rewrite IH. fold (keys r). intuition.
Qed.

Lemma uniq_add : forall s k v, uniq s -> uniq (add s k v).
Proof.
  unfold uniq. induction s as [|[k0 v0] r IH]; intros k v H; cbn [add keys map fst].
  - constructor; [intros []|constructor].
  - cbn [keys map fst] in H. inversion H as [|? ? Hn Hr]; subst.
    destruct (N.eqb_spec k0 k) as [->|Hne]; cbn [keys map fst].
    + constructor; assumption.
    + constructor.
      * fold (keys (add r k v)). rewrite keys_add_in. intros [Hin|Heq]; [exact (Hn Hin)|congruence].
      * apply IH. exact Hr.
Qed.

Lemma keys_sub : forall s k v, keys (sub s k v) = keys s.
Proof.
  induction s as [|[k0 v0] r IH]; intros k v; cbn [sub keys map fst]; [reflexivity|].
  destruct (k0 =? k); cbn [keys map fst]; [reflexivity|]. f_equal. apply IH.
Qed.

Lemma uniq_sub : forall s k v, uniq s -> uniq (sub s k v).
Proof. intros. unfold uniq. rewrite keys_sub. assumption. Qed.

Lemma uniq_merge : forall b a, uniq a -> uniq (merge a b).
Proof.
  unfold merge. induction b as [|[k v] r IH]; intros a H; cbn [fold_left]; [exact H|].
  apply IH. apply uniq_add. exact H.
Qed.

Lemma get_merge : forall b a k, uniq b -> get (merge a b) k = get a k + get b k.
Proof.
  unfold merge. induction b as [|[k0 v0] r IH]; intros a k H; cbn [fold_left get fst snd]; [lia|].
  unfold uniq in H. cbn [keys map fst] in H. inversion H as [|? ? Hn Hr]; subst.
  rewrite (IH _ _ Hr), get_add.
  destruct (N.eqb_spec k0 k) as [->|Hne]; [|lia].
  rewrite (get_absent r k Hn). lia.
Qed.

Lemma uniq_nil : uniq [].
Proof. constructor. Qed.

(* ------------------------------------------------------------ credit / deliver *)

Lemma length_credit : forall al o id v, length (credit al o id v) = length al.
Proof.
  induction al as [|s r IH]; intros o id v; cbn [credit]; [reflexivity|].
  destruct o; cbn [length]; [reflexivity|]. f_equal. apply IH.
Qed.

Lemma get_credit : forall al o id v o' id', (o < length al)%nat ->
  get (nth o' (credit al o id v) []) id' =
  get (nth o' al []) id' + (if Nat.eqb o o' && (id =? id') then v else 0).
Proof.
  induction al as [|s r IH]; intros o id v o' id' Hlt; cbn [length] in Hlt; [lia|].
  cbn [credit]. destruct o as [|o].
  - destruct o' as [|o']; cbn [nth Nat.eqb andb].
    + rewrite get_add. reflexivity.
    + lia.
  - destruct o' as [|o']; cbn [nth Nat.eqb andb].
    + lia.
    + apply IH. lia.
Qed.

Lemma deliver_length : forall u al v, length (deliver u al v) = length al.
Proof.
  induction u as [|[k b] r IH]; intros al v; cbn [deliver]; [reflexivity|].
  rewrite IH. destruct (0 <? b); [apply length_credit|reflexivity].
Qed.

Lemma deliver_get : forall u al v o id, uniq u -> (v < length al)%nat ->
  get (nth o (deliver u al v) []) id =
  get (nth o al []) id + (if Nat.eqb v o then get u id else 0).
Proof.
  induction u as [|[k b] r IH]; intros al v o id Hu Hv; cbn [deliver get].
  - destruct (Nat.eqb v o); lia.
  - unfold uniq in Hu. cbn [keys map fst] in Hu. inversion Hu as [|? ? Hn Hr]; subst.
    rewrite IH; [|exact Hr|destruct (0 <? b); [rewrite length_credit|]; exact Hv].
    destruct (N.ltb_spec 0 b) as [Hb|Hb].
    + rewrite get_credit by exact Hv.
      destruct (Nat.eqb v o); cbn [andb].
      * destruct (N.eqb_spec k id) as [->|Hne]; [rewrite (get_absent r id Hn)|]; lia.
      * lia.
    + assert (b = 0) by lia. subst b.
      destruct (Nat.eqb v o); [|lia].
      destruct (N.eqb_spec k id) as [->|Hne]; [rewrite (get_absent r id Hn)|]; lia.
Qed.

(* ------------------------------------------------------------ uncapped edicts are exact *)

Definition sum_id (es : list edict) (id : N) : N :=
  fold_right (fun e acc => (if e_id e =? id then e_amount e else 0) + acc) 0 es.
Definition sum_io (es : list edict) (id : N) (o : nat) : N :=
  fold_right (fun e acc => (if (e_id e =? id) && Nat.eqb (e_output e) o then e_amount e else 0) + acc) 0 es.

(* an edict as the wallet writes them: a real rune id, a non-zero amount, a specific output *)
Definition plain (n : nat) (e : edict) : Prop :=
  e_id e <> 0 /\ 0 < e_amount e /\ (e_output e < n)%nat.

Lemma step_plain : forall opret u al e, plain (length opret) e -> e_amount e <= get u (e_id e) ->
  step opret (u, al) e = (sub u (e_id e) (e_amount e), credit al (e_output e) (e_id e) (e_amount e)).
Proof.
  intros opret u al e [Hid [Ham Ho]] Hle. unfold step.
  destruct (N.eqb_spec (e_id e) 0); [contradiction|].
  destruct (Nat.eqb_spec (e_output e) (length opret)); [lia|].
  destruct (N.eqb_spec (e_amount e) 0); [lia|].
  cbn [fst]. rewrite N.min_l by exact Hle. unfold allocate.
  destruct (N.ltb_spec 0 (e_amount e)); [reflexivity|lia].
Qed.

Lemma run_edicts_exact : forall opret es u al,
  Forall (plain (length opret)) es -> length al = length opret ->
  (forall id, sum_id es id <= get u id) ->
  let st := fold_left (step opret) es (u, al) in
  length (snd st) = length opret /\ keys (fst st) = keys u /\
  (forall id, get (fst st) id = get u id - sum_id es id) /\
  (forall o id, get (nth o (snd st) []) id = get (nth o al []) id + sum_io es id o).
Proof.
  intros opret. induction es as [|e es IH]; intros u al Hpl Hlen Hle; cbn [fold_left].
  - cbn [fst snd sum_id sum_io fold_right]. repeat split; auto; intros; lia.
  - inversion Hpl as [|? ? He Hes]; subst.
    assert (Hea : e_amount e <= get u (e_id e)).
    { specialize (Hle (e_id e)). cbn [sum_id fold_right] in Hle. rewrite N.eqb_refl in Hle. lia. }
    rewrite (step_plain opret u al e He Hea).
    destruct He as [Hid [Ham Ho]].
    specialize (IH (sub u (e_id e) (e_amount e)) (credit al (e_output e) (e_id e) (e_amount e)) Hes).
    assert (Hl1 : length (credit al (e_output e) (e_id e) (e_amount e)) = length opret)
      by (rewrite length_credit; exact Hlen).
    assert (Hle1 : forall id, sum_id es id <= get (sub u (e_id e) (e_amount e)) id).
    { intros id. rewrite get_sub. specialize (Hle id). cbn [sum_id fold_right] in Hle.
      fold (sum_id es id) in Hle. destruct (e_id e =? id); lia. }
    specialize (IH Hl1 Hle1). cbv zeta in IH. destruct IH as [I1 [I2 [I3 I4]]].
    cbv zeta. split; [exact I1|]. split; [rewrite I2; apply keys_sub|]. split.
    + intros id. rewrite I3, get_sub. cbn [sum_id fold_right]. fold (sum_id es id).
      specialize (Hle id). cbn [sum_id fold_right] in Hle. fold (sum_id es id) in Hle.
      destruct (e_id e =? id); lia.
    + intros o id. rewrite I4, get_credit by (rewrite Hlen; exact Ho).
      cbn [sum_io fold_right]. fold (sum_io es id o).
      rewrite (andb_comm (Nat.eqb (e_output e) o)). lia.
Qed.

(* ------------------------------------------------------------ the whole transaction *)

Lemma nth_repeat_nil : forall n o, nth o (repeat (@nil (N * N)) n) [] = [].
Proof. induction n; intros [|o]; cbn; auto. Qed.

Lemma non_opret_lt : forall opret k v, In v (non_opret k opret) -> (k <= v < k + length opret)%nat.
Proof.
  induction opret as [|b r IH]; intros k v H; cbn [non_opret] in H; [destruct H|].
  cbn [length]. destruct b.
  - apply IH in H. lia.
  - destruct H as [<-|H]; [lia|]. apply IH in H. lia.
Qed.

(* balances of every output after a transaction whose edicts are plain and uncapped *)
Theorem apply_tx_exact : forall unalloc es opret,
  uniq unalloc -> Forall (plain (length opret)) es ->
  (forall id, sum_id es id <= get unalloc id) ->
  let res := apply_tx unalloc es opret in
  forall o id,
    get (nth o (fst res) []) id =
    sum_io es id o +
    (match non_opret 0 opret with
     | v :: _ => if Nat.eqb v o then get unalloc id - sum_id es id else 0
     | [] => 0 end)
    /\ get (snd res) id =
       (match non_opret 0 opret with [] => get unalloc id - sum_id es id | _ => 0 end).
Proof.
  intros unalloc es opret Hu Hpl Hle res o id. unfold res, apply_tx.
  pose proof (run_edicts_exact opret es unalloc (repeat [] (length opret)) Hpl
                (repeat_length _ _) Hle) as H.
  cbv zeta in H. destruct H as [H1 [H2 [H3 H4]]].
  destruct (non_opret 0 opret) as [|v vs] eqn:Hno; cbn [fst snd].
  - rewrite H4, nth_repeat_nil, H3. cbn [get]. split; lia.
  - assert (Hv : (v < length opret)%nat).
    { pose proof (non_opret_lt opret 0 v) as Hx. rewrite Hno in Hx. specialize (Hx (or_introl eq_refl)). lia. }
    rewrite deliver_get.
    + rewrite H4, nth_repeat_nil, H3. cbn [get]. split; [lia|reflexivity].
    + exact (eq_ind_r (fun l => NoDup l) Hu H2).
    + exact (eq_ind_r (fun n => (v < n)%nat) Hv H1).
Qed.

(* ------------------------------------------------------------ inventory and selection *)

Definition dw : wout := {| w_inscribed := false; w_runes := [] |}.

Definition valid_inv (inv : list wout) : Prop := Forall (fun w => uniq (w_runes w)) inv.

(* what the listed wallet outputs hold of rune id *)
Definition sum_inputs (inv : list wout) (ins : list nat) (id : N) : N :=
  fold_right (fun o acc => get (w_runes (nth o inv dw)) id + acc) 0 ins.

Lemma sum_inputs_app : forall inv a b id,
  sum_inputs inv (a ++ b) id = sum_inputs inv a id + sum_inputs inv b id.
Proof.
  intros inv a b id. unfold sum_inputs. induction a as [|x a IH]; cbn [app fold_right]; [lia|].
  rewrite IH. lia.
Qed.

Lemma candidates_spec : forall inv k o s, In (o, s) (candidates k inv) ->
  (k <= o)%nat /\ s = w_runes (nth (o - k) inv dw) /\ w_inscribed (nth (o - k) inv dw) = false /\
  (o - k < length inv)%nat.
Proof.
  induction inv as [|w r IH]; intros k o s H; cbn [candidates] in H; [destruct H|].
  assert (Hrec : In (o, s) (candidates (S k) r) ->
    (k <= o)%nat /\ s = w_runes (nth (o - k) (w :: r) dw) /\ w_inscribed (nth (o - k) (w :: r) dw) = false /\
    (o - k < length (w :: r))%nat).
  { intros Hin. apply IH in Hin. destruct Hin as [Hk [Hs [Hi Hl]]].
    replace (o - k)%nat with (S (o - S k)) by lia. cbn [nth length]. repeat split; auto; lia. }
  destruct (w_runes w) as [|x xs] eqn:Hw; [auto|].
  destruct (w_inscribed w) eqn:Hi; [auto|].
  destruct H as [H|H]; [|auto].
  inversion H; subst. rewrite Nat.sub_diag. cbn [nth length]. repeat split; auto; lia.
Qed.

Definition cands_ok (inv : list wout) (cands : list (nat * sheet)) : Prop :=
  forall o s, In (o, s) cands -> s = w_runes (nth o inv dw) /\ uniq s.

Lemma candidates_ok : forall inv, valid_inv inv -> cands_ok inv (candidates 0 inv).
Proof.
  intros inv Hv o s Hin. apply candidates_spec in Hin. destruct Hin as [_ [Hs [_ Hl]]].
  rewrite Nat.sub_0_r in *. split; [exact Hs|]. subst s.
  unfold valid_inv in Hv. rewrite Forall_forall in Hv. apply Hv. apply nth_In. exact Hl.
Qed.

Lemma select_send_ok : forall inv cands r a inputs0 bal0 inputs bal,
  cands_ok inv cands -> uniq bal0 ->
  (forall id, get bal0 id = sum_inputs inv inputs0 id) ->
  select_send cands r a inputs0 bal0 = Ok (inputs, bal) ->
  uniq bal /\ (forall id, get bal id = sum_inputs inv inputs id).
Proof.
  intros inv. induction cands as [|[o s] rest IH]; intros r a inputs0 bal0 inputs bal Hc Hu Hs H;
    cbn [select_send] in H.
  - inversion H; subst. auto.
  - assert (Hrest : cands_ok inv rest) by (intros o' s' Hin; apply Hc; right; exact Hin).
    destruct (Hc o s (or_introl eq_refl)) as [Hso Hsu].
    assert (Hu' : uniq (merge bal0 s)) by (apply uniq_merge; exact Hu).
    assert (Hs' : forall id, get (merge bal0 s) id = sum_inputs inv (inputs0 ++ [o]) id).
    { intros id. rewrite get_merge by exact Hsu. rewrite sum_inputs_app, Hs.
      cbn [sum_inputs fold_right]. rewrite <- Hso. lia. }
    destruct (0 <? get s r).
    + destruct (overflow (merge bal0 s)); [discriminate|].
      destruct (a <=? get (merge bal0 s) r).
      * inversion H; subst. auto.
      * exact (IH r a _ _ inputs bal Hrest Hu' Hs' H).
    + exact (IH r a _ _ inputs bal Hrest Hu Hs H).
Qed.

(* a sheet with at most one key that holds something of r holds nothing else *)
Lemma single_key : forall (bal : sheet) r, (length bal <= 1)%nat -> 0 < get bal r ->
  forall id, id <> r -> get bal id = 0.
Proof.
  intros [|[k v] [|x xs]] r Hl Hg id Hne; cbn [get] in *; try lia; [|cbn [length] in Hl; lia].
  destruct (N.eqb_spec k r) as [->|]; [|lia].
  destruct (N.eqb_spec r id); [congruence|reflexivity].
Qed.

(* ------------------------------------------------------------ send / burn outcome *)

Ltac fin :=
  repeat match goal with
         | |- context [?a =? ?b] => destruct (N.eqb_spec a b)
         end;
  subst; cbn [andb negb]; rewrite ?andb_true_r, ?andb_false_r; try lia; try congruence.

Lemma burn_get_unfold : forall opret res id,
  burn_get opret res id =
  fold_right (fun o acc => (if nth o opret false then get (nth o (fst res) []) id else 0) + acc)
             0 (seq 0 (length opret)) + get (snd res) id.
Proof. reflexivity. Qed.

Theorem send_exact : forall inv r a is_send fc t,
  valid_inv inv -> r <> 0 ->
  build_send inv r a is_send fc = Ok t ->
  0 < a /\
  (forall id, get (t_spent t) id = sum_inputs inv (t_inputs t) id) /\
  (forall id, sum_outs t (t_dest t) id = if is_send && (id =? r) then a else 0) /\
  (forall id, burn_get (t_opret t) (outcome t) id = if negb is_send && (id =? r) then a else 0) /\
  (forall id, sum_outs t (t_change t) id + (if id =? r then a else 0) = get (t_spent t) id).
Proof.
  intros inv r a is_send fc t Hv Hr H. unfold build_send in H.
  destruct (N.eqb_spec a 0) as [|Ha]; [discriminate|].
  destruct (select_send (candidates 0 inv) r a [] []) as [[inputs bal]|e|p] eqn:Hsel;
    cbn [bind] in H; try discriminate.
  destruct (select_send_ok inv _ r a [] [] inputs bal (candidates_ok inv Hv) uniq_nil
              (fun id => eq_refl) Hsel) as [Hu Hsum].
  destruct (N.ltb_spec (get bal r) a) as [|Hge]; [discriminate|].
  split; [lia|].
  set (e2 := {| e_id := r; e_amount := a; e_output := 2 |}) in *.
  set (e0 := {| e_id := r; e_amount := a; e_output := 0 |}) in *.
  assert (Hsid : forall (e : edict) id, e_id e = r -> e_amount e = a ->
            sum_id [e] id <= get bal id).
  { intros e id He Hea. cbn [sum_id fold_right]. rewrite He, Hea. fin. }
  destruct ((a <? get bal r) || (1 <? N.of_nat (length bal))) eqn:Hnc.
  - (* with a rune change output *)
    destruct is_send; inversion H; subst t; clear H; cbn [t_spent t_inputs t_dest t_change t_opret t_edicts];
      (split; [exact Hsum|]).
    + (* send: [runestone; change; recipient] ++ bitcoin change *)
      assert (Hpl : Forall (plain (length ([true; false; false] ++ (if fc then [false] else [])))) [e2]).
      { constructor; [|constructor]. unfold plain, e2; cbn [e_id e_amount e_output].
        repeat split; [exact Hr|lia|destruct fc; cbn; lia]. }
      pose proof (apply_tx_exact bal [e2] _ Hu Hpl (fun id => Hsid e2 id eq_refl eq_refl)) as HA.
      cbv zeta in HA.
      unfold sum_outs, outcome, out_get; cbn [t_spent t_edicts t_opret].
      repeat split; intros id.
      * cbn [fold_right]. destruct (HA 2%nat id) as [H2 _].
        destruct fc; cbn [app nth non_opret Nat.eqb] in *; rewrite H2;
          cbn [sum_io sum_id fold_right e2 e_id e_amount e_output Nat.eqb andb]; fin.
      * rewrite burn_get_unfold. destruct (HA 0%nat id) as [H0 Hs0].
        destruct fc; cbn [app length seq fold_right nth non_opret Nat.eqb fst snd negb andb] in *;
          rewrite H0, Hs0; cbn [sum_io sum_id fold_right e2 e_id e_amount e_output Nat.eqb andb];
          rewrite ?andb_false_r; lia.
      * cbn [fold_right]. destruct (HA 1%nat id) as [H1 _]. destruct (HA 3%nat id) as [H3 _].
        specialize (Hsid e2 id eq_refl eq_refl).
        destruct fc; cbn [app nth non_opret Nat.eqb fold_right] in *; rewrite ?H1, ?H3;
          cbn [sum_io sum_id fold_right e2 e_id e_amount e_output Nat.eqb andb] in *;
          rewrite ?andb_false_r in *; fin.
    + (* burn: [runestone; change] ++ bitcoin change *)
      assert (Hpl : Forall (plain (length ([true; false] ++ (if fc then [false] else [])))) [e0]).
      { constructor; [|constructor]. unfold plain, e0; cbn [e_id e_amount e_output].
        repeat split; [exact Hr|lia|destruct fc; cbn; lia]. }
      pose proof (apply_tx_exact bal [e0] _ Hu Hpl (fun id => Hsid e0 id eq_refl eq_refl)) as HA.
      cbv zeta in HA.
      unfold sum_outs, outcome, out_get; cbn [t_spent t_edicts t_opret].
      repeat split; intros id.
      * rewrite burn_get_unfold. destruct (HA 0%nat id) as [H0 Hs0].
        destruct fc; cbn [app length seq fold_right nth non_opret Nat.eqb fst snd negb andb] in *;
          rewrite H0, Hs0; cbn [sum_io sum_id fold_right e0 e_id e_amount e_output Nat.eqb andb];
          rewrite ?andb_true_r; fin.
      * cbn [fold_right]. destruct (HA 1%nat id) as [H1 _]. destruct (HA 2%nat id) as [H2 _].
        specialize (Hsid e0 id eq_refl eq_refl).
        destruct fc; cbn [app nth non_opret Nat.eqb fold_right] in *; rewrite ?H1, ?H2;
          cbn [sum_io sum_id fold_right e0 e_id e_amount e_output Nat.eqb andb] in *;
          rewrite ?andb_false_r in *; fin.
  - (* exact: the inputs hold exactly a of r and nothing else *)
    apply orb_false_iff in Hnc. destruct Hnc as [Hlt Hlen].
    assert (Hex : get bal r = a) by (destruct (N.ltb_spec a (get bal r)); [discriminate|lia]).
    assert (Hl1 : (length bal <= 1)%nat) by (destruct (N.ltb_spec 1 (N.of_nat (length bal))); [discriminate|lia]).
    assert (Hoth : forall id, id <> r -> get bal id = 0) by (apply single_key; [exact Hl1|lia]).
    destruct is_send; inversion H; subst t; clear H; cbn [t_spent t_inputs t_dest t_change t_opret t_edicts];
      (split; [exact Hsum|]).
    + (* send without runestone: [recipient] ++ bitcoin change *)
      assert (Hpl : Forall (plain (length ([false] ++ (if fc then [false] else [])))) []) by constructor.
      pose proof (apply_tx_exact bal [] _ Hu Hpl (fun id => N.le_0_l _)) as HA. cbv zeta in HA.
      unfold sum_outs, outcome, out_get; cbn [t_spent t_edicts t_opret].
      repeat split; intros id.
      * cbn [fold_right]. destruct (HA 0%nat id) as [H0 _].
        destruct fc; cbn [app nth non_opret Nat.eqb] in *; rewrite H0; cbn [sum_io sum_id fold_right];
          cbn [andb]; (destruct (N.eqb_spec id r) as [->|Hne]; [|rewrite ?(Hoth id Hne)]; fin).
      * rewrite burn_get_unfold. destruct (HA 0%nat id) as [_ Hs0]. destruct (HA 1%nat id) as [_ Hs1].
        destruct fc; cbn [app length seq fold_right nth non_opret fst snd negb andb] in *; rewrite Hs0; lia.
      * destruct (HA 1%nat id) as [H1 _].
        destruct fc; cbn [app nth non_opret Nat.eqb fold_right] in *; rewrite ?H1;
          cbn [sum_io sum_id fold_right];
          (destruct (N.eqb_spec id r) as [->|Hne]; [|rewrite ?(Hoth id Hne)]; fin).
    + (* burn: [runestone] ++ bitcoin change *)
      assert (Hpl : Forall (plain (length ([true] ++ (if fc then [false] else [])))) [e0]).
      { constructor; [|constructor]. unfold plain, e0; cbn [e_id e_amount e_output].
        repeat split; [exact Hr|lia|destruct fc; cbn; lia]. }
      pose proof (apply_tx_exact bal [e0] _ Hu Hpl (fun id => Hsid e0 id eq_refl eq_refl)) as HA.
      cbv zeta in HA.
      unfold sum_outs, outcome, out_get; cbn [t_spent t_edicts t_opret].
      repeat split; intros id.
      * rewrite burn_get_unfold. destruct (HA 0%nat id) as [H0 Hs0].
        destruct fc; cbn [app length seq fold_right nth non_opret Nat.eqb fst snd negb andb] in *;
          rewrite H0, Hs0; cbn [sum_io sum_id fold_right e0 e_id e_amount e_output Nat.eqb andb];
          rewrite ?andb_true_r;
          (destruct (N.eqb_spec id r) as [->|Hne]; [|rewrite ?(Hoth id Hne)]; fin).
      * destruct (HA 1%nat id) as [H1 _].
        destruct fc; cbn [app nth non_opret Nat.eqb fold_right] in *; rewrite ?H1;
          cbn [sum_io sum_id fold_right e0 e_id e_amount e_output Nat.eqb andb];
          rewrite ?andb_false_r;
          (destruct (N.eqb_spec id r) as [->|Hne]; [|rewrite ?(Hoth id Hne)]; fin).
Qed.

Theorem send_zero_rejected : forall inv r is_send fc, build_send inv r 0 is_send fc = Err 2.
Proof. reflexivity. Qed.

(* ------------------------------------------------------------ split: edicts and sums *)

Lemma sum_id_app : forall a b id, sum_id (a ++ b) id = sum_id a id + sum_id b id.
Proof. intros a b id. unfold sum_id. induction a as [|x a IH]; cbn [app fold_right]; [lia|]. rewrite IH. lia. Qed.

Lemma sum_io_app : forall a b id o, sum_io (a ++ b) id o = sum_io a id o + sum_io b id o.
Proof. intros a b id o. unfold sum_io. induction a as [|x a IH]; cbn [app fold_right]; [lia|]. rewrite IH. lia. Qed.

Lemma sum_id_insert : forall e l id, sum_id (insert_edict e l) id = sum_id (e :: l) id.
Proof.
  intros e l id. induction l as [|x l IH]; cbn [insert_edict]; [reflexivity|].
  destruct (e_id e <? e_id x); [reflexivity|].
  unfold sum_id in *. cbn [fold_right] in *. rewrite IH. lia.
Qed.

Lemma sum_io_insert : forall e l id o, sum_io (insert_edict e l) id o = sum_io (e :: l) id o.
Proof.
  intros e l id o. induction l as [|x l IH]; cbn [insert_edict]; [reflexivity|].
  destruct (e_id e <? e_id x); [reflexivity|].
  unfold sum_io in *. cbn [fold_right] in *. rewrite IH. lia.
Qed.

Lemma Forall_insert : forall (P : edict -> Prop) e l, P e -> Forall P l -> Forall P (insert_edict e l).
Proof.
  intros P e l He Hl. induction Hl as [|x l Hx Hl IH]; cbn [insert_edict]; [repeat constructor; exact He|].
  destruct (e_id e <? e_id x); repeat constructor; auto.
Qed.

Lemma sum_id_sort : forall l id, sum_id (sort_edicts l) id = sum_id l id.
Proof.
  intros l id. induction l as [|x l IH]; [reflexivity|]. cbn [sort_edicts fold_right].
  fold (sort_edicts l). rewrite sum_id_insert. unfold sum_id in *. cbn [fold_right]. rewrite IH. reflexivity.
Qed.

Lemma sum_io_sort : forall l id o, sum_io (sort_edicts l) id o = sum_io l id o.
Proof.
  intros l id o. induction l as [|x l IH]; [reflexivity|]. cbn [sort_edicts fold_right].
  fold (sort_edicts l). rewrite sum_io_insert. unfold sum_io in *. cbn [fold_right]. rewrite IH. reflexivity.
Qed.

Lemma Forall_sort : forall (P : edict -> Prop) l, Forall P l -> Forall P (sort_edicts l).
Proof.
  intros P l H. induction H as [|x l Hx Hl IH]; [constructor|]. cbn [sort_edicts fold_right].
  fold (sort_edicts l). apply Forall_insert; assumption.
Qed.

(* everything a sheet lists for id (equals [get] when keys are distinct) *)
Definition total (s : sheet) (id : N) : N :=
  fold_right (fun kv acc => (if fst kv =? id then snd kv else 0) + acc) 0 s.

Lemma total_get : forall s id, uniq s -> total s id = get s id.
Proof.
  induction s as [|[k v] r IH]; intros id Hu; [reflexivity|].
  unfold uniq in Hu. cbn [keys map fst] in Hu. inversion Hu as [|? ? Hn Hr]; subst.
  unfold total in *. cbn [fold_right get fst snd]. rewrite (IH id Hr).
  destruct (N.eqb_spec k id) as [->|]; [rewrite (get_absent r id Hn)|]; lia.
Qed.

Definition mk (k : nat) (kv : N * N) : edict := {| e_id := fst kv; e_amount := snd kv; e_output := k |}.

Lemma sum_id_mk : forall s k id, sum_id (map (mk k) s) id = total s id.
Proof.
  induction s as [|kv r IH]; intros k id; [reflexivity|].
  unfold sum_id, total in *. cbn [map fold_right mk e_id e_amount]. rewrite IH. reflexivity.
Qed.

Lemma sum_io_mk : forall s k id o, sum_io (map (mk k) s) id o = if Nat.eqb k o then total s id else 0.
Proof.
  induction s as [|kv r IH]; intros k id o.
  { destruct (Nat.eqb k o); reflexivity. }
  unfold sum_io, total in *. cbn [map fold_right mk e_id e_amount e_output]. rewrite IH.
  destruct (Nat.eqb k o); rewrite ?andb_true_r, ?andb_false_r; lia.
Qed.

Definition ds : sout := {| s_value := None; s_threshold := 0; s_runes := [] |}.

Definition need_total (outs : list sout) (id : N) : N :=
  fold_right (fun o acc => total (s_runes o) id + acc) 0 outs.

Lemma edicts_of_eq : forall outs k,
  edicts_of outs k = match outs with [] => [] | o :: r => map (mk k) (s_runes o) ++ edicts_of r (S k) end.
Proof. destruct outs; reflexivity. Qed.

Lemma sum_id_edicts_of : forall outs k id, sum_id (edicts_of outs k) id = need_total outs id.
Proof.
  induction outs as [|o r IH]; intros k id; [reflexivity|].
  rewrite edicts_of_eq, sum_id_app, sum_id_mk, IH. reflexivity.
Qed.

Lemma sum_io_edicts_of : forall outs k id o,
  sum_io (edicts_of outs k) id o =
  if (k <=? o)%nat && (o <? k + length outs)%nat then total (s_runes (nth (o - k) outs ds)) id else 0.
Proof.
  induction outs as [|x r IH]; intros k id o.
  - cbn [edicts_of length]. destruct (Nat.leb_spec k o); destruct (Nat.ltb_spec o (k + 0)); cbn [andb]; try reflexivity; lia.
  - rewrite edicts_of_eq, sum_io_app, sum_io_mk, IH. cbn [length].
    destruct (Nat.eqb_spec k o) as [->|Hne].
    + rewrite Nat.sub_diag. cbn [nth].
      destruct (Nat.leb_spec (S o) o); [lia|]. cbn [andb].
      destruct (Nat.leb_spec o o); [|lia]. destruct (Nat.ltb_spec o (o + S (length r))); [|lia]. cbn [andb]. lia.
    + destruct (Nat.leb_spec (S k) o) as [Hle|Hgt]; cbn [andb].
      * destruct (Nat.leb_spec k o); [|lia]. cbn [andb].
        replace (k + S (length r))%nat with (S k + length r)%nat by lia.
        destruct (Nat.ltb_spec o (S k + length r)); [|lia].
        replace (o - k)%nat with (S (o - S k)) by lia. cbn [nth]. lia.
      * destruct (Nat.leb_spec k o); [lia|]. cbn [andb]. lia.
Qed.

Lemma plain_edicts_of : forall outs k n,
  Forall (fun o => forall kv, In kv (s_runes o) -> fst kv <> 0 /\ snd kv <> 0) outs ->
  (k + length outs <= n)%nat -> Forall (plain n) (edicts_of outs k).
Proof.
  induction outs as [|o r IH]; intros k n H Hn; [constructor|].
  rewrite edicts_of_eq. inversion H as [|? ? Ho Hr]; subst. cbn [length] in Hn.
  apply Forall_app. split.
  - apply Forall_forall. intros e He. apply in_map_iff in He. destruct He as [kv [<- Hin]].
    destruct (Ho kv Hin) as [H1 H2]. unfold plain, mk; cbn [e_id e_amount e_output]. repeat split; [exact H1|lia|lia].
  - apply IH; [exact Hr|lia].
Qed.

(* ------------------------------------------------------------ split: requirements and selection *)

Lemma required_runes_ok : forall rs req req',
  required_runes rs req = Ok req' ->
  (forall id, get req' id = get req id + total rs id) /\
  (forall kv, In kv rs -> snd kv <> 0) /\ (uniq req -> uniq req').
Proof.
  induction rs as [|[id amt] rs IH]; intros req req' H; cbn [required_runes] in H.
  - inversion H; subst. split; [intros id; unfold total; cbn [fold_right]; lia|]. split; [intros kv []|auto].
  - destruct (N.eqb_spec amt 0) as [|Hne]; [discriminate|].
    destruct (overflow (add req id amt)); [discriminate|].
    destruct (IH _ _ H) as [I1 [I2 I3]]. repeat split.
    + intros id'. rewrite I1, get_add. unfold total. cbn [fold_right fst snd]. lia.
    + intros kv [<-|Hin]; [exact Hne|exact (I2 kv Hin)].
    + intros Hu. apply I3. apply uniq_add. exact Hu.
Qed.

Lemma required_of_ok : forall outs req req',
  required_of outs req = Ok req' ->
  (forall id, get req' id = get req id + need_total outs id) /\
  Forall (fun o => forall kv, In kv (s_runes o) -> snd kv <> 0) outs /\ (uniq req -> uniq req').
Proof.
  induction outs as [|o r IH]; intros req req' H; cbn [required_of] in H.
  - inversion H; subst. split; [intros id; unfold need_total; cbn [fold_right]; lia|]. split; [constructor|auto].
  - destruct (required_runes (s_runes o) req) as [req1|e|p] eqn:H1; cbn [bind] in H; try discriminate.
    destruct (required_runes_ok _ _ _ H1) as [A1 [A2 A3]].
    destruct (IH _ _ H) as [B1 [B2 B3]]. repeat split.
    + intros id. rewrite B1, A1. unfold need_total. cbn [fold_right]. lia.
    + constructor; assumption.
    + intros Hu. auto.
Qed.

Lemma select_split_ok : forall inv cands req inputs0 bal0 inputs bal,
  cands_ok inv cands -> uniq bal0 ->
  (forall id, get bal0 id = sum_inputs inv inputs0 id) ->
  select_split cands req inputs0 bal0 = Ok (inputs, bal) ->
  uniq bal /\ (forall id, get bal id = sum_inputs inv inputs id).
Proof.
  intros inv. induction cands as [|[o s] rest IH]; intros req inputs0 bal0 inputs bal Hc Hu Hs H;
    cbn [select_split] in H.
  - inversion H; subst. auto.
  - assert (Hrest : cands_ok inv rest) by (intros o' s' Hin; apply Hc; right; exact Hin).
    destruct (Hc o s (or_introl eq_refl)) as [Hso Hsu].
    destruct (wants req bal0 s).
    + destruct (overflow (merge bal0 s)); [discriminate|].
      apply (IH req (inputs0 ++ [o]) (merge bal0 s) inputs bal Hrest (uniq_merge s bal0 Hu)); [|exact H].
      intros id. rewrite get_merge by exact Hsu. rewrite sum_inputs_app, Hs.
      cbn [sum_inputs fold_right]. rewrite <- Hso. lia.
    + exact (IH req _ _ inputs bal Hrest Hu Hs H).
Qed.

Lemma le_of_existsb : forall (s : sheet) (f : N -> N),
  existsb (fun kv => f (fst kv) <? snd kv) s = false -> forall id, get s id <= f id.
Proof.
  induction s as [|[k v] r IH]; intros f H id; cbn [get]; [lia|].
  cbn [existsb fst snd] in H. apply orb_false_iff in H. destruct H as [H1 H2].
  destruct (N.eqb_spec k id) as [->|]; [destruct (N.ltb_spec (f id) v); [discriminate|lia]|].
  apply IH. exact H2.
Qed.

(* ------------------------------------------------------------ split outcome *)

Lemma nth_allfalse : forall l o, Forall (fun b => b = false) l -> nth o l false = false.
Proof.
  induction l as [|b l IH]; intros o H; destruct o; cbn [nth]; auto; inversion H; subst; auto.
Qed.

Lemma allfalse_repeat : forall n, Forall (fun b => b = false) (repeat false n).
Proof. induction n; cbn [repeat]; constructor; auto. Qed.

Lemma fold_zero : forall (opret : list bool) (al : list sheet) id (l : list nat),
  (forall o, nth o opret false = true -> get (nth o al []) id = 0) ->
  fold_right (fun o acc => (if nth o opret false then get (nth o al []) id else 0) + acc) 0 l = 0.
Proof.
  intros opret al id l H. induction l as [|o l IH]; cbn [fold_right]; [reflexivity|].
  rewrite IH. destruct (nth o opret false) eqn:Hn; [rewrite (H o Hn)|]; lia.
Qed.

Definition valid_outs (outs : list sout) : Prop :=
  Forall (fun o => uniq (s_runes o) /\ forall kv, In kv (s_runes o) -> fst kv <> 0) outs.

Lemma need_total_get : forall outs id, valid_outs outs ->
  need_total outs id = fold_right (fun o acc => get (s_runes o) id + acc) 0 outs.
Proof.
  intros outs id H. unfold need_total. induction H as [|o r [Hu _] Hr IH]; cbn [fold_right]; [reflexivity|].
  rewrite IH, total_get by exact Hu. reflexivity.
Qed.

Theorem split_exact : forall inv outs postage cd oversize fc t,
  valid_inv inv -> valid_outs outs ->
  build_split inv outs postage cd oversize fc = Ok t ->
  (* no requested amount is zero *)
  Forall (fun o => forall kv, In kv (s_runes o) -> snd kv <> 0) outs /\
  (forall id, get (t_spent t) id = sum_inputs inv (t_inputs t) id) /\
  length (t_dest t) = length outs /\
  (* output i of the split file receives exactly what it asks for *)
  (forall i id, (i < length outs)%nat ->
     out_get (t_opret t) (outcome t) (nth i (t_dest t) 0%nat) id = get (s_runes (nth i outs ds)) id) /\
  (* nothing is burned *)
  (forall id, burn_get (t_opret t) (outcome t) id = 0) /\
  (* every other balance of the spent inputs returns to the wallet *)
  (forall id, sum_outs t (t_change t) id + need_total outs id = get (t_spent t) id).
Proof.
  intros inv outs postage cd oversize fc t Hv Hvo H. unfold build_split in H.
  destruct outs as [|o0 outs']; [discriminate|]. cbv beta iota in H.
  assert (Hn1 : (1 <= length (o0 :: outs'))%nat) by (cbn [length]; lia).
  remember (o0 :: outs') as outs eqn:Eouts. clear Eouts o0 outs'.
  destruct (postage <? cd); [discriminate|].
  destruct (required_of outs []) as [req|e|p] eqn:Hreq; cbn [bind] in H; try discriminate.
  destruct (required_of_ok _ _ _ Hreq) as [Rget [Rnz Ruq]]. specialize (Ruq uniq_nil).
  destruct (select_split (candidates 0 inv) req [] []) as [[inputs bal]|e|p] eqn:Hsel;
    cbn [bind] in H; try discriminate.
  destruct (select_split_ok inv _ req [] [] inputs bal (candidates_ok inv Hv) uniq_nil
              (fun id => eq_refl) Hsel) as [Hu Hsum].
  destruct (existsb (fun kv => get bal (fst kv) <? snd kv) req) eqn:Hshort; [discriminate|].
  pose proof (le_of_existsb req (get bal) Hshort) as Hle.
  destruct oversize; [discriminate|].
  destruct (existsb _ outs) in H; [discriminate|].
  set (nc := existsb (fun kv => get req (fst kv) <? snd kv) bal) in *.
  set (base := if nc then 2%nat else 1%nat) in *.
  set (es := sort_edicts (edicts_of outs base)) in *.
  set (n := length outs) in *.
  inversion H; subst t; clear H. cbn [t_spent t_inputs t_dest t_change t_opret t_edicts app].
  set (opret := true :: (if nc then [false] else []) ++ repeat false n ++ (if fc then [false] else [])) in *.
  assert (Hreqid : forall id, get req id = need_total outs id) by (intros id; rewrite Rget; cbn [get]; lia).
  assert (Hbase : (1 <= base <= 2)%nat) by (unfold base; destruct nc; lia).
  assert (Hlen : length opret = (base + n + (if fc then 1 else 0))%nat).
  { unfold opret, base. cbn [length]. rewrite !app_length, repeat_length. destruct nc, fc; cbn [length]; lia. }
  assert (Hfirst : exists vs, non_opret 0 opret = 1%nat :: vs).
  { unfold opret, n in *. destruct nc; cbn [app non_opret]; [eauto|].
    destruct (length outs) as [|n']; [lia|]. cbn [repeat app non_opret]. eauto. }
  assert (Hop : forall o, nth o opret false = true -> o = 0%nat).
  { intros o Ho. destruct o as [|o]; [reflexivity|]. exfalso. unfold opret in Ho. cbn [nth] in Ho.
    rewrite nth_allfalse in Ho; [discriminate|].
    apply Forall_app; split; [destruct nc; repeat constructor|].
    apply Forall_app; split; [apply allfalse_repeat|destruct fc; repeat constructor]. }
  assert (Hpl : Forall (plain (length opret)) es).
  { unfold es. apply Forall_sort. apply plain_edicts_of; [|fold n; lia].
    unfold valid_outs in Hvo. rewrite Forall_forall in *. intros o Ho kv Hkv.
    split; [exact (proj2 (Hvo o Ho) kv Hkv)|exact (Rnz o Ho kv Hkv)]. }
  assert (Hsid : forall id, sum_id es id = need_total outs id).
  { intros id. unfold es. rewrite sum_id_sort. apply sum_id_edicts_of. }
  assert (Hsle : forall id, sum_id es id <= get bal id) by (intros id; rewrite Hsid, <- Hreqid; apply Hle).
  pose proof (apply_tx_exact bal es opret Hu Hpl Hsle) as HA. cbv zeta in HA.
  destruct Hfirst as [vs Hfirst]. rewrite Hfirst in HA.
  assert (Hsio : forall id o, sum_io es id o =
            if (base <=? o)%nat && (o <? base + n)%nat then total (s_runes (nth (o - base) outs ds)) id else 0).
  { intros id o. unfold es. rewrite sum_io_sort. apply sum_io_edicts_of. }
  (* leftovers: only with a change output *)
  assert (Hleft : nc = false -> forall id, get bal id - sum_id es id = 0).
  { intros Hnc id. rewrite Hsid, <- Hreqid.
    pose proof (le_of_existsb bal (get req) Hnc id). lia. }
  split; [exact Rnz|]. split; [exact Hsum|]. split; [apply seq_length|].
  unfold sum_outs, outcome, out_get; cbn [t_spent t_edicts t_opret app]. fold opret. fold es.
  split; [|split].
  - intros i id Hi. rewrite seq_nth by exact Hi.
    destruct (nth (base + i) opret false) eqn:Hnth; [apply Hop in Hnth; lia|].
    destruct (HA (base + i)%nat id) as [Hg _]. rewrite Hg, Hsio.
    destruct (Nat.leb_spec base (base + i)); [|lia]. destruct (Nat.ltb_spec (base + i) (base + n)); [|fold n in Hi; lia].
    cbn [andb]. replace (base + i - base)%nat with i by lia.
    assert (Hui : uniq (s_runes (nth i outs ds))).
    { unfold valid_outs in Hvo. rewrite Forall_forall in Hvo. apply Hvo. apply nth_In. exact Hi. }
    rewrite (total_get _ id Hui).
    destruct (Nat.eqb_spec 1 (base + i)) as [He|]; [|lia].
    assert (Hncf : nc = false) by (unfold base in He; destruct nc; [lia|reflexivity]).
    rewrite (Hleft Hncf id). lia.
  - intros id. rewrite burn_get_unfold.
    destruct (HA 0%nat id) as [H0 Hs0]. rewrite Hs0, N.add_0_r.
    apply fold_zero. intros o Ho. apply Hop in Ho. subst o. rewrite H0, Hsio.
    destruct (Nat.leb_spec base 0); [lia|]. cbn [andb Nat.eqb]. lia.
  - intros id.
    assert (Hbtc : forall o, (base + n <= o)%nat -> get (nth o (fst (apply_tx bal es opret)) []) id = 0).
    { intros o Ho. destruct (HA o id) as [Hg _]. rewrite Hg, Hsio.
      destruct (Nat.ltb_spec o (base + n)); [lia|]. rewrite andb_false_r.
      destruct (Nat.eqb_spec 1 o); [lia|]. lia. }
    specialize (Hsle id). rewrite Hsid in Hsle.
    unfold nc in *. destruct (existsb (fun kv => get req (fst kv) <? snd kv) bal) eqn:Hnc.
    + (* rune change output at index 1 *)
      cbn [app fold_right]. destruct (HA 1%nat id) as [H1 _].
      assert (Hn1f : nth 1 opret false = false) by (destruct (nth 1 opret false) eqn:E; [apply Hop in E; lia|reflexivity]).
      rewrite Hn1f, H1, Hsio. unfold base at 1. cbn [Nat.leb andb Nat.eqb]. rewrite Hsid.
      destruct fc; cbn [fold_right].
      * destruct (nth (base + n) opret false); [lia|]. rewrite (Hbtc (base + n)%nat) by lia. lia.
      * lia.
    + cbn [app]. specialize (Hleft eq_refl id). rewrite Hsid in Hleft.
      destruct fc; cbn [fold_right].
      * destruct (nth (base + n) opret false); [lia|]. rewrite (Hbtc (base + n)%nat) by lia. lia.
      * lia.
Qed.

(* a split file asking for zero units of a rune never produces a transaction *)
Theorem split_zero_never_ok : forall inv outs postage cd oversize fc t,
  build_split inv outs postage cd oversize fc = Ok t ->
  Forall (fun o => forall kv, In kv (s_runes o) -> snd kv <> 0) outs.
Proof.
  intros inv outs postage cd oversize fc t H. unfold build_split in H.
  destruct outs as [|o0 outs']; [discriminate|]. cbv beta iota in H.
  destruct (postage <? cd); [discriminate|].
  destruct (required_of (o0 :: outs') []) as [req|e|p] eqn:Hreq; cbn [bind] in H; try discriminate.
  exact (proj1 (proj2 (required_of_ok _ _ _ Hreq))).
Qed.

(* the first zero amount is reported as such (Err 2) unless a u128 sum overflowed before it *)
Lemma required_runes_zero : forall rs req, (exists k, In (k, 0) rs) ->
  (exists p, required_runes rs req = Panic p) \/ required_runes rs req = Err 2.
Proof.
  induction rs as [|[id amt] rs IH]; intros req [k Hin]; [destruct Hin|]. cbn [required_runes].
  destruct (N.eqb_spec amt 0); [right; reflexivity|].
  destruct (overflow (add req id amt)); [left; eauto|].
  apply IH. destruct Hin as [Hin|Hin]; [inversion Hin; congruence|eauto].
Qed.

(* ------------------------------------------------------------ send / burn never panics
   when the wallet's total holding of every rune fits u128 (supply of a rune <= u128::MAX) *)

Definition sum_all (inv : list wout) (id : N) : N :=
  fold_right (fun w acc => get (w_runes w) id + acc) 0 inv.

Definition sum_cands (cands : list (nat * sheet)) (id : N) : N :=
  fold_right (fun os acc => get (snd os) id + acc) 0 cands.

Lemma sum_cands_le : forall inv k id, sum_cands (candidates k inv) id <= sum_all inv id.
Proof.
  unfold sum_cands, sum_all.
  induction inv as [|w r IH]; intros k id; cbn [candidates fold_right]; [lia|].
  specialize (IH (S k) id).
  destruct (w_runes w) as [|x xs] eqn:Hw; [cbn [get]; lia|].
  destruct (w_inscribed w); [lia|].
  cbn [fold_right snd]. lia.
Qed.

Lemma entry_get : forall (s : sheet) k v, uniq s -> In (k, v) s -> get s k = v.
Proof.
  induction s as [|[k0 v0] r IH]; intros k v Hu Hin; [destruct Hin|].
  unfold uniq in Hu. cbn [keys map fst] in Hu. inversion Hu as [|? ? Hn Hr]; subst.
  cbn [get]. destruct Hin as [Hin|Hin].
  - inversion Hin; subst. rewrite N.eqb_refl. reflexivity.
  - destruct (N.eqb_spec k0 k) as [->|]; [|exact (IH k v Hr Hin)].
    exfalso. apply Hn. change k with (fst (k, v)). apply in_map. exact Hin.
Qed.

Lemma no_overflow : forall s, uniq s -> (forall id, get s id < P128) -> overflow s = false.
Proof.
  intros s Hu Hb. unfold overflow.
  destruct (existsb (fun kv => P128 <=? snd kv) s) eqn:E; [|reflexivity].
  apply existsb_exists in E. destruct E as [[k v] [Hin Hv]]. cbn [snd] in Hv.
  rewrite <- (entry_get s k v Hu Hin) in Hv. specialize (Hb k).
  destruct (N.leb_spec P128 (get s k)); [lia|discriminate].
Qed.

Lemma select_send_no_panic : forall cands r a inputs bal p,
  (forall o s, In (o, s) cands -> uniq s) -> uniq bal ->
  (forall id, get bal id + sum_cands cands id < P128) ->
  select_send cands r a inputs bal <> Panic p.
Proof.
  induction cands as [|[o s] rest IH]; intros r a inputs bal p Hc Hu Hb; cbn [select_send]; [discriminate|].
  assert (Hrest : forall o' s', In (o', s') rest -> uniq s') by (intros o' s' Hin; apply (Hc o' s'); right; exact Hin).
  assert (Hsu : uniq s) by (apply (Hc o s); left; reflexivity).
  assert (Hb' : forall id, get (merge bal s) id + sum_cands rest id < P128).
  { intros id. rewrite get_merge by exact Hsu. specialize (Hb id).
    cbn [sum_cands fold_right snd] in Hb. fold (sum_cands rest id) in Hb. lia. }
  destruct (0 <? get s r).
  - rewrite no_overflow; [|apply uniq_merge; exact Hu|intros id; specialize (Hb' id); lia].
    destruct (a <=? get (merge bal s) r); [discriminate|].
    apply IH; [exact Hrest|apply uniq_merge; exact Hu|exact Hb'].
  - apply IH; [exact Hrest|exact Hu|].
    intros id. specialize (Hb id). cbn [sum_cands fold_right snd] in Hb. fold (sum_cands rest id) in Hb. lia.
Qed.

Theorem send_no_panic : forall inv r a is_send fc p,
  valid_inv inv -> (forall id, sum_all inv id < P128) ->
  build_send inv r a is_send fc <> Panic p.
Proof.
  intros inv r a is_send fc p Hv Hb. unfold build_send.
  destruct (a =? 0); [discriminate|].
  destruct (select_send (candidates 0 inv) r a [] []) as [[inputs bal]|e|q] eqn:Hsel; cbn [bind].
  - destruct (get bal r <? a); discriminate.
  - discriminate.
  - exfalso. revert Hsel. apply select_send_no_panic.
    + intros o s Hin. exact (proj2 (candidates_ok inv Hv o s Hin)).
    + exact uniq_nil.
    + intros id. cbn [get]. pose proof (sum_cands_le inv 0 id). specialize (Hb id). lia.
Qed.

(* ------------------------------------------------------------ split never panics when the
   wallet's holdings and the split file's total request of every rune fit u128 *)

Lemma required_runes_no_panic : forall rs req p,
  uniq req -> (forall id, get req id + total rs id < P128) -> required_runes rs req <> Panic p.
Proof.
  induction rs as [|[id amt] rs IH]; intros req p Hu Hb; cbn [required_runes]; [discriminate|].
  destruct (amt =? 0); [discriminate|].
  assert (Hb' : forall id', get (add req id amt) id' + total rs id' < P128).
  { intros id'. rewrite get_add. specialize (Hb id'). unfold total in *. cbn [fold_right fst snd] in Hb. lia. }
  rewrite no_overflow; [|apply uniq_add; exact Hu|intros id'; specialize (Hb' id'); lia].
  apply IH; [apply uniq_add; exact Hu|exact Hb'].
Qed.

Lemma required_of_no_panic : forall outs req p,
  uniq req -> (forall id, get req id + need_total outs id < P128) -> required_of outs req <> Panic p.
Proof.
  induction outs as [|o r IH]; intros req p Hu Hb; cbn [required_of]; [discriminate|].
  assert (Hb1 : forall id, get req id + total (s_runes o) id < P128).
  { intros id. specialize (Hb id). unfold need_total in Hb. cbn [fold_right] in Hb. lia. }
  destruct (required_runes (s_runes o) req) as [req1|e|q] eqn:H1; cbn [bind].
  - destruct (required_runes_ok _ _ _ H1) as [A1 [_ A3]].
    apply IH; [exact (A3 Hu)|].
    intros id. rewrite A1. specialize (Hb id). unfold need_total in *. cbn [fold_right] in Hb. lia.
  - discriminate.
  - exfalso. exact (required_runes_no_panic _ _ q Hu Hb1 H1).
Qed.

Lemma select_split_no_panic : forall cands req inputs bal p,
  (forall o s, In (o, s) cands -> uniq s) -> uniq bal ->
  (forall id, get bal id + sum_cands cands id < P128) ->
  select_split cands req inputs bal <> Panic p.
Proof.
  induction cands as [|[o s] rest IH]; intros req inputs bal p Hc Hu Hb; cbn [select_split]; [discriminate|].
  assert (Hrest : forall o' s', In (o', s') rest -> uniq s') by (intros o' s' Hin; apply (Hc o' s'); right; exact Hin).
  assert (Hsu : uniq s) by (apply (Hc o s); left; reflexivity).
  assert (Hb' : forall id, get (merge bal s) id + sum_cands rest id < P128).
  { intros id. rewrite get_merge by exact Hsu. specialize (Hb id).
    unfold sum_cands in *. cbn [fold_right snd] in Hb. lia. }
  destruct (wants req bal s).
  - rewrite no_overflow; [|apply uniq_merge; exact Hu|intros id; specialize (Hb' id); lia].
    apply IH; [exact Hrest|apply uniq_merge; exact Hu|exact Hb'].
  - apply IH; [exact Hrest|exact Hu|].
    intros id. specialize (Hb id). unfold sum_cands in *. cbn [fold_right snd] in Hb. lia.
Qed.

Theorem split_no_panic : forall inv outs postage cd oversize fc p,
  valid_inv inv -> (forall id, sum_all inv id < P128) -> (forall id, need_total outs id < P128) ->
  build_split inv outs postage cd oversize fc <> Panic p.
Proof.
  intros inv outs postage cd oversize fc p Hv Hb Hn. unfold build_split.
  destruct outs as [|o0 outs']; [discriminate|]. cbv beta iota.
  destruct (postage <? cd); [discriminate|].
  destruct (required_of (o0 :: outs') []) as [req|e|q] eqn:Hreq; cbn [bind].
  - destruct (select_split (candidates 0 inv) req [] []) as [[inputs bal]|e|q] eqn:Hsel; cbn [bind].
    + destruct (existsb _ req); [discriminate|]. destruct oversize; [discriminate|].
      destruct (existsb _ (o0 :: outs')); discriminate.
    + discriminate.
    + exfalso. revert Hsel. apply select_split_no_panic.
      * intros o s Hin. exact (proj2 (candidates_ok inv Hv o s Hin)).
      * exact uniq_nil.
      * intros id. cbn [get]. pose proof (sum_cands_le inv 0 id). specialize (Hb id). lia.
  - discriminate.
  - exfalso. revert Hreq. apply required_of_no_panic; [exact uniq_nil|].
    intros id. cbn [get]. specialize (Hn id). lia.
Qed.
