(* Lemmas about the content-serving decision model (Server/Content.v). *)
From Coq Require Import String Ascii.
From OrdV Require Import Base.Prelude Generated Server.Content.

Definition b (s : string) : bytes := map (fun a => N_of_ascii a) (list_ascii_of_string s).

(* destruct the scrutinee of some match in the goal / in a hypothesis *)
Ltac dmg := match goal with |- context [match ?x with _ => _ end] => destruct x eqn:? end.
Ltac dmh := match goal with H : context [match ?x with _ => _ end] |- _ => destruct x eqn:? end.

(* ------------------------------------------------------------------ policy strings *)

(* the sandbox policy in structured form: default-src, then origin+path for every
   recursive path, then the fixed keyword / scheme sources *)
Definition policy_tail : bytes := b " 'unsafe-eval' 'unsafe-inline' data: blob:".
Definition policy_for (origin : bytes) : bytes :=
  b "default-src" ++ flat_map (fun p => 32 :: origin ++ p) CSP_PATHS ++ policy_tail.

Lemma recursive_paths :
  CSP_PATHS = [b "/content/"; b "/blockheight"; b "/blockhash"; b "/blockhash/"; b "/blocktime"; b "/r/"].
Proof. vm_compute. reflexivity. Qed.

Lemma csp_self_structure : CSP_CONTENT_SELF = b "default-src 'self'" ++ policy_tail.
Proof. vm_compute. reflexivity. Qed.

Lemma csp_star_structure : CSP_CONTENT_STAR = policy_for (b "*:*").
Proof. vm_compute. reflexivity. Qed.

Lemma csp_origin_structure : forall o, join_segments o CSP_ORIGIN_SEGMENTS = policy_for o.
Proof.
  intro o. unfold policy_for, CSP_ORIGIN_SEGMENTS, CSP_PATHS, policy_tail.
  cbn [join_segments flat_map b list_ascii_of_string map].
  repeat (rewrite <- app_assoc; cbn [app]).
  cbn. reflexivity.
Qed.

Lemma csp_default_value : CSP_DEFAULT = b "default-src 'self'".
Proof. vm_compute. reflexivity. Qed.

(* ------------------------------------------------------------------ every response has a policy *)

Lemma csp_layer_nonempty : forall r, csp (csp_layer r) <> [].
Proof.
  intro r. unfold csp_layer. destruct (csp r) eqn:E; cbn; [discriminate | rewrite E; discriminate].
Qed.

Lemma content_csp_values : forall o pol, content_csp o = Some pol -> pol <> [] /\ Forall (fun v => v <> []) pol.
Proof.
  intros o pol H. unfold content_csp in H. destruct o as [o|].
  - cbv zeta in H. destruct (header_value_ok _) eqn:E; [|discriminate].
    assert (Hp : pol = [join_segments o CSP_ORIGIN_SEGMENTS]) by congruence. subst pol. split; [discriminate|].
    constructor; [|constructor]. rewrite csp_origin_structure. unfold policy_for. cbn. discriminate.
  - inversion H; subst. split; [discriminate|]. repeat constructor; vm_compute; discriminate.
Qed.

Lemma replace_keeps_head : forall pat rep c t,
  is_prefix pat (c :: t) = false -> replace_all pat rep (c :: t) <> [].
Proof.
  intros pat rep c t H. unfold replace_all. cbn [length replace_fuel]. rewrite H. discriminate.
Qed.

Lemma preview_default_head : forall m d, assoc_N m PREVIEW_CSP = Some d ->
  exists c t, d = c :: t /\ is_prefix CSP_SELF_TOKEN (c :: t) = false.
Proof.
  intros m d. unfold PREVIEW_CSP. cbn [assoc_N].
  repeat (destruct (_ =? m); [intro H; inversion H; subst; eexists; eexists; split; [reflexivity | vm_compute; reflexivity] |]).
  discriminate.
Qed.

Lemma preview_csp_value : forall w m v, preview_csp w m = Some v -> v <> [].
Proof.
  intros w m v H. unfold preview_csp in H. destruct (assoc_N m PREVIEW_CSP) as [d|] eqn:E; [|discriminate].
  destruct (preview_default_head _ _ E) as (c & t & -> & Hp).
  destruct (w_origin w) as [o|].
  - destruct (header_value_ok _); [|discriminate]. inversion H; subst. apply replace_keeps_head; exact Hp.
  - inversion H; subst. discriminate.
Qed.

Definition values_ok (r : response) : Prop := Forall (fun v => v <> []) (csp r).

Lemma content_response_values : forall dc w src i ae cb, values_ok (content_response dc w src i ae cb).
Proof.
  intros. unfold content_response, values_ok.
  destruct (content_csp (w_origin w)) as [pol|] eqn:E; [|constructor].
  destruct (content_csp_values _ _ E) as [_ F].
  repeat dmg; cbn; auto; constructor.
Qed.

Lemma handler_values : forall dc w p ae, values_ok (handler dc w p ae).
Proof.
  intros dc w p ae. destruct p; cbn [handler].
  - unfold content_inner. destruct (resolve w id); try (constructor; fail). apply content_response_values.
  - unfold undelegated_content. repeat dmg; try (constructor; fail). apply content_response_values.
  - unfold preview. destruct (resolve w id); try (constructor; fail).
    destruct (media i =? MEDIA_IFRAME); [apply content_response_values|].
    destruct (preview_csp w (media i)) eqn:E; [|constructor].
    unfold values_ok; cbn. constructor; [|constructor]. eapply preview_csp_value; eauto.
  - unfold sat_at_index_content. repeat dmg; try (constructor; fail).
    unfold content_inner. destruct (resolve w _); try (constructor; fail). apply content_response_values.
  - constructor.
  - constructor.
Qed.

Lemma serve_csp : forall dc w p ae,
  csp (serve dc w p ae) <> [] /\ Forall (fun v => v <> []) (csp (serve dc w p ae)).
Proof.
  intros. split; [apply csp_layer_nonempty|]. unfold serve.
  pose proof (handler_values dc w p (accept_encoding_of ae)) as H. unfold values_ok in H.
  unfold csp_layer. destruct (csp (handler dc w p (accept_encoding_of ae))) eqn:E.
  - cbn. constructor; [vm_compute; discriminate | constructor].
  - rewrite E. exact H.
Qed.

(* ------------------------------------------------------------------ shape of content responses *)

Lemma csp_layer_body : forall r, r_body (csp_layer r) = r_body r /\ status (csp_layer r) = status r /\
  r_cache (csp_layer r) = r_cache r /\ r_ctype (csp_layer r) = r_ctype r /\ r_cenc (csp_layer r) = r_cenc r.
Proof. intro r. unfold csp_layer. destruct (csp r); cbn; auto. Qed.

Lemma csp_layer_keeps : forall r, csp r <> [] -> csp (csp_layer r) = csp r.
Proof. intros r H. unfold csp_layer. destruct (csp r) eqn:E; [congruence | cbn; exact E]. Qed.

(* what a content response of source [src] / inscription [i] looks like *)
Record content_shape (dc : bytes -> option bytes) (w : world) (ae : option bytes) (src : N) (i : insc) (r : response) : Prop := {
  cs_status : status r = 200;
  cs_csp : csp r = match w_origin w with
                   | None => [CSP_CONTENT_SELF; CSP_CONTENT_STAR]
                   | Some o => [policy_for o]
                   end;
  cs_type : r_ctype r = Some (content_type_header i);
  cs_body : match content_encoding_hv i with
            | None => r_cenc r = None /\ exists bd, i_body i = Some bd /\ r_body r = BStored src bd
            | Some enc =>
              if is_acceptable ae enc
              then r_cenc r = Some enc /\ exists bd, i_body i = Some bd /\ r_body r = BStored src bd
              else w_decompress w = true /\ enc = BROTLI /\ r_cenc r = None /\
                   exists bd d, i_body i = Some bd /\ dc bd = Some d /\ r_body r = BDecompressed src d
            end
}.

Lemma bytes_eqb_eq : forall a c, bytes_eqb a c = true -> a = c.
Proof.
  induction a as [|x a IH]; destruct c as [|y c]; cbn; try discriminate; auto.
  intro H. apply andb_true_iff in H. destruct H as [H1 H2]. apply N.eqb_eq in H1. subst. f_equal. auto.
Qed.

Lemma bytes_eqb_refl : forall a, bytes_eqb a a = true.
Proof. induction a; cbn; auto. rewrite N.eqb_refl. auto. Qed.

Lemma content_response_shape : forall dc w src i ae cb r,
  r = content_response dc w src i ae cb -> body_source r <> None ->
  content_shape dc w ae src i r /\ r_cache r = (if cb then CImmutable else CNoStore).
Proof.
  intros dc w src i ae cb r -> Hs. unfold content_response in *.
  destruct (content_csp (w_origin w)) as [pol|] eqn:Ec; [|cbn in Hs; congruence].
  assert (Hpol : pol = match w_origin w with None => [CSP_CONTENT_SELF; CSP_CONTENT_STAR] | Some o => [policy_for o] end).
  { unfold content_csp in Ec. destruct (w_origin w) as [o|].
    - cbv zeta in Ec. destruct (header_value_ok _); [|discriminate].
      rewrite <- csp_origin_structure. congruence.
    - congruence. }
  destruct (content_encoding_hv i) as [enc|] eqn:Ee.
  - destruct (is_acceptable ae enc) eqn:Ea.
    + destruct (i_body i) as [bd|] eqn:Eb; [|cbn in Hs; congruence].
      split; [|reflexivity]. constructor; cbn; auto. rewrite Ee, Ea. eauto.
    + destruct (andb (w_decompress w) (bytes_eqb enc BROTLI)) eqn:Ed; [|cbn in Hs; congruence].
      apply andb_true_iff in Ed. destruct Ed as [Ed1 Ed2]. apply bytes_eqb_eq in Ed2.
      destruct (i_body i) as [bd|] eqn:Eb; [|cbn in Hs; congruence].
      destruct (dc bd) as [d|] eqn:Edc; [|cbn in Hs; congruence].
      split; [|reflexivity]. constructor; cbn; auto. rewrite Ee, Ea. repeat split; auto. eauto.
  - destruct (i_body i) as [bd|] eqn:Eb; [|cbn in Hs; congruence].
    split; [|reflexivity]. constructor; cbn; auto. rewrite Ee. eauto.
Qed.

(* the refusals of content_response, completing the case analysis *)
Lemma content_response_refusals : forall dc w src i ae cb,
  let r := content_response dc w src i ae cb in
  body_source r = None ->
  (content_csp (w_origin w) = None /\ status r = 500) \/
  (exists enc, content_encoding_hv i = Some enc /\ is_acceptable ae enc = false /\
               (w_decompress w = false \/ enc <> BROTLI) /\ status r = 406) \/
  (i_body i = None /\ status r = 404) \/
  (exists bd, i_body i = Some bd /\ dc bd = None /\ status r = 500).
Proof.
  intros dc w src i ae cb r Hs. subst r. unfold content_response in *.
  destruct (content_csp (w_origin w)) as [pol|] eqn:Ec; [|left; auto].
  destruct (content_encoding_hv i) as [enc|] eqn:Ee.
  - destruct (is_acceptable ae enc) eqn:Ea.
    + destruct (i_body i) eqn:Eb; [cbn in Hs; discriminate|]. right; right; left; auto.
    + destruct (andb (w_decompress w) (bytes_eqb enc BROTLI)) eqn:Ed.
      * destruct (i_body i) as [bd|] eqn:Eb; [|right; right; left; auto].
        destruct (dc bd) eqn:Edc; [cbn in Hs; discriminate|]. right; right; right. eauto.
      * right; left. exists enc. repeat split; auto.
        apply andb_false_iff in Ed. destruct Ed as [Ed|Ed]; [left; auto|right].
        intro; subst. rewrite bytes_eqb_refl in Ed. discriminate.
  - destruct (i_body i) eqn:Eb; [cbn in Hs; discriminate|]. right; right; left; auto.
Qed.

(* which inscription a request is about: the requested one, or its delegate (one level) *)
Definition source_of (w : world) (id : N) (src : N) (si : insc) : Prop :=
  exists i, w_insc w id = Some i /\ w_hidden w id = false /\
    match i_delegate i with
    | None => src = id /\ si = i
    | Some d => src = d /\ w_insc w d = Some si /\ (w_fixed w = true -> w_hidden w d = false)
    end.

Lemma resolve_found : forall w id src si, resolve w id = RFound src si -> source_of w id src si.
Proof.
  intros w id src si H. unfold resolve in H.
  destruct (w_hidden w id) eqn:Eh; [discriminate|].
  destruct (w_insc w id) as [i|] eqn:Ei; [|discriminate].
  exists i. split; auto. split; auto.
  destruct (i_delegate i) as [d|].
  - destruct (andb (w_fixed w) (w_hidden w d)) eqn:E; [discriminate|].
    destruct (w_insc w d) as [di|] eqn:Ed; [|discriminate]. inversion H; subst.
    repeat split; auto. intro F. rewrite F in E. cbn in E. exact E.
  - inversion H; subst. auto.
Qed.

(* the requested inscription of a request path *)
Definition requested (w : world) (p : request_path) : option N :=
  match p with
  | PContent id | PUndelegated id | PPreview id => Some id
  | PSatAt sat idx => if w_index_sats w then nth_signed (w_on_sat w sat) idx else None
  | _ => None
  end.

Definition cache_flag (p : request_path) : bool :=
  match p with PSatAt _ idx => (0 <=? idx)%Z | _ => true end.

(* Every response that carries inscription data is the content response of the requested
   inscription (undelegated route) or of its one-level resolution (other routes). *)
Lemma serve_content : forall dc w p ae_hdr src,
  let r := serve dc w p ae_hdr in
  body_source r = Some src ->
  exists id si, requested w p = Some id /\
    (match p with
     | PUndelegated _ => src = id /\ w_insc w id = Some si /\ w_hidden w id = false
     | _ => source_of w id src si
     end) /\
    content_shape dc w (accept_encoding_of ae_hdr) src si r /\
    r_cache r = (if cache_flag p then CImmutable else CNoStore).
Proof.
  intros dc w p ae_hdr src r Hs. subst r. unfold serve in *.
  set (ae := accept_encoding_of ae_hdr) in *.
  destruct (csp_layer_body (handler dc w p ae)) as (Hb & Hst & Hca & Hct & Hce).
  assert (Hs' : body_source (handler dc w p ae) = Some src) by (unfold body_source in *; rewrite Hb in Hs; exact Hs).
  assert (lift : forall si cb,
     handler dc w p ae = content_response dc w src si ae cb ->
     content_shape dc w ae src si (csp_layer (handler dc w p ae)) /\
     r_cache (csp_layer (handler dc w p ae)) = (if cb then CImmutable else CNoStore)).
  { intros si cb Hh.
    destruct (content_response_shape dc w src si ae cb _ Hh) as [Sh Hc]; [rewrite Hs'; discriminate|].
    destruct Sh as [s1 s2 s3 s4]. split; [|rewrite Hca; exact Hc].
    constructor; [rewrite Hst; auto | rewrite csp_layer_keeps; [auto | rewrite s2; destruct (w_origin w); discriminate]
                 | rewrite Hct; auto | ].
    rewrite Hce, Hb. exact s4. }
  assert (same_src : forall s i cb, body_source (content_response dc w s i ae cb) = Some src -> s = src).
  { intros s i cb. unfold content_response. repeat dmg; cbn; congruence. }
  destruct p; cbn [handler] in *.
  - unfold content_inner in *. destruct (resolve w id) as [| |s i] eqn:Er; try (cbn in Hs'; discriminate).
    pose proof (same_src _ _ _ Hs'); subst s.
    exists id, i. split; [reflexivity|]. split; [apply resolve_found; auto|]. apply (lift i true); reflexivity.
  - unfold undelegated_content in *. destruct (w_hidden w id) eqn:Eh; [cbn in Hs'; discriminate|].
    destruct (w_insc w id) as [i|] eqn:Ei; [|cbn in Hs'; discriminate].
    pose proof (same_src _ _ _ Hs'); subst src.
    exists id, i. split; [reflexivity|]. split; [auto|]. apply (lift i true); reflexivity.
  - unfold preview in *. destruct (resolve w id) as [| |s i] eqn:Er; try (cbn in Hs'; discriminate).
    destruct (media i =? MEDIA_IFRAME) eqn:Em.
    + pose proof (same_src _ _ _ Hs'); subst s.
      exists id, i. split; [reflexivity|]. split; [apply resolve_found; auto|]. apply (lift i true); reflexivity.
    + destruct (preview_csp w (media i)); cbn in Hs'; discriminate.
  - unfold sat_at_index_content in *.
    destruct (orb (idx <? ISIZE_MIN)%Z (ISIZE_MAX <? idx)%Z); [cbn in Hs'; discriminate|].
    destruct (w_index_sats w) eqn:Ex; cbn [negb] in *; [|cbn in Hs'; discriminate].
    destruct (nth_signed (w_on_sat w sat) idx) as [id|] eqn:En; [|cbn in Hs'; discriminate].
    unfold content_inner in *. destruct (resolve w id) as [| |s i] eqn:Er; try (cbn in Hs'; discriminate).
    pose proof (same_src _ _ _ Hs'); subst s.
    exists id, i. split; [cbn; rewrite Ex; exact En|]. split; [apply resolve_found; auto|].
    apply (lift i (0 <=? idx)%Z); reflexivity.
  - cbn in Hs'. discriminate.
  - cbn in Hs'. discriminate.
Qed.

(* ------------------------------------------------------------------ hidden inscriptions *)

Lemma hidden_never_served : forall dc w p ae_hdr h,
  w_fixed w = true -> w_hidden w h = true -> body_source (serve dc w p ae_hdr) <> Some h.
Proof.
  intros dc w p ae_hdr h Hf Hh Hs.
  destruct (serve_content dc w p ae_hdr h Hs) as (id & si & _ & Hsrc & _).
  destruct p; try (destruct Hsrc as (i & Hi & Hhid & Hd); destruct (i_delegate i);
    [destruct Hd as (-> & _ & Hn); rewrite (Hn Hf) in Hh; discriminate | destruct Hd as (-> & _); congruence]).
  destruct Hsrc as (-> & _ & Hn). congruence.
Qed.

(* templates never carry inscription data: a response either has no body source or is a
   content response; this is by construction of [body], recorded for completeness *)
Lemma template_has_no_source : forall r refs, r_body r = BTemplate refs -> body_source r = None.
Proof. intros r refs H. unfold body_source. rewrite H. reflexivity. Qed.

(* the pinned commit served a hidden inscription through a delegating one *)
Definition leak_world : world :=
  mkWorld (fun id => if id =? 0 then Some (mkInsc (Some [115]) None None None)
                     else if id =? 1 then Some (mkInsc None None None (Some 0)) else None)
          (fun _ => []) false (fun id => id =? 0) None false false.

Lemma pinned_commit_leaks : forall dc,
  w_hidden leak_world 0 = true /\ body_source (serve dc leak_world (PContent 1) None) = Some 0.
Proof. intro dc. vm_compute. split; reflexivity. Qed.

(* ------------------------------------------------------------------ newest-relative content *)

Lemma negative_index_not_immutable : forall dc w sat idx ae_hdr,
  (idx < 0)%Z -> r_cache (serve dc w (PSatAt sat idx) ae_hdr) <> CImmutable.
Proof.
  intros dc w sat idx ae_hdr Hneg. unfold serve.
  destruct (csp_layer_body (handler dc w (PSatAt sat idx) (accept_encoding_of ae_hdr))) as (_ & _ & -> & _).
  cbn [handler]. unfold sat_at_index_content.
  assert (E : (0 <=? idx)%Z = false) by (apply Z.leb_gt; exact Hneg). rewrite E.
  repeat dmg; cbn; try discriminate.
  unfold content_inner. destruct (resolve w _); cbn; try discriminate.
  unfold content_response. repeat dmg; cbn; discriminate.
Qed.

(* ------------------------------------------------------------------ signed index on a sat *)

Lemma nth_signed_nonneg : forall A (l : list A) i, (0 <= i)%Z -> nth_signed l i = nth_error l (Z.to_nat i).
Proof.
  intros A l i H. unfold nth_signed, len. assert (E : (i <? 0)%Z = false) by (apply Z.ltb_ge; exact H). rewrite E.
  destruct (N.ltb_spec (Z.to_N i) (N.of_nat (length l))) as [Hlt|Hge]; [reflexivity|].
  symmetry. apply nth_error_None. lia.
Qed.

(* index -k (k >= 1) is element number len - k, i.e. -1 is the newest; out of range = None *)
Lemma nth_signed_negative : forall A (l : list A) k, (1 <= k)%nat ->
  nth_signed l (- Z.of_nat k) = if (k <=? length l)%nat then nth_error l (length l - k) else None.
Proof.
  intros A l k Hk. unfold nth_signed, len.
  assert (E : (- Z.of_nat k <? 0)%Z = true) by (apply Z.ltb_lt; lia). rewrite E.
  replace (Z.to_N (- (- Z.of_nat k + 1))) with (N.of_nat (k - 1)) by lia.
  destruct (Nat.leb_spec k (length l)) as [Hle|Hgt].
  - assert (F : (N.of_nat (k - 1) <? N.of_nat (length l)) = true) by (apply N.ltb_lt; lia). rewrite F.
    f_equal. lia.
  - assert (F : (N.of_nat (k - 1) <? N.of_nat (length l)) = false) by (apply N.ltb_ge; lia). rewrite F. reflexivity.
Qed.

(* ------------------------------------------------------------------ faithful serving (completeness) *)

Lemma content_served : forall dc w id ae_hdr src si bd,
  source_of w id src si -> (w_fixed w = true) ->
  content_csp (w_origin w) <> None ->
  i_body si = Some bd ->
  (content_encoding_hv si = None \/
   exists enc, content_encoding_hv si = Some enc /\ is_acceptable (accept_encoding_of ae_hdr) enc = true) ->
  let r := serve dc w (PContent id) ae_hdr in
  status r = 200 /\ r_body r = BStored src bd /\ r_cenc r = content_encoding_hv si /\
  r_ctype r = Some (content_type_header si) /\ r_cache r = CImmutable.
Proof.
  intros dc w id ae_hdr src si bd (i & Hi & Hh & Hd) Hf Hc Hb He r. subst r. unfold serve.
  destruct (csp_layer_body (handler dc w (PContent id) (accept_encoding_of ae_hdr))) as (-> & -> & -> & -> & ->).
  cbn [handler]. unfold content_inner.
  assert (Hr : resolve w id = RFound src si).
  { unfold resolve. rewrite Hh, Hi. destruct (i_delegate i) as [d|].
    - destruct Hd as (-> & Hd & Hn). rewrite (Hn Hf), andb_false_r, Hd. reflexivity.
    - destruct Hd as (-> & ->). reflexivity. }
  rewrite Hr. unfold content_response.
  destruct (content_csp (w_origin w)); [|congruence].
  destruct He as [He|(enc & He & Ha)]; rewrite He; [|rewrite Ha]; rewrite Hb; cbn; auto.
Qed.

(* content type: the stored bytes when they are UTF-8 and a legal header value, else the default *)
Lemma content_type_header_spec : forall i,
  (forall t, i_ctype i = Some t -> utf8_valid t = true -> header_value_ok t = true -> content_type_header i = t) /\
  ((i_ctype i = None \/ exists t, i_ctype i = Some t /\ (utf8_valid t = false \/ header_value_ok t = false)) ->
   content_type_header i = DEFAULT_CONTENT_TYPE).
Proof.
  intro i. unfold content_type_header, content_type_str. split.
  - intros t Ht Hu Hv. rewrite Ht, Hu, Hv. reflexivity.
  - intros [Hn|(t & Ht & [Hu|Hv])].
    + rewrite Hn. reflexivity.
    + rewrite Ht, Hu. reflexivity.
    + rewrite Ht. destruct (utf8_valid t); [rewrite Hv|]; reflexivity.
Qed.

Lemma default_content_type_value : DEFAULT_CONTENT_TYPE = b "application/octet-stream".
Proof. vm_compute. reflexivity. Qed.
