(* C05, ids at chain level: every inscription's id names a transaction of the chain, at the height recorded in
   the entry, and its index is below the number of envelopes of that transaction. *)
From OrdV Require Import Base.Prelude Generated Index.Inscr Proofs.Inscr_tables Proofs.Inscr_proofs Proofs.Inscr_c07.
From Coq Require Import ZifyBool ZifyN.

Definition names (T : list (N * tx)) (h : N) (i : iid) : Prop :=
  exists t, In (h, t) T /\ t_id t = fst i /\ snd i < N.of_nat (length (t_envs t)).

Definition IdE (T : list (N * tx)) (E : list (N * ientry)) : Prop :=
  forall s e, tgN s E = Some e -> names T (i_height e) (i_id e).
Definition IdF (T : list (N * tx)) (h : N) (l : list flotsam) : Prop :=
  forall f, In f l -> is_new f = true -> names T h (f_id f).

Lemma names_weaken : forall T T' h i, (forall x, In x T -> In x T') -> names T h i -> names T' h i.
Proof. intros T T' h i W (t & A & B & C). exists t. auto. Qed.

Lemma step_ide : forall T h rg f sp o b b',
  IdE T (s_entries (b_st b)) -> (is_new f = true -> names T h (f_id f)) ->
  update_location h rg f sp o b = Ok b' -> IdE T (s_entries (b_st b')).
Proof.
  intros T h rg f sp o b b' HE HF H s e He. destruct (f_origin f) as [c fee hid ps re ub vi|seq] eqn:Ho.
  - destruct (update_new_shape _ _ _ _ _ _ _ _ _ _ _ _ _ _ Ho H) as (e0 & [S1 S2 S3 S4 S5 _ _ _ _ _ _ _]).
    rewrite S5, tgN_set in He. destruct (N.eqb_spec s (b_next b)).
    + injection He as He. subst e. rewrite S1, S3. apply HF. unfold is_new. rewrite Ho. reflexivity.
    + eapply HE; eauto.
  - destruct (update_old_shape _ _ _ _ _ _ _ _ Ho H) as (_ & _ & _ & _ & _ & _ & _ & [O8|(e0 & He0 & O8)]); rewrite O8 in He.
    + eapply HE; eauto.
    + rewrite tgN_set in He. destruct (N.eqb_spec s seq); [|eapply HE; eauto]. inv He. cbn [i_height i_id]. eapply HE; eauto.
Qed.

Lemma apply_locs_ide : forall T h rg locs b b',
  IdE T (s_entries (b_st b)) -> IdF T h (map loc_flot locs) ->
  apply_locs h rg locs b = Ok b' -> IdE T (s_entries (b_st b')).
Proof.
  intros T h rg locs. induction locs as [|[[[op off] f] o] r IH]; intros b b' HE HF H; cbn [apply_locs] in H.
  - inv H. auto.
  - dbind H. eapply IH; [| |exact H].
    + eapply step_ide; eauto. intro Hn. apply HF; auto. left. reflexivity.
    + intros g Hg. apply HF. right. exact Hg.
Qed.

Lemma apply_lost_ide : forall T h rg ov l b b',
  IdE T (s_entries (b_st b)) -> IdF T h l ->
  apply_lost h rg ov l b = Ok b' -> IdE T (s_entries (b_st b')).
Proof.
  intros T h rg ov l. induction l as [|f r IH]; intros b b' HE HF H; cbn [apply_lost] in H.
  - inv H. auto.
  - dbind H. dbind H. eapply IH; [| |exact H].
    + eapply step_ide; eauto. intro Hn. apply HF; auto. left. reflexivity.
    + intros g Hg. apply HF. right. exact Hg.
Qed.

(* id_counter never exceeds the number of envelopes *)
Lemma span_input_len : forall idx l mine rest, span_input idx l = (mine, rest) -> length l = (length mine + length rest)%nat.
Proof.
  intros idx l. induction l as [|v r IH]; intros mine rest H; cbn [span_input] in H.
  - inv H. reflexivity.
  - destruct (v_input v =? idx).
    + destruct (span_input idx r) as [a b] eqn:E. inv H. cbn. rewrite (IH _ _ eq_refl). reflexivity.
    + inv H. reflexivity.
Qed.

Lemma news_idc : forall st txid jubilant tov offset iv l a a',
  news st txid jubilant tov offset iv l a = Ok a' -> a_idc a' = a_idc a + N.of_nat (length l).
Proof.
  intros st txid jubilant tov offset iv l. induction l as [|v r IH]; intros a a' H; cbn [news] in H.
  - inv H. cbn. lia.
  - dbind H. apply IH in H. rewrite H. cbn [a_idc length]. lia.
Qed.

Lemma inputs_loop_idc : forall cfg st txid height jubilant tov ins idx ents envs a a',
  inputs_loop cfg st txid height jubilant tov ins idx ents envs a = Ok a' ->
  a_idc a' <= a_idc a + N.of_nat (length envs).
Proof.
  intros cfg st txid height jubilant tov ins. induction ins as [|prev r IH]; intros idx ents envs a a' H; cbn [inputs_loop] in H.
  - inv H. lia.
  - destruct (is_null prev).
    + apply IH in H. cbn [a_idc] in H. exact H.
    + destruct (nth_error ents (N.to_nat idx)) as [u|]; [|discriminate].
      dbind H. destruct a0 as [fl io]. destruct (span_input idx envs) as [mine rest] eqn:ES.
      dbind H. apply IH in H. apply news_idc in E0. cbn [a_idc] in E0. apply span_input_len in ES. lia.
Qed.

Lemma floating_of_names : forall cfg st h t ents F tiv T,
  floating_of cfg st h t ents = Ok (F, tiv) -> IdF ((h, t) :: T) h F.
Proof.
  intros cfg st h t ents F tiv T H f Hf Hn. unfold floating_of in H. dbind H. dbind H. inv H.
  pose proof (inputs_loop_idc _ _ _ _ _ _ _ _ _ _ _ _ E) as Hidc. cbn [a_idc] in Hidc.
  apply inputs_loop_aok with (txid := t_id t) (jubilant := c_jubilee cfg <=? h) in E.
  2:{ split; cbn; [tauto|constructor]. }
  destruct E as [M _]. apply in_map_iff in Hf. destruct Hf as (g & <- & G2).
  destruct (fix_new_props (map f_id (a_float a)) a0 g) as (A & B & _). rewrite B in Hn. rewrite A.
  destruct (M g G2 Hn) as (P1 & P2 & _). exists t. split; [left; reflexivity|]. split; auto. lia.
Qed.

Lemma rebase_idf : forall T h reward ov l l', rebase reward ov l = Ok l' -> IdF T h l -> IdF T h l'.
Proof.
  intros T h reward ov l. induction l as [|f r IH]; intros l' H HF; cbn [rebase] in H.
  - inv H. exact HF.
  - dbind H. dbind H. inv H. intros g [Hg|Hg] Hn.
    + subst g. unfold is_new in Hn. cbn [f_origin f_id] in *. apply (HF f); [left; reflexivity|exact Hn].
    + eapply IH; eauto. intros x Hx. apply HF. right. exact Hx.
Qed.

Lemma index_inscriptions_idh : forall cfg h t ents rg T b b',
  IdE T (s_entries (b_st b)) -> IdF T h (b_flot b) ->
  index_inscriptions cfg h t ents rg b = Ok b' ->
  IdE ((h, t) :: T) (s_entries (b_st b')) /\ IdF ((h, t) :: T) h (b_flot b').
Proof.
  intros cfg h t ents rg T b b' HE HF H. unfold index_inscriptions in H. dbind H. destruct a as [F tiv].
  pose proof (floating_of_names _ _ _ _ _ _ _ T E) as FN. clear E.
  set (T' := (h, t) :: T) in *.
  assert (W : forall x, In x T -> In x T') by (intros x Hx; right; exact Hx).
  assert (HE' : IdE T' (s_entries (b_st b))) by (intros s e He; eapply names_weaken; [exact W|eapply HE; eauto]).
  assert (HF' : IdF T' h (b_flot b)) by (intros f Hf Hn; eapply names_weaken; [exact W|eapply HF; eauto]).
  destruct (tx_is_coinbase t).
  - destruct (assign (t_id t) 0 0 (t_outs t) (sort_by f_offset (F ++ b_flot b))) as [[locs rest] ov] eqn:EA.
    apply assign_split in EA.
    assert (HA : IdF T' h (map loc_flot locs ++ rest)).
    { rewrite <- EA. intros f Hf. eapply Permutation.Permutation_in in Hf; [|apply sort_by_perm].
      apply in_app_or in Hf. destruct Hf; auto. }
    dbind H. dbind H. dbind H. inv H. cbn [b_st b_flot].
    assert (Q1 : IdE T' (s_entries (b_st a))).
    { eapply apply_locs_ide; [| |exact E]; [exact HE' | intros f Hf; apply HA; apply in_or_app; auto]. }
    split.
    + eapply apply_lost_ide; [| |exact E0]; [exact Q1 | intros f Hf; apply HA; apply in_or_app; auto].
    + rewrite (apply_lost_flot _ _ _ _ _ _ E0), (apply_locs_flot _ _ _ _ _ E). cbn. intros f [].
  - destruct (assign (t_id t) 0 0 (t_outs t) (sort_by f_offset F)) as [[locs rest] ov] eqn:EA.
    apply assign_split in EA.
    assert (HA : IdF T' h (map loc_flot locs ++ rest)).
    { rewrite <- EA. intros f Hf. eapply Permutation.Permutation_in in Hf; [|apply sort_by_perm]. auto. }
    dbind H. dbind H. dbind H. inv H. cbn [b_st b_flot]. split.
    + eapply apply_locs_ide; [| |exact E]; [exact HE' | intros f Hf; apply HA; apply in_or_app; auto].
    + rewrite (apply_locs_flot _ _ _ _ _ E). intros f Hf. apply in_app_or in Hf. destruct Hf as [Hf|Hf]; auto.
      eapply rebase_idf; eauto. intros g Hg. apply HA. apply in_or_app. auto.
Qed.

Lemma index_tx_idh : forall cfg h insc first t T b b',
  IdE T (s_entries (b_st b)) -> IdF T h (b_flot b) ->
  index_tx cfg h insc first t b = Ok b' ->
  IdE ((h, t) :: T) (s_entries (b_st b')) /\ IdF ((h, t) :: T) h (b_flot b').
Proof.
  intros cfg h insc first t T b b' HE HF H. unfold index_tx in H.
  dbind H. destruct a as [ents utxo1]. dbind H. destruct a as [[per_out in_ranges] b1].
  assert (Hb1 : b_st b1 = b_st b /\ b_flot b1 = b_flot b).
  { destruct (c_sats cfg).
    - dbind E0. destruct a as [po lft]. destruct first; inv E0; cbn; auto.
    - inv E0. auto. }
  destruct Hb1 as (Q1 & Q3).
  destruct insc.
  - eapply index_inscriptions_idh; [| |exact H]; unfold set_st, with_utxo; cbn [b_st b_flot s_entries]; rewrite ?Q3; auto.
  - inv H. unfold set_st, with_utxo. cbn [b_st b_flot s_entries]. rewrite Q3. split.
    + intros s e He. eapply names_weaken; [|eapply HE; eauto]. intros x Hx. right. exact Hx.
    + intros f Hf Hn. eapply names_weaken; [|eapply HF; eauto]. intros x Hx. right. exact Hx.
Qed.

Lemma index_txs_idh : forall cfg h insc l T b b',
  IdE T (s_entries (b_st b)) -> IdF T h (b_flot b) ->
  index_txs cfg h insc l b = Ok b' ->
  exists T', IdE T' (s_entries (b_st b')) /\ IdF T' h (b_flot b') /\
    (forall x, In x T' <-> In x (map (fun t => (h, t)) l) \/ In x T).
Proof.
  intros cfg h insc l. induction l as [|t r IH]; intros T b b' HE HF H; cbn [index_txs] in H.
  - inv H. exists T. split; [exact HE|]. split; [exact HF|]. intro x. cbn. tauto.
  - dbind H. destruct (index_tx_idh _ _ _ _ _ _ _ _ HE HF E) as [A B].
    destruct (IH _ _ _ A B H) as (T' & A' & B' & C'). exists T'. split; auto. split; auto.
    intro x. rewrite C'. cbn [map In]. tauto.
Qed.

Lemma index_block_idh : forall cfg h blk T st st',
  IdE T (s_entries st) -> index_block cfg h blk st = Ok st' ->
  exists T', IdE T' (s_entries st') /\ (forall x, In x T' <-> In x (map (fun t => (h, t)) blk) \/ In x T).
Proof.
  intros cfg h blk T st st' HE H. unfold index_block in H. dbind H. dbind H. dbind H. inv H. cbn [s_entries].
  match type of E0 with index_txs _ _ _ _ ?B = _ => set (b0 := B) in * end.
  assert (HE0 : IdE T (s_entries (b_st b0))) by (subst b0; exact HE).
  assert (HF0 : IdF T h (b_flot b0)) by (subst b0; cbn; intros f []).
  destruct (index_txs_idh _ _ _ _ _ _ _ HE0 HF0 E0) as (T1 & A1 & B1 & C1).
  destruct blk as [|t0 r].
  - inv E1. exists T1. split; auto.
  - cbn [tl] in *. destruct (index_tx_idh _ _ _ _ _ _ _ _ A1 B1 E1) as [A2 _].
    exists ((h, t0) :: T1). split; auto. intro x. cbn [In map]. rewrite C1. tauto.
Qed.

Fixpoint chain_pairs (h : N) (c : list block) : list (N * tx) :=
  match c with [] => [] | blk :: r => map (fun t => (h, t)) blk ++ chain_pairs (h + 1) r end.

Lemma index_chain_idh : forall cfg c h T st st',
  IdE T (s_entries st) -> index_chain cfg h c st = Ok st' ->
  exists T', IdE T' (s_entries st') /\ (forall x, In x T' <-> In x (chain_pairs h c) \/ In x T).
Proof.
  intros cfg c. induction c as [|blk r IH]; intros h T st st' HE H; cbn [index_chain] in H.
  - inv H. exists T. split; auto. cbn. tauto.
  - dbind H. destruct (index_block_idh _ _ _ _ _ _ HE E) as (T1 & A1 & C1).
    destruct (IH _ _ _ _ A1 H) as (T2 & A2 & C2). exists T2. split; auto.
    intro x. rewrite C2, C1. cbn [chain_pairs]. rewrite in_app_iff. tauto.
Qed.

Lemma chain_pairs_nth : forall c h x, In x (chain_pairs h c) ->
  exists blk, nth_error c (N.to_nat (fst x - h)) = Some blk /\ In (snd x) blk /\ h <= fst x.
Proof.
  intros c. induction c as [|blk r IH]; intros h x H; cbn [chain_pairs] in H; [destruct H|].
  apply in_app_or in H. destruct H as [H|H].
  - apply in_map_iff in H. destruct H as (t & <- & Ht). cbn [fst snd]. exists blk. rewrite N.sub_diag. cbn. split; auto. split; auto. lia.
  - destruct (IH _ _ H) as (b & A & B & C). exists b. split; [|split; auto; lia].
    replace (N.to_nat (fst x - h)) with (S (N.to_nat (fst x - (h + 1)))) by lia. exact A.
Qed.

Theorem ids_name_reveals : forall cfg c st,
  index_chain cfg 0 c empty_state = Ok st ->
  forall s e, tget N.eqb s (s_entries st) = Some e ->
    exists blk t, nth_error c (N.to_nat (i_height e)) = Some blk /\ In t blk /\
      t_id t = fst (i_id e) /\ snd (i_id e) < N.of_nat (length (t_envs t)).
Proof.
  intros cfg c st H s e He.
  destruct (index_chain_idh cfg c 0 [] empty_state st) as (T' & A & C); auto.
  { intros s0 e0 H0. discriminate. }
  destruct (A s e He) as (t & T1 & T2 & T3). apply C in T1. destruct T1 as [T1|[]].
  destruct (chain_pairs_nth _ _ _ T1) as (blk & B1 & B2 & _). cbn [fst snd] in *. rewrite N.sub_0_r in B1.
  exists blk, t. auto.
Qed.
