(* (c) build_transaction never panics on a well-formed call (WalletOK, Wallet/BuilderSpec.v). *)
From OrdV Require Import Base.Prelude Generated Wallet.Builder Wallet.BuilderSpec Proofs.Builder_proofs.
Require Import ZifyBool ZifyN.
Ltac Zify.zify_post_hook ::= Z.div_mod_to_equations.

(* ------------------------------------------------------------ scripts *)
Lemma address_kinds : forall c, is_address c = true ->
  skind c = 0 \/ skind c = 1 \/ skind c = 2 \/ skind c = 3 \/ skind c = 4.
Proof. intros c H. unfold is_address in H. apply N.ltb_lt in H. lia. Qed.

Lemma address_facts : forall c, is_address c = true ->
  294 <= dust c /\ dust c <= 546 /\ txout_size c <= 43 /\ is_op_return c = false.
Proof.
  intros c H. apply address_kinds in H.
  unfold dust, txout_size, is_op_return, is_witness_program, script_len.
  destruct H as [H|[H|[H|[H|H]]]]; rewrite H; vm_compute; repeat split; discriminate.
Qed.

Lemma op_return_dust : forall r, is_op_return r = true -> dust r = 0.
Proof. intros r H. unfold dust. rewrite H. reflexivity. Qed.

Lemma dust_recipient_le : forall r, is_op_return r = true \/ is_address r = true -> dust r <= 10000.
Proof.
  intros r [H|H]; [rewrite op_return_dust by exact H; lia|].
  destruct (address_facts r H) as [_ [H1 _]]. lia.
Qed.

(* one more output adds exactly its size to the vsize (fewer than 252 outputs) *)
Lemma vsize_add_output : forall n outs c, (length outs < 251)%nat ->
  vsize n (outs ++ [c]) = vsize n outs + txout_size c.
Proof.
  intros n outs c Hlen. unfold vsize.
  rewrite app_length. cbn [length].
  assert (Hs : sum_map txout_size (outs ++ [c]) = sum_map txout_size outs + txout_size c).
  { rewrite sum_map_app. cbn [sum_map]. lia. }
  rewrite Hs.
  assert (H1 : vi_size (N.of_nat (length outs + 1)) = 1). { unfold vi_size. destruct (N.ltb_spec (N.of_nat (length outs + 1)) 253); [reflexivity|lia]. }
  assert (H2 : vi_size (N.of_nat (length outs)) = 1). { unfold vi_size. destruct (N.ltb_spec (N.of_nat (length outs)) 253); [reflexivity|lia]. }
  rewrite H1, H2. lia.
Qed.

Lemma vsize_ge : forall n outs, 1 <= n -> 43 <= vsize n outs.
Proof.
  intros n outs Hn. unfold vsize.
  assert (1 <= vi_size n). { unfold vi_size. destruct (n <? 253); [lia|]. destruct (n <=? 65535); [lia|]. destruct (n <=? 4294967295); lia. }
  assert (1 <= vi_size (N.of_nat (length outs))). { unfold vi_size. destruct (_ <? 253); [lia|]. destruct (_ <=? 65535); [lia|]. destruct (_ <=? 4294967295); lia. }
  unfold TB_SCHNORR_SIGNATURE_SIZE. lia.
Qed.

(* ------------------------------------------------------------ amounts *)
Lemma amount_of_In : forall am id v, amount_of am id = Some v -> In (id, v) am.
Proof.
  intros am id v. induction am as [|[i x] r IH]; cbn [amount_of]; [discriminate|].
  destruct (N.eqb_spec i id); intros H.
  - inversion H. subst. left. reflexivity.
  - right. exact (IH H).
Qed.

Lemma in_wallet_ids : forall w id, In id (map fst (w_amounts w)) -> in_wallet w id.
Proof.
  intros w id. unfold in_wallet. induction (w_amounts w) as [|[i x] r IH]; cbn [map fst In amount_of]; [tauto|].
  intros [H|H].
  - subst. rewrite N.eqb_refl. eauto.
  - destruct (i =? id); eauto.
Qed.

(* the pool's worth: removing the selected outpoint frees at least its value *)
Lemma total_in_remove : forall w u pool, In u pool ->
  total_in w (remove_id u pool) + value_of w u <= total_in w pool.
Proof.
  intros w u pool. unfold total_in, remove_id. induction pool as [|x r IH]; intros Hin; [destruct Hin|].
  cbn [filter sum_map]. destruct (N.eqb_spec x u) as [He|Hne]; cbn [negb].
  - subst x. assert (sum_map (value_of w) (filter (fun y => negb (y =? u)) r) <= sum_map (value_of w) r).
    { clear. induction r as [|y r IH]; cbn [filter sum_map]; [lia|]. destruct (negb (y =? u)); cbn [sum_map]; lia. }
    lia.
  - destruct Hin as [Hin|Hin]; [congruence|]. specialize (IH Hin). cbn [sum_map]. lia.
Qed.

Lemma sum_map_ext : forall A (f g : A -> N) l, (forall y, In y l -> f y = g y) -> sum_map f l = sum_map g l.
Proof.
  intros A f g l. induction l as [|y l IH]; intros H; cbn [sum_map]; [reflexivity|].
  rewrite (H y (or_introl eq_refl)), IH; [reflexivity|]. intros z Hz. apply H. right. exact Hz.
Qed.

Lemma value_of_cons_other : forall am i x l, ~ In i l ->
  sum_map (fun id => match amount_of ((i, x) :: am) id with Some v => v | None => 0 end) l =
  sum_map (fun id => match amount_of am id with Some v => v | None => 0 end) l.
Proof.
  intros am i x l Hn. apply sum_map_ext. intros y Hy. cbn [amount_of].
  destruct (N.eqb_spec i y); [subst; contradiction|reflexivity].
Qed.

Lemma total_in_ids_aux : forall am, NoDup (map fst am) ->
  sum_map (fun id => match amount_of am id with Some v => v | None => 0 end) (map fst am) = sum_map snd am.
Proof.
  induction am as [|[i x] r IH]; intros Hnd; cbn [map fst sum_map snd]; [reflexivity|].
  inversion Hnd as [|? ? Hni Hnd']. subst.
  rewrite value_of_cons_other by exact Hni.
  cbn [amount_of]. rewrite N.eqb_refl. rewrite (IH Hnd'). reflexivity.
Qed.

Lemma total_in_ids : forall w, NoDup (map fst (w_amounts w)) ->
  total_in w (map fst (w_amounts w)) = sum_map snd (w_amounts w).
Proof. intros w H. unfold total_in, value_of. apply total_in_ids_aux. exact H. Qed.

Lemma filter_length_le' : forall A (p : A -> bool) l, (length (filter p l) <= length l)%nat.
Proof. intros A p l. induction l as [|x l IH]; cbn [filter length]; [lia|]. destruct (p x); cbn [length]; lia. Qed.

(* ------------------------------------------------------------ outcome predicates *)
Definition post {A} (r : Res A) (P : A -> Prop) : Prop :=
  match r with Ok a => P a | Err _ => True | Panic _ => False end.

Lemma post_bind : forall A B (r : Res A) (f : A -> Res B) (P : A -> Prop) (Q : B -> Prop),
  post r P -> (forall a, P a -> post (f a) Q) -> post (bind r f) Q.
Proof. intros A B r f P Q Hr Hf. destruct r; cbn [bind post] in *; [apply Hf; exact Hr|exact I|exact Hr]. Qed.

Lemma post_ok : forall A (r : Res A) (P : A -> Prop) a, post r P -> r = Ok a -> P a.
Proof. intros A r P a H E. subst. exact H. Qed.

Lemma post_weaken : forall A (r : Res A) (P Q : A -> Prop), post r P -> (forall a, P a -> Q a) -> post r Q.
Proof. intros A r P Q H HI. destruct r; cbn [post] in *; auto. Qed.

Lemma total_in_app : forall w l1 l2, total_in w (l1 ++ l2) = total_in w l1 + total_in w l2.
Proof. intros. unfold total_in. apply sum_map_app. Qed.
Lemma total_out_app : forall l1 l2, total_out (l1 ++ l2) = total_out l1 + total_out l2.
Proof. intros. unfold total_out. apply sum_map_app. Qed.

Section NoPanic.
  Variable fee : N -> N.
  Variable w : Wallet.
  Hypothesis OK : WalletOK fee w.

  Lemma value_of_wallet : forall x, in_wallet w x -> exists v, amount_of (w_amounts w) x = Some v /\ value_of w x = v /\ 0 < v.
  Proof.
    intros x [v Hv]. exists v. split; [exact Hv|]. split; [unfold value_of; rewrite Hv; reflexivity|].
    apply (ok_pos fee w OK x v). apply amount_of_In. exact Hv.
  Qed.

  (* ---------------------------------------------------------- select_cardinal_utxo *)
  Lemma scan_np : forall pool target pu best,
    (forall x, In x pool -> in_wallet w x) ->
    exists r, scan w pool target pu best = Ok r.
  Proof.
    induction pool as [|u rest IH]; intros target pu best Hw; cbn [scan]; [eauto|].
    destruct (noncardinal w u); [apply IH; intros x Hx; apply Hw; right; exact Hx|].
    destruct (Hw u (or_introl eq_refl)) as [v Hv]. rewrite Hv.
    apply IH. intros x Hx. apply Hw. right. exact Hx.
  Qed.

  Record Base (st : St) : Prop := {
    b_inv : Inv w st;
    b_in : forall x, In x (s_inputs st) -> in_wallet w x;
    b_pool : forall x, In x (s_utxos st) -> in_wallet w x;
    b_total : total_in w (s_inputs st) + total_in w (s_utxos st) <= MAX_SUPPLY;
    b_cons : total_out (s_outputs st) = total_in w (s_inputs st) }.

  Definition push_input (front : bool) (u : N) (l : list N) : list N :=
    if front then u :: l else l ++ [u].

  Lemma total_in_push : forall front u l, total_in w (push_input front u l) = total_in w l + value_of w u.
  Proof.
    intros [] u l; unfold push_input; [unfold total_in; cbn [sum_map]; lia|].
    rewrite total_in_app. unfold total_in. cbn [sum_map]. lia.
  Qed.

  (* selecting a cardinal outpoint never panics; the chosen outpoint moves from the pool to the inputs *)
  Lemma select_post : forall st target pu,
    Base st ->
    post (select_cardinal_utxo w st target pu) (fun r =>
      let '(u, v, st1) := r in
      value_of w u = v /\ 0 < v /\ s_inputs st1 = s_inputs st /\ s_outputs st1 = s_outputs st /\
      s_unused st1 = s_unused st /\ (length (s_utxos st1) < length (s_utxos st))%nat /\
      forall front outs unused,
        total_out outs = total_in w (s_inputs st) + v ->
        Base (mkSt (s_utxos st1) (push_input front u (s_inputs st1)) outs unused)).
  Proof.
    intros st target pu HB.
    destruct (select_cardinal_utxo w st target pu) as [[[u v] st1]|e|t] eqn:Hsel; cbn [post]; [|exact I|].
    - pose proof (select_cardinal_spec w st target pu u v st1 Hsel) as [Hin [Hc [Ha [Hu [Hi [Ho Hun]]]]]].
      destruct (value_of_wallet u (ex_intro _ v Ha)) as [v' [Ha' [Hv Hpos]]].
      assert (E : v' = v) by congruence. rewrite E in Hv, Hpos. clear E Ha'.
      split; [exact Hv|]. split; [exact Hpos|]. split; [exact Hi|]. split; [exact Ho|]. split; [exact Hun|].
      split.
      { rewrite Hu. unfold remove_id. clear -Hin. induction (s_utxos st) as [|y l IH]; [destruct Hin|].
        cbn [filter]. destruct (N.eqb_spec y u); cbn [negb length].
        - pose proof (filter_length_le' _ (fun y0 => negb (y0 =? u)) l). lia.
        - destruct Hin as [Hin|Hin]; [congruence|]. specialize (IH Hin). lia. }
      intros front outs unused Hout.
      constructor; cbn [s_utxos s_inputs s_outputs].
      + unfold push_input. exact (Inv_select w st target pu u v st1 front outs unused (b_inv st HB) Hsel).
      + intros x Hx. rewrite Hi in Hx. unfold push_input in Hx.
        assert (Hx' : x = u \/ In x (s_inputs st)).
        { destruct front; [destruct Hx; auto|]. apply in_app_or in Hx. destruct Hx as [Hx|[Hx|[]]]; auto. }
        destruct Hx' as [Hx'|Hx']; [subst x; exists v; exact Ha|exact (b_in st HB x Hx')].
      + intros x Hx. rewrite Hu in Hx. apply remove_id_In in Hx. exact (b_pool st HB x (proj1 Hx)).
      + rewrite Hi, Hu, total_in_push. pose proof (total_in_remove w u (s_utxos st) Hin). pose proof (b_total st HB). lia.
      + rewrite Hi, total_in_push, Hv. exact Hout.
    - unfold select_cardinal_utxo in Hsel.
      destruct (scan_np (s_utxos st) target pu None (b_pool st HB)) as [r Hr]. rewrite Hr in Hsel.
      cbn [bind] in Hsel. destruct r as [[? ?]|]; unfold err in Hsel; discriminate.
  Qed.
  (* ---------------------------------------------------------- position of the outgoing sat *)
  Lemma total_in_le : forall st, Base st -> total_in w (s_inputs st) <= MAX_SUPPLY.
  Proof. intros st HB. pose proof (b_total st HB). lia. Qed.

  Lemma sat_offset_from_spec : forall before after acc,
    ~ In (w_out_id w) before -> (forall x, In x before -> in_wallet w x) ->
    acc + total_in w before + w_out_off w <= U64_MAX ->
    sat_offset_from w (before ++ w_out_id w :: after) acc = Ok (acc + total_in w before + w_out_off w).
  Proof.
    induction before as [|i r IH]; intros after acc Hn Hw Hb; cbn [app sat_offset_from].
    - rewrite N.eqb_refl. unfold add_u64, total_in in *. cbn [sum_map] in *.
      destruct (N.leb_spec (acc + w_out_off w) U64_MAX); [f_equal; lia|lia].
    - destruct (N.eqb_spec i (w_out_id w)) as [He|Hne]; [exfalso; apply Hn; left; exact He|].
      destruct (value_of_wallet i (Hw i (or_introl eq_refl))) as [v [Ha [Hv Hp]]]. rewrite Ha.
      unfold total_in in *. cbn [sum_map] in Hb. rewrite Hv in Hb.
      unfold add_u64. destruct (N.leb_spec (acc + v) U64_MAX); [|lia]. cbn [bind].
      rewrite IH.
      + f_equal. cbn [sum_map]. rewrite Hv. lia.
      + intro Hx. apply Hn. right. exact Hx.
      + intros x Hx. apply Hw. right. exact Hx.
      + lia.
  Qed.

  Record Pos (st : St) (before after : list N) (pre : list (N * N)) (rv : N) : Prop := {
    p_inputs : s_inputs st = before ++ w_out_id w :: after;
    p_before : ~ In (w_out_id w) before;
    p_outputs : s_outputs st = pre ++ [(w_recipient w, rv)];
    p_pre : total_out pre = total_in w before + w_out_off w;
    p_shape : (pre = [] /\ s_unused st = [w_change1 w; w_change0 w]) \/
              (exists av, pre = [(w_change1 w, av)] /\ s_unused st = [w_change0 w]);
    p_rv : 0 < rv;
    p_off : w_out_off w < value_of w (w_out_id w) }.

  Lemma pos_bound : forall st before after pre rv, Base st -> Pos st before after pre rv ->
    total_in w before + value_of w (w_out_id w) + total_in w after <= MAX_SUPPLY /\
    total_out pre + rv = total_in w (s_inputs st) /\ total_out pre + rv <= MAX_SUPPLY.
  Proof.
    intros st before after pre rv HB HP.
    pose proof (total_in_le st HB) as Hle. pose proof (b_cons st HB) as Hc.
    rewrite (p_inputs _ _ _ _ _ HP) in Hle. rewrite total_in_app in Hle. unfold total_in at 2 in Hle. cbn [sum_map] in Hle.
    fold (total_in w after) in Hle.
    rewrite (p_outputs _ _ _ _ _ HP), total_out_app in Hc. unfold total_out at 2 in Hc. cbn [sum_map snd] in Hc.
    rewrite (p_inputs _ _ _ _ _ HP) in Hc. rewrite total_in_app in Hc. unfold total_in at 2 in Hc. cbn [sum_map] in Hc.
    fold (total_in w after) in Hc.
    rewrite (p_inputs _ _ _ _ _ HP), total_in_app. unfold total_in at 4. cbn [sum_map]. fold (total_in w after).
    lia.
  Qed.

  Lemma sat_offset_ok : forall st before after pre rv, Base st -> Pos st before after pre rv ->
    calculate_sat_offset w st = Ok (total_out pre).
  Proof.
    intros st before after pre rv HB HP. unfold calculate_sat_offset.
    rewrite (p_inputs _ _ _ _ _ HP).
    destruct (pos_bound st before after pre rv HB HP) as [H1 _].
    pose proof (p_off _ _ _ _ _ HP) as Hoff.
    rewrite sat_offset_from_spec.
    - f_equal. rewrite (p_pre _ _ _ _ _ HP). lia.
    - exact (p_before _ _ _ _ _ HP).
    - intros x Hx. apply (b_in st HB). rewrite (p_inputs _ _ _ _ _ HP). apply in_or_app. left. exact Hx.
    - unfold MAX_SUPPLY, U64_MAX in *. lia.
  Qed.

  Lemma sum_values_ok : forall outs acc, acc + total_out outs <= U64_MAX ->
    sum_values outs acc = Ok (acc + total_out outs).
  Proof.
    induction outs as [|[s v] r IH]; intros acc H; cbn [sum_values]; unfold total_out in *; cbn [sum_map snd] in *.
    - f_equal. lia.
    - unfold add_u64. destruct (N.leb_spec (acc + v) U64_MAX); [|lia]. cbn [bind]. rewrite IH; [f_equal; lia|lia].
  Qed.

  Lemma upd_last_app : forall f pre s v, upd_last f (pre ++ [(s, v)]) = do v' <- f v; Ok (pre ++ [(s, v')]).
  Proof.
    induction pre as [|o r IH]; intros s v; cbn [app upd_last].
    - destruct (f v); reflexivity.
    - destruct (r ++ [(s, v)]) as [|o2 r2] eqn:E; [destruct r; discriminate|].
      rewrite <- E. rewrite IH. destruct o. destruct (f v); reflexivity.
  Qed.

  Lemma last_output_app : forall pre o, last_output (pre ++ [o]) = Some o.
  Proof. intros pre o. unfold last_output. rewrite rev_app_distr. reflexivity. Qed.

  (* ---------------------------------------------------------- precheck *)
  Definition min_value : N :=
    match w_target w with TPostage => dust (w_recipient w) | TValue v | TExact v => v end.

  Record PreOK : Prop := {
    pc_c : w_change0 w <> w_change1 w;
    pc_r0 : w_recipient w <> w_change0 w;
    pc_r1 : w_recipient w <> w_change1 w;
    pc_kind : is_op_return (w_recipient w) = true \/ is_address (w_recipient w) = true;
    pc_min : dust (w_recipient w) <= min_value /\ 1 <= min_value /\ min_value <= U64_MAX }.

  Lemma precheck_post : post (precheck w) (fun _ => PreOK).
  Proof.
    unfold precheck.
    destruct (N.eqb_spec (w_change0 w) (w_change1 w)) as [|Hc]; [exact I|].
    destruct (is_op_return (w_recipient w)) eqn:Hop.
    - cbn [post].
      destruct (address_facts _ (ok_change0 fee w OK)) as [_ [_ [_ H0]]].
      destruct (address_facts _ (ok_change1 fee w OK)) as [_ [_ [_ H1]]].
      destruct (ok_burn fee w OK Hop) as [a [Ha Hge]].
      constructor; try assumption; try congruence; [left; exact Hop|].
      rewrite (op_return_dust _ Hop). unfold min_value. unfold target_amount in Ha.
      pose proof (ok_amount fee w OK a) as Hamt. unfold target_amount in Hamt.
      destruct (w_target w); inversion Ha; subst; specialize (Hamt eq_refl); lia.
    - destruct (is_address (w_recipient w)) eqn:Had; cbn [negb]; [|exact I].
      destruct (N.eqb_spec (w_recipient w) (w_change0 w)) as [|H0]; [exact I|].
      destruct (N.eqb_spec (w_recipient w) (w_change1 w)) as [|H1]; [exact I|]. cbn [orb].
      destruct (address_facts _ Had) as [Hd1 [Hd2 _]].
      pose proof (ok_amount fee w OK) as Hamt. unfold target_amount in Hamt.
      destruct (w_target w) as [|p|t] eqn:Ht.
      + cbn [post]. constructor; try assumption; [right; exact Had|]. unfold min_value. rewrite Ht. unfold U64_MAX. lia.
      + destruct (N.ltb_spec p (dust (w_recipient w))); [exact I|]. cbn [post].
        constructor; try assumption; [right; exact Had|]. unfold min_value. rewrite Ht. specialize (Hamt p eq_refl). lia.
      + destruct (N.ltb_spec t (dust (w_recipient w))); [exact I|]. cbn [post].
        constructor; try assumption; [right; exact Had|]. unfold min_value. rewrite Ht. specialize (Hamt t eq_refl). lia.
  Qed.

  (* ---------------------------------------------------------- select_outgoing *)
  Lemma check_inscriptions_np : forall l d, d <= 546 ->
    (forall o off, In (o, off) l -> off <= MAX_SUPPLY) ->
    forall t, check_inscriptions w l d <> Panic t.
  Proof.
    induction l as [|[o off] r IH]; intros d Hd Hl t; cbn [check_inscriptions]; [discriminate|].
    assert (Hr : forall o off, In (o, off) r -> off <= MAX_SUPPLY) by (intros; eapply Hl; right; eassumption).
    destruct ((w_out_id w =? o) && negb (w_out_off w =? off)); [|apply IH; assumption].
    pose proof (Hl o off (or_introl eq_refl)) as Ho.
    destruct (N.ltb_spec U64_MAX (off + d)); [unfold MAX_SUPPLY, U64_MAX in *; lia|].
    destruct (w_out_off w <? off + d); [unfold err; discriminate|apply IH; assumption].
  Qed.

  Lemma initial_base : Base (initial_state w).
  Proof.
    unfold initial_state. constructor; cbn [s_inputs s_utxos s_outputs].
    - unfold Inv. cbn [s_inputs]. split; [constructor|]. split; intros x [].
    - intros x [].
    - intros x Hx. apply in_wallet_ids. exact Hx.
    - rewrite (total_in_ids w (ok_nodup fee w OK)). unfold total_in at 1. cbn [sum_map].
      pose proof (ok_total fee w OK). lia.
    - reflexivity.
  Qed.

  Lemma select_outgoing_post :
    post (select_outgoing w (initial_state w)) (fun st =>
      Base st /\ s_inputs st = [w_out_id w] /\
      s_outputs st = [(w_recipient w, value_of w (w_out_id w))] /\
      s_unused st = [w_change1 w; w_change0 w] /\ w_out_off w < value_of w (w_out_id w)).
  Proof.
    unfold select_outgoing. cbn [initial_state s_unused s_utxos s_inputs s_outputs app].
    destruct (address_facts _ (ok_change1 fee w OK)) as [_ [Hd _]].
    destruct (check_inscriptions w (rev (w_inscr w)) (dust (w_change1 w))) as [[]|e|t] eqn:Hchk; cbn [bind post]; [|exact I|].
    2:{ eapply check_inscriptions_np; [exact Hd| |exact Hchk].
        intros o off Hin. apply (ok_inscr fee w OK o off). apply in_rev. exact Hin. }
    destruct (amount_of (w_amounts w) (w_out_id w)) as [amount|] eqn:Ham; [|exact I].
    destruct (value_of_wallet (w_out_id w) (ex_intro _ amount Ham)) as [v [Ha [Hv Hp]]].
    assert (E : v = amount) by congruence. rewrite E in Hv, Hp. clear E Ha.
    destruct (N.leb_spec amount (w_out_off w)) as [Hle|Hlt].
    { destruct (N.eqb_spec amount 0); [lia|exact I]. }
    cbn [post]. pose proof initial_base as HB0.
    split.
    - constructor; cbn [s_inputs s_utxos s_outputs].
      + unfold Inv. cbn [s_inputs s_utxos]. split; [repeat constructor; intros []|split].
        * intros x [Hx|[]]. subst x. apply remove_id_not_In.
        * intros x [Hx|[]] Hne. congruence.
      + intros x [Hx|[]]. subst x. exists amount. exact Ham.
      + intros x Hx. apply remove_id_In in Hx. apply in_wallet_ids. exact (proj1 Hx).
      + pose proof (b_total _ HB0) as Ht. cbn [initial_state s_inputs s_utxos] in Ht.
        assert (Hin : In (w_out_id w) (map fst (w_amounts w))).
        { apply in_map_iff. exists (w_out_id w, amount). split; [reflexivity|apply amount_of_In; exact Ham]. }
        pose proof (total_in_remove w (w_out_id w) _ Hin).
        unfold total_in at 1. cbn [sum_map]. unfold total_in at 1 in Ht. cbn [sum_map] in Ht. lia.
      + unfold total_out, total_in. cbn [sum_map snd]. rewrite Hv. lia.
    - cbn [s_inputs s_outputs s_unused]. rewrite Hv. repeat split. exact Hlt.
  Qed.
  (* ---------------------------------------------------------- align_outgoing *)
  Lemma align_post : forall st,
    Base st -> s_inputs st = [w_out_id w] ->
    s_outputs st = [(w_recipient w, value_of w (w_out_id w))] ->
    s_unused st = [w_change1 w; w_change0 w] -> w_out_off w < value_of w (w_out_id w) ->
    post (align_outgoing w st) (fun st' => Base st' /\ exists pre rv, Pos st' [] [] pre rv).
  Proof.
    intros st HB Hi Ho Hu Hoff. unfold align_outgoing. rewrite Ho. rewrite N.eqb_refl. cbn [negb].
    pose proof (total_in_le st HB) as Hle. rewrite Hi in Hle. unfold total_in in Hle. cbn [sum_map] in Hle.
    unfold calculate_sat_offset. rewrite Hi. cbn [sat_offset_from]. rewrite N.eqb_refl.
    unfold add_u64. destruct (N.leb_spec (0 + w_out_off w) U64_MAX) as [_|Hbad]; [|unfold MAX_SUPPLY, U64_MAX in *; lia].
    cbn [bind]. destruct (N.eqb_spec (0 + w_out_off w) 0) as [Hz|Hnz].
    - cbn [post]. split; [exact HB|]. exists [], (value_of w (w_out_id w)).
      constructor.
      + exact Hi.
      + intros [].
      + exact Ho.
      + unfold total_out, total_in. cbn [sum_map]. lia.
      + left. split; [reflexivity|exact Hu].
      + lia.
      + exact Hoff.
    - rewrite Hu. cbn [upd_last]. unfold sub_amt.
      destruct (N.leb_spec (0 + w_out_off w) (value_of w (w_out_id w))) as [_|Hbad]; [|lia].
      cbn [bind post]. split.
      + constructor; cbn [s_inputs s_utxos s_outputs].
        * apply (Inv_same w st); [cbn [s_inputs]; symmetry; exact Hi|reflexivity|exact (b_inv st HB)].
        * intros x Hx. apply (b_in st HB). rewrite Hi. exact Hx.
        * exact (b_pool st HB).
        * pose proof (b_total st HB) as Ht. rewrite Hi in Ht. exact Ht.
        * unfold total_out, total_in. cbn [sum_map snd]. lia.
      + exists [(w_change1 w, 0 + w_out_off w)], (value_of w (w_out_id w) - (0 + w_out_off w)).
        constructor; cbn [s_inputs s_outputs s_unused app].
        * reflexivity.
        * intros [].
        * reflexivity.
        * unfold total_out, total_in. cbn [sum_map snd]. lia.
        * right. exists (0 + w_out_off w). split; reflexivity.
        * lia.
        * exact Hoff.
  Qed.

  (* ---------------------------------------------------------- pad_alignment_output *)
  Lemma pad_loop_post : forall fuel st before after av rv,
    (length (s_utxos st) < fuel)%nat -> Base st ->
    Pos st before after [(w_change1 w, av)] rv ->
    post (pad_loop w fuel (dust (w_change1 w)) st) (fun st' =>
      Base st' /\ exists before' av', Pos st' before' after [(w_change1 w, av')] rv /\ dust (w_change1 w) <= av').
  Proof.
    induction fuel as [|f IH]; intros st before after av rv Hf HB HP; [lia|].
    cbn [pad_loop]. rewrite (p_outputs _ _ _ _ _ HP). cbn [app].
    destruct (N.ltb_spec av (dust (w_change1 w))) as [Hlt|Hge].
    2:{ cbn [post]. split; [exact HB|]. exists before, av. split; [exact HP|exact Hge]. }
    pose proof (select_post st (dust (w_change1 w) - av) true HB) as Hs.
    destruct (select_cardinal_utxo w st (dust (w_change1 w) - av) true) as [[[u v] st1]|e|t]; cbn [post bind] in *; [|exact I|exact Hs].
    destruct Hs as [Hv [Hpos [Hi [Ho [Hun [Hlen HBn]]]]]].
    destruct (pos_bound st before after _ rv HB HP) as [_ [Hsum Hmax]].
    unfold total_out in Hsum, Hmax. cbn [sum_map snd] in Hsum, Hmax.
    assert (HB' : Base (mkSt (s_utxos st1) (push_input true u (s_inputs st1))
                            ((w_change1 w, av + v) :: [(w_recipient w, rv)]) (s_unused st1))).
    { apply HBn. unfold total_out. cbn [sum_map snd]. lia. }
    pose proof (total_in_le _ HB') as Hle'. cbn [s_inputs] in Hle'. rewrite total_in_push, Hi, <- Hsum in Hle'.
    unfold add_amt. destruct (N.leb_spec (av + v) U64_MAX) as [_|Hbad]; [|unfold MAX_SUPPLY, U64_MAX in *; lia].
    cbn [bind]. unfold push_input in HB'.
    eapply (IH _ (u :: before) after (av + v) rv); [cbn [s_utxos]; lia|exact HB'|].
    pose proof (b_inv _ HB') as [Hnd _]. cbn [s_inputs] in Hnd. rewrite Hi, (p_inputs _ _ _ _ _ HP) in Hnd.
    inversion Hnd as [|? ? Hnu Hnd']. subst x l.
    constructor; cbn [s_inputs s_outputs s_unused app].
    - rewrite Hi, (p_inputs _ _ _ _ _ HP). reflexivity.
    - intros [Hx|Hx]; [|exact (p_before _ _ _ _ _ HP Hx)].
      apply Hnu. rewrite Hx. apply in_or_app. right. left. reflexivity.
    - reflexivity.
    - pose proof (p_pre _ _ _ _ _ HP) as Hp. unfold total_out, total_in in *. cbn [sum_map snd] in *. rewrite Hv. lia.
    - right. exists (av + v). split; [reflexivity|]. rewrite Hun.
      destruct (p_shape _ _ _ _ _ HP) as [[Hx _]|[av0 [_ Hy]]]; [discriminate|exact Hy].
    - exact (p_rv _ _ _ _ _ HP).
    - exact (p_off _ _ _ _ _ HP).
  Qed.

  Lemma pad_post : forall st pre rv, PreOK -> Base st -> Pos st [] [] pre rv ->
    post (pad_alignment_output w st) (fun st' =>
      Base st' /\ exists before pre' , Pos st' before [] pre' rv /\
        (forall o, In o pre' -> dust (fst o) <= snd o)).
  Proof.
    intros st pre rv HPre HB HP. unfold pad_alignment_output. rewrite (p_outputs _ _ _ _ _ HP).
    destruct (p_shape _ _ _ _ _ HP) as [[Hpre _]|[av [Hpre _]]]; subst pre; cbn [app].
    - rewrite N.eqb_refl. cbn [post]. split; [exact HB|]. exists [], []. split; [exact HP|intros o []].
    - destruct (N.eqb_spec (w_change1 w) (w_recipient w)) as [He|_]; [exfalso; apply (pc_r1 HPre); congruence|].
      eapply post_weaken; [eapply pad_loop_post; [|exact HB|exact HP]; lia|].
      intros st' [HB' [before' [av' [HP' Hd]]]]. split; [exact HB'|].
      exists before', [(w_change1 w, av')]. split; [exact HP'|].
      intros o [Ho|[]]. subst o. exact Hd.
  Qed.

  (* ---------------------------------------------------------- add_value *)
  Lemma add_loop_post : forall fuel st before after pre rv,
    (length (s_utxos st) < fuel)%nat -> Base st -> Pos st before after pre rv ->
    post (add_loop fee w fuel min_value st) (fun st' =>
      Base st' /\ exists after' rv', Pos st' before after' pre rv' /\
        min_value + fee (vbytes st') <= rv').
  Proof.
    induction fuel as [|f IH]; intros st before after pre rv Hf HB HP; [lia|].
    cbn [add_loop]. rewrite (p_outputs _ _ _ _ _ HP), last_output_app.
    destruct (U64_MAX <? min_value + estimate_fee fee st); [exact I|].
    destruct (N.leb_spec (min_value + estimate_fee fee st) rv) as [Hle|Hgt].
    { cbn [post]. split; [exact HB|]. exists after, rv. split; [exact HP|exact Hle]. }
    destruct (U64_MAX <? min_value + estimate_fee fee st - rv + fee TB_ADDITIONAL_INPUT_VBYTES); [exact I|].
    pose proof (select_post st (min_value + estimate_fee fee st - rv + fee TB_ADDITIONAL_INPUT_VBYTES) false HB) as Hs.
    destruct (select_cardinal_utxo w st _ false) as [[[u v] st1]|e|t]; cbn [post bind] in *; [|exact I|exact Hs].
    destruct Hs as [Hv [Hpos [Hi [Ho [Hun [Hlen HBn]]]]]].
    destruct (v <? fee TB_ADDITIONAL_INPUT_VBYTES); [exact I|].
    destruct (pos_bound st before after pre rv HB HP) as [_ [Hsum Hmax]].
    rewrite Ho, (p_outputs _ _ _ _ _ HP), upd_last_app.
    assert (HB' : Base (mkSt (s_utxos st1) (push_input false u (s_inputs st1))
                            (pre ++ [(w_recipient w, rv + v)]) (s_unused st1))).
    { apply HBn. rewrite total_out_app. unfold total_out at 2. cbn [sum_map snd]. lia. }
    pose proof (total_in_le _ HB') as Hle'. cbn [s_inputs] in Hle'. rewrite total_in_push, Hi, <- Hsum in Hle'.
    unfold add_amt. destruct (N.leb_spec (rv + v) U64_MAX) as [_|Hbad]; [|unfold MAX_SUPPLY, U64_MAX in *; lia].
    cbn [bind]. unfold push_input in HB'.
    eapply (IH _ before (after ++ [u]) pre (rv + v)); [cbn [s_utxos]; lia|exact HB'|].
    constructor; cbn [s_inputs s_outputs s_unused].
    - rewrite Hi, (p_inputs _ _ _ _ _ HP), <- app_assoc. reflexivity.
    - exact (p_before _ _ _ _ _ HP).
    - reflexivity.
    - exact (p_pre _ _ _ _ _ HP).
    - rewrite Hun. exact (p_shape _ _ _ _ _ HP).
    - lia.
    - exact (p_off _ _ _ _ _ HP).
  Qed.

  Lemma add_value_post : forall st before pre rv, Base st -> Pos st before [] pre rv ->
    post (add_value fee w st) (fun st' =>
      Base st' /\ exists after' rv', Pos st' before after' pre rv' /\
        min_value + fee (vbytes st') <= rv').
  Proof.
    intros st before pre rv HB HP. unfold add_value.
    rewrite (p_outputs _ _ _ _ _ HP), last_output_app.
    eapply (add_loop_post _ st before [] pre rv); [lia|exact HB|exact HP].
  Qed.

  (* ---------------------------------------------------------- strip_value ; deduct_fee *)
  Definition shape_ok (pre post : list (N * N)) : Prop :=
    (pre = [] /\ (post = [] \/ exists cv, post = [(w_change1 w, cv)] /\ dust (w_change1 w) <= cv)) \/
    (exists av, pre = [(w_change1 w, av)] /\ dust (w_change1 w) <= av /\
       (post = [] \/ exists cv, post = [(w_change0 w, cv)] /\ dust (w_change0 w) <= cv)).

  Record Final (st : St) : Prop := {
    f_nodup : NoDup (s_inputs st);
    f_wallet : forall x, In x (s_inputs st) -> in_wallet w x;
    f_max : total_in w (s_inputs st) <= MAX_SUPPLY;
    f_io : exists before after pre rv post,
      s_inputs st = before ++ w_out_id w :: after /\ ~ In (w_out_id w) before /\
      s_outputs st = pre ++ (w_recipient w, rv) :: post /\
      total_out pre = total_in w before + w_out_off w /\
      w_out_off w < value_of w (w_out_id w) /\
      shape_ok pre post /\
      min_value <= rv /\
      (rv <= fst (max_and_target w) \/ rv = snd (max_and_target w) \/
       rv <= snd (max_and_target w) + change_dust w + one_output_fee fee (vbytes st)) /\
      total_in w (s_inputs st) = total_out (s_outputs st) + fee (vbytes st) }.

  Lemma existsb_recipient : forall pre rv,
    existsb (fun o : N * N => fst o =? w_recipient w) (pre ++ [(w_recipient w, rv)]) = true.
  Proof. intros. rewrite existsb_app. cbn [existsb fst]. rewrite N.eqb_refl. apply orb_true_iff. right. reflexivity. Qed.

  Lemma vbytes_outputs : forall st st', s_inputs st' = s_inputs st ->
    map fst (s_outputs st') = map fst (s_outputs st) -> vbytes st' = vbytes st.
  Proof. intros st st' Hi Ho. unfold vbytes. rewrite Hi, Ho. reflexivity. Qed.

  Lemma max_target_facts : PreOK -> snd (max_and_target w) <= fst (max_and_target w) /\
    min_value <= snd (max_and_target w) /\ snd (max_and_target w) <= U64_MAX.
  Proof.
    intros HPre. unfold max_and_target, min_value.
    pose proof (ok_amount fee w OK) as Hamt. unfold target_amount in Hamt.
    pose proof (dust_recipient_le _ (pc_kind HPre)) as Hd.
    destruct (w_target w) as [|p|t]; cbn [fst snd]; unfold TB_MAX_POSTAGE, TB_TARGET_POSTAGE.
    - unfold U64_MAX. lia.
    - specialize (Hamt p eq_refl). lia.
    - specialize (Hamt t eq_refl). lia.
  Qed.

  (* fee of a slightly larger transaction, bounded through the fee that could be paid *)
  Lemma fee_more : forall vb, 43 <= vb -> fee (vb + TB_ADDITIONAL_OUTPUT_VBYTES) <= 2 * fee vb + 1.
  Proof.
    intros vb H. unfold TB_ADDITIONAL_OUTPUT_VBYTES.
    pose proof (ok_fee_sub fee w OK vb 43). pose proof (ok_fee_mono fee w OK 43 vb H). lia.
  Qed.

  Lemma vbytes_ge : forall st before after, s_inputs st = before ++ w_out_id w :: after -> 43 <= vbytes st.
  Proof.
    intros st before after H. unfold vbytes. apply vsize_ge. rewrite H, app_length. cbn [length]. lia.
  Qed.

  Lemma strip_deduct_post : forall st before after pre rv,
    PreOK -> Base st -> Pos st before after pre rv ->
    (forall o, In o pre -> dust (fst o) <= snd o) ->
    min_value + fee (vbytes st) <= rv ->
    post (do s5 <- strip_value fee w st; deduct_fee fee w s5) Final.
  Proof.
    intros st before after pre rv HPre HB HP Hpd Hmin.
    destruct (max_target_facts HPre) as [Htm [Hmt Htu]].
    destruct (pos_bound st before after pre rv HB HP) as [_ [Hsum Hmax]].
    pose proof (vbytes_ge st before after (p_inputs _ _ _ _ _ HP)) as Hvb.
    pose proof (pc_min HPre) as [Hdr [Hm1 _]].
    assert (Hso : calculate_sat_offset w st = Ok (total_out pre)) by (eapply sat_offset_ok; eassumption).
    assert (Hsv : sum_values (s_outputs st) 0 = Ok (total_out pre + rv)).
    { rewrite sum_values_ok; [f_equal; rewrite (p_outputs _ _ _ _ _ HP), total_out_app; unfold total_out; cbn [sum_map snd]; lia|].
      rewrite (p_outputs _ _ _ _ _ HP), total_out_app. unfold total_out at 2. cbn [sum_map snd]. unfold MAX_SUPPLY, U64_MAX in *. lia. }
    (* the deduction when nothing was stripped *)
    assert (HN : forall (Hhi : rv - fee (vbytes st) <= fst (max_and_target w) \/
                          rv - fee (vbytes st) <= snd (max_and_target w) + change_dust w + one_output_fee fee (vbytes st)),
               post (deduct_fee fee w st) Final).
    { intros Hhi. unfold deduct_fee. rewrite Hso. cbn [bind]. rewrite Hsv. cbn [bind].
      rewrite (p_outputs _ _ _ _ _ HP), last_output_app. unfold estimate_fee.
      destruct (N.ltb_spec (total_out pre + rv) (fee (vbytes st))); [lia|].
      destruct (N.ltb_spec (total_out pre) (total_out pre + rv - fee (vbytes st))); [|lia]. cbn [negb].
      destruct (N.ltb_spec rv (fee (vbytes st))); [lia|].
      rewrite upd_last_app. unfold sub_amt. destruct (N.leb_spec (fee (vbytes st)) rv); [|lia]. cbn [bind post].
      set (st6 := mkSt (s_utxos st) (s_inputs st) (pre ++ [(w_recipient w, rv - fee (vbytes st))]) (s_unused st)).
      assert (Hvb6 : vbytes st6 = vbytes st).
      { apply vbytes_outputs; [reflexivity|]. cbn [st6 s_outputs]. rewrite (p_outputs _ _ _ _ _ HP), !map_app. reflexivity. }
      constructor; cbn [st6 s_inputs s_outputs]; fold st6.
      - exact (proj1 (b_inv st HB)).
      - exact (b_in st HB).
      - exact (total_in_le st HB).
      - exists before, after, pre, (rv - fee (vbytes st)), [].
        split; [exact (p_inputs _ _ _ _ _ HP)|]. split; [exact (p_before _ _ _ _ _ HP)|].
        split; [reflexivity|]. split; [exact (p_pre _ _ _ _ _ HP)|]. split; [exact (p_off _ _ _ _ _ HP)|].
        split.
        { destruct (p_shape _ _ _ _ _ HP) as [[Hp _]|[av [Hp _]]].
          - left. split; [exact Hp|left; reflexivity].
          - right. exists av. split; [exact Hp|]. split; [|left; reflexivity].
            apply (Hpd (w_change1 w, av)). rewrite Hp. left. reflexivity. }
        split; [lia|]. split.
        { rewrite Hvb6. destruct Hhi as [Hhi|Hhi]; [left; exact Hhi|right; right; exact Hhi]. }
        rewrite Hvb6, total_out_app. unfold total_out at 2. cbn [sum_map snd]. lia. }
    unfold strip_value. rewrite Hso. cbn [bind]. rewrite Hsv. cbn [bind].
    rewrite (p_outputs _ _ _ _ _ HP) at 1. rewrite existsb_recipient. cbn [negb].
    unfold sub_amt. destruct (N.leb_spec (total_out pre) (total_out pre + rv)); [|lia]. cbn [bind].
    replace (total_out pre + rv - total_out pre) with rv by lia.
    destruct (N.ltb_spec rv (fee (vbytes st))); [lia|].
    destruct (max_and_target w) as [mx tg] eqn:Hmt'. cbn [fst snd] in *.
    destruct (N.leb_spec (rv - fee (vbytes st)) mx) as [Hex|Hex].
    { cbn [bind]. apply HN. left. exact Hex. }
    destruct (N.ltb_spec rv tg); [lia|].
    assert (Hc : exists c un, s_unused st = c :: un /\ is_address c = true /\
                 (c = w_change0 w \/ c = w_change1 w) /\
                 ((pre = [] /\ c = w_change1 w) \/ (exists av, pre = [(w_change1 w, av)] /\ c = w_change0 w))).
    { destruct (p_shape _ _ _ _ _ HP) as [[Hp Hu]|[av [Hp Hu]]].
      - exists (w_change1 w), [w_change0 w]. split; [exact Hu|]. split; [exact (ok_change1 fee w OK)|]. split; [right; reflexivity|left; split; [exact Hp|reflexivity]].
      - exists (w_change0 w), []. split; [exact Hu|]. split; [exact (ok_change0 fee w OK)|]. split; [left; reflexivity|right; exists av; split; [exact Hp|reflexivity]]. }
    destruct Hc as [c [un [Hun [Hca [Hcc Hcs]]]]]. rewrite Hun.
    destruct (address_facts c Hca) as [Hd1 [Hd2 [Hts _]]].
    pose proof (fee_more (vbytes st) Hvb) as Hfm.
    unfold add_amt. destruct (N.leb_spec (dust c + fee (vbytes st + TB_ADDITIONAL_OUTPUT_VBYTES)) U64_MAX) as [_|Hbad];
      [|unfold MAX_SUPPLY, U64_MAX in *; lia].
    cbn [bind].
    assert (Hcd : dust c <= change_dust w). { unfold change_dust. destruct Hcc; subst c; lia. }
    destruct (N.leb_spec (rv - tg) (dust c + fee (vbytes st + TB_ADDITIONAL_OUTPUT_VBYTES))) as [Hns|Hs].
    { cbn [bind]. apply HN. right. unfold one_output_fee.
      pose proof (ok_fee_mono fee w OK (vbytes st) (vbytes st + TB_ADDITIONAL_OUTPUT_VBYTES)). lia. }
    (* stripped: the recipient gets the target, a change output takes the rest and pays the fee *)
    rewrite (p_outputs _ _ _ _ _ HP), upd_last_app. cbn [bind].
    set (st5 := mkSt (s_utxos st) (s_inputs st) ((pre ++ [(w_recipient w, tg)]) ++ [(c, rv - tg)]) un).
    unfold deduct_fee.
    assert (Hso5 : calculate_sat_offset w st5 = Ok (total_out pre)) by exact Hso.
    rewrite Hso5. cbn [bind].
    assert (Hsv5 : sum_values (s_outputs st5) 0 = Ok (total_out pre + rv)).
    { rewrite sum_values_ok; cbn [st5 s_outputs]; rewrite !total_out_app; unfold total_out at 2 3; cbn [sum_map snd];
        [f_equal; lia|unfold MAX_SUPPLY, U64_MAX in *; lia]. }
    rewrite Hsv5. cbn [bind]. cbn [st5 s_outputs]. rewrite last_output_app. fold st5.
    assert (Hvb5 : vbytes st5 = vbytes st + txout_size c).
    { unfold vbytes. cbn [st5 s_inputs s_outputs]. rewrite map_app. cbn [map fst].
      rewrite vsize_add_output.
      - f_equal. rewrite (p_outputs _ _ _ _ _ HP), !map_app. reflexivity.
      - rewrite map_length, app_length. cbn [length].
        destruct (p_shape _ _ _ _ _ HP) as [[Hp _]|[av [Hp _]]]; rewrite Hp; cbn [length]; lia. }
    unfold estimate_fee. rewrite Hvb5.
    pose proof (ok_fee_mono fee w OK (vbytes st + txout_size c) (vbytes st + TB_ADDITIONAL_OUTPUT_VBYTES)) as Hf5.
    unfold TB_ADDITIONAL_OUTPUT_VBYTES in Hf5 at 1. specialize (Hf5 ltac:(lia)).
    set (f5 := fee (vbytes st + txout_size c)) in *.
    destruct (N.ltb_spec (total_out pre + rv) f5); [lia|].
    destruct (N.ltb_spec (total_out pre) (total_out pre + rv - f5)); [|lia]. cbn [negb].
    destruct (N.ltb_spec (rv - tg) f5); [lia|].
    rewrite upd_last_app. unfold sub_amt. destruct (N.leb_spec f5 (rv - tg)); [|lia]. cbn [bind post].
    set (st6 := mkSt (s_utxos st5) (s_inputs st5) ((pre ++ [(w_recipient w, tg)]) ++ [(c, rv - tg - f5)]) (s_unused st5)).
    assert (Hvb6 : vbytes st6 = vbytes st + txout_size c).
    { rewrite <- Hvb5. apply vbytes_outputs; [reflexivity|]. cbn [st6 st5 s_outputs]. rewrite !map_app. reflexivity. }
    constructor; cbn [st6 st5 s_inputs s_outputs]; fold st5; fold st6.
    - exact (proj1 (b_inv st HB)).
    - exact (b_in st HB).
    - exact (total_in_le st HB).
    - exists before, after, pre, tg, [(c, rv - tg - f5)].
      split; [exact (p_inputs _ _ _ _ _ HP)|]. split; [exact (p_before _ _ _ _ _ HP)|].
      split; [rewrite <- app_assoc; reflexivity|]. split; [exact (p_pre _ _ _ _ _ HP)|]. split; [exact (p_off _ _ _ _ _ HP)|].
      split.
      { destruct Hcs as [[Hp Hc1]|[av [Hp Hc0]]].
        - left. split; [exact Hp|]. right. exists (rv - tg - f5). subst c. split; [reflexivity|lia].
        - right. exists av. split; [exact Hp|]. split; [apply (Hpd (w_change1 w, av)); rewrite Hp; left; reflexivity|].
          right. exists (rv - tg - f5). subst c. split; [reflexivity|lia]. }
      split; [lia|]. split; [right; left; rewrite Hmt'; reflexivity|].
      rewrite Hvb6. fold f5. rewrite !total_out_app. unfold total_out at 2 3. cbn [sum_map snd]. lia.
  Qed.

  (* ---------------------------------------------------------- build *)
  Lemma add_u64_small : forall a b, a + b <= U64_MAX -> add_u64 a b = Ok (a + b).
  Proof. intros a b H. unfold add_u64. destruct (N.leb_spec (a + b) U64_MAX); [reflexivity|lia]. Qed.
  Lemma add_amt_small : forall a b, a + b <= U64_MAX -> add_amt a b = Ok (a + b).
  Proof. intros a b H. unfold add_amt. destruct (N.leb_spec (a + b) U64_MAX); [reflexivity|lia]. Qed.

  Lemma count_none : forall (am : list (N * N)) (p : N * N -> bool) id,
    (forall e, p e = true -> fst e = id) -> ~ In id (map fst am) -> count p am = 0%nat.
  Proof.
    intros am p id Hp. induction am as [|e r IH]; intros Hn; [reflexivity|].
    rewrite count_cons. destruct (p e) eqn:He.
    - exfalso. apply Hn. left. exact (Hp e He).
    - apply IH. intro Hx. apply Hn. right. exact Hx.
  Qed.

  Lemma count_contained : forall am A,
    NoDup (map fst am) -> amount_of am (w_out_id w) = Some A -> w_out_off w < A ->
    count (fun e : N * N => (fst e =? w_out_id w) && (w_out_off w <? snd e)) am = 1%nat.
  Proof.
    induction am as [|[i x] r IH]; intros A Hnd Ha Hoff; cbn [amount_of] in Ha; [discriminate|].
    inversion Hnd as [|? ? Hni Hnd']. subst. rewrite count_cons. cbn [fst snd].
    destruct (N.eqb_spec i (w_out_id w)) as [He|Hne].
    - inversion Ha. subst x i. destruct (N.ltb_spec (w_out_off w) A); [|lia]. cbn [andb]. f_equal.
      apply (count_none r _ (w_out_id w)); [|exact Hni].
      intros e He. apply andb_true_iff in He. apply N.eqb_eq. exact (proj1 He).
    - cbn [andb]. eapply IH; eassumption.
  Qed.

  Lemma count_app : forall A (p : A -> bool) l1 l2, count p (l1 ++ l2) = (count p l1 + count p l2)%nat.
  Proof. intros. unfold count. rewrite filter_app, app_length. reflexivity. Qed.

  Lemma count_notin : forall l x, ~ In x l -> count (fun i => i =? x) l = 0%nat.
  Proof.
    induction l as [|y l IH]; intros x Hn; [reflexivity|]. rewrite count_cons.
    destruct (N.eqb_spec y x); [exfalso; apply Hn; left; assumption|]. apply IH. intro; apply Hn; right; assumption.
  Qed.

  Lemma b_sat_offset_spec : forall before after acc,
    ~ In (w_out_id w) before -> (forall x, In x before -> in_wallet w x) ->
    acc + total_in w before + w_out_off w <= U64_MAX ->
    b_sat_offset w (before ++ w_out_id w :: after) acc = Ok (Some (acc + total_in w before + w_out_off w)).
  Proof.
    induction before as [|i r IH]; intros after acc Hn Hw Hb; cbn [app b_sat_offset].
    - rewrite N.eqb_refl. unfold total_in in *. cbn [sum_map] in *. rewrite add_u64_small by lia. cbn [bind]. do 2 f_equal. lia.
    - destruct (N.eqb_spec i (w_out_id w)) as [He|Hne]; [exfalso; apply Hn; left; exact He|].
      destruct (value_of_wallet i (Hw i (or_introl eq_refl))) as [v [Ha [Hv Hp]]]. rewrite Ha.
      unfold total_in in *. cbn [sum_map] in Hb. rewrite Hv in Hb.
      rewrite add_u64_small by lia. cbn [bind]. rewrite IH.
      + do 2 f_equal. cbn [sum_map]. rewrite Hv. lia.
      + intro Hx. apply Hn. right. exact Hx.
      + intros x Hx. apply Hw. right. exact Hx.
      + lia.
  Qed.

  Lemma b_find_output_ok : forall pre rv post e so,
    e + total_out pre = so -> 0 < rv -> so + rv <= U64_MAX ->
    b_find_output w (pre ++ (w_recipient w, rv) :: post) e so = Ok true.
  Proof.
    induction pre as [|[s v] r IH]; intros rv post e so He Hrv Hb; cbn [app b_find_output];
      unfold total_out in He; cbn [sum_map snd] in He.
    - rewrite add_u64_small by lia. cbn [bind]. destruct (N.ltb_spec so (e + rv)); [|lia]. rewrite N.eqb_refl. reflexivity.
    - rewrite add_u64_small by lia. cbn [bind]. destruct (N.ltb_spec so (e + v)); [lia|].
      apply IH; [unfold total_out; lia|exact Hrv|exact Hb].
  Qed.

  Definition is_changeb (s : N) : bool := (s =? w_change0 w) || (s =? w_change1 w).

  Lemma b_outputs_tail : forall vb tl offset so,
    (forall o, In o tl -> (fst o =? w_recipient w) = false /\ is_changeb (fst o) = true) ->
    offset + total_out tl <= U64_MAX ->
    b_outputs fee w vb tl offset so = Ok tt.
  Proof.
    intros vb tl; induction tl as [|[s v] r IH]; intros offset so Hc Hb; cbn [b_outputs]; [reflexivity|].
    destruct (Hc (s, v) (or_introl eq_refl)) as [H1 H2]. cbn [fst] in H1, H2. rewrite H1.
    unfold is_changeb in H2. rewrite H2. cbn [bind].
    unfold total_out in Hb. cbn [sum_map snd] in Hb.
    rewrite add_u64_small by lia. cbn [bind]. apply IH; [intros o Ho; apply Hc; right; exact Ho|unfold total_out; lia].
  Qed.

  Lemma b_outputs_full : forall vb pre rv post offset so,
    (forall o, In o (pre ++ post) -> (fst o =? w_recipient w) = false /\ is_changeb (fst o) = true) ->
    offset + total_out pre = so ->
    b_check_recipient fee w vb rv = Ok tt ->
    offset + total_out pre + rv + total_out post <= U64_MAX ->
    b_outputs fee w vb (pre ++ (w_recipient w, rv) :: post) offset so = Ok tt.
  Proof.
    induction pre as [|[s v] r IH]; intros rv post offset so Hc Ho Hchk Hb; cbn [app b_outputs];
      unfold total_out in Ho, Hb; cbn [sum_map snd] in Ho, Hb.
    - rewrite N.eqb_refl, Hchk. cbn [bind]. destruct (N.eqb_spec offset so); [|lia]. cbn [bind].
      rewrite add_u64_small by lia. cbn [bind]. apply b_outputs_tail; [exact Hc|unfold total_out; lia].
    - destruct (Hc (s, v) (or_introl eq_refl)) as [H1 H2]. cbn [fst] in H1, H2. rewrite H1.
      unfold is_changeb in H2. rewrite H2. cbn [bind].
      rewrite add_u64_small by lia. cbn [bind].
      apply IH; [intros o Hin; apply Hc; right; exact Hin|unfold total_out; lia|exact Hchk|unfold total_out; lia].
  Qed.

  Lemma b_add_inputs_spec : forall inputs acc,
    (forall x, In x inputs -> in_wallet w x) -> acc + total_in w inputs <= U64_MAX ->
    b_add_inputs w inputs acc = Ok (acc + total_in w inputs).
  Proof.
    induction inputs as [|i r IH]; intros acc Hw Hb; cbn [b_add_inputs]; unfold total_in in *; cbn [sum_map] in *.
    - f_equal. lia.
    - destruct (value_of_wallet i (Hw i (or_introl eq_refl))) as [v [Ha [Hv Hp]]]. rewrite Ha. rewrite Hv in Hb.
      rewrite add_amt_small by lia. cbn [bind]. rewrite IH; [f_equal; rewrite Hv; lia|intros x Hx; apply Hw; right; exact Hx|lia].
  Qed.

  Lemma b_sub_outputs_spec : forall outs acc, total_out outs <= acc ->
    b_sub_outputs outs acc = Ok (acc - total_out outs).
  Proof.
    induction outs as [|[s v] r IH]; intros acc H; cbn [b_sub_outputs]; unfold total_out in *; cbn [sum_map snd] in *.
    - f_equal. lia.
    - unfold sub_amt. destruct (N.leb_spec v acc); [|lia]. cbn [bind]. rewrite IH; [f_equal; lia|lia].
  Qed.

  Lemma check_recipient_ok : forall vb rv, PreOK -> 43 <= vb -> fee vb <= MAX_SUPPLY -> rv <= MAX_SUPPLY ->
    min_value <= rv ->
    (rv <= fst (max_and_target w) \/ rv = snd (max_and_target w) \/
     rv <= snd (max_and_target w) + change_dust w + one_output_fee fee vb) ->
    b_check_recipient fee w vb rv = Ok tt.
  Proof.
    intros vb rv HPre Hvb Hfee Hrv Hlo Hhi. unfold b_check_recipient.
    pose proof (ok_fee_mono fee w OK vb (vb + TB_ADDITIONAL_OUTPUT_VBYTES) ltac:(lia)) as Hm.
    destruct (N.ltb_spec (fee (vb + TB_ADDITIONAL_OUTPUT_VBYTES)) (fee vb)); [lia|].
    pose proof (fee_more vb Hvb) as Hfm.
    destruct (address_facts _ (ok_change0 fee w OK)) as [_ [Hd0 _]].
    destruct (address_facts _ (ok_change1 fee w OK)) as [_ [Hd1 _]].
    unfold one_output_fee, change_dust in Hhi. unfold max_change_dust.
    unfold max_and_target, min_value in *.
    destruct (w_target w) as [|p|t]; cbn [fst snd] in Hhi; unfold TB_MAX_POSTAGE, TB_TARGET_POSTAGE in *.
    - rewrite add_amt_small by (unfold MAX_SUPPLY, U64_MAX in *; lia). cbn [bind].
      match goal with |- (if ?c then _ else _) = _ => destruct c eqn:Hc; [reflexivity|] end.
      apply N.leb_gt in Hc. lia.
    - rewrite add_amt_small by (unfold MAX_SUPPLY, U64_MAX in *; lia). cbn [bind].
      rewrite add_amt_small by (unfold MAX_SUPPLY, U64_MAX in *; lia). cbn [bind].
      match goal with |- (if ?c then _ else _) = _ => destruct c eqn:Hc; [reflexivity|] end.
      apply N.leb_gt in Hc. lia.
    - destruct (N.ltb_spec rv t); [lia|].
      rewrite add_amt_small by (unfold MAX_SUPPLY, U64_MAX in *; lia). cbn [bind].
      match goal with |- (if ?c then _ else _) = _ => destruct c eqn:Hc; [reflexivity|] end.
      apply N.leb_gt in Hc. lia.
  Qed.

  Lemma count_zero : forall A (p : A -> bool) l, (forall x, In x l -> p x = false) -> count p l = 0%nat.
  Proof.
    intros A p l. induction l as [|x l IH]; intros H; [reflexivity|]. rewrite count_cons, (H x (or_introl eq_refl)).
    apply IH. intros y Hy. apply H. right. exact Hy.
  Qed.

  Lemma build_total : forall st, PreOK -> Final st -> exists tx, build fee w st = Ok tx.
  Proof.
    intros st HPre [Hnd Hw Hmax [before [after [pre [rv [tl [Hin [Hnb [Hout [Hpre [Hoff [Hshape [Hlo [Hhi Hfee]]]]]]]]]]]]]].
    pose proof (pc_min HPre) as [Hdr [Hm1 _]].
    pose proof (vbytes_ge st before after Hin) as Hvb.
    destruct (address_facts _ (ok_change0 fee w OK)) as [_ [Hd0 _]].
    destruct (address_facts _ (ok_change1 fee w OK)) as [_ [Hd1 _]].
    assert (Er0 : (w_change0 w =? w_recipient w) = false) by (apply N.eqb_neq; intro E; apply (pc_r0 HPre); congruence).
    assert (Er1 : (w_change1 w =? w_recipient w) = false) by (apply N.eqb_neq; intro E; apply (pc_r1 HPre); congruence).
    assert (E01 : (w_change0 w =? w_change1 w) = false) by (apply N.eqb_neq; exact (pc_c HPre)).
    assert (E10 : (w_change1 w =? w_change0 w) = false) by (apply N.eqb_neq; intro E; apply (pc_c HPre); congruence).
    assert (Erc0 : (w_recipient w =? w_change0 w) = false) by (apply N.eqb_neq; exact (pc_r0 HPre)).
    assert (Erc1 : (w_recipient w =? w_change1 w) = false) by (apply N.eqb_neq; exact (pc_r1 HPre)).
    assert (Htot : total_out (s_outputs st) = total_out pre + rv + total_out tl).
    { rewrite Hout, total_out_app. unfold total_out. cbn [sum_map snd]. lia. }
    assert (Hoin : in_wallet w (w_out_id w)).
    { apply Hw. rewrite Hin. apply in_or_app. right. left. reflexivity. }
    destruct (value_of_wallet _ Hoin) as [A [HA [HvA HpA]]].
    assert (Hscripts : forall o, In o (pre ++ tl) -> (fst o =? w_recipient w) = false /\ is_changeb (fst o) = true).
    { intros o Ho. unfold is_changeb.
      destruct Hshape as [[Hp Ht]|[av [Hp [_ Ht]]]]; subst pre; cbn [app] in Ho.
      - destruct Ht as [Ht|[cv [Ht _]]]; subst tl; [destruct Ho|]. destruct Ho as [Ho|[]]. subst o. cbn [fst].
        rewrite Er1, N.eqb_refl, orb_true_r. split; reflexivity.
      - destruct Ho as [Ho|Ho]; [subst o; cbn [fst]; rewrite Er1, N.eqb_refl, orb_true_r; split; reflexivity|].
        destruct Ht as [Ht|[cv [Ht _]]]; subst tl; [destruct Ho|]. destruct Ho as [Ho|[]]. subst o. cbn [fst].
        rewrite Er0, N.eqb_refl. split; reflexivity. }
    unfold build. cbv zeta. eexists.
    (* 1: the outgoing sat is contained in the wallet's outputs *)
    rewrite (count_contained (w_amounts w) A (ok_nodup fee w OK) HA) by (rewrite <- HvA; exact Hoff).
    cbn [Nat.eqb negb].
    (* 2: the outgoing outpoint is spent exactly once *)
    assert (Hc2 : count (fun i => i =? w_out_id w) (s_inputs st) = 1%nat).
    { rewrite Hin in *. rewrite count_app, count_cons, N.eqb_refl.
      apply NoDup_remove_2 in Hnd. rewrite (count_notin before) by exact Hnb.
      rewrite (count_notin after); [reflexivity|]. intro Hx. apply Hnd. apply in_or_app. right. exact Hx. }
    rewrite Hc2. cbn [Nat.eqb negb].
    (* 3: its position among the inputs *)
    assert (Hbound : total_in w before + value_of w (w_out_id w) + total_in w after <= MAX_SUPPLY).
    { rewrite Hin, total_in_app in Hmax. unfold total_in at 2 in Hmax. cbn [sum_map] in Hmax. fold (total_in w after) in Hmax. lia. }
    rewrite Hin at 1. rewrite b_sat_offset_spec;
      [|exact Hnb|intros x Hx; apply Hw; rewrite Hin; apply in_or_app; left; exact Hx|unfold MAX_SUPPLY, U64_MAX in *; lia].
    cbn [bind].
    assert (Hle : total_out pre + rv + total_out tl <= MAX_SUPPLY) by lia.
    (* 4: the output holding it *)
    rewrite Hout at 1. rewrite b_find_output_ok; [|lia|lia|unfold MAX_SUPPLY, U64_MAX in *; lia].
    cbn [bind negb].
    (* 5: recipient once, change addresses at most once *)
    assert (Hc5 : count (fun o : N * N => fst o =? w_recipient w) (s_outputs st) = 1%nat).
    { rewrite Hout, count_app, count_cons. cbn [fst]. rewrite N.eqb_refl.
      rewrite (count_zero _ _ pre), (count_zero _ _ tl); [reflexivity| |];
        intros x Hx; apply Hscripts; apply in_or_app; [right|left]; exact Hx. }
    rewrite Hc5. cbn [Nat.eqb negb].
    assert (Hc6 : (Nat.leb (count (fun o : N * N => fst o =? w_change0 w) (s_outputs st)) 1 &&
                   Nat.leb (count (fun o : N * N => fst o =? w_change1 w) (s_outputs st)) 1)%bool = true).
    { rewrite Hout.
      destruct Hshape as [[Hp Ht]|[av [Hp [_ Ht]]]]; subst pre; cbn [app];
        (destruct Ht as [Ht|[cv [Ht _]]]; subst tl);
        repeat (rewrite count_cons; cbn [fst]); rewrite ?Erc0, ?Erc1, ?E01, ?E10, ?N.eqb_refl; reflexivity. }
    rewrite Hc6. cbn [negb].
    (* 6: per-output checks *)
    rewrite Hout at 1. rewrite b_outputs_full;
      [|exact Hscripts|lia| |unfold MAX_SUPPLY, U64_MAX in *; lia].
    2:{ apply check_recipient_ok; try assumption; lia. }
    cbn [bind].
    (* 7: the fee *)
    rewrite b_add_inputs_spec by (try exact Hw; unfold MAX_SUPPLY, U64_MAX in *; lia). cbn [bind].
    rewrite b_sub_outputs_spec by lia. cbn [bind].
    replace (0 + total_in w (s_inputs st) - total_out (s_outputs st)) with (fee (vbytes st)) by lia.
    fold (vbytes st). rewrite N.eqb_refl. cbn [negb].
    (* 8: dust *)
    assert (Hc8 : forallb (fun o : N * N => dust (fst o) <=? snd o) (s_outputs st) = true).
    { rewrite Hout. apply forallb_forall. intros o Ho. apply N.leb_le.
      apply in_app_or in Ho.
      destruct Ho as [Ho|[Ho|Ho]].
      - destruct Hshape as [[Hp _]|[av [Hp [Hdv _]]]]; subst pre; [destruct Ho|].
        destruct Ho as [Ho|[]]. subst o. exact Hdv.
      - subst o. cbn [fst snd]. lia.
      - destruct Hshape as [[_ Ht]|[av [_ [_ Ht]]]]; (destruct Ht as [Ht|[cv [Ht Hdv]]]; subst tl; [destruct Ho|]);
          (destruct Ho as [Ho|[]]; subst o; exact Hdv). }
    rewrite Hc8. cbn [negb]. reflexivity.
  Qed.

  (* ---------------------------------------------------------- build_transaction *)
  Theorem build_transaction_never_panics : forall t, build_transaction fee w <> Panic t.
  Proof.
    intros t H. unfold build_transaction, passes in H.
    assert (Hpost : post (do s <- (do _ <- precheck w;
                                  do s1 <- select_outgoing w (initial_state w);
                                  do s2 <- align_outgoing w s1;
                                  do s3 <- pad_alignment_output w s2;
                                  do s4 <- add_value fee w s3;
                                  do s5 <- strip_value fee w s4; deduct_fee fee w s5); build fee w s)
                          (fun _ => True)).
    { assert (Hinner : post (do _ <- precheck w;
                             do s1 <- select_outgoing w (initial_state w);
                             do s2 <- align_outgoing w s1;
                             do s3 <- pad_alignment_output w s2;
                             do s4 <- add_value fee w s3;
                             do s5 <- strip_value fee w s4; deduct_fee fee w s5)
                            (fun s => PreOK /\ Final s)).
      { eapply post_bind; [exact precheck_post|]. intros [] HPre.
        eapply post_bind; [exact select_outgoing_post|]. intros s1 [HB1 [Hi1 [Ho1 [Hu1 Hoff1]]]].
        eapply post_bind; [exact (align_post s1 HB1 Hi1 Ho1 Hu1 Hoff1)|]. intros s2 [HB2 [pre [rv HP2]]].
        eapply post_bind; [exact (pad_post s2 pre rv HPre HB2 HP2)|]. intros s3 [HB3 [before [pre' [HP3 Hd3]]]].
        eapply post_bind; [exact (add_value_post s3 before pre' rv HB3 HP3)|]. intros s4 [HB4 [after [rv' [HP4 Hmin]]]].
        eapply post_weaken; [exact (strip_deduct_post s4 before after pre' rv' HPre HB4 HP4 Hd3 Hmin)|].
        intros s HF. split; assumption. }
      eapply post_bind; [exact Hinner|]. intros s [HPre HF].
      destruct (build_total s HPre HF) as [tx Htx]. rewrite Htx. exact I. }
    rewrite H in Hpost. exact Hpost.
  Qed.

End NoPanic.

(* every dyadic fee rate k/2^j (the rates the correspondence runs with) satisfies the fee laws *)
Lemma fee_dyadic_laws : forall k j,
  (forall a b, a <= b -> fee_dyadic k j a <= fee_dyadic k j b) /\
  (forall a b, fee_dyadic k j (a + b) <= fee_dyadic k j a + fee_dyadic k j b + 1) /\
  (forall a, fee_dyadic k j a <= U64_MAX).
Proof.
  intros k j. unfold fee_dyadic.
  assert (HP : 0 < 2 ^ j) by (apply N.neq_0_lt_0; apply N.pow_nonzero; lia).
  assert (E : 2 ^ (j + 1) = 2 * 2 ^ j) by (rewrite N.pow_add_r; lia).
  rewrite E. set (P := 2 ^ j) in *. clearbody P.
  assert (Hdiv : forall x, (x / (2 * P)) * (2 * P) <= x /\ x < (x / (2 * P) + 1) * (2 * P)).
  { intros x. pose proof (N.div_mod x (2 * P) ltac:(lia)) as Hd. pose proof (N.mod_lt x (2 * P) ltac:(lia)) as Hm.
    revert Hd Hm. generalize (x / (2 * P)) (x mod (2 * P)). intros q r Hd Hm. subst x. split; nia. }
  split; [|split].
  - intros a b Hab.
    assert ((2 * k * a + P) / (2 * P) <= (2 * k * b + P) / (2 * P)). { apply N.div_le_mono; nia. }
    apply N.min_le_compat_l. assumption.
  - intros a b.
    pose proof (Hdiv (2 * k * (a + b) + P)) as [H1 H2].
    pose proof (Hdiv (2 * k * a + P)) as [H3 H4].
    pose proof (Hdiv (2 * k * b + P)) as [H5 H6].
    assert (H : (2 * k * (a + b) + P) / (2 * P) <= (2 * k * a + P) / (2 * P) + (2 * k * b + P) / (2 * P) + 1) by nia.
    revert H. generalize ((2 * k * (a + b) + P) / (2 * P)) ((2 * k * a + P) / (2 * P)) ((2 * k * b + P) / (2 * P)).
    intros x y z H.
    destruct (N.min_spec U64_MAX x) as [[? ->]|[? ->]], (N.min_spec U64_MAX y) as [[? ->]|[? ->]],
             (N.min_spec U64_MAX z) as [[? ->]|[? ->]]; lia.
  - intros a. apply N.le_min_l.
Qed.
