(* Lemmas about Codec/Cbor.v (C28), part 4: from_cbor inverts to_inline_cbor and to_packed_cbor. *)
From OrdV Require Import Base.Prelude Generated Codec.EnvScript Codec.Envelope Codec.Cbor
  Proofs.Envelope_proofs Proofs.Envelope_build_proofs Proofs.Cbor_rt_proofs Proofs.Cbor_rt2_proofs.
Require Import ZifyBool ZifyN.

(* what batch::File builds: every item carries its id and no index, no txids *)
Definition plain_item (it : item) : Prop := it_index it = None /\ exists id, it_id it = Some id.

Definition wf_source (p : properties) : Prop :=
  wf_props p /\ p_txids p = [] /\ Forall plain_item (p_gallery p) /\ lenN (p_gallery p) * 32 < P64.

Lemma zip_txids_nil l : zip_txids l [] = l.
Proof. destruct l; reflexivity. Qed.

Lemma clear_plain l : Forall plain_item l ->
  map (fun it => mk_item (it_id it) (it_attrs it) None) l = l /\
  existsb (fun it => is_none (it_id it)) l = false.
Proof.
  induction 1 as [|it l [H1 [id H2]] _ [IH1 IH2]]; [split; reflexivity|].
  cbn [map existsb]. rewrite IH1, IH2. destruct it as [i a x]. cbn [it_id it_attrs it_index] in *. subst.
  split; reflexivity.
Qed.

Lemma post_process_plain p : p_txids p = [] -> Forall plain_item (p_gallery p) -> post_process p = p.
Proof.
  destruct p as [g a tx]. cbn [p_gallery p_attrs p_txids]. intros -> H. unfold post_process.
  cbn [p_gallery p_attrs p_txids]. rewrite zip_txids_nil.
  destruct (clear_plain g H) as [-> ->]. reflexivity.
Qed.

Lemma inline_roundtrip p rest : wf_source p -> from_cbor (enc_props p ++ rest) = p.
Proof.
  intros [W [T [Pl _]]]. unfold from_cbor. rewrite dec_props_enc by exact W. apply post_process_plain; assumption.
Qed.

(* ---- packed form *)

Definition packed_item (it : item) : item :=
  mk_item None (it_attrs it)
    (match it_id it with Some (_, index) => if index =? 0 then None else Some index | None => None end).
Definition item_txid (it : item) : bytes := match it_id it with Some (t, _) => t | None => [] end.

Lemma pack_items_ok l : Forall plain_item l ->
  pack_items l = Ok (flat_map item_txid l, map packed_item l).
Proof.
  induction 1 as [|it l [H1 [[t ix] H2]] _ IH]; [reflexivity|].
  destruct it as [i a x]. cbn [it_id it_index] in H1, H2. subst i x.
  cbn [pack_items flat_map map it_index it_id it_attrs]. rewrite IH. cbn [bind].
  reflexivity.
Qed.

Lemma packed_wf l : Forall wf_item l -> Forall plain_item l -> Forall wf_item (map packed_item l).
Proof.
  intros HW HP. induction HW as [|it l [W1 [W2 W3]] _ IH]; [constructor|].
  inversion HP as [|? ? [H1 [[t ix] H2]] HP']; subst. cbn [map]. constructor; [|apply IH; exact HP'].
  unfold packed_item, wf_item. rewrite H2 in *. cbn [it_id it_attrs it_index].
  split; [exact I|]. split; [exact W2|]. destruct W1 as [_ Wi]. cbn [snd] in Wi.
  destruct (ix =? 0); [exact I|exact Wi].
Qed.

Lemma txids_length l : Forall wf_item l -> Forall plain_item l ->
  length (flat_map item_txid l) = (32 * length l)%nat.
Proof.
  intros HW HP. induction HW as [|it l [W1 _] _ IH]; [reflexivity|].
  inversion HP as [|? ? [H1 [[t ix] H2]] HP']; subst. cbn [flat_map length]. rewrite app_length, IH by exact HP'.
  unfold item_txid. rewrite H2 in *. destruct W1 as [Wt _]. cbn [fst] in Wt. unfold TXID_LEN in Wt. lia.
Qed.

Lemma zip_packed l : Forall wf_item l -> Forall plain_item l ->
  map (fun it => mk_item (it_id it) (it_attrs it) None) (zip_txids (map packed_item l) (flat_map item_txid l)) = l.
Proof.
  intros HW HP. induction HW as [|it l [W1 _] HWl IH]; [reflexivity|].
  inversion HP as [|? ? [H1 [[t ix] H2]] HP']; subst.
  destruct it as [i a x]. cbn [it_id it_index] in H1, H2. subst i x.
  cbn [it_id] in W1. destruct W1 as [Wt Wi]. cbn [fst snd] in Wt, Wi. unfold TXID_LEN in Wt.
  cbn [map flat_map]. unfold item_txid at 1. cbn [it_id]. unfold packed_item at 1. cbn [it_id it_attrs].
  cbn [zip_txids]. rewrite app_length.
  destruct (Nat.ltb_spec (length t + length (flat_map item_txid l)) 32); [lia|].
  cbn [map it_id it_attrs it_index]. rewrite <- Wt. rewrite firstn_app_exact, skipn_app_exact.
  rewrite IH by exact HP'.
  f_equal. f_equal. f_equal. destruct (N.eqb_spec ix 0) as [->|]; reflexivity.
Qed.

Lemma packed_roundtrip p b rest : wf_source p -> to_packed p = Ok (Some b) -> from_cbor (b ++ rest) = p.
Proof.
  destruct p as [g a tx]. intros [[W1 [W2 [W3 W4]]] [T [Pl Hs]]]. cbn [p_gallery p_attrs p_txids] in *. subst tx.
  unfold to_packed. cbn [p_txids is_nil negb p_gallery p_attrs].
  destruct (props_is_default (mk_props g a [])); [discriminate|].
  rewrite (pack_items_ok g Pl). cbn [bind]. intros H. injection H as <-.
  unfold from_cbor. rewrite dec_props_enc.
  - unfold post_process. cbn [p_gallery p_attrs p_txids]. rewrite zip_packed by assumption.
    destruct (clear_plain g Pl) as [_ ->]. reflexivity.
  - split; [|split; [|split]]; cbn [p_gallery p_attrs p_txids].
    + apply packed_wf; assumption.
    + unfold lenN in *. rewrite map_length. exact W2.
    + exact W3.
    + unfold lenN in *. rewrite txids_length by assumption. lia.
Qed.

(* to_packed_cbor and to_inline_cbor succeed together and never panic on such properties *)
Lemma to_packed_ok p : wf_source p -> exists o, to_packed p = Ok o /\ (o = None <-> to_inline p = None).
Proof.
  destruct p as [g a tx]. intros [_ [T [Pl _]]]. cbn [p_gallery p_attrs p_txids] in *. subst tx.
  unfold to_packed, to_inline. cbn [p_txids is_nil negb p_gallery].
  destruct (props_is_default (mk_props g a [])).
  - exists None. split; [reflexivity|]. split; reflexivity.
  - rewrite (pack_items_ok g Pl). cbn [bind]. eexists. split; [reflexivity|]. split; discriminate.
Qed.
