(* The table invariants C18_views_consistent_partial takes as hypotheses (Api_proofs.parents_consistent,
   Api_proofs.outputs_consistent), discharged for the tables read off a state of the inscription indexer model:
   [tables_of] projects an Inscr.state onto the server model's tables the way the server harness projects
   verif_dump() (inscriptions = sequence numbers, outpoints = indexes into the list of UTXO keys). *)
From OrdV Require Import Base.Prelude Generated Index.Inscr Proofs.Inscr_tables Proofs.Inscr_proofs
  Proofs.Inscr_c07 Proofs.Inscr_c04.
From OrdV Require Server.Content Server.Api Proofs.Api_proofs Properties.C07.
From Coq Require Import Permutation.

(* index (in the key order of the UTXO table) of the entry holding sequence number s; length if none *)
Fixpoint find_idx (s : N) (U : list (outpoint * uentry)) : nat :=
  match U with
  | [] => 0
  | (_, u) :: r => if existsb (N.eqb s) (seqs_of u) then 0 else S (find_idx s r)
  end.

Definition off_of (s : N) (U : list (outpoint * uentry)) : N :=
  match nth_error U (find_idx s U) with
  | Some (_, u) => match find (fun p => fst p =? s) (u_insc u) with Some p => snd p | None => 0 end
  | None => 0
  end.

Definition group (m : list (N * N)) : list (N * list N) :=
  map (fun p => (p, map snd (filter (fun x => fst x =? p) m))) (map fst m).

Definition kind_of (op : outpoint) : N := if is_null op then 2 else if pair_eqb op unbound_op then 1 else 0.

Definition conv_entry (U : list (outpoint * uentry)) (kv : N * ientry) : Api.entry :=
  let (s, e) := kv in
  Api.mkE s (i_number e) (i_sat e) (i_charms e) (i_fee e) (i_height e) 0
          (N.of_nat (find_idx s U)) (off_of s U) (i_parents e).

Definition tables_of (cfg : config) (st : state) : Api.tables :=
  Api.mkT (c_sats cfg)
          (map (conv_entry (s_utxo st)) (s_entries st))
          (group (s_children st))
          (group (s_sat2seq st))
          (s_h2last st)
          (map (fun kv => Api.mkO (kind_of (fst kv))
                                  (if kind_of (fst kv) =? 0 then Some (total_value cfg (snd kv)) else None)
                                  (Some (total_value cfg (snd kv), u_insc (snd kv)))) (s_utxo st))
          [].

Lemma assoc_group : forall m p,
  Content.assoc_N p (group m) =
    if existsb (N.eqb p) (map fst m) then Some (map snd (filter (fun x => fst x =? p) m)) else None.
Proof.
  intros m p. unfold group. generalize (map fst m) as keys. induction keys as [|k r IH]; cbn; [reflexivity|].
  rewrite (N.eqb_sym p k). destruct (N.eqb_spec k p); [subst; reflexivity|]. exact IH.
Qed.

Lemma in_multi_group : forall m p c, In c (Api.multi (group m) p) <-> In (p, c) m.
Proof.
  intros m p c. unfold Api.multi. rewrite assoc_group.
  destruct (existsb (N.eqb p) (map fst m)) eqn:E.
  - rewrite in_map_iff. split.
    + intros ([a b] & <- & H). apply filter_In in H. destruct H as [H1 H2]. cbn in H2. apply N.eqb_eq in H2. subst. exact H1.
    + intro H. exists (p, c). split; auto. apply filter_In. split; auto. cbn. apply N.eqb_refl.
  - split; [intros []|]. intro H. exfalso.
    assert (existsb (N.eqb p) (map fst m) = true); [|congruence].
    apply existsb_exists. exists p. split; [|apply N.eqb_refl]. apply in_map_iff. exists (p, c). auto.
Qed.

Lemma entry_of_conv : forall U E s,
  find (fun e => Api.e_seq e =? s) (map (conv_entry U) E) =
    match tgN s E with Some e => Some (conv_entry U (s, e)) | None => None end.
Proof.
  intros U E s. induction E as [|[k v] r IH]; cbn [map find tget]; [reflexivity|].
  cbn [conv_entry Api.e_seq]. rewrite (N.eqb_sym k s). destruct (N.eqb_spec s k); [subst; reflexivity|]. exact IH.
Qed.

Theorem model_parents_consistent : forall cfg c st,
  index_chain cfg 0 c empty_state = Ok st -> Api_proofs.parents_consistent (tables_of cfg st).
Proof.
  intros cfg c st H p ch. destruct (C07.C07_tables cfg c st H) as (T1 & T2 & _).
  unfold Api.children_of, Api.entry_of, tables_of. cbn [Api.t_children Api.t_entries].
  rewrite in_multi_group, entry_of_conv. split.
  - intro Hin. destruct (T1 p ch Hin) as (_ & e & He & Hp). rewrite He. eexists. split; [reflexivity|]. exact Hp.
  - intros (e' & He & Hp). destruct (tgN ch (s_entries st)) as [e|] eqn:Q; [|discriminate]. inv He.
    cbn [conv_entry Api.e_parents] in Hp. destruct (T2 ch e Q) as (_ & T). apply T. exact Hp.
Qed.

(* ---- outputs *)

Lemma find_idx_spec : forall s U,
  (find_idx s U < length U)%nat ->
  exists op u, nth_error U (find_idx s U) = Some (op, u) /\ In s (seqs_of u).
Proof.
  intros s U. induction U as [|[op u] r IH]; cbn [find_idx length]; [lia|].
  destruct (existsb (N.eqb s) (seqs_of u)) eqn:E; intro Hl.
  - exists op, u. split; [reflexivity|]. apply existsb_exists in E. destruct E as (x & Hx & Q). apply N.eqb_eq in Q. subst. exact Hx.
  - apply IH. lia.
Qed.

Lemma find_idx_unique : forall s U o op u,
  NoDup (held_u U) -> nth_error U o = Some (op, u) -> In s (seqs_of u) -> find_idx s U = o.
Proof.
  intros s U. induction U as [|[op0 u0] r IH]; intros o op u ND Hn Hin; [destruct o; discriminate|].
  unfold held_u in ND. cbn [map concat snd] in ND. fold (held_u r) in ND. apply NoDup_app_iff in ND. destruct ND as (N1 & N2 & N3).
  cbn [find_idx]. destruct o as [|o'].
  - cbn in Hn. inv Hn. assert (E : existsb (N.eqb s) (seqs_of u) = true); [|rewrite E; reflexivity].
    apply existsb_exists. exists s. split; auto. apply N.eqb_refl.
  - cbn [nth_error] in Hn. destruct (existsb (N.eqb s) (seqs_of u0)) eqn:E.
    + exfalso. apply existsb_exists in E. destruct E as (x & Hx & Q). apply N.eqb_eq in Q. subst x.
      apply (N3 s Hx). unfold held_u. apply in_concat. exists (seqs_of u). split; auto.
      apply in_map_iff. exists (op, u). split; auto. eapply nth_error_In; eauto.
    + f_equal. eapply IH; eauto.
Qed.

Theorem model_outputs_consistent : forall cfg c st,
  chain_ok c -> index_chain cfg 0 c empty_state = Ok st -> Api_proofs.outputs_consistent (tables_of cfg st).
Proof.
  intros cfg c st OK H o x Hx Hk s. destruct (census_invariant cfg c st OK H) as [P D].
  assert (ND : NoDup (held_u (s_utxo st))) by (apply (Permutation_NoDup (Permutation_sym P)), nlist_NoDup).
  unfold Api.op_of, tables_of in Hx. cbn [Api.t_ops] in Hx.
  destruct (nth_error (s_utxo st) (N.to_nat o)) as [[op u]|] eqn:Q.
  2:{ rewrite nth_error_map, Q in Hx. discriminate. }
  rewrite nth_error_map, Q in Hx. cbn in Hx. inv Hx. cbn [Api.o_utxo].
  unfold Api.entry_of, tables_of. cbn [Api.t_entries]. rewrite entry_of_conv. fold (seqs_of u). split.
  - intro Hin. assert (Hh : In s (held_u (s_utxo st))).
    { unfold held_u. apply in_concat. exists (seqs_of u). split; auto. apply in_map_iff. exists (op, u). split; auto. eapply nth_error_In; eauto. }
    apply (Permutation_in _ P) in Hh. apply nlist_In in Hh. apply D in Hh.
    destruct (tgN s (s_entries st)) as [e|]; [|contradiction]. eexists. split; [reflexivity|].
    cbn [conv_entry Api.e_op]. rewrite (find_idx_unique s _ _ op u ND Q Hin). lia.
  - intros (e' & He & Ho). destruct (tgN s (s_entries st)) as [e|]; [|discriminate]. inv He.
    cbn [conv_entry Api.e_op] in Q. rewrite Nat2N.id in Q.
    assert (Hl : (find_idx s (s_utxo st) < length (s_utxo st))%nat) by (apply nth_error_Some; congruence).
    destruct (find_idx_spec s _ Hl) as (op' & u' & A & B). rewrite Q in A. inv A. exact B.
Qed.

(* C18_views_consistent_partial with its hypotheses discharged, for the tables of the model's states *)
Definition views_statement : Prop := forall cfg c st,
  index_chain cfg 0 c empty_state = Ok st ->
  let t := tables_of cfg st in
  (forall p ch,
     (exists i, In ch (Api_proofs.page_items (Api.children_of t p) Api.PAGE i)) <->
     (exists e, Api.entry_of t ch = Some e /\ exists j, In p (Api_proofs.page_items (Api.e_parents e) Api.PAGE j))) /\
  (chain_ok c -> forall o x v, Api.op_of t o = Some x -> Api.o_kind x = 0 -> Api.o_value x = Some v ->
     exists ins, Api.output_json t o = Api.ROutput (Some ins) v /\ Api_proofs.ascending ins /\
       forall s, In s ins <-> exists e, Api.entry_of t s = Some e /\ Api.e_op e = o).

Theorem model_views_consistent : views_statement.
Proof.
  intros cfg c st H t. split.
  - intros p ch. apply Api_proofs.children_parents_inverse. eapply model_parents_consistent; eauto.
  - intros OK o x v. apply Api_proofs.output_view_exact. eapply model_outputs_consistent; eauto.
Qed.

(* Non-vacuity: the chain of C07_nonvacuous (inscription 0, then its child 1 revealed in the transaction that spends
   it): one children list, output 2 holds both inscriptions and the output view lists them. *)
Example views_nonvacuous :
  exists st, index_chain (cfg_of 0 false) 0 C07.c07_chain empty_state = Ok st /\ chain_ok C07.c07_chain /\
    let t := tables_of (cfg_of 0 false) st in
    Api.children_of t 0 = [1] /\ Api.output_json t 2 = Api.ROutput (Some [0; 1]) 5000000000.
Proof.
  eexists. split; [vm_compute; reflexivity|]. split.
  - split; [|split].
    + vm_compute. repeat constructor; cbn; intuition discriminate.
    + vm_compute. intuition discriminate.
    + repeat constructor; vm_compute; auto; try discriminate.
  - vm_compute. split; reflexivity.
Qed.
