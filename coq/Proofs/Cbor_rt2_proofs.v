(* Lemmas about Codec/Cbor.v (C28), part 3: attributes, items, properties, from_cbor. *)
From OrdV Require Import Base.Prelude Generated Codec.EnvScript Codec.Envelope Codec.Cbor
  Proofs.Envelope_proofs Proofs.Envelope_build_proofs Proofs.Cbor_rt_proofs.
Require Import ZifyBool ZifyN.

Ltac closed_eqb :=
  repeat match goal with
  | |- context [N.eqb ?a ?b] =>
    let v := eval vm_compute in (N.eqb a b) in
    match v with
    | true => change (N.eqb a b) with true
    | false => change (N.eqb a b) with false
    end
  end.

Ltac len_tac :=
  rewrite ?app_length;
  repeat match goal with
  | |- context [length (enc_head ?m ?n)] =>
    let H := fresh in pose proof (enc_head_nonempty m n) as H; set (length (enc_head m n)) in *
  end; cbn [length]; lia.

Lemma count_ok_le n s : (N.to_nat n <= length s)%nat -> count_ok n s = true.
Proof. intros H. unfold count_ok, lenN. apply N.leb_le. lia. Qed.

Lemma dec_key_enc k rest : k < P64 -> dec_key (enc_head 0 k ++ rest) = Some (k, rest).
Proof. intros H. unfold dec_key. rewrite dec_head_enc by exact H. reflexivity. Qed.

Lemma is_null_next_head m n r : m <= 6 -> is_null_next (enc_head m n ++ r) = false.
Proof.
  intros Hm. destruct (enc_head_first m n) as [b [tl [-> B]]]. cbn [app is_null_next]. unfold CBOR_NULL.
  apply N.eqb_neq. lia.
Qed.

Lemma key_small : CBOR_KEY_ATTRIBUTES_TITLE < P64 /\ CBOR_KEY_ATTRIBUTES_TRAITS < P64 /\
  CBOR_KEY_ITEM_ID < P64 /\ CBOR_KEY_ITEM_ATTRIBUTES < P64 /\ CBOR_KEY_ITEM_INDEX < P64 /\
  CBOR_KEY_PROPERTIES_GALLERY < P64 /\ CBOR_KEY_PROPERTIES_ATTRIBUTES < P64 /\ CBOR_KEY_PROPERTIES_TXIDS < P64.
Proof. vm_compute. repeat split. Qed.

(* ------------------------------------------------------------------ attributes *)

Definition wf_attrs (a : attributes) : Prop :=
  match a_title a with Some t => lenN t < P64 | None => True end /\ wf_traits (a_traits a).

Lemma attr_step_title k acc t rest : lenN t < P64 ->
  dec_attr_fields (S k) acc (enc_head 0 CBOR_KEY_ATTRIBUTES_TITLE ++ enc_str t ++ rest) =
  dec_attr_fields k (mk_attr (Some t) (a_traits acc)) rest.
Proof.
  intros H. destruct key_small as [K _]. cbn [dec_attr_fields]. rewrite dec_key_enc by exact K.
  rewrite N.eqb_refl. unfold enc_str at 1. rewrite <- app_assoc. rewrite is_null_next_head by lia.
  cbv iota. rewrite dec_str_enc by exact H. reflexivity.
Qed.

Lemma attr_step_traits k acc l rest : wf_traits l ->
  dec_attr_fields (S k) acc (enc_head 0 CBOR_KEY_ATTRIBUTES_TRAITS ++ enc_traits l ++ rest) =
  dec_attr_fields k (mk_attr (a_title acc) l) rest.
Proof.
  intros H. destruct key_small as [_ [K _]]. cbn [dec_attr_fields]. rewrite dec_key_enc by exact K.
  closed_eqb. cbv iota. rewrite dec_traits_enc by exact H. reflexivity.
Qed.

Lemma dec_attrs_enc a rest : wf_attrs a -> dec_attrs (enc_attrs a ++ rest) = Some (a, rest).
Proof.
  destruct a as [title traits]. intros [W1 W2]. cbn [a_title a_traits] in *.
  unfold enc_attrs, dec_attrs. cbn [a_title a_traits].
  destruct title as [t|]; destruct traits as [|e l]; cbn [is_none is_nil negb b2n];
    rewrite <- ?app_assoc; cbn [app]; rewrite dec_head_enc by (vm_compute; reflexivity); closed_eqb; cbn [andb].
  - rewrite count_ok_le by (change (N.to_nat (1 + 0)) with 1%nat; len_tac).
    change (N.to_nat (1 + 0)) with 1%nat. rewrite attr_step_title by exact W1. reflexivity.
  - rewrite count_ok_le by (change (N.to_nat (1 + 1)) with 2%nat; len_tac).
    change (N.to_nat (1 + 1)) with 2%nat. rewrite attr_step_title by exact W1.
    cbn [a_traits attr_default]. rewrite attr_step_traits by exact W2. reflexivity.
  - rewrite count_ok_le by (change (N.to_nat (0 + 0)) with 0%nat; lia). reflexivity.
  - rewrite count_ok_le by (change (N.to_nat (0 + 1)) with 1%nat; len_tac).
    change (N.to_nat (0 + 1)) with 1%nat. rewrite attr_step_traits by exact W2. reflexivity.
Qed.

Lemma attrs_default_eq a : attrs_is_default a = true -> a = attr_default.
Proof.
  destruct a as [[t|] [|e l]]; cbn; intros H; try discriminate. reflexivity.
Qed.

(* ------------------------------------------------------------------ items *)

Definition wf_id (id : bytes * N) : Prop := length (fst id) = TXID_LEN /\ snd id <= U32_MAX.

Definition wf_item (it : item) : Prop :=
  match it_id it with Some id => wf_id id | None => True end /\
  wf_attrs (it_attrs it) /\
  match it_index it with Some n => n <= U32_MAX | None => True end.

Lemma id_value_small t ix : length t = TXID_LEN -> lenN (id_value t ix) < P64.
Proof.
  intros H. unfold id_value, lenN. rewrite app_length, H. pose proof (le_trim_length 4 ix).
  unfold TXID_LEN, P64. lia.
Qed.

Lemma item_step_id k acc t ix rest : wf_id (t, ix) ->
  dec_item_fields (S k) acc (enc_head 0 CBOR_KEY_ITEM_ID ++ enc_bstr (id_value t ix) ++ rest) =
  dec_item_fields k (mk_item (Some (t, ix)) (it_attrs acc) (it_index acc)) rest.
Proof.
  intros [H1 H2]. cbn [fst snd] in *. destruct key_small as [_ [_ [K _]]]. cbn [dec_item_fields].
  rewrite dec_key_enc by exact K. rewrite N.eqb_refl.
  unfold enc_bstr at 1. rewrite <- app_assoc. rewrite is_null_next_head by lia.
  cbv iota.
  rewrite dec_bstr_enc by (apply id_value_small; exact H1).
  rewrite id_roundtrip by assumption. reflexivity.
Qed.

Lemma item_step_attrs k acc a rest : wf_attrs a ->
  dec_item_fields (S k) acc (enc_head 0 CBOR_KEY_ITEM_ATTRIBUTES ++ enc_attrs a ++ rest) =
  dec_item_fields k (mk_item (it_id acc) a (it_index acc)) rest.
Proof.
  intros H. destruct key_small as [_ [_ [_ [K _]]]]. cbn [dec_item_fields].
  rewrite dec_key_enc by exact K. closed_eqb. cbv iota. rewrite dec_attrs_enc by exact H. reflexivity.
Qed.

Lemma item_step_index k acc n rest : n <= U32_MAX ->
  dec_item_fields (S k) acc (enc_head 0 CBOR_KEY_ITEM_INDEX ++ enc_head 0 n ++ rest) =
  dec_item_fields k (mk_item (it_id acc) (it_attrs acc) (Some n)) rest.
Proof.
  intros H. destruct key_small as [_ [_ [_ [_ [K _]]]]]. cbn [dec_item_fields].
  rewrite dec_key_enc by exact K. closed_eqb. cbv iota. rewrite is_null_next_head by lia.
  rewrite dec_key_enc by (unfold U32_MAX, P64 in *; lia).
  destruct (N.leb_spec n U32_MAX); [reflexivity|lia].
Qed.

Lemma dec_item_enc it rest : wf_item it -> dec_item (enc_item it ++ rest) = Some (it, rest).
Proof.
  destruct it as [id a ix]. intros [W1 [W2 W3]]. cbn [it_id it_attrs it_index] in *.
  unfold enc_item, dec_item. cbn [it_id it_attrs it_index].
  destruct (attrs_is_default a) eqn:D; [apply attrs_default_eq in D; subst a|];
  destruct id as [[t i]|]; destruct ix as [n|]; cbn [is_none negb b2n];
    rewrite <- ?app_assoc; cbn [app]; rewrite dec_head_enc by (vm_compute; reflexivity); closed_eqb; cbn [andb];
    match goal with |- context [count_ok ?c _] =>
      let v := eval vm_compute in (N.to_nat c) in
      rewrite count_ok_le by (change (N.to_nat c) with v; first [len_tac | lia]);
      change (N.to_nat c) with v
    end;
    rewrite ?item_step_id by exact W1; cbn [it_attrs it_index it_id item_default];
    rewrite ?item_step_attrs by exact W2; cbn [it_attrs it_index it_id item_default];
    rewrite ?item_step_index by exact W3; reflexivity.
Qed.

Lemma enc_item_nonempty it : (1 <= length (enc_item it))%nat.
Proof. unfold enc_item. rewrite app_length. match goal with |- context [enc_head 5 ?n] => pose proof (enc_head_nonempty 5 n) end. lia. Qed.

Lemma dec_items_enc l : forall rest, Forall wf_item l ->
  dec_items (length l) (flat_map enc_item l ++ rest) = Some (l, rest).
Proof.
  induction l as [|it l IH]; intros rest H; [reflexivity|].
  inversion H as [|? ? W H']; subst. cbn [length flat_map dec_items]. rewrite <- app_assoc.
  rewrite dec_item_enc by exact W. rewrite IH by exact H'. reflexivity.
Qed.

(* ------------------------------------------------------------------ properties *)

Definition wf_props (p : properties) : Prop :=
  Forall wf_item (p_gallery p) /\ lenN (p_gallery p) < P64 /\ wf_attrs (p_attrs p) /\ lenN (p_txids p) < P64.

Lemma props_step_gallery k acc l rest : Forall wf_item l -> lenN l < P64 ->
  dec_props_fields (S k) acc (enc_head 0 CBOR_KEY_PROPERTIES_GALLERY ++ enc_head 4 (lenN l) ++ flat_map enc_item l ++ rest) =
  dec_props_fields k (mk_props l (p_attrs acc) (p_txids acc)) rest.
Proof.
  intros H HL. destruct key_small as [_ [_ [_ [_ [_ [K _]]]]]]. cbn [dec_props_fields].
  rewrite dec_key_enc by exact K. rewrite N.eqb_refl. rewrite dec_head_enc by exact HL.
  change (4 =? 4) with true. cbn [andb].
  rewrite count_ok_le.
  - unfold lenN at 1. rewrite Nat2N.id. rewrite dec_items_enc by exact H. reflexivity.
  - unfold lenN. rewrite Nat2N.id, app_length. pose proof (flat_map_length_ge enc_item l enc_item_nonempty). lia.
Qed.

Lemma props_step_attrs k acc a rest : wf_attrs a ->
  dec_props_fields (S k) acc (enc_head 0 CBOR_KEY_PROPERTIES_ATTRIBUTES ++ enc_attrs a ++ rest) =
  dec_props_fields k (mk_props (p_gallery acc) a (p_txids acc)) rest.
Proof.
  intros H. destruct key_small as [_ [_ [_ [_ [_ [_ [K _]]]]]]]. cbn [dec_props_fields].
  rewrite dec_key_enc by exact K. closed_eqb. cbv iota. rewrite dec_attrs_enc by exact H. reflexivity.
Qed.

Lemma props_step_txids k acc t rest : lenN t < P64 ->
  dec_props_fields (S k) acc (enc_head 0 CBOR_KEY_PROPERTIES_TXIDS ++ enc_bstr t ++ rest) =
  dec_props_fields k (mk_props (p_gallery acc) (p_attrs acc) t) rest.
Proof.
  intros H. destruct key_small as [_ [_ [_ [_ [_ [_ [_ K]]]]]]]. cbn [dec_props_fields].
  rewrite dec_key_enc by exact K. closed_eqb. cbv iota. rewrite dec_bstr_enc by exact H. reflexivity.
Qed.

Lemma dec_props_enc p rest : wf_props p -> dec_props (enc_props p ++ rest) = Some p.
Proof.
  destruct p as [g a tx]. intros [W1 [W2 [W3 W4]]]. cbn [p_gallery p_attrs p_txids] in *.
  unfold enc_props, dec_props. cbn [p_gallery p_attrs p_txids].
  destruct (attrs_is_default a) eqn:D; [apply attrs_default_eq in D; subst a|];
  destruct g as [|it g]; destruct tx as [|x tx]; cbn [is_nil negb b2n];
    rewrite <- ?app_assoc; cbn [app]; rewrite dec_head_enc by (vm_compute; reflexivity); closed_eqb; cbn [andb];
    match goal with |- context [count_ok ?c _] =>
      let v := eval vm_compute in (N.to_nat c) in
      rewrite count_ok_le by (change (N.to_nat c) with v; first [len_tac | lia]);
      change (N.to_nat c) with v
    end;
    rewrite ?props_step_gallery by assumption; cbn [p_gallery p_attrs p_txids props_default];
    rewrite ?props_step_attrs by exact W3; cbn [p_gallery p_attrs p_txids props_default];
    rewrite ?props_step_txids by exact W4; reflexivity.
Qed.
